#!/bin/bash
# builds /verif/bin/verifcheck from /verif/checker, offline
cd "$(dirname "$0")"
export GOFLAGS=-mod=mod GOPROXY=off GOSUMDB=off GOTOOLCHAIN=local CGO_ENABLED=0
unset GOWORK
mkdir -p bin evidence
cd checker && go build -o ../bin/verifcheck . && echo "built /verif/bin/verifcheck"
