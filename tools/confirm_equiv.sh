#!/bin/bash
# usage: confirm_equiv.sh <dir-with-patch.diff>  — the patch applies, builds, and the unedited suite passes
d=$1; export GOFLAGS=-mod=mod GOPROXY=off GOSUMDB=off GOTOOLCHAIN=local; unset GOWORK
wt=$(mktemp -d /var/tmp/eqwt.XXXXXX); rmdir "$wt"; git -C /repo worktree add -q --detach "$wt" HEAD || exit 2
trap 'git -C /repo worktree remove --force "$wt" >/dev/null 2>&1; rm -rf "$wt"' EXIT
cd "$wt"; git apply "$d/patch.diff" || { echo "REJECTED $(basename $d) does not apply"; exit 1; }
go build ./... >/dev/null 2>&1 || { echo "REJECTED $(basename $d) does not build"; exit 1; }
go test -vet=off -count=1 ./... >/dev/null 2>&1 || { echo "REJECTED $(basename $d) tests fail"; exit 1; }
echo "CONFIRMED $(basename $d)"
