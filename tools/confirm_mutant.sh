#!/bin/bash
# usage: confirm_mutant.sh <dir-with-patch.diff-and-demo_test.go> [-race]
# Confirms, in a scratch worktree of /repo (outside /repo and /verif, removed afterwards):
#   1. the patch applies and `go build ./...` succeeds
#   2. the existing test-suite (unedited) passes with the patch
#   3. the demonstration FAILS with the patch
#   4. the demonstration PASSES without the patch
# Prints one line: CONFIRMED / REJECTED <reason>, plus the commands run.
set -u
d=$1; race=${2:-}
export GOFLAGS=-mod=mod GOPROXY=off GOSUMDB=off GOTOOLCHAIN=local; unset GOWORK
wt=$(mktemp -d /var/tmp/cfwt.XXXXXX); rmdir "$wt"
git -C /repo worktree add -q --detach "$wt" HEAD || exit 2
trap 'git -C /repo worktree remove --force "$wt" >/dev/null 2>&1; rm -rf "$wt"' EXIT
pkgline=$(grep -m1 '^package ' "$d/demo_test.go" | awk '{print $2}')
case "$pkgline" in grammar|grammar_test) sub=grammar;; *) sub=.;; esac
name=$(basename "$d")
demo="$wt/$sub/zz_${name}_demo_test.go"
runs=$(grep -o 'func Test[A-Za-z0-9_]*' "$d/demo_test.go" | sed 's/func //' | paste -sd'|')
cd "$wt"
git apply "$d/patch.diff" || { echo "REJECTED $name patch does not apply"; exit 1; }
go build ./... >/dev/null 2>&1 || { echo "REJECTED $name does not build"; exit 1; }
if ! go test -vet=off -count=1 ./... >/tmp/cf_$$.log 2>&1; then echo "REJECTED $name existing tests fail with the patch"; tail -5 /tmp/cf_$$.log; rm -f /tmp/cf_$$.log; exit 1; fi
cp "$d/demo_test.go" "$demo"
if go test $race -vet=off -count=1 -run "^($runs)\$" ./$sub >/tmp/cf_$$.log 2>&1; then echo "REJECTED $name demo passes WITH the patch"; rm -f /tmp/cf_$$.log; exit 1; fi
withmsg=$(grep -m1 -E -- '--- FAIL|DATA RACE|panic' /tmp/cf_$$.log | cut -c1-160)
rm -f "$demo"; git checkout -q -- . ; git clean -fdq; cp "$d/demo_test.go" "$demo"
if ! go test $race -vet=off -count=1 -run "^($runs)\$" ./$sub >/tmp/cf_$$.log 2>&1; then echo "REJECTED $name demo fails WITHOUT the patch"; tail -5 /tmp/cf_$$.log; rm -f /tmp/cf_$$.log; exit 1; fi
rm -f /tmp/cf_$$.log
echo "CONFIRMED $name sub=$sub tests=$runs race=${race:-no} with-patch: ${withmsg}"
