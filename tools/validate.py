#!/usr/bin/env python3-vt
import json, jsonschema, glob, sys
ok = True
jsonschema.validate(json.load(open('/verif/MANIFEST.json')), json.load(open('/root/.vp/MANIFEST.schema.json')))
m = json.load(open('/verif/MANIFEST.json'))
es = json.load(open('/root/.vp/EVIDENCE.schema.json'))
for c in m['checks']:
    try:
        e = json.load(open(c['evidence_file']))
        jsonschema.validate(e, es)
        assert e['level'] == c['level_claimed']['category'], (c['property_id'], e['level'])
    except Exception as ex:
        ok = False
        print('BAD', c['property_id'], str(ex)[:200])
ids = {c['property_id'] for c in m['checks']} | {n['property_id'] for n in m.get('not_applicable', [])}
assert len(ids) == 20, ids
print('manifest+evidence valid' if ok else 'INVALID')
sys.exit(0 if ok else 1)
