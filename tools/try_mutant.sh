#!/bin/bash
# usage: try_mutant.sh <patch.diff> <Cxx> [<Cyy> ...]
# Applies the patch to a scratch worktree of /repo (outside /repo and /verif),
# runs the named checks against it (evidence goes to a scratch directory) and
# removes the worktree again. Prints one line per check: CAUGHT / MISSED.
set -u
patch=$1; shift
export GOFLAGS=-mod=mod GOPROXY=off GOSUMDB=off GOTOOLCHAIN=local; unset GOWORK
wt=$(mktemp -d /var/tmp/mutwt.XXXXXX)
ev=$(mktemp -d /var/tmp/mutev.XXXXXX)
rmdir "$wt"
git -C /repo worktree add -q --detach "$wt" HEAD || exit 2
cleanup() { git -C /repo worktree remove --force "$wt" >/dev/null 2>&1; rm -rf "$wt" "$ev"; }
trap cleanup EXIT
if ! git -C "$wt" apply "$patch"; then echo "PATCH-DOES-NOT-APPLY $patch"; exit 2; fi
if ! (cd "$wt" && go build ./... ) >/dev/null 2>&1; then echo "PATCH-DOES-NOT-BUILD $patch"; exit 2; fi

for id in "$@"; do
  out=$(VERIF_REPO="$wt" VERIF_DIR="$ev" ${VERIF_BIN:-/verif/bin/verifcheck} "$id" quick 2>&1)
  rc=$?
  if [ $rc -eq 1 ] && grep -q "^VIOLATION property=$id" <<<"$out"; then
    echo "CAUGHT $id $(basename $(dirname $patch)): $(grep -m3 '^  FAIL' <<<"$out" | cut -c1-300 | tr '\n' '|')"
  else
    echo "MISSED $id $(basename $(dirname $patch)) (rc=$rc)"
    if [ $rc -ne 0 ]; then echo "$out" | tail -5; fi
  fi
done
