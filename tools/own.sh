#!/bin/bash
# usage: own.sh <outfile> <mutant-dir>...  — runs, for every seeded change, the check of the property it was written against
# (reverse patches: the property named in meta.json); 8 in parallel
out=$1; shift
printf '%s\n' "$@" | xargs -P ${OWN_P:-8} -I{} bash -c 'd={}; n=$(basename $d); c=${n:0:3}; case $n in F*) c=$(python3 -c "import json;print(json.load(open(\"$d/meta.json\")).get(\"property\",\"\"))");; esac; [ -n "$c" ] && timeout 900 /verif/tools/try_mutant.sh $d/patch.diff $c 2>&1 | cut -c1-220' > "$out"
grep -c CAUGHT "$out"
