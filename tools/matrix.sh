#!/bin/bash
# usage: matrix.sh <outfile> <patchdir>...   — runs every check against every given mutant (8 in parallel)
out=$1; shift
ALL="C01 C02 C03 C04 C05 C06 C07 C08 C09 C10 C11 C12 C13 C14 C15 C16 C17 C18 C19 C20"
printf '%s\n' "$@" | xargs -P 8 -I{} bash -c "timeout 1500 /verif/tools/try_mutant.sh {}/patch.diff $ALL 2>&1 | cut -c1-220" > "$out"
grep -c CAUGHT "$out"
