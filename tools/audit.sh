#!/bin/bash
# usage: audit.sh <Cxx>
# Sensitivity audit of one check (thorough tier): every seeded change written against the property must be reported
# when applied to a scratch copy of /repo's current working tree, every behaviour-preserving variant must be silent.
# Scratch copies live under ${TMPDIR:-/var/tmp}, outside /repo and /verif, and are removed at once.
# Prints one JSON object. Never prints VIOLATION lines itself and always exits 0: it judges the checker, not the tree.
id=$1
here=$(cd "$(dirname "$0")/.." && pwd)
export GOFLAGS=-mod=mod GOPROXY=off GOSUMDB=off GOTOOLCHAIN=local; unset GOWORK
repo=${VERIF_REPO:-/repo}
run_one() { # <patchdir> -> CAUGHT|SILENT|SKIP
  local d=$1 wt ev out rc
  wt=$(mktemp -d "${TMPDIR:-/var/tmp}/audit.XXXXXX"); ev=$(mktemp -d "${TMPDIR:-/var/tmp}/auditev.XXXXXX")
  rsync -a --exclude .git "$repo"/ "$wt"/
  if ! (cd "$wt" && git apply --unsafe-paths "$d/patch.diff" 2>/dev/null || patch -s -p1 -d "$wt" < "$d/patch.diff" >/dev/null 2>&1); then rm -rf "$wt" "$ev"; echo SKIP; return; fi
  if ! (cd "$wt" && go build ./... >/dev/null 2>&1); then rm -rf "$wt" "$ev"; echo SKIP; return; fi
  out=$(VERIF_REPO="$wt" VERIF_DIR="$ev" VERIF_HOME="$here" "$here/bin/verifcheck" "$id" quick 2>&1); rc=$?
  rm -rf "$wt" "$ev"
  if [ $rc -eq 1 ] && grep -q "^VIOLATION property=$id" <<<"$out"; then echo CAUGHT; else echo SILENT; fi
}
export -f run_one; export id here repo
sel() { # <basedir> -> dirs whose meta.property == id
  for d in "$here"/$1/*/; do [ -f "$d/meta.json" ] || continue
    p=$(python3 -c "import json,sys;print(json.load(open(sys.argv[1])).get('property',''))" "$d/meta.json")
    [ "$p" = "$id" ] && echo "${d%/}"
  done
}
mut=$( (sel seeded; sel seeded_rev) | sort)
eqv=$(sel seeded_equiv | sort)
res_m=$(for d in $mut; do echo "$d"; done | xargs -r -P 6 -I{} bash -c 'echo "$(basename {}) $(run_one {})"')
res_e=$(for d in $eqv; do echo "$d"; done | xargs -r -P 6 -I{} bash -c 'echo "$(basename {}) $(run_one {})"')
python3 - "$id" <<PY
import json,sys
m=[l.split() for l in """$res_m""".strip().splitlines() if l.strip()]
e=[l.split() for l in """$res_e""".strip().splitlines() if l.strip()]
print(json.dumps({"property":sys.argv[1],
 "seeded_changes":len(m),"reported":sum(1 for x in m if x[1]=="CAUGHT"),"not_applicable_to_this_tree":sorted(x[0] for x in m if x[1]=="SKIP"),
 "missed":sorted(x[0] for x in m if x[1]=="SILENT"),
 "behaviour_preserving_variants":len(e),"silent":sum(1 for x in e if x[1]=="SILENT"),"false_alarms":sorted(x[0] for x in e if x[1]=="CAUGHT"),
 "detail":{x[0]:x[1] for x in m+e}}))
PY
