#!/bin/bash
# usage: confirm_repair.sh <repaired-dir> <source-mutant-dir> [-race] — the repaired refactoring applies, builds, passes the
# unedited suite, and the demonstration that failed with the buggy version now passes
d=$1; src=$2; race=${3:-}; export GOFLAGS=-mod=mod GOPROXY=off GOSUMDB=off GOTOOLCHAIN=local; unset GOWORK
wt=$(mktemp -d /var/tmp/eqwt.XXXXXX); rmdir "$wt"; git -C /repo worktree add -q --detach "$wt" HEAD || exit 2
trap 'git -C /repo worktree remove --force "$wt" >/dev/null 2>&1; rm -rf "$wt"' EXIT
cd "$wt"; git apply "$d/patch.diff" || { echo "REJECTED $(basename $d) does not apply"; exit 1; }
go build ./... >/dev/null 2>&1 || { echo "REJECTED $(basename $d) does not build"; exit 1; }
go test -vet=off -count=1 ./... >/dev/null 2>&1 || { echo "REJECTED $(basename $d) tests fail"; exit 1; }
pkgline=$(grep -m1 '^package ' "$src/demo_test.go" | awk '{print $2}')
case "$pkgline" in grammar|grammar_test) sub=grammar;; *) sub=.;; esac
runs=$(grep -o 'func Test[A-Za-z0-9_]*' "$src/demo_test.go" | sed 's/func //' | paste -sd'|')
cp "$src/demo_test.go" "$wt/$sub/zz_demo_test.go"
go test $race -vet=off -count=1 -run "^($runs)\$" ./$sub >/dev/null 2>&1 || { echo "REJECTED $(basename $d) the demonstration of $(basename $src) still fails"; exit 1; }
echo "CONFIRMED $(basename $d) (from $(basename $src))"
