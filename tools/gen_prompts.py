#!/usr/bin/env python3
"""gen_prompts.py mut|eqv <round-dir> <variantA> <variantB> <focus-file>
Writes PROMPT_<id>.md for every property into <round-dir>. A prompt contains the property's text and anchors from
properties.jsonl, the sandbox rules, and one-line summaries of what earlier rounds delivered (so that a new round does
something different). Nothing else from /verif is given to the sub-agents."""
import json, sys, os, glob
kind, rdir, va, vb, focusf = sys.argv[1:6]
focus = open(focusf).read()
props = [json.loads(l) for l in open('/verif/properties.jsonl')]
def prior(pid):
    out = []
    pat = '/verif/seeded/%s*/meta.json' if kind == 'mut' else '/verif/seeded_equiv/%sr*/meta.json'
    for m in sorted(glob.glob(pat % pid)):
        try:
            s = json.load(open(m)).get('summary', '')
        except Exception:
            continue
        out.append('* ' + ' '.join(s.split())[:300])
    return '\n'.join(out)
MUT = open('/verif/tools/prompt_mut.tmpl').read()
EQV = open('/verif/tools/prompt_eqv.tmpl').read()
for p in props:
    pid = p['id']
    t = MUT if kind == 'mut' else EQV
    t = (t.replace('@ID@', pid).replace('@TITLE@', p.get('title', '')).replace('@STATEMENT@', p.get('statement', ''))
          .replace('@QUANT@', p.get('quantifier', {}).get('text', '')).replace('@WHY@', p.get('why_tests_cant', ''))
          .replace('@ANCHORS@', json.dumps(p.get('anchors', {}))).replace('@DIR@', rdir).replace('@VA@', va).replace('@VB@', vb)
          .replace('@PRIOR@', prior(pid)).replace('@FOCUS@', focus))
    open(os.path.join(rdir, 'PROMPT_%s.md' % pid), 'w').write(t)
print('wrote', len(props), 'prompts to', rdir)
