#!/usr/bin/env python3
"""Regenerates /verif/MANIFEST.json from the table below (kept in one place so that the manifest is always valid)."""
import json, os, sys
here = os.path.dirname(os.path.dirname(os.path.abspath(__file__)))

TRUST = ("Trusted base: Go's parser/type checker (go/types) and the x/tools SSA builder + VTA call graph (v0.29.0); the documentation-derived "
         "tables in /verif/checker/spec.go (reflect panic preconditions, read-only externals); mitchellh/pointerstructure, strconv, regexp, reflect "
         "compute what they document; for grammar rules, /verif/checker/peg's reading of pigeon's notation (validated by reproducing the shipped table). "
         "The check decides the structural clauses named in level_claimed.text, not run-time values.")

# id -> (claimed?, category, text, design_ref, technique, na_reason)
P = {}
def claim(id, cat, text, ref, tech):
    P[id] = dict(claimed=True, cat=cat, text=text, ref=ref, tech=tech)
def na(id, reason):
    P[id] = dict(claimed=False, reason=reason)

PENDING = "static check designed in DESIGN.md §4 but not built yet in this round; not claimed until it exists and is validated both ways"
for i in range(1, 21):
    na("C%02d" % i, PENDING)

claim("C20", "translation_validation",
      "Complete structural comparison of the two shipped artefacts: every rule, every expression node (kind, order, labels, references, literals, character classes, predicates, repetition) and every action code block (as Go ASTs modulo formatting) of grammar.peg against the `g` table and the on*/callon* functions of grammar.go. The property is a relation between two source files, so static comparison decides it entirely; in addition the table is immutable after package initialisation, and the engine rules of C15 (combinator contracts, entry at the first rule, recover discipline, no budget of the engine's own making) are imported because the statement concludes to the parser's behaviour.",
      "§4 C20", "static translation validation (own PEG front-end vs type-checked table literal; AST comparison of action bodies)")
claim("C15", "other",
      "Structural necessary conditions: table == grammar (C20), the table is a well-formed PEG (defined/unique/reachable rules, no left recursion, no nullable repetition, labels in scope), entry alternatives anchored at EOF, entry/UTF-8/recover options unused and the empty entry-point name mapped to the first rule on a test of that name, every table node type dispatched, every action type assertion satisfied by inferred result types, keywords separated from identifiers. The hand-written engine that interprets the table is held to PEG contracts decided on the paths of each combinator (sequence, ordered choice, and/not predicates, repetitions, option, label, action, literal / class / any matchers, read/restore/sliceFrom, the value stack), to its error-recording and recover discipline and to its budget census; value actions fail only with a decoding library's own error; non-string literal actions return the matched text. Does NOT decide accept/reject against an independent recogniser, nor WHICH language the grammar defines (a character class narrowed consistently in both artefacts is out of reach).",
      "§4 C15", "grammar well-formedness analyses + result-type inference over the rule table; imports C20's comparison")
claim("C16", "other",
      "Decides the grammar facts the statement names: operator exposure per operand position (not > and > or, right grouping, brackets reset), double-negation fold in the not action, string-literal action == strconv.Unquote(whole match), no earlier value alternative can start with a quote (choice shadowing), keyword boundaries, layout rule is whitespace only and optional on the inside of every bracket pair and beside every punctuation-only literal, every alternative of the entry rule runs to the end of input, a quoted literal may be empty. Does NOT decide tree equality over all renderings (no printer exists in the repository).",
      "§4 C16", "operator-exposure and FIRST/FOLLOW analyses on the rule table + typed-AST checks of three actions")

claim("C03", "other",
      "Abstract interpretation of the dispatcher over the operand-outcome domain {true,false,error}^2 for every connective: returned pair, which operands are evaluated, their order and the datum/options forwarded are compared with the statement's 3x3 tables; plus: the tree evaluated is the tree parsed (no write to / construction of syntax-tree nodes outside the parser's actions; Evaluator.ast written once from grammar.Parse and handed unchanged to the dispatcher). By induction on depth this is the whole property given sub-results.",
      "§4 C03", "path-sensitive abstract execution over the outcome domain (SSA, helpers inlined) + store/alloc census on syntax-tree types")
claim("C04", "other",
      "For each of the eight operator constants and each scenario {lookup error, absent key, present x matcher true/false/error}: the positive arm forwards the matcher's pair, the negated arm is its exact complement (same matcher, same arguments, (false, err) on error), an absent key yields NotPresentDisposition() for every operator, the disposition table is complementary per pair, and `contains`/`not contains` parse to the constants of `in`/`not in`. Does not decide that the positive matcher itself is right (C02).",
      "§4 C04", "abstract execution of the match dispatcher per operator constant; constant-table extraction; constant inference on grammar operator rules")
claim("C05", "other",
      "Disposition table == documented table; value lookup classified path by path (symbolic execution with struct-field memory model, map-parent helper inlined): not-present only on {ErrNotFound on the final path, no unknown value, >=2 parts, parent looked up with the same tag name/hook, parent kind Map}; unknown value substitutes exactly and first; other errors stay errors; both consumers honour not-present before anything else; quantifier absent => Op==ALL. Does not decide which lookups pointerstructure reports as ErrNotFound.",
      "§4 C05", "path-sensitive symbolic execution of the lookup + constant-table extraction + field-read census")

claim("C09", "other",
      "(i) inductive return discipline: every return of every (bool, error) function reachable from Evaluate has a nil error, a false boolean or forwards another such function's pair (loop-carried state widened). (ii) every panic-capable instruction in module code reachable from Evaluate (reflect calls with kind/validity/type preconditions, single-value assertions, index/slice, pointer dereferences, dynamic calls, foreign pointer receivers, explicit panics, divisions, map stores) is enumerated and discharged on every explored path by reflect-kind facts; comparators by agreement of the kind->coercion and kind->comparator tables plus per-call-site proof that the kind given to the table is the kind of the value compared; literal dereferences by the grammar's operator/value pairing. Does not cover panics inside dependencies/hooks or stack exhaustion; loops are explored for two iterations for panic sites. Also: a method called through an interface that is not the module's own (nor error, nor reflect.Type) and a method called on reflect.TypeOf(x) with x possibly the nil interface are panic sites.",
      "§4 C09", "path-sensitive abstract interpretation over reflect kind sets with panic-site obligations; sibling-table agreement; inductive (bool,error) discipline")
claim("C10", "other",
      "Input-independent structural argument: result-shape xor at every return of CreateEvaluator/CreateFilter; acceptance == grammar.Parse's error == p.errs.err() at every return (non-nil iff recorded; recorded on no-match); every input-dependent call of (*parser).parse after the recover guard whose flag has no other writer; post-parse assertion type-safe by result-type inference of the entry rule; action assertions satisfied; no left recursion / nullable repetition (termination); creation-time code outside the parser and (imported from C09) the whole Evaluate path free of undischarged panic sites. Does not cover stack exhaustion or panics in caller-supplied options. Also: nothing that may be nil is put on the parser's error list; the recovering function records the panic before it reads the list; a return of parse before the start rule is tried carries a recorded error; value actions fail only with a decoding library's own error.",
      "§4 C10", "result-shape path analysis + dominance w.r.t. deferred recover + field-write census + grammar result-type inference and termination conditions")
claim("C17", "other",
      "Abstract execution of Execute over element outcomes {true,false,error} with identity checks: nil filter first and identity; lists visited Index(0),Index(1),... until i<Len() is false; maps by MapIndex(MapKeys()[n]); evaluated value is Interface() of exactly the item appended/stored under its own key, only on (true,nil); result rooted at MakeSlice(input type | SliceOf(Elem) for arrays, 0, .)/MakeMap(input type); first error => (nil, err); non-containers incl. nil reach the error return without a panicking reflect call; Filter constructed only by CreateFilter. Does not decide that Evaluate itself is right. CreateFilter hands the evaluator's constructor the text it was given; no element taken out of the input is passed over unless the filtering ends there with an error.",
      "§4 C17", "abstract execution over element outcomes + def-use identity checks + KindAI panic sites on Execute")

claim("C06", "other",
      "Abstract execution of the collection evaluator over {any,all} x {body true/false/error} (three loop visits) + symbolic append-chain analysis: canonical ascending element loop; body evaluated exactly once per element against the root datum; first decisive element / first error ends the fold, exhaustion/emptiness/absence give all=true any=false; per-iteration fresh option slice = incoming options then new bindings; bindings follow the statement's table and exist iff the name is set; alias paths freshly made (collection path + base-10 index / key); non-lists and non-string-keyed maps rejected before evaluation; lookup scans innermost-first, re-reads the first path part after each alias expansion, expands into a new slice; WithLocalVariable only pushes. Does not decide equivalence with the unrolled expression on values. A fold that is not decided ends only through the element loop's own exit edge.",
      "§4 C06", "abstract execution over fold outcomes + symbolic append-chain/binding-table analysis + SSA loop-shape checks")
claim("C14", "other",
      "Every source of an unordered sequence (MapKeys, MapRange, range over map, maps.Keys/Values) in module functions reachable from the API is enumerated and must be in a safe shape: sorted in place right after being stored / sorted by a call dominating every element access (sort.Slice's less must capture only the sorted slice and compare the same function of elements i and j strictly); or consumed by a loop with no carried value, error-only early exits and commuting effects; or collected then sorted. Then no outcome depends on visiting order. Order dependence inside pointerstructure is trusted. The two sides of less stand element i against element j (never i against i).",
      "§4 C14", "unordered-iteration census with per-source shape decision (dominance, closure capture analysis, in-loop return classification)")

claim("C02", "other",
      "For each of the 27 reflect kinds the two sibling tables are extracted and compared with a spec transcribed from the statement: scalars get the comparator/coercion of their group (Int/int64/ParseInt(raw,0,64), Uint/uint64/ParseUint(raw,0,64), Float/float64/ParseFloat(raw,64), float32(Float())/float32/ParseFloat(raw,32), Bool/ParseBool, String/raw text), non-scalars get none and equality against them is an error; each coercion is exactly one strconv call on the unmodified Raw text returning strconv's error unchanged; no integer<->float conversion on either side; a failed coercion makes the matcher return (false, error) (one named ErrSyntax skip for heterogeneous []interface{}); json.Number narrows int64 then float64 before the dispatch; matchers receive Indirect(ValueOf(v)). Does not decide strconv's own arithmetic. Also: the == matcher asks both tables for the kind of the very value it was given; pointer-stripping helpers strip every level; the number rules of the table admit every digit as the first and wherever digits repeat; an error recorded by a literal's action is the error of the parse.",
      "§4 C02", "sibling-table extraction by abstract execution per kind vs spec table; constant-argument/single-call checks of strconv wrappers; conversion census; coercion-error path analysis")
claim("C11", "other",
      "Non-interference proof from censuses: budget transported unmodified option->CreateEvaluator (iff non-zero)->grammar.MaxExpressions->parser.maxExprCnt, zero mapped to MaxUint64 after options are applied; the step counter has one writer (+1 in parseExpr's entry block) and is read only by that increment and one ordered comparison with the budget whose exceeded edge panics with errMaxExprCnt and which dominates the whole dispatch; all engine methods are entered only through parseExpr. Hence a limited run is a prefix of the unlimited run: exact threshold N, monotone, at most n+1 steps; panic recovered into the error (C10 rules imported); every entry point of the grammar package forwards its options unchanged at every call of a callee that takes options (the constructor included), no engine function writes to an option list it was given, and each returns the inner call's error unless a clean-up error tested non-nil replaces it; the error list renders every entry.",
      "§4 C11", "field read/write census + dominance + who-may-call census + symbolic transport check")

claim("C18", "other",
      "Field-flow per option field (enumerated from the options type, so a new field without a pipeline is itself a violation): each constructor = one unconditional store of its own parameter into its own field, reading no option field (distinct options commute, last wins; getOpts applies in slice order over the documented neutral defaults); CreateEvaluator copies tag name/hook/unknown value from getOpts(its options) into Evaluator fields with no other writer; every Evaluate re-issues exactly those (unknown value iff configured); every call between functions taking ...Option forwards the caller's options; consumption at both pointerstructure lookups / the ErrNotFound branch / the parser budget (imported from C05, C11). Does not decide hook behaviour.",
      "§4 C18", "field-flow analysis + symbolic reconstruction of literals/option lists + variadic-forwarding census")
claim("C07", "other",
      "Evaluation is spelling-blind (no read of Selector.Type; selector text only in error messages; consumers pass Selector.Path); every grammar action that can produce a path part returns the matched text, the matched text minus exactly the one-byte separator starting its production, a passed-through label or the unquoted bracket literal - no normalising call; the JSON-pointer action hands '/'+join(segments,'/') to pointerstructure.Parse, replaces Path by the parsed Parts and returns its error; all selector labels reference one rule. Does not decide pointerstructure's unescaping/matching.",
      "§4 C07", "typed-AST analysis of part-producing grammar actions (offset rule) + field-read/call census in package bexpr")
claim("C08", "other",
      "Who-may-call census over everything reachable from Evaluate/Execute: no struct-field reflection, whole-value comparison or interface equality (rule validated on every run against a positive-control package); the only entries into pointerstructure are Pointer.Get/String and Parse; both Get sites carry the evaluator's tag name and hook, which travel creation -> Evaluator -> every Evaluate -> every sub-evaluation (C05/C18 rules imported); no comparator for Struct. Does not decide pointerstructure.getStruct's own filtering.",
      "§4 C08", "who-may-call census with positive control + single-gateway census + imported gateway-config/pipeline rules")

claim("C12", "other",
      "Ownership/effect census: every Store, map update, append, copy, in-place sort, reflect mutator, goroutine start and foreign call in the functions reachable from Evaluate/Execute and from the constructors is classified by the provenance of the memory it can write. Evaluation path: only local allocations, memory made in the same function, per-call option structs, nil-based/fresh-copy appends; creation path: the parser object of newParser, the tree under construction (actions + regexp memo before publication), locals; no package variable assigned outside init; foreign callees on a documented read-only/concurrency-safe list; tree never modified after creation. With no goroutines and no synchronisation in the library this is race freedom; sequential-equivalence follows from C13. Methods of read-only dependencies that change their receiver ((*Regexp).Longest, (*Pointer).Set, Builder writes) and functions that fill in an argument count as writes. Not decided: races inside dependencies/hooks, caller-side mutation of the datum.",
      "§4 C12", "ownership/effect analysis over the VTA call graph (provenance classification of every write site)")
claim("C13", "other",
      "The effect census of C12 on the evaluation path (datum, evaluator, filter and tree are only read; reflect mutators only on MakeSlice/MakeMap/Append-rooted values), tree-integrity census, no writer of Evaluator/Filter fields outside the constructors, Filter returns a fresh container (C17 shape imported), Expression() returns the field whose only writer stores CreateEvaluator's expression parameter itself (also the string parsed). Hence no carried state and the next call equals a fresh evaluator's. Not decided: mutation by a user hook.",
      "§4 C13", "effect census + field-write census + def-use check of Expression()")

claim("C19", "other",
      "Names: every operator constant renders as the documented name (exhaustive, distinct), ALL/ANY, binding forms. Structural induction: every composite ExpressionDump writes an opening line, dumps each Expression field of the receiver exactly once in declaration order with (same writer, same indent, level+1), writes a closing line; every line has a constant format and the strings.Repeat(indent, level[+1]) prefix; the leaf names its operator via String, prints the selector via Selector.String (dotted/slash-joined/empty), and dereferences+quotes the literal only for operators the grammar always builds with one; children non-nil, tree acyclic and immutable => terminates without panic. Does not decide byte-exact layout inside the constant formats.",
      "§4 C19", "constant-table extraction + structural-induction obligations by symbolic execution of the Dump methods")
claim("C01", "other",
      "NARROW: agreement with an independent interpreter on values is NOT decided. Decided structural necessary conditions: every (node type, operator) the parser's actions can produce reaches a real handler in the evaluator; constants/binding modes used by the grammar are declared and set exactly the names the evaluator binds; the tree evaluated is the tree parsed; and the clauses of the statement's semantics hold by the imported rule sets of C02-C07 (listed as shared obligations).",
      "§4 C01", "producer/consumer exhaustiveness (grammar constant inference vs abstract execution of the dispatcher) + imported rule sets")

def main():
    checks, nas = [], []
    for id in sorted(P):
        p = P[id]
        if p["claimed"]:
            checks.append({
                "property_id": id,
                "quick_cmd": "./check %s quick" % id,
                "thorough_cmd": "./check %s thorough" % id,
                "evidence_file": "/verif/evidence/%s.json" % id,
                "replay_cmd_template": "./check %s --replay {path}" % id,
                "engine": "verifcheck",
                "level_claimed": {"category": p["cat"], "text": p["text"], "design_ref": "DESIGN.md " + p["ref"]},
                "level_note": TRUST,
                "technique": p["tech"],
            })
        else:
            nas.append({"property_id": id, "reason": p["reason"]})
    m = {
        "version": 1,
        "setup_cmd": "./setup.sh",
        "hooks": {
            "guard": "verif",
            "enable": "none: static analysis reads /repo's sources; no instrumentation or hook exists (thorough tier additionally type-checks with -tags verif)",
            "baseline_off_cmd": "cd /repo && GOFLAGS=-mod=mod go test -json -vet=off -count=1 -timeout 25m ./...",
            "source_commits": [],
            "add_only": True,
        },
        "engines": [{
            "name": "verifcheck", "path": "/verif/checker",
            "serves_properties": [c["property_id"] for c in checks],
            "kind_free_text": "custom static analyser (Go, x/tools v0.29.0): PEG front-end + table extractor + grammar analyses; SSA-based path-sensitive outcome analysis, reflect-kind analysis, shared-write effect analysis, field/call censuses",
        }],
        "checks": checks,
        "not_applicable": nas,
        "notes": "Technique family: static analysis only. Every check inspects /repo's current working tree on each run (go/packages from source), reports file:line + rule + instance key, and fails on unresolved anchors, undecided results and vacuous rule matches. Known findings: /verif/known_findings.json. See DESIGN.md.",
    }
    json.dump(m, open(os.path.join(here, "MANIFEST.json"), "w"), indent=1)
    print("MANIFEST.json: %d checks, %d not_applicable" % (len(checks), len(nas)))

if __name__ == "__main__":
    main()
