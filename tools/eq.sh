#!/bin/bash
# usage: eq.sh <name-in-seeded_equiv> <Cxx>...   — verbose: prints every FAIL line of each check on the refactored tree
set -u
name=$1; shift
export GOFLAGS=-mod=mod GOPROXY=off GOSUMDB=off GOTOOLCHAIN=local; unset GOWORK
wt=$(mktemp -d /var/tmp/eqv.XXXXXX); ev=$(mktemp -d /var/tmp/eqev.XXXXXX); rmdir "$wt"
git -C /repo worktree add -q --detach "$wt" HEAD || exit 2
trap 'git -C /repo worktree remove --force "$wt" >/dev/null 2>&1; rm -rf "$wt" "$ev"' EXIT
git -C "$wt" apply /verif/seeded_equiv/$name/patch.diff || exit 2
for id in "$@"; do
  echo "--- $name $id"
  VERIF_REPO="$wt" VERIF_DIR="$ev" ${VERIF_ENV:-} timeout 900 ${VERIF_BIN:-/verif/bin/verifcheck} "$id" quick 2>&1 | grep -E "${G:-  FAIL|^panic:|^goroutine }" | cut -c1-${W:-330} | head -${N:-4}
done
