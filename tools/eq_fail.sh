#!/bin/bash
# usage: eq_fail.sh [list]  — re-runs the (refactoring, checks) combinations listed (default /var/tmp/eq_fail.txt) in parallel;
# prints the combinations that still alarm, with the first FAIL line
list=${1:-/var/tmp/eq_fail.txt}
cat "$list" | xargs -P 10 -I{} bash -c 'set -- {}; N=1 W=260 /verif/tools/eq.sh "$@" 2>&1 | awk "/^--- /{h=\$0; next} /  FAIL|^panic:/{print h\" :: \"\$0}"' | sort
