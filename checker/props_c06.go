package main

// C06 — any/all fold the body over the elements with correct binding, order and scoping.

import (
	"fmt"
	"go/constant"
	"go/token"
	"go/types"
	"strings"

	"golang.org/x/tools/go/ssa"
)

// the binding table of the statement: container × which name → alias of the element / the position or key itself
var bindingSpec = map[string]map[string]string{
	// "the one-name form means the value for lists …; a value name aliases the element; an index/key name is the position or key itself"
	"list": {"Default": "alias", "Value": "alias", "Index": "concrete"},
	// "… and the key for maps"
	"map": {"Default": "concrete", "Index": "concrete", "Value": "alias"},
}

func isBuiltinCall(ev *Event, name string) bool {
	if ev.Instr == nil {
		return false
	}
	b, ok := ev.Instr.Common().Value.(*ssa.Builtin)
	return ok && b.Name() == name
}

// appendChain unrolls append(append(base, a...), b...) into base + the appended argument syms (with their Deref'd elements).
func appendChain(st *pstate, s *Sym) (base *Sym, parts []Event) {
	for s != nil && s.K == sCall {
		var ev *Event
		for i := len(st.events) - 1; i >= 0; i-- {
			if st.events[i].Res != nil && st.events[i].Res.Key() == s.Key() {
				ev = &st.events[i]
				break
			}
		}
		if ev == nil || !isBuiltinCall(ev, "append") || len(ev.Args) != 2 {
			break
		}
		parts = append([]Event{*ev}, parts...)
		s = ev.Args[0]
	}
	return s, parts
}

// concatOf: the segments a slice value was put together from on this path, when it is a slice built here:
// append(append(nil-or-empty-make, a...), b...) or make([]T, len(a)+len(b)) filled by copy(s, a); copy(s[len(a):], b).
// built is false when s is not a slice built on this path at all.
func concatOf(sm *Summary, s *Sym) (segs []*Sym, built, fresh bool) {
	base, ap := appendChain(sm.St, s)
	if len(ap) > 0 {
		for _, e := range ap {
			segs = append(segs, e.Args[1])
		}
		fresh = base != nil && base.IsNil()
		if base != nil && base.K == sFresh && len(base.Kids) == 1 {
			if _, isMk := base.V.(*ssa.MakeSlice); isMk {
				if l := base.Kids[0]; l.K == sConst && l.C != nil && constant.Sign(l.C) == 0 {
					fresh = true
				}
			}
		}
		return segs, true, fresh
	}
	if s == nil || s.K != sFresh || len(s.Kids) != 1 {
		return nil, false, false
	}
	if _, isMk := s.V.(*ssa.MakeSlice); !isMk {
		return nil, false, false
	}
	var terms []*Sym
	var walk func(x *Sym)
	walk = func(x *Sym) {
		if x != nil && x.K == sBin && x.Op == token.ADD {
			walk(x.A)
			walk(x.B)
			return
		}
		terms = append(terms, x)
	}
	walk(s.Kids[0])
	var off *Sym
	for _, t := range terms {
		if t == nil || t.K != sLen {
			return nil, true, false
		}
		var src *Sym
		for _, e := range sm.Events() {
			if !isBuiltinCall(&e, "copy") || len(e.Args) != 2 {
				continue
			}
			dst := e.Args[0]
			switch {
			case off == nil && dst.Key() == s.Key():
			case off != nil && dst.K == sSlice && dst.A != nil && dst.A.Key() == s.Key() && dst.Str == off.Key()+":":
			default:
				continue
			}
			src = e.Args[1]
		}
		if src == nil || src.Key() != t.A.Key() {
			return nil, true, false
		}
		segs = append(segs, src)
		if off == nil {
			off = t
		} else {
			off = &Sym{K: sBin, Op: token.ADD, A: off, B: t, T: t.T}
		}
	}
	return segs, true, true
}

func checkQuantifier(r *Run, prog *Program, a *Anchors, pfx string) {
	fn := a.CollEval
	r.Analysed(fn.String())
	if len(fn.Params) < 3 {
		r.Fail("unresolved-anchor", pfx+".fold", "params", prog.pos(fn.Pos()), "collection evaluator does not have (expression, datum, options) parameters")
		return
	}
	pExpr, pDatum, pOpt := paramSym(fn.Params[0]), paramSym(fn.Params[1]), paramSym(fn.Params[2])
	if nP, dP, oP := evalParams(fn); nP != nil && dP != nil && oP != nil {
		pExpr, pDatum, pOpt = paramSym(nP), paramSym(dP), paramSym(oP)
	}
	opKey := loadField(pExpr, "Op").Key()
	opT := prog.grammarType("CollectionOperator")
	if opT == nil {
		r.Fail("unresolved-anchor", pfx+".fold", "CollectionOperator", "", "type not found")
		return
	}
	wlv := prog.BexprSSA.Func("WithLocalVariable")
	if wlv == nil {
		r.Fail("unresolved-anchor", pfx+".binding", "WithLocalVariable", "", "function not found")
		return
	}
	// the element loops: If on `i < v.Len()` — in the evaluator itself or in an unexported helper it is split into (one per
	// container class, …)
	foldFns := []*ssa.Function{fn}
	seenF := map[*ssa.Function]bool{fn: true}
	for i := 0; i < len(foldFns); i++ {
		for _, b := range foldFns[i].Blocks {
			for _, ins := range b.Instrs {
				if c, ok := ins.(*ssa.Call); ok {
					if g := c.Call.StaticCallee(); g != nil && !seenF[g] && bexprHelper(prog, a, g) && !strings.HasPrefix(g.Name(), "With") {
						seenF[g] = true
						foldFns = append(foldFns, g)
					}
				}
			}
		}
	}
	headerT := map[string]bool{}
	headerF := map[string]bool{} // the edge on which the element loop is left because no element remains
	for _, ff := range foldFns {
		for _, b := range ff.Blocks {
			ifi, ok := b.Instrs[len(b.Instrs)-1].(*ssa.If)
			if !ok {
				continue
			}
			bo, ok := ifi.Cond.(*ssa.BinOp)
			if !ok || bo.Op != token.LSS {
				continue
			}
			c, ok := bo.Y.(*ssa.Call)
			if !ok {
				continue
			}
			rangeForm := false
			if !isReflectMethod(c.Call.StaticCallee(), "Len") {
				// `for _, k := range keys` with keys = v.MapKeys(): i+1 < len(keys)
				bi, isB := c.Call.Value.(*ssa.Builtin)
				if !isB || bi.Name() != "len" || len(c.Call.Args) != 1 {
					continue
				}
				root, _ := rootOf(c.Call.Args[0])
				if al, isAl := root.(*ssa.Alloc); isAl && al.Referrers() != nil {
					// the keys live in a local variable (captured by the closure that sorts them): its one assignment
					var only ssa.Value
					n := 0
					for _, u := range *al.Referrers() {
						if st, ok := u.(*ssa.Store); ok && st.Addr == ssa.Value(al) {
							n++
							only = st.Val
						}
					}
					if n == 1 {
						root = only
					}
				}
				isKeys := false
				if mk, isMK := root.(*ssa.Call); isMK && isReflectMethod(mk.Call.StaticCallee(), "MapKeys") {
					isKeys = true
				}
				if phi, isPhi := root.(*ssa.Phi); isPhi {
					// the keys (or their texts) collected one per entry into a slice of their own
					for _, kc := range keyCollections(ff) {
						if kc.phi == phi {
							isKeys = true
						}
					}
				}
				if !isKeys {
					continue
				}
				rangeForm = true
			}
			// canonical ascending induction variable: phi(0, phi+1) — or, for range, phi(-1, phi+1) tested after the increment
			loopOK := false
			if rangeForm {
				if add, ok := bo.X.(*ssa.BinOp); ok && add.Op == token.ADD {
					if phi, ok := add.X.(*ssa.Phi); ok {
						start, asc := ascendingInduction(phi)
						loopOK = asc && start == -1
					}
				}
			}
			if phi, ok := bo.X.(*ssa.Phi); ok && len(phi.Edges) == 2 && !rangeForm {
				zero, step := false, false
				for _, e := range phi.Edges {
					if c, ok := e.(*ssa.Const); ok && c.Value != nil && c.Value.Kind() == constant.Int {
						if v, _ := constant.Int64Val(c.Value); v == 0 {
							zero = true
						}
					}
					if add, ok := e.(*ssa.BinOp); ok && add.Op == token.ADD && add.X == ssa.Value(phi) {
						if c, ok := add.Y.(*ssa.Const); ok {
							if v, _ := constant.Int64Val(c.Value); v == 1 {
								step = true
							}
						}
					}
				}
				loopOK = zero && step
			}
			// the element loop is the one in which the body is evaluated (a loop that only collects the keys is not it)
			if !loopEvaluatesBody(prog, a, b) {
				continue
			}
			r.Check(pfx+".visit-order", "induction-variable", prog.pos(ifi.Pos()), loopOK, "the element loop must start at 0, step by +1 and run while i < Len() (index order, every element)")
			headerT[fmt.Sprintf("%s.b%d:T", ff.Name(), b.Index)] = true
			headerF[fmt.Sprintf("%s.b%d:F", ff.Name(), b.Index)] = true
		}
	}
	if len(headerT) == 0 {
		r.Fail("unresolved-anchor", pfx+".fold", "loop", prog.pos(fn.Pos()), "no loop of the form `i < collection.Len()` found in the collection evaluator")
		return
	}

	r.Floor(pfx+".fold", 20)
	ke := &kindEnv{prog: prog}
	classes := map[string]int{}
	bindingChecks = 0
	// the four binding forms and the names each of them sets (the grammar side is checked by C01's binding-modes rule)
	modeNames := map[string][]string{"CollectionBindDefault": {"Default"}, "CollectionBindIndex": {"Index"}, "CollectionBindValue": {"Value"}, "CollectionBindIndexAndValue": {"Index", "Value"}}
	modeT := prog.grammarType("CollectionBindMode")
	var modes []*types.Const
	if modeT != nil {
		modes = prog.enumConsts(modeT)
	}
	for _, mc := range modes {
		if _, ok := modeNames[mc.Name()]; !ok {
			r.Check(pfx+".operator-has-spec", mc.Name(), prog.pos(mc.Pos()), false, "binding mode "+mc.Name()+" is not one of the four forms of the statement")
		}
	}
	if len(modes) == 0 {
		r.Fail("unresolved-anchor", pfx+".fold", "CollectionBindMode", "", "binding modes not found")
		return
	}
	// the evaluation functions may take the caller's option list, or the option set it folds to
	structMode := false
	if ot := optRoles(prog).optionsT; ot != nil && types.Identical(fn.Params[2].Type(), ot) {
		structMode = true
	}
	bindingsField := optField(prog, "WithLocalVariable")
	for _, oc := range prog.enumConsts(opT) {
		isAll := oc.Name() == "CollectionOpAll"
		isAny := oc.Name() == "CollectionOpAny"
		r.Check(pfx+".operator-has-spec", oc.Name(), prog.pos(oc.Pos()), isAll || isAny, "collection operator "+oc.Name()+" is neither `any` nor `all`")
		for _, mc := range modes {
			for _, o := range []outcome{oT, oF, oEF, oET} {
				o, oc, mc := o, oc, mc
				ps := NewPathSim(prog)
				ps.maxVisits = 3
				ps.Inline = func(c *ssa.Function) bool {
					if structMode && (c == wlv || (c.Parent() == wlv)) {
						return true // the binding is pushed onto the option set directly: WithLocalVariable(…)(&inner)
					}
					return prog.InModule(c) && c != a.Dispatch && c != a.GetValue && c != wlv && c != a.GetOpts && c != a.MatchEval && !strings.HasPrefix(c.Name(), "With")
				}
				ps.Seed = func(st *pstate) {
					st.eqc[opKey] = constKey(oc)
					st.eqc[loadField(pExpr, "NameBinding", "Mode").Key()] = constKey(mc)
					for _, f := range []string{"Default", "Index", "Value"} {
						set := false
						for _, n := range modeNames[mc.Name()] {
							if n == f {
								set = true
							}
						}
						assume(st, &Sym{K: sCmp, Op: token.EQL, A: loadField(pExpr, "NameBinding", f), B: &Sym{K: sConst, C: constant.MakeString("")}}, !set)
					}
				}
				errs := map[string]bool{}
				ps.Model = func(ev *Event) *Sym {
					if ev.Callee == a.GetValue {
						return a.lookupModel(&Sym{K: sOpaque, V: ev.Instr.Value(), Str: "collection"}, &Sym{K: sConst, C: constant.MakeBool(true)}, nilSym())
					}
					if ev.Callee != nil && prog.InModule(ev.Callee) && isBoolErr(ev.Callee.Signature) && anyArgIs(ev.Args, loadField(pExpr, "Inner")) {
						var e *Sym = nilSym()
						if o.isErr() {
							e = &Sym{K: sNewErr, V: ev.Instr.Value(), Str: "body"}
							errs[e.Key()] = true
						}
						return &Sym{K: sTuple, Kids: []*Sym{{K: sConst, C: constant.MakeBool(o.boolVal())}, e}}
					}
					return nil
				}
				for _, sm := range ps.Run(fn) {
					if sm.Panic != nil || len(sm.Results) != 2 {
						r.Check(pfx+".fold", "shape", prog.pos(fn.Pos()), false, "panic or unexpected result shape")
						continue
					}
					pos := prog.pos(sm.Ret.Pos())
					trail := " [path " + strings.Join(sm.St.trail, " ") + "]"
					// the reflected collection
					var v *Sym
					for _, ev := range sm.Events() {
						if ev.Instr != nil && isReflectFunc(ev.Callee, "ValueOf") && v == nil {
							v = ev.Res
						}
					}
					cell := fmt.Sprintf("%s[%s,body=%s]", oc.Name(), strings.TrimPrefix(mc.Name(), "CollectionBind"), o)
					var bodies []Event
					for _, ev := range sm.Events() {
						if ev.Instr != nil && ev.Callee != nil && anyArgIs(ev.Args, loadField(pExpr, "Inner")) && isBoolErr(ev.Callee.Signature) {
							bodies = append(bodies, ev)
						}
					}
					iters := 0
					exhausted := false
					for _, t := range sm.St.trail {
						if headerT[t] {
							iters++
						}
						if headerF[t] {
							exhausted = true
						}
					}
					b, e := sm.Results[0], sm.Results[1]
					if v == nil {
						r.Check(pfx+".fold", cell+":no-valueof", pos, false, "the collection is not inspected through reflect.ValueOf"+trail)
						continue
					}
					kset := ke.kinds(sm.St, v)
					cls := "other"
					switch {
					case kset.SubsetOf(ks(kSlice, kArray)):
						cls = "list"
					case kset.SubsetOf(ks(kMap)):
						cls = "map"
					case kset&ks(kSlice, kArray, kMap) != 0:
						cls = "undetermined"
					}
					classes[cls]++
					var probs []string
					if cls == "other" || cls == "undetermined" {
						bv, okc := b.BoolConst()
						if !(okc && !bv && errClass(sm, e) == "nonnil" && len(bodies) == 0) || cls == "undetermined" {
							probs = append(probs, fmt.Sprintf("a collection of kind %s must be rejected with (false, error) before any evaluation; got (%s, %s)", kset, shortKey(b), shortKey(e)))
						}
						r.Check(pfx+".rejects-non-collections", cell+":"+cls, pos, len(probs) == 0, strings.Join(probs, "; ")+trail)
						continue
					}
					if len(bodies) == 0 && errClass(sm, e) == "nonnil" {
						// rejected before the loop (map with non-string keys, identical placeholders)
						bv, okc := b.BoolConst()
						r.Check(pfx+".fold", cell+":"+cls+":rejected", pos, okc && !bv, "an error return must carry false"+trail)
						continue
					}
					// every iteration evaluates the body exactly once
					decisive := (o == oT && isAny) || (o == oF && isAll) || o.isErr()
					expectIn := iters
					if len(bodies) != expectIn {
						probs = append(probs, fmt.Sprintf("%d iterations but %d evaluations of the body: every element must be evaluated exactly once until the fold is decided", iters, len(bodies)))
					}
					bv, known := b.BoolConst()
					if !known {
						bv, known = evalBool(sm.St, b)
					}
					switch {
					case len(bodies) > 0 && decisive:
						// must have returned at the first evaluation
						if len(bodies) != 1 {
							probs = append(probs, fmt.Sprintf("the first decisive element or first error must end the fold; %d elements were evaluated", len(bodies)))
						}
						if o.isErr() {
							if !(known && !bv && errs[e.Key()]) {
								probs = append(probs, "an element error must end the fold with (false, that error); got ("+shortKey(b)+", "+shortKey(e)+")")
							}
						} else if !(known && bv == o.boolVal() && e.IsNil()) {
							probs = append(probs, fmt.Sprintf("decisive element: expected (%v, nil), got (%s, %s)", o.boolVal(), shortKey(b), shortKey(e)))
						}
					default:
						// exhausted (or empty): all → true, any → false
						if len(bodies) > 0 && !exhausted {
							probs = append(probs, fmt.Sprintf("the fold ends after %d element(s) none of which was decisive, without the element loop having run out: every element must be visited until one decides", len(bodies)))
						}
						if !(known && bv == isAll && e.IsNil()) {
							probs = append(probs, fmt.Sprintf("after visiting every element without a decisive one the result must be (%v, nil) for %s; got (%s, %s)", isAll, oc.Name(), shortKey(b), shortKey(e)))
						}
					}
					// per evaluation: root datum, fresh per-iteration option slice = incoming options followed by the new bindings
					for n, ev := range bodies {
						if ev.Callee != a.Dispatch {
							probs = append(probs, "the body is evaluated through "+ev.Callee.Name()+", not through the dispatcher")
						}
						// the callee's parameters by role (the node, the datum and the options may stand in any order)
						if nP, dP, oP := evalParams(ev.Callee); nP != nil && dP != nil && oP != nil && len(ev.Args) == len(ev.Callee.Params) {
							var an, ad, ao *Sym
							for i, q := range ev.Callee.Params {
								switch q {
								case nP:
									an = ev.Args[i]
								case dP:
									ad = ev.Args[i]
								case oP:
									ao = ev.Args[i]
								}
							}
							if an != nil && ad != nil && ao != nil {
								ev.Args = []*Sym{an, ad, ao}
							}
						}
						if len(ev.Args) < 3 || ev.Args[1].Key() != pDatum.Key() {
							probs = append(probs, "the body must be evaluated against the root datum")
							continue
						}
						if structMode {
							// the option set handed to the body: the incoming one, with the list of bindings replaced by a
							// fresh copy of the incoming bindings followed by the new ones
							inner := ev.Args[2]
							okS := inner.K == sStruct && inner.A != nil && inner.A.Key() == pOpt.Key()
							if okS {
								for f := range inner.F {
									if f != bindingsField {
										okS = false
									}
								}
							}
							var bl *Sym
							if okS {
								bl = inner.F[bindingsField]
							}
							if bl == nil {
								probs = append(probs, fmt.Sprintf("iteration %d: the option set handed to the body is not the incoming one with only its list of bindings replaced: %s", n, shortKey(inner)))
								continue
							}
							base, parts := appendChain(sm.St, bl)
							want := (&Sym{K: sField, A: pOpt, Str: bindingsField}).Key()
							if !(base != nil && base.IsNil() && len(parts) >= 1 && parts[0].Args[1].Key() == want) {
								probs = append(probs, fmt.Sprintf("iteration %d: the bindings handed to the body are not a fresh copy of the incoming bindings followed by the new ones (base %s)", n, shortKey(base)))
								continue
							}
							probs = append(probs, checkBindings(prog, sm, wlv, pExpr, v, cls, int64(n), flattenAppended(sm.St, parts[1:], 0))...)
							continue
						}
						base, parts := appendChain(sm.St, ev.Args[2])
						okCopy := base != nil && base.IsNil() && len(parts) >= 1 && parts[0].Args[1].Key() == pOpt.Key()
						if !okCopy && base != nil && base.K == sFresh && len(parts) >= 1 && parts[0].Args[1].Key() == pOpt.Key() {
							// make([]Option, 0, n) + append(…, opt...): an empty slice made here, then the incoming options
							if mk, isMk := base.V.(*ssa.MakeSlice); isMk {
								if l := ps.sym(sm.St, mk.Len); l.K == sConst && l.C != nil && constant.Sign(l.C) == 0 {
									okCopy = true
								}
							}
						}
						if !okCopy && base != nil && base.K == sFresh {
							// make([]Option, len(opt), …) + copy(innerOpt, opt): the other spelling of a fresh copy
							if mk, isMk := base.V.(*ssa.MakeSlice); isMk {
								lenOK := ps.sym(sm.St, mk.Len).Key() == (&Sym{K: sLen, A: pOpt}).Key()
								copied := false
								for _, e2 := range sm.Events() {
									if isBuiltinCall(&e2, "copy") && len(e2.Args) == 2 && e2.Args[0].Key() == base.Key() && e2.Args[1].Key() == pOpt.Key() {
										copied = true
									}
								}
								if lenOK && copied {
									okCopy = true
									parts = append([]Event{{}}, parts...) // keep the indexing below: parts[1:] are the bindings
								}
							}
						}
						if !okCopy {
							probs = append(probs, fmt.Sprintf("iteration %d: the options handed to the body are not a fresh copy of the incoming options followed by the new bindings (base %s)", n, shortKey(base)))
							continue
						}
						probs = append(probs, checkBindings(prog, sm, wlv, pExpr, v, cls, int64(n), flattenAppended(sm.St, parts[1:], 0))...)
					}
					r.Check(pfx+".fold", cell+":"+cls, pos, len(probs) == 0, strings.Join(uniq(probs), "; ")+trail)
				}
			}
		}
	}
	for _, cl := range []string{"list", "map", "other"} {
		r.Check(pfx+".fold-classes", cl, prog.pos(fn.Pos()), classes[cl] > 0, "no path of the collection evaluator handles collections of class "+cl)
	}
	r.Check(pfx+".fold-classes", "undetermined", prog.pos(fn.Pos()), classes["undetermined"] == 0, "a path evaluates or rejects without having determined the collection's kind")
	r.Check(pfx+".binding-coverage", "bindings-checked", prog.pos(fn.Pos()), bindingChecks >= 8, fmt.Sprintf("info: %d bindings compared with the statement's table", bindingChecks))
	// maps: only string-keyed
	checkMapKeyGuard(r, prog, a, pfx)
}

var bindingChecks int

// checkBindings: the WithLocalVariable options appended for one iteration.
// flattenAppended: the elements appended by a chain of append calls, in order: `append(s, x)` contributes x,
// `append(s, t...)` contributes the elements of t when t is itself built by appends onto nil (a list of bindings computed by
// a helper). A nil entry stands for something that is not such an element.
func flattenAppended(st *pstate, parts []Event, depth int) []*Sym {
	var out []*Sym
	for _, p := range parts {
		if len(p.Deref) > 1 && p.Deref[1] != nil {
			d := p.Deref[1]
			if d.K != sStruct {
				out = append(out, nil)
				continue
			}
			for i := 0; i < len(d.F); i++ {
				out = append(out, getPath(d, []string{fmt.Sprintf("[const(%d)]", i)}))
			}
			continue
		}
		if len(p.Args) == 2 && depth < 3 {
			if p.Args[1].IsNil() {
				continue // append(s, nil...) adds nothing
			}
			base, sub := appendChain(st, p.Args[1])
			if base != nil && base.IsNil() && len(sub) > 0 {
				out = append(out, flattenAppended(st, sub, depth+1)...)
				continue
			}
		}
		out = append(out, nil)
	}
	return out
}

func checkBindings(prog *Program, sm *Summary, wlv *ssa.Function, pExpr, v *Sym, cls string, n int64, parts []*Sym) []string {
	var probs []string
	seen := map[string]string{}
	for _, el := range parts {
		bindingChecks++
		// append(innerOpt, WithLocalVariable(name, path, value)) : the variadic element
		if el == nil {
			probs = append(probs, "an option appended for the body is not a single new binding")
			continue
		}
		var call *Event
		for i := range sm.St.events {
			ev := &sm.St.events[i]
			if ev.Res != nil && ev.Res.Key() == el.Key() {
				call = ev
			}
		}
		var name, path, val *Sym
		if el.K == sStruct && len(el.F) >= 1 && (call == nil || call.Callee != wlv) {
			// the binding itself (the record WithLocalVariable pushes), not the option that pushes it
			name, path, val = bindingRecord(prog, el)
		} else if call != nil && call.Callee == wlv && len(call.Args) == 3 {
			name, path, val = call.Args[0], call.Args[1], call.Args[2]
		}
		if name == nil || path == nil || val == nil {
			probs = append(probs, "an option appended for the body is not WithLocalVariable(name, path, value): "+shortKey(el))
			continue
		}
		which := ""
		for _, f := range []string{"Default", "Index", "Value"} {
			if name.Key() == loadField(pExpr, "NameBinding", f).Key() {
				which = f
			}
		}
		if which == "" {
			probs = append(probs, "binding name is not one of NameBinding.Default/Index/Value: "+shortKey(name))
			continue
		}
		// bound only when the name is set
		if eq, ok := evalEq(sm.St, name, &Sym{K: sConst, C: constant.MakeString("")}); !ok || eq {
			probs = append(probs, "NameBinding."+which+" is bound although this binding form does not set it")
		}
		kind := "concrete"
		if !path.IsNil() {
			kind = "alias"
		}
		seen[which] = kind
		want := bindingSpec[cls][which]
		if kind != want {
			probs = append(probs, fmt.Sprintf("%s: NameBinding.%s is bound as %s, the statement says %s", cls, which, kind, want))
			continue
		}
		if kind == "alias" {
			if !val.IsNil() {
				probs = append(probs, "an alias binding must not also carry a value")
			}
			// path = fresh make + Selector.Path... + one part
			base, ap := appendChain(sm.St, path)
			fresh := base != nil && base.K == sFresh
			if !fresh || len(ap) != 2 {
				probs = append(probs, "alias path is not a freshly made slice extended by the collection path and one part (base "+shortKey(base)+")")
				continue
			}
			if ap[0].Args[1].Key() != loadField(pExpr, "Selector", "Path").Key() {
				probs = append(probs, "alias path does not start with the collection selector's path")
			}
			part := getPath(ap[1].Deref[1], []string{"[const(0)]"})
			if ap[1].Deref[1] == nil || part == nil || len(ap[1].Deref[1].F) != 1 {
				probs = append(probs, "alias path is not extended by exactly one part")
				continue
			}
			if cls == "list" {
				if !isDecimalOf(sm.St, part, n) {
					probs = append(probs, "list alias: the last part is not the element index formatted in base 10: "+shortKey(part))
				}
			} else {
				// key.Interface().(string) with key = MapKeys(v)[n]
				okKey := false
				if part.K == sTAValue {
					if ic, ok := reflCall(part.A, "Interface"); ok {
						if ka := symArgs(sm.St, ic); len(ka) == 1 && isSortedKeyOf(sm.St, ka[0], v, n) {
							okKey = true
						}
					}
				}
				if isKeyString(sm.St, part, v, n) || isCollectedKeyString(sm.St, part, v, n) {
					okKey = true // keys[i].String(): the key type is exactly string on this path
				}
				if !okKey {
					probs = append(probs, "map alias: the last part is not this iteration's key: "+shortKey(part))
				}
			}
		} else {
			if cls == "list" {
				// MakeInterface(i)
				okI := false
				if val.K == sMkIface {
					if b, o := linear(val.A); b == "" && o == n {
						okI = true
					}
				}
				if !okI {
					probs = append(probs, "list index binding: the value is not the element index: "+shortKey(val))
				}
			} else {
				okKey := false
				if ic, ok := reflCall(val, "Interface"); ok {
					if ka := symArgs(sm.St, ic); len(ka) == 1 && isSortedKeyOf(sm.St, ka[0], v, n) {
						okKey = true
					}
				}
				if val.K == sMkIface && (isKeyString(sm.St, val.A, v, n) || isCollectedKeyString(sm.St, val.A, v, n)) {
					okKey = true
				}
				if !okKey {
					probs = append(probs, "map key binding: the value is not this iteration's key: "+shortKey(val))
				}
			}
		}
	}
	// every set name is bound: for each field whose non-emptiness is known true on the path, a binding exists
	for _, f := range []string{"Default", "Index", "Value"} {
		name := loadField(pExpr, "NameBinding", f)
		if eq, ok := evalEq(sm.St, name, &Sym{K: sConst, C: constant.MakeString("")}); ok && !eq {
			if _, bound := seen[f]; !bound {
				probs = append(probs, cls+": NameBinding."+f+" is set but not bound for the body")
			}
		}
	}
	return probs
}

// isDecimalOf: part is fmt.Sprintf("%d", i) / strconv.Itoa(i) / strconv.FormatInt(int64(i), 10) for i = n.
func isDecimalOf(st *pstate, part *Sym, n int64) bool {
	fn, _ := calleeOfSym(part)
	args := symArgs(st, part)
	switch {
	case isCallTo(fn, "fmt", "Sprintf") && len(args) == 2:
		if args[0].K != sConst || args[0].C == nil || constant.StringVal(args[0].C) != "%d" {
			return false
		}
		// the variadic slice: find its element
		for i := len(st.events) - 1; i >= 0; i-- {
			ev := st.events[i]
			if ev.Res != nil && ev.Res.Key() == part.Key() && ev.Deref[1] != nil {
				el := getPath(ev.Deref[1], []string{"[const(0)]"})
				if el != nil && el.K == sMkIface {
					b, o := linear(el.A)
					return b == "" && o == n && len(ev.Deref[1].F) == 1
				}
			}
		}
	case isCallTo(fn, "strconv", "Itoa") && len(args) == 1:
		b, o := linear(args[0])
		return b == "" && o == n
	case isCallTo(fn, "strconv", "FormatInt") && len(args) == 2:
		x := args[0]
		if x.K == sConvert {
			x = x.A
		}
		b, o := linear(x)
		b2, o2 := linear(args[1])
		return b == "" && o == n && b2 == "" && o2 == 10
	}
	return false
}

// isKeyString: s = keys[n].String() for keys = v.MapKeys().
func isKeyString(st *pstate, s, v *Sym, n int64) bool {
	if s != nil && s.K == sTAValue && s.A != nil && types.Identical(s.T, types.Typ[types.String]) {
		// key.Interface().(string): the key itself (maps are iterated only when the key type is string: map-key-guard)
		if ic, ok := reflCall(s.A, "Interface"); ok {
			ka := symArgs(st, ic)
			return len(ka) == 1 && isSortedKeyOf(st, ka[0], v, n)
		}
		return false
	}
	fn, _ := calleeOfSym(s)
	if !isReflectMethod(fn, "String") {
		return false
	}
	a := symArgs(st, s)
	return len(a) == 1 && isSortedKeyOf(st, a[0], v, n)
}

// isSortedKeyOf: key is keys[n] where keys = v.MapKeys() (possibly sorted in place).
func isSortedKeyOf(st *pstate, key, v *Sym, n int64) bool {
	return isMapKeyOf(st, key, v, n)
}

// checkMapKeyGuard: maps are iterated only when Type().Key() == reflect.TypeOf("")
func checkMapKeyGuard(r *Run, prog *Program, a *Anchors, pfx string) {
	fn := a.CollEval
	ps := NewPathSim(prog)
	ps.maxVisits = 2
	ps.Inline = func(c *ssa.Function) bool { return bexprHelper(prog, a, c) && !strings.HasPrefix(c.Name(), "With") }
	ps.Model = func(ev *Event) *Sym {
		if ev.Callee == a.GetValue {
			return a.lookupModel(&Sym{K: sOpaque, V: ev.Instr.Value(), Str: "collection"}, &Sym{K: sConst, C: constant.MakeBool(true)}, nilSym())
		}
		return nil
	}
	ke := &kindEnv{prog: prog}
	n := 0
	for _, sm := range ps.Run(fn) {
		var v *Sym
		mapKeys := false
		for _, ev := range sm.Events() {
			if ev.Instr != nil && isReflectFunc(ev.Callee, "ValueOf") && v == nil {
				v = ev.Res
			}
			if ev.Instr != nil && (isReflectMethod(ev.Callee, "MapKeys") || isReflectMethod(ev.Callee, "MapRange")) {
				mapKeys = true
			}
		}
		if v == nil || !mapKeys {
			continue
		}
		if !ke.kinds(sm.St, v).SubsetOf(ks(kMap)) {
			continue
		}
		n++
		// fact: tkey(typeOf(v)) == reflect.TypeOf(<string>)
		tk := (&Sym{K: sTKey, A: &Sym{K: sTypeOf, A: v}}).Key()
		ok := false
		for _, rel := range sm.St.symeq[tk] {
			if !rel.eq {
				continue
			}
			if fn4, _ := calleeOfSym(rel.other); isReflectFunc(fn4, "TypeOf") {
				a4 := symArgs(sm.St, rel.other)
				if len(a4) == 0 && prog.SSA != nil {
					a4 = symArgs(prog.Globals().st, rel.other) // a type computed once, in a package-level variable's initialiser
				}
				if len(a4) == 1 && a4[0].K == sMkIface && a4[0].A.T != nil {
					if b, isB := types.Default(a4[0].A.T).Underlying().(*types.Basic); isB && b.Kind() == types.String {
						ok = true
					}
				}
			}
		}
		if sm.Ret != nil {
			r.Check(pfx+".map-key-guard", "keys-only-for-string-maps", prog.pos(sm.Ret.Pos()), ok, "the keys of a map are enumerated on a path where the key type is not known to be exactly string")
		}
	}
	r.Check(pfx+".map-key-guard", "paths", prog.pos(fn.Pos()), n > 0, "no map path found")
}

// checkScan: innermost-first resolution of local variables in the value lookup.
func checkScan(r *Run, prog *Program, a *Anchors, pfx string) {
	fn := a.GetValue
	// the scan loop: header with phis (path []string, i int); condition i >= 0 — in the lookup itself or in an unexported
	// helper it is split into
	var header *ssa.BasicBlock
	var pathPhi, idxPhi *ssa.Phi
	cands := []*ssa.Function{fn}
	seenF := map[*ssa.Function]bool{fn: true}
	for i := 0; i < len(cands); i++ {
		for _, b := range cands[i].Blocks {
			for _, ins := range b.Instrs {
				if c, ok := ins.(*ssa.Call); ok {
					if g := c.Call.StaticCallee(); g != nil && !seenF[g] && bexprHelper(prog, a, g) {
						seenF[g] = true
						cands = append(cands, g)
					}
				}
			}
		}
	}
	var scanFn *ssa.Function
	for _, cf := range cands {
		if header != nil {
			break
		}
		for _, b := range cf.Blocks {
			var pp, ip *ssa.Phi
			for _, ins := range b.Instrs {
				phi, ok := ins.(*ssa.Phi)
				if !ok {
					break
				}
				if _, isSlice := phi.Type().Underlying().(*types.Slice); isSlice {
					pp = phi
				}
				if bt, isB := phi.Type().Underlying().(*types.Basic); isB && bt.Info()&types.IsInteger != 0 {
					ip = phi
				}
			}
			if pp != nil && ip != nil {
				if _, ok := b.Instrs[len(b.Instrs)-1].(*ssa.If); ok {
					header, pathPhi, idxPhi = b, pp, ip
					scanFn = cf
				}
			}
		}
	}
	// the same scan written as a recursion: a helper that looks at the last binding of the list it is given and calls itself
	// with the list without that binding
	var recPath *ssa.Parameter
	recOK := false
	if header == nil {
		for _, cf := range cands {
			var pathP, locP *ssa.Parameter
			for _, p := range cf.Params {
				if sl, ok := p.Type().Underlying().(*types.Slice); ok {
					if b, isB := sl.Elem().Underlying().(*types.Basic); isB && b.Kind() == types.String {
						pathP = p
					} else if _, isSt := sl.Elem().Underlying().(*types.Struct); isSt {
						locP = p
					}
				}
			}
			if pathP == nil || locP == nil {
				continue
			}
			selfCalls, okCalls, readsLast := 0, true, false
			for _, b := range cf.Blocks {
				for _, ins := range b.Instrs {
					switch x := ins.(type) {
					case *ssa.Call:
						if x.Call.StaticCallee() != cf {
							continue
						}
						selfCalls++
						// the list handed on is locals[:len(locals)-1]
						okArg := false
						for i, p := range cf.Params {
							if p == locP && i < len(x.Call.Args) {
								if sl, ok := x.Call.Args[i].(*ssa.Slice); ok && sl.X == ssa.Value(locP) && sl.Low == nil && isLenMinusOne(sl.High, locP) {
									okArg = true
								}
							}
						}
						if !okArg {
							okCalls = false
						}
					case *ssa.IndexAddr:
						if x.X == ssa.Value(locP) && isLenMinusOne(x.Index, locP) {
							readsLast = true
						}
					}
				}
			}
			if selfCalls > 0 {
				scanFn, recPath = cf, pathP
				recOK = okCalls && readsLast
			}
		}
	}
	if header == nil && scanFn == nil {
		r.Fail("unresolved-anchor", pfx+".scan", "loop", prog.pos(fn.Pos()), "no scan over the local variables (a loop from the last binding down, or a recursion on the list without its last binding) found in the value lookup")
		return
	}
	desc := false
	scanPos := prog.pos(scanFn.Pos())
	if header != nil {
		// descending from len-1 while i >= 0
		ifi := header.Instrs[len(header.Instrs)-1].(*ssa.If)
		if bo, ok := ifi.Cond.(*ssa.BinOp); ok && bo.Op == token.GEQ && bo.X == ssa.Value(idxPhi) {
			if c, ok := bo.Y.(*ssa.Const); ok {
				if v, _ := constant.Int64Val(c.Value); v == 0 {
					start, step := false, false
					for _, e := range idxPhi.Edges {
						if sub, ok := e.(*ssa.BinOp); ok && sub.Op == token.SUB {
							if c2, ok := sub.Y.(*ssa.Const); ok {
								if v2, _ := constant.Int64Val(c2.Value); v2 == 1 {
									if sub.X == ssa.Value(idxPhi) {
										step = true
									} else if l, ok := sub.X.(*ssa.Call); ok {
										if bi, ok := l.Call.Value.(*ssa.Builtin); ok && bi.Name() == "len" {
											start = true
										}
									}
								}
							}
						}
					}
					desc = start && step
				}
			}
		}
		scanPos = prog.pos(header.Instrs[len(header.Instrs)-1].Pos())
	} else {
		desc = recOK
	}
	r.Check(pfx+".scan", "innermost-first", scanPos, desc, "the scan over local variables must run from the last (innermost) binding down to 0")
	// per iteration: the name compared is the first part of the *current* path; substitution builds a fresh prefix copy
	ps := NewPathSim(prog)
	ps.maxVisits = 3
	ps.MaxDepth = 4
	ps.Inline = func(c *ssa.Function) bool { return bexprHelper(prog, a, c) }
	ps.MaxDepth = 6
	ps.Recursion = 3
	type cmpRec struct {
		cur, got string
		pos      token.Pos
	}
	var recs []cmpRec
	ps.OnInstr = func(f *ssa.Function, st *pstate, ins ssa.Instruction) {
		bo, ok := ins.(*ssa.BinOp)
		if !ok || (bo.Op != token.EQL && bo.Op != token.NEQ) || f != scanFn {
			return
		}
		x, y := ps.sym(st, bo.X), ps.sym(st, bo.Y)
		isName := func(s *Sym) bool { return isFieldOfValue(s, bindingField(prog, "name")) }
		if isName(x) {
			x, y = y, x
		}
		if !isName(y) {
			return
		}
		var cur *Sym
		if pathPhi != nil {
			cur = ps.sym(st, pathPhi)
		} else {
			cur = ps.sym(st, recPath) // the path as this activation received it
		}
		recs = append(recs, cmpRec{cur: (&Sym{K: sLoad, A: &Sym{K: sIndexAddr, A: cur, B: &Sym{K: sConst, C: constant.MakeInt64(0)}}}).Key(), got: x.Key(), pos: bo.Pos()})
	}
	sums := ps.Run(fn)
	bad := 0
	var ex string
	for _, rc := range recs {
		if rc.cur != rc.got {
			bad++
			ex = fmt.Sprintf("compares %s, the current path's first part is %s", rc.got, rc.cur)
		}
	}
	r.Check(pfx+".scan", "name-reread-after-substitution", scanPos, len(recs) >= 2 && bad == 0,
		fmt.Sprintf("in each scan step the binding name must be compared with the first part of the path as rewritten so far (inner aliases resolve through outer ones); %d of %d comparisons differ: %s", bad, len(recs), ex))
	// substitution shape on paths that substitute: final Parts = append(append(nil, lv.path...), path[1:]...)
	nsub, okSub := 0, 0
	for _, sm := range sums {
		lf := collectLookup(sm)
		if len(lf.gets) == 0 || lf.gets[0].Deref[0] == nil {
			continue
		}
		parts := getPath(lf.gets[0].Deref[0], []string{"Parts"})
		if parts == nil {
			continue
		}
		segs, built, fresh := concatOf(sm, parts)
		if !built {
			continue
		}
		nsub++
		if fresh && len(segs) == 2 && isFieldOfValue(segs[0], bindingField(prog, "path")) && segs[1].K == sSlice && strings.HasPrefix(segs[1].Str, "const(1):") {
			okSub++
		}
	}
	r.Check(pfx+".scan", "alias-substitution-fresh", prog.pos(fn.Pos()), nsub > 0 && okSub == nsub,
		fmt.Sprintf("an alias is expanded by building a new slice: copy of the binding's path followed by the rest of the selector (never appending onto the binding's own slice); %d of %d substituting paths have that shape", okSub, nsub))
	// a concrete binding used with a longer path is an error; used alone it is returned as is
	for _, sm := range sums {
		lf := collectLookup(sm)
		if len(lf.gets) != 0 || sm.Ret == nil {
			continue
		}
		val, present, err, okShape := lookupResults(fn.Signature, sm.Results)
		if !okShape || val == nil || present == nil {
			continue
		}
		pv, _ := present.BoolConst()
		if pv {
			r.Check(pfx+".scan", "concrete-binding-value", prog.pos(sm.Ret.Pos()), isFieldOfValue(val, bindingField(prog, "value")) && err.IsNil(), "a key/index binding referenced alone must yield exactly the bound value; got "+shortKey(val))
		} else {
			r.Check(pfx+".scan", "concrete-binding-with-subpath", prog.pos(sm.Ret.Pos()), errClass(sm, err) == "nonnil", "selecting inside a key/index binding must be an error")
		}
	}
}

// checkWithLocalVariable: the option pushes one new binding (innermost last), never edits existing ones.
func checkWithLocalVariable(r *Run, prog *Program, pfx string) {
	wlv := prog.BexprSSA.Func("WithLocalVariable")
	if wlv == nil {
		r.Fail("unresolved-anchor", pfx+".binding-push", "WithLocalVariable", "", "constructor not found")
		return
	}
	cl := wlv
	// decided on the closure's paths (a helper method of *options that does the push is interpreted in place): one path,
	// one store, into the bindings field, of append(<that same field>, <one new binding>)
	paths := optionEffect(prog, cl)
	field := optField(prog, "WithLocalVariable")
	okShape := len(paths) == 1
	stores, appends := 0, 0
	for _, op := range paths {
		for _, st := range op.stores {
			stores++
			if st.field != field || field == "" {
				okShape = false
				continue
			}
			base, parts := appendChain(op.sm.St, st.val)
			appends += len(parts)
			if !(len(parts) == 1 && base != nil && base.K == sLoad && base.A.Key() == st.addr.Key()) {
				okShape = false
				continue
			}
			// exactly one element, a new binding built here
			d := parts[0].Deref[1]
			if d == nil || d.K != sStruct || len(d.F) != 1 {
				okShape = false
			}
		}
	}
	r.Check(pfx+".binding-push", "WithLocalVariable", prog.pos(cl.Pos()), stores == 1 && appends == 1 && okShape,
		fmt.Sprintf("WithLocalVariable must unconditionally append exactly one new binding to the existing ones (paths=%d stores=%d appends=%d): replacing or editing an earlier binding breaks resolution of inner aliases through outer ones", len(paths), stores, appends))
}

func init() {
	register("C06", true, func(r *Run, prog *Program) {
		a := FindAnchors(prog)
		if !a.Require(r, "c06.anchors") {
			return
		}
		checkQuantifier(r, prog, a, "c06")
		checkScan(r, prog, a, "c06")
		checkWithLocalVariable(r, prog, "c06")
		checkQuantifierAbsent(r, prog, a, "c06")
		if g := loadGrammars(r, prog); g != nil {
			r.importing = "C01"
			checkBindingModes(r, prog, NewGA(prog, g.Tab), "c01") // the fold assumes each form sets exactly its names: `_` binds nothing
		}
		r.importing = "C03"
		checkConnectives(r, prog, a, "c03") // the bindings reach every operand of not/and/or inside the braces
		r.importing = "C18"
		checkForwarding(r, prog, a, "c18") // … and a nested quantifier: each evaluation function hands on the options it was given
		r.importing = "C05"
		checkValueLookup(r, prog, a, "c05") // "absent S": the lookup says not-present exactly for a key missing from a map, at any depth of two or more
		r.importing = "C18"
		checkGetOpts(r, prog, a, "c18") // an evaluation starts without bindings, on a list of its own
		r.importing = ""
		r.Technique = "abstract execution of the collection evaluator over {any,all}×{body true/false/error} with three loop visits; symbolic append-chain analysis of the per-iteration option slice and alias paths against the statement's binding table; SSA loop-shape checks for the element loop and the local-variable scan"
		r.Explain = "Decides: the element loop is the canonical ascending loop over 0..Len()-1; every iteration evaluates the body exactly once against the root datum, through the dispatcher; the first decisive element or first error ends the fold with the documented pair, exhaustion/emptiness gives all=true/any=false, absence likewise; the options handed to the body are a fresh copy of the incoming ones followed by the new bindings; each binding follows the statement's table (list: default/value alias, index concrete; map: default/index concrete key, value alias) and is made exactly when its name is set; alias paths are freshly made: collection path + index in base 10 / key; non-lists and non-string-keyed maps are rejected before any evaluation; the lookup scans bindings innermost-first, compares the first part of the path as rewritten so far, expands aliases into a new slice, and treats sub-selection of a key/index binding as an error; WithLocalVariable only pushes. NOT decided: equivalence with the unrolled expression on values; map visit order (C14)."
		r.Assume = append(r.Assume, "body outcomes abstracted to true/false/error, the same for every iteration of one run")
	})
}

// loopEvaluatesBody: some block of the loop calls the dispatcher, directly or through an unexported helper.
func loopEvaluatesBody(prog *Program, a *Anchors, header *ssa.BasicBlock) bool {
	var reaches func(f *ssa.Function, depth int) bool
	reaches = func(f *ssa.Function, depth int) bool {
		if f == a.Dispatch {
			return true
		}
		if depth > 2 || !bexprHelper(prog, a, f) {
			return false
		}
		for _, b := range f.Blocks {
			for _, ins := range b.Instrs {
				if c, ok := ins.(*ssa.Call); ok {
					if g := c.Call.StaticCallee(); g != nil && g != f && reaches(g, depth+1) {
						return true
					}
				}
			}
		}
		return false
	}
	for b := range loopBlocks(header) {
		for _, ins := range b.Instrs {
			if c, ok := ins.(*ssa.Call); ok {
				if g := c.Call.StaticCallee(); g != nil && reaches(g, 0) {
					return true
				}
			}
		}
	}
	return false
}

// isLenMinusOne: v is len(s) - 1 for the slice parameter s.
func isLenMinusOne(v ssa.Value, s *ssa.Parameter) bool {
	bo, ok := v.(*ssa.BinOp)
	if !ok || bo.Op != token.SUB {
		return false
	}
	c, ok := bo.Y.(*ssa.Const)
	if !ok || c.Value == nil {
		return false
	}
	if n, _ := constant.Int64Val(c.Value); n != 1 {
		return false
	}
	l, ok := bo.X.(*ssa.Call)
	if !ok {
		return false
	}
	b, ok := l.Call.Value.(*ssa.Builtin)
	return ok && b.Name() == "len" && len(l.Call.Args) == 1 && l.Call.Args[0] == ssa.Value(s)
}

// bindingRecord: name, path and value of a binding record (the struct WithLocalVariable appends), by the fields' types.
func bindingRecord(prog *Program, el *Sym) (name, path, val *Sym) {
	st := bindingRecordType(prog)
	if st == nil {
		return nil, nil, nil
	}
	for i := 0; i < st.NumFields(); i++ {
		f := st.Field(i)
		v := getPath(el, []string{f.Name()})
		if v != nil && v.K == sStruct && v.A == nil && len(v.F) == 0 {
			v = zeroSym(f.Type())
		}
		switch {
		case types.Identical(f.Type(), types.Typ[types.String]):
			name = v
		case isStringSlice(f.Type()):
			path = v
		case isEmptyIface(f.Type()):
			val = v
		}
	}
	return
}

func anyArgIs(args []*Sym, x *Sym) bool {
	for _, a := range args {
		if a != nil && a.Key() == x.Key() {
			return true
		}
	}
	return false
}
