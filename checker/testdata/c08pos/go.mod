module c08pos

go 1.18
