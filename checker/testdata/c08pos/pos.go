// Package c08pos is a living positive control for the C08 "no struct bypass"
// rule: every function below contains one construct the rule must flag. The
// check fails if the rule stops matching them (a rule whose expected count on
// the real tree is zero would otherwise pass vacuously forever).
package c08pos

import (
	"fmt"
	"reflect"
)

func fmtSprint(x interface{}) string { return fmt.Sprint(x) }

type T struct {
	A int
	b string
}

func UsesField(v reflect.Value) reflect.Value       { return v.Field(0) }
func UsesFieldByName(v reflect.Value) reflect.Value { return v.FieldByName("A") }
func UsesNumField(v reflect.Value) int              { return v.NumField() }
func UsesTypeField(t reflect.Type) string           { return t.Field(0).Name }
func UsesDeepEqual(a, b interface{}) bool           { return reflect.DeepEqual(a, b) }
func UsesIsZero(v reflect.Value) bool               { return v.IsZero() }
func UsesIfaceEq(a, b interface{}) bool             { return a == b }
func UsesVisibleFields(t reflect.Type) int          { return len(reflect.VisibleFields(t)) }

func UsesAssertOnParam(datum interface{}) interface{} {
	if m, ok := datum.(map[string]interface{}); ok {
		return m["x"]
	}
	return nil
}

func UsesSprintOfValue(v reflect.Value) string { return fmt.Sprint(v.Interface()) }

func UsesStringer(v interface{}) string {
	if s, ok := v.(fmt.Stringer); ok {
		return s.String()
	}
	return ""
}
