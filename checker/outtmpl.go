package main

// Output templates: what a function writes to an io.Writer on one path, as a flat sequence of pieces — literal text,
// formatted arguments (verb + symbolic argument) and calls that render a child. fmt.Fprintf / fmt.Sprintf formats are
// interpreted (including explicit argument indexes), strings built by an inner Sprintf and printed with %s/%v are
// expanded in place, constants printed with %s/%v become literal text. Two ways of writing the same bytes have the same
// template, however the writes are grouped.

import (
	"go/constant"
	"strings"

	"golang.org/x/tools/go/ssa"
)

type outPiece struct {
	lit   string // literal text (when verb == 0 and child == nil)
	verb  byte
	flags string // flags, width and precision of the verb ("" for a plain verb)
	arg   *Sym
	child *Event // a call rendering a child to the same writer
	bad   string // something was written that the engine cannot describe
}

func isWriterSym(s, w *Sym) bool {
	if s == nil {
		return false
	}
	if s.Key() == w.Key() {
		return true
	}
	return s.K == sMkIface && s.A != nil && s.A.Key() == w.Key()
}

func constString(s *Sym) (string, bool) {
	if s != nil && s.K == sMkIface {
		s = s.A
	}
	if s != nil && s.K == sConst && s.C != nil && s.C.Kind() == constant.String {
		return constant.StringVal(s.C), true
	}
	return "", false
}

// eventOf: the call event that produced a call symbol.
func eventOf(st *pstate, s *Sym) *Event {
	for i := len(st.events) - 1; i >= 0; i-- {
		if ev := &st.events[i]; ev.Res != nil && ev.Instr != nil && ev.Res.Key() == s.Key() {
			return ev
		}
	}
	return nil
}

// renderFormat interprets a printf format against its arguments.
func renderFormat(st *pstate, format string, args []*Sym, depth int) []outPiece {
	var out []outPiece
	lit := func(s string) {
		if s == "" {
			return
		}
		if n := len(out); n > 0 && out[n-1].verb == 0 && out[n-1].child == nil && out[n-1].bad == "" {
			out[n-1].lit += s
			return
		}
		out = append(out, outPiece{lit: s})
	}
	next := 0
	for i := 0; i < len(format); i++ {
		if format[i] != '%' {
			j := strings.IndexByte(format[i:], '%')
			if j < 0 {
				lit(format[i:])
				break
			}
			lit(format[i : i+j])
			i += j - 1
			continue
		}
		if i+1 < len(format) && format[i+1] == '%' {
			lit("%")
			i++
			continue
		}
		j := i + 1
		idx := -1
		flags := ""
		for j < len(format) && strings.ContainsRune("+-# 0123456789.", rune(format[j])) {
			flags += string(format[j])
			j++
		}
		if j < len(format) && format[j] == '[' {
			k := strings.IndexByte(format[j:], ']')
			if k > 0 {
				n := 0
				for _, ch := range format[j+1 : j+k] {
					n = n*10 + int(ch-'0')
				}
				idx = n - 1
				j += k + 1
			}
		}
		for j < len(format) && strings.ContainsRune("+-# 0123456789.", rune(format[j])) {
			flags += string(format[j])
			j++
		}
		if j >= len(format) {
			out = append(out, outPiece{bad: "truncated verb"})
			break
		}
		verb := format[j]
		if idx < 0 {
			idx = next
		}
		next = idx + 1
		plain := flags == ""
		if idx >= len(args) {
			out = append(out, outPiece{bad: "verb without argument"})
		} else {
			a := args[idx]
			out2 := expandArg(st, a, verb, plain, depth)
			for _, p := range out2 {
				if p.verb != 0 && p.flags == "" {
					p.flags = flags
				}
				if p.verb == 0 && p.child == nil && p.bad == "" {
					lit(p.lit)
				} else {
					out = append(out, p)
				}
			}
		}
		i = j
	}
	return out
}

// expandArg: one formatted argument: literal text if it is a constant string printed as is, the template of an inner
// Sprintf if it is one, otherwise a (verb, argument) piece.
func expandArg(st *pstate, a *Sym, verb byte, plain bool, depth int) []outPiece {
	x := a
	if x != nil && x.K == sMkIface {
		x = x.A
	}
	if (verb == 's' || verb == 'v') && plain && x != nil {
		if s, ok := constString(x); ok {
			return []outPiece{{lit: s}}
		}
		if x.K == sBin && x.Op.String() == "+" {
			return append(expandArg(st, x.A, verb, plain, depth+1), expandArg(st, x.B, verb, plain, depth+1)...)
		}
		if fn, _ := calleeOfSym(x); isCallTo(fn, "strconv", "Quote") && depth < 4 {
			// strconv.Quote(s) is what %q prints for the string s
			if as := symArgs(st, x); len(as) == 1 {
				return []outPiece{{verb: 'q', arg: as[0]}}
			}
		}
		if fn, _ := calleeOfSym(x); fn != nil && fn.Name() == "String" && fn.Signature.Recv() != nil && namedIs(fn.Signature.Recv().Type(), "strings", "Builder") && depth < 4 {
			// the text of a strings.Builder: what was written to it before, in order
			if me := eventOf(st, x); me != nil && len(me.Args) == 1 {
				recv := me.Args[0].Key()
				var out []outPiece
				okB := true
				for i := range st.events {
					ev := &st.events[i]
					if ev == me || (ev.Res != nil && x.Key() == ev.Res.Key()) {
						break
					}
					if ev.Instr == nil || ev.Inlined || ev.Callee == nil || len(ev.Args) == 0 || ev.Args[0].Key() != recv {
						continue
					}
					if ev.Callee.Signature.Recv() == nil || !namedIs(ev.Callee.Signature.Recv().Type(), "strings", "Builder") {
						okB = false // the builder handed to something else (Fprintf(&b, …), a helper): not modelled
						continue
					}
					switch ev.Callee.Name() {
					case "WriteString":
						if len(ev.Args) == 2 {
							out = append(out, expandArg(st, ev.Args[1], 's', true, depth+1)...)
						}
					case "WriteByte", "WriteRune":
						if len(ev.Args) == 2 && ev.Args[1].K == sConst && ev.Args[1].C != nil {
							if v, exact := constant.Int64Val(ev.Args[1].C); exact {
								out = append(out, outPiece{lit: string(rune(v))})
								continue
							}
						}
						okB = false
					case "Grow", "Len", "Cap", "String":
					default:
						okB = false
					}
				}
				if okB {
					return out
				}
			}
		}
		if fn, _ := calleeOfSym(x); isCallTo(fn, "fmt", "Sprintf") && depth < 4 {
			if ev := eventOf(st, x); ev != nil && len(ev.Args) == 2 {
				if f, ok := constString(ev.Args[0]); ok {
					if elems, ok := sliceElems(st, ev.Args[1], ev.Deref[1]); ok {
						return renderFormat(st, f, elems, depth+1)
					}
				}
			}
		}
	}
	return []outPiece{{verb: verb, arg: x}}
}

// outputOf: everything written to writer w on the path, in order. childCall tells which calls render a child.
func outputOf(sm *Summary, w *Sym, childCall func(ev *Event) bool) []outPiece {
	var out []outPiece
	app := func(ps []outPiece) {
		for _, p := range ps {
			if n := len(out); n > 0 && p.verb == 0 && p.child == nil && p.bad == "" && out[n-1].verb == 0 && out[n-1].child == nil && out[n-1].bad == "" {
				out[n-1].lit += p.lit
				continue
			}
			out = append(out, p)
		}
	}
	evs := sm.Events()
	for i := range evs {
		ev := &evs[i]
		if ev.Instr == nil || ev.Inlined {
			continue
		}
		switch {
		case childCall != nil && childCall(ev):
			out = append(out, outPiece{child: ev})
		case isCallTo(ev.Callee, "fmt", "Fprintf") && len(ev.Args) == 3:
			if !isWriterSym(ev.Args[0], w) {
				out = append(out, outPiece{bad: "a line is written to something other than the writer argument"})
				continue
			}
			f, ok := constString(ev.Args[1])
			if !ok {
				out = append(out, outPiece{bad: "the format of a dump line is not a constant string (rendered text would be re-read as formatting directives)"})
				continue
			}
			elems, ok := sliceElems(sm.St, ev.Args[2], ev.Deref[2])
			if !ok {
				out = append(out, outPiece{bad: "the arguments of a dump line cannot be enumerated"})
				continue
			}
			app(renderFormat(sm.St, f, elems, 0))
		case (isCallTo(ev.Callee, "io", "WriteString") || isCallTo(ev.Callee, "fmt", "Fprint")) && len(ev.Args) == 2:
			if !isWriterSym(ev.Args[0], w) {
				out = append(out, outPiece{bad: "a line is written to something other than the writer argument"})
				continue
			}
			if isCallTo(ev.Callee, "fmt", "Fprint") {
				elems, ok := sliceElems(sm.St, ev.Args[1], ev.Deref[1])
				if !ok || len(elems) != 1 {
					out = append(out, outPiece{bad: "fmt.Fprint with other than one operand"})
					continue
				}
				app(expandArg(sm.St, elems[0], 'v', true, 0))
			} else {
				app(expandArg(sm.St, ev.Args[1], 's', true, 0))
			}
		default:
			// any other call that receives the writer writes something the engine does not model
			if ev.Callee != nil && ev.Callee.Pkg != nil {
				for _, a := range ev.Args {
					if isWriterSym(a, w) {
						out = append(out, outPiece{bad: "the writer is handed to " + ev.Callee.Name()})
					}
				}
			} else if ev.Instr.Common().IsInvoke() {
				if len(ev.Args) > 0 && isWriterSym(ev.Args[0], w) {
					out = append(out, outPiece{bad: "the writer's method " + ev.Instr.Common().Method.Name() + " is called directly"})
				}
			}
		}
	}
	return out
}

// indentLevel: the piece is strings.Repeat(indent, level+k) printed as is; returns k.
func indentLevel(st *pstate, p outPiece, indent, level *Sym) (int64, bool) {
	if p.arg == nil || (p.verb != 's' && p.verb != 'v') || p.flags != "" {
		return 0, false
	}
	fn, _ := calleeOfSym(p.arg)
	if !isCallTo(fn, "strings", "Repeat") {
		return 0, false
	}
	ra := symArgs(st, p.arg)
	if len(ra) != 2 || ra[0].Key() != indent.Key() {
		return 0, false
	}
	b, o := linear(ra[1])
	if b != level.Key() {
		return 0, false
	}
	return o, true
}

// lines splits a template at the newlines of its literal text: each element is the pieces of one output line (the
// newline itself dropped); a trailing unterminated line is returned separately.
func templateLines(ps []outPiece) (lines [][]outPiece, rest []outPiece) {
	var cur []outPiece
	for _, p := range ps {
		if p.verb != 0 || p.child != nil || p.bad != "" {
			cur = append(cur, p)
			continue
		}
		parts := strings.Split(p.lit, "\n")
		for i, s := range parts {
			if s != "" {
				cur = append(cur, outPiece{lit: s})
			}
			if i < len(parts)-1 {
				lines = append(lines, cur)
				cur = nil
			}
		}
	}
	return lines, cur
}

var _ = ssa.Function{}
