package main

// C04 (negated operators are complements), C05 item 1 (disposition table),
// C09 part (i) (an error always comes with false).

import (
	"fmt"
	"go/constant"
	"go/types"
	"sort"
	"strings"

	"golang.org/x/tools/go/ssa"
)

// the four operator pairs of the statement of C04: (positive, negated)
var matchPairs = [][2]string{
	{"MatchEqual", "MatchNotEqual"},     // `!=` … negation of `==`
	{"MatchIn", "MatchNotIn"},           // `not in`/`not contains` … of `in`/`contains`
	{"MatchIsEmpty", "MatchIsNotEmpty"}, // `is not empty` … of `is empty`
	{"MatchMatches", "MatchNotMatches"}, // `not matches` … of `matches`
}

// the absent-key table of the statement of C05
var dispositionSpec = map[string]bool{
	"MatchEqual": false, "MatchIn": false, "MatchMatches": false, "MatchIsNotEmpty": false, // ==, in, matches and `is not empty` are false
	"MatchNotEqual": true, "MatchNotIn": true, "MatchNotMatches": true, "MatchIsEmpty": true, // !=, not in, not matches and `is empty` are true
}

func paramSym(p *ssa.Parameter) *Sym { return &Sym{K: sParam, V: p, T: p.Type()} }

func loadField(base *Sym, fields ...string) *Sym {
	a := base
	for _, f := range fields {
		a = &Sym{K: sFieldAddr, A: a, Str: f}
	}
	return &Sym{K: sLoad, A: a}
}

func isMatcherCall(a *Anchors, ev *Event) bool {
	if ev.Callee == nil || ev.Instr == nil {
		return false
	}
	for _, m := range a.Matchers {
		if m == ev.Callee {
			return true
		}
	}
	return false
}

type matchScenario struct {
	name    string
	getErr  bool
	present bool
	m       outcome
}

func checkMatchDispatch(r *Run, prog *Program, a *Anchors, pfx string) {
	fn := a.MatchEval
	r.Analysed(fn.String())
	if len(fn.Params) < 3 {
		r.Fail("unresolved-anchor", pfx+".match-dispatch", "params", prog.pos(fn.Pos()), "match evaluator does not have (expression, datum, options) parameters")
		return
	}
	pExpr := paramSym(fn.Params[0])
	opKey := loadField(pExpr, "Operator").Key()
	opT := prog.grammarType("MatchOperator")
	if opT == nil {
		r.Fail("unresolved-anchor", pfx+".match-dispatch", "MatchOperator", "", "type not found")
		return
	}
	consts := prog.enumConsts(opT)
	byName := map[string]*types.Const{}
	for _, c := range consts {
		byName[c.Name()] = c
	}
	r.Floor(pfx+".match-arm", 30)

	// every constant is in exactly one pair
	inPair := map[string]bool{}
	for _, p := range matchPairs {
		inPair[p[0]], inPair[p[1]] = true, true
	}
	for _, c := range consts {
		r.Check(pfx+".operator-in-pair", c.Name(), prog.pos(c.Pos()), inPair[c.Name()], "operator constant "+c.Name()+" is in none of the four positive/negated pairs of the statement")
	}

	scen := []matchScenario{{"lookup-error", true, false, oT}, {"absent", false, false, oT}}
	for _, o := range []outcome{oT, oF, oET, oEF} {
		scen = append(scen, matchScenario{"present,matcher=" + o.String(), false, true, o})
	}
	type armInfo struct {
		callee string
		args   string
		preSig string
		ok     bool
	}
	arms := map[string]map[string]*armInfo{} // const -> scenario -> info
	for _, c := range consts {
		arms[c.Name()] = map[string]*armInfo{}
		neg := false
		for _, p := range matchPairs {
			if p[1] == c.Name() {
				neg = true
			}
		}
		for _, sc := range scen {
			sc := sc
			info := &armInfo{}
			arms[c.Name()][sc.name] = info
			ps := NewPathSim(prog)
			var getErrSym, mErrSym *Sym
			ps.Inline = func(callee *ssa.Function) bool { return bexprHelper(prog, a, callee) }
			ps.Seed = func(st *pstate) { st.eqc[opKey] = constKey(c) }
			ps.Model = func(ev *Event) *Sym {
				if ev.Callee == a.GetValue {
					var e *Sym = &Sym{K: sConst, C: nil}
					if sc.getErr {
						e = &Sym{K: sNewErr, V: ev.Instr.Value(), Str: "lookup"}
						getErrSym = e
					}
					return a.lookupModel(&Sym{K: sOpaque, V: ev.Instr.Value(), Str: "value"}, &Sym{K: sConst, C: constant.MakeBool(sc.present)}, e)
				}
				if isMatcherCall(a, ev) {
					var e *Sym = &Sym{K: sConst, C: nil}
					if sc.m.isErr() {
						e = &Sym{K: sNewErr, V: ev.Instr.Value(), Str: "matcher"}
						mErrSym = e
					}
					return &Sym{K: sTuple, Kids: []*Sym{{K: sConst, C: constant.MakeBool(sc.m.boolVal())}, e}}
				}
				return nil
			}
			sums := ps.Run(fn)
			cell := c.Name() + "[" + sc.name + "]"
			var pre []string
			nMatch := 0
			for _, sm := range sums {
				pos := "-"
				if sm.Ret != nil {
					pos = prog.pos(sm.Ret.Pos())
				}
				if sm.Panic != nil || len(sm.Results) != 2 {
					r.Check(pfx+".match-arm", cell, prog.pos(fn.Pos()), false, "path ends in a panic or is not a (bool, error) return")
					continue
				}
				var mcalls []Event
				for _, ev := range sm.Events() {
					if isMatcherCall(a, &ev) {
						mcalls = append(mcalls, ev)
					}
				}
				b, e := sm.Results[0], sm.Results[1]
				var problems []string
				switch {
				case sc.getErr:
					if len(mcalls) != 0 {
						problems = append(problems, "a matcher runs although the lookup failed")
					}
					if bv, ok := b.BoolConst(); !ok || bv || getErrSym == nil || e.Key() != getErrSym.Key() {
						problems = append(problems, "a lookup error must be returned as (false, that error); got ("+b.Key()+", "+e.Key()+")")
					}
				case !sc.present:
					if len(mcalls) != 0 {
						problems = append(problems, "a matcher runs although the key is absent")
					}
					okB := b.K == sCall
					if okB {
						call, _ := b.V.(*ssa.Call)
						callee, _ := calleeOfSym(b)
						okB = callee != nil && callee.Name() == "NotPresentDisposition" && len(call.Call.Args) == 1
						if okB {
							// receiver must be this expression's operator
							var recvKey string
							for _, ev := range sm.Events() {
								if ev.Instr == ssa.CallInstruction(call) {
									recvKey = ev.Args[0].Key()
								}
							}
							okB = recvKey == opKey
						}
					}
					if !okB || !e.IsNil() {
						problems = append(problems, "an absent key must yield (Operator.NotPresentDisposition(), nil) for every operator; got ("+b.Key()+", "+e.Key()+")")
					}
				default:
					if len(mcalls) == 0 {
						// a return before the operator dispatch (json.Number that is neither int nor float): must be an error with false,
						// and must be the same for the positive and the negated form
						bv, okc := b.BoolConst()
						if !okc || bv || errClass(sm, e) != "nonnil" {
							problems = append(problems, "returns ("+b.Key()+", "+e.Key()+") without consulting a matcher")
						}
						pre = append(pre, fmt.Sprintf("%s:(%s,%s)", pos, b.Key(), e.K.String()))
					} else {
						nMatch++
						if len(mcalls) != 1 {
							problems = append(problems, fmt.Sprintf("%d matcher calls on one path", len(mcalls)))
						}
						ev := mcalls[0]
						var as []string
						for _, x := range ev.Args {
							if inner, isInd := indirectOf(sm.St, x); isInd {
								as = append(as, "indirect("+inner.Key()+")")
								continue
							}
							as = append(as, x.Key())
						}
						if info.callee != "" && (info.callee != ev.Callee.Name() || info.args != strings.Join(as, ",")) {
							problems = append(problems, "different paths of one arm consult different matchers/arguments")
						}
						info.callee, info.args = ev.Callee.Name(), strings.Join(as, ",")
						if ge, _ := matcherCallOperands(sm.St, &ev); ge == nil || !(ge.Key() == pExpr.Key() || partOfExpression(ge, pExpr)) {
							problems = append(problems, "the matcher is not given this expression but "+info.args)
						}
						want := sc.m
						bv, okc := b.BoolConst()
						switch {
						case want.isErr():
							if mErrSym == nil || e.Key() != mErrSym.Key() {
								problems = append(problems, "the matcher's error is not returned (got "+e.Key()+"): the form must fail exactly when the matcher does")
							}
							if neg && (!okc || bv) {
								problems = append(problems, "negated form returns "+b.Key()+" together with the matcher's error; must be false")
							}
							if !neg && (!okc || bv != want.boolVal()) {
								problems = append(problems, "positive form does not forward the matcher's pair unchanged")
							}
						default:
							exp := want.boolVal()
							if neg {
								exp = !exp
							}
							if !e.IsNil() || !okc || bv != exp {
								problems = append(problems, fmt.Sprintf("matcher says %v without error; this form must return (%v, nil), got (%s, %s)", want.boolVal(), exp, b.Key(), e.Key()))
							}
						}
					}
				}
				r.Check(pfx+".match-arm", cell, pos, len(problems) == 0, strings.Join(problems, "; ")+" [path "+strings.Join(sm.St.trail, " ")+"]")
			}
			if sc.present && nMatch == 0 {
				r.Check(pfx+".match-arm", cell, prog.pos(fn.Pos()), false, "no path consults a matcher for operator "+c.Name())
			}
			if len(sums) == 0 {
				r.Check(pfx+".match-arm", cell, prog.pos(fn.Pos()), false, "no feasible path")
			}
			sort.Strings(pre)
			info.preSig = strings.Join(pre, "|")
		}
	}
	// pairs: same matcher, same arguments, same pre-dispatch returns
	for _, p := range matchPairs {
		pos, neg := arms[p[0]], arms[p[1]]
		if pos == nil || neg == nil {
			r.Fail("unresolved-anchor", pfx+".pair-same-matcher", p[0]+"/"+p[1], "", "operator constants of the pair not found")
			continue
		}
		for _, sc := range scen {
			if !sc.present {
				continue
			}
			x, y := pos[sc.name], neg[sc.name]
			r.Check(pfx+".pair-same-matcher", p[0]+"/"+p[1]+"["+sc.name+"]", prog.pos(fn.Pos()),
				x.callee != "" && x.callee == y.callee && x.args == y.args && x.preSig == y.preSig,
				fmt.Sprintf("positive form consults %s(%s), negated form %s(%s); returns before the dispatch: %q vs %q", x.callee, x.args, y.callee, y.args, x.preSig, y.preSig))
		}
	}
}

func (k symKind) String() string {
	return [...]string{"const", "param", "free", "global", "call", "res", "not", "cmp", "fieldaddr", "field", "indexaddr", "load", "typeassert", "tav", "taok",
		"newerr", "mkiface", "fresh", "bin", "func", "closure", "opaque", "len", "slice", "convert", "tuple"}[k]
}

// dispositionTable extracts const -> bool from the NotPresentDisposition method.
func dispositionTable(prog *Program) (map[string]bool, *ssa.Function, string) {
	opT := prog.grammarType("MatchOperator")
	if opT == nil {
		return nil, nil, "type MatchOperator not found"
	}
	fn := prog.Method(prog.GrammarSSA, "MatchOperator", "NotPresentDisposition", false)
	if fn == nil {
		return nil, nil, "method MatchOperator.NotPresentDisposition not found"
	}
	out := map[string]bool{}
	p := paramSym(fn.Params[0])
	for _, c := range prog.enumConsts(opT) {
		ps := NewPathSim(prog)
		c := c
		ps.Seed = func(st *pstate) { st.eqc[p.Key()] = constKey(c) }
		ps.Inline = func(g *ssa.Function) bool { return prog.InModule(g) && g != fn }
		sums := ps.Run(fn)
		if len(sums) != 1 || len(sums[0].Results) != 1 {
			return nil, fn, fmt.Sprintf("%d paths for operator %s", len(sums), c.Name())
		}
		bv, ok := sums[0].Results[0].BoolConst()
		if !ok {
			// a boolean expression over the operator: decided by the facts of the (single) path
			bv, ok = evalBool(sums[0].St, sums[0].Results[0])
		}
		if !ok {
			return nil, fn, "non-constant disposition for " + c.Name()
		}
		out[c.Name()] = bv
	}
	return out, fn, ""
}

func checkDispositionTable(r *Run, prog *Program, pfx string, complement, spec bool) {
	tab, fn, why := dispositionTable(prog)
	if tab == nil {
		r.Fail("unresolved-anchor", pfx+".disposition", "table", "", why)
		return
	}
	r.Analysed(fn.String())
	r.Floor(pfx+".disposition", 4)
	if spec {
		for name, want := range dispositionSpec {
			got, ok := tab[name]
			r.Check(pfx+".disposition", "table:"+name, prog.pos(fn.Pos()), ok && got == want,
				fmt.Sprintf("absent map key under %s: the documented table says %v, NotPresentDisposition returns %v (found=%v)", name, want, got, ok))
		}
		for name := range tab {
			if _, ok := dispositionSpec[name]; !ok {
				r.Check(pfx+".disposition", "table:"+name, prog.pos(fn.Pos()), false, "operator "+name+" has no row in the documented absent-key table")
			}
		}
	}
	if complement {
		for _, p := range matchPairs {
			a, oka := tab[p[0]]
			b, okb := tab[p[1]]
			r.Check(pfx+".disposition", "complement:"+p[0]+"/"+p[1], prog.pos(fn.Pos()), oka && okb && a == !b,
				fmt.Sprintf("absent key: %s gives %v and %s gives %v; a negated operator must be the complement", p[0], a, p[1], b))
		}
	}
}

// checkErrFalse: C09 (i): in every function on the evaluation path returning
// (bool, error), every return satisfies: error nil, or boolean false, or the
// pair is forwarded unchanged from a call to a function of the same set.
func checkErrFalse(r *Run, prog *Program, a *Anchors, pfx string) {
	set := map[*ssa.Function]bool{}
	for f := range a.EvalSet {
		if isVerdict(f.Signature) {
			set[f] = true // (bool, error), or the two grouped in a struct
		}
	}
	r.Floor(pfx+".error-comes-with-false", 30)
	type res struct {
		key, pos, why string
		ok            bool
	}
	// A helper whose every caller is a static call from a function of the set is judged in the context of its callers
	// (interpreted in place) when it cannot be judged on its own: what it forwards or negates is then known.
	inlined := map[*ssa.Function]bool{}
	analyse := func(fn *ssa.Function) (out []res, bad bool) {
		ps := NewPathSim(prog)
		ps.Havoc = true
		ps.Inline = func(c *ssa.Function) bool { return inlined[c] || (bexprHelper(prog, a, c) && !set[c]) }
		sums := ps.Run(fn)
		seen := map[string]bool{}
		for _, sm := range sums {
			if sm.Panic != nil {
				continue // explicit panics are C09 (ii)
			}
			b, e, okShape := verdictOf(fn.Signature, sm.Results)
			if !okShape || b == nil || e == nil {
				continue
			}
			if e.K == sStruct && e.A == nil && len(e.F) == 0 {
				e = nilSym() // the error field of a literal that does not set it
			}
			if b.K == sStruct && b.A == nil && len(b.F) == 0 {
				b = &Sym{K: sConst, C: constant.MakeBool(false)}
			}
			key := fmt.Sprintf("%s:return(%s,%s)", fn.Name(), shortKey(b), shortKey(e))
			ok, why := false, ""
			ec := errClass(sm, e)
			bv, bconst := b.BoolConst()
			if !bconst {
				if v, known := evalBool(sm.St, b); known {
					bv, bconst = v, true
				}
			}
			switch {
			case ec == "nil":
				ok = true
			case bconst && !bv:
				ok = true
			case b.K == sRes && e.K == sRes && b.A == e.A && b.Idx == 0 && e.Idx == 1 && b.A.K == sCall:
				call := b.A.V.(*ssa.Call)
				callee, _ := calleeOfSym(b.A)
				if callee != nil && (set[callee] || callee == fn) {
					ok = true
				} else {
					why = "pair forwarded from " + callName(call.Common()) + ", which is not a (bool, error) function of the evaluation path"
				}
			case b.K == sField && e.K == sField && b.A != nil && e.A != nil && b.A.Key() == e.A.Key() && b.A.K == sCall:
				// both fields of one grouped verdict, as a function of the evaluation path returned it
				callee, _ := calleeOfSym(b.A)
				of, ef := "", ""
				if callee != nil {
					of, ef = verdictFields(callee.Signature)
				}
				if callee != nil && (set[callee] || callee == fn) && b.Str == of && e.Str == ef {
					ok = true
				} else {
					why = "verdict forwarded from something that is not a function of the evaluation path"
				}
			default:
				why = fmt.Sprintf("returns (%s, %s) where the error may be non-nil (%s) and the boolean is not known to be false", b.Key(), e.Key(), ec)
			}
			id := key + "@" + prog.pos(sm.Ret.Pos())
			if seen[id] && ok {
				continue
			}
			seen[id] = true
			if !ok {
				bad = true
			}
			out = append(out, res{key, prog.pos(sm.Ret.Pos()), why + " [path " + strings.Join(sm.St.trail, " ") + "]", ok})
		}
		if ps.Truncated > 0 {
			r.Note("%s: %d paths cut by the loop bound (each return is still reached with every fact combination of two iterations)", fn.Name(), ps.Truncated)
		}
		return
	}
	results := map[*ssa.Function][]res{}
	todo := sortedFuncs(set)
	for round := 0; round < 3 && len(todo) > 0; round++ {
		var again []*ssa.Function
		for _, fn := range todo {
			if inlined[fn] {
				continue
			}
			out, bad := analyse(fn)
			results[fn] = out
			if bad && prog.contextOnly(fn, func(c *ssa.Function) bool { return set[c] }) {
				inlined[fn] = true
				delete(results, fn)
				for _, c := range prog.staticCallers(fn) {
					again = append(again, c)
				}
			}
		}
		todo = again
	}
	for _, fn := range sortedFuncs(set) {
		r.Analysed(fn.String())
		if inlined[fn] {
			r.Note("%s: judged in the context of its callers (interpreted in place)", fn.Name())
		}
		for _, x := range results[fn] {
			r.Check(pfx+".error-comes-with-false", x.key, x.pos, x.ok, x.why)
		}
	}
}

func shortKey(s *Sym) string {
	k := s.Key()
	if len(k) > 60 {
		k = k[:60] + "…"
	}
	return k
}

func init() {
	register("C04", true, func(r *Run, prog *Program) {
		a := FindAnchors(prog)
		if !a.Require(r, "c04.anchors") {
			return
		}
		checkMatchDispatch(r, prog, a, "c04")
		checkDispositionTable(r, prog, "c04", true, false)
		checkRegexpSource(r, prog, a, "c04") // matches and not matches use the same pattern, prepared the same way
		checkMatcherOperatorBlind(r, prog, a, "c04")
		// the operator evaluated is the operator that was written: the tree handed to Evaluate is the parse of the text, and
		// nothing rewrites it afterwards (a pass that folds `not` into the operator of a shared node flips it back next time)
		r.importing = "C03"
		checkASTIntegrity(r, prog, a, "c03")
		checkTreeHandedOver(r, prog, a, "c03")
		checkConnectives(r, prog, a, "c03") // "each equals `not (…)` around its counterpart": `not` errs exactly when its operand does
		r.importing = ""
		g := loadGrammars(r, prog)
		if g != nil {
			ga := NewGA(prog, g.Tab)
			checkOperatorSpellings(r, ga, "c04")
			r.importing = "C16"
			checkKeywordBoundary(r, ga, "c16") // an operand that begins like a keyword (`notes`, `inbox`) is still the operand on both sides of the pair
			r.importing = ""
			r.importing = "C15"
			checkActionsDoNotRewrite(r, prog, "c15") // both spellings of a pair hand the same literal and selector to the same node
			r.importing = ""
		}
		r.Technique = "abstract execution of the match dispatcher over {lookup error, absent, present}×{matcher true/false/error} per operator constant; constant-table extraction from NotPresentDisposition; constant inference on the grammar's operator rules"
		r.Explain = "For each of the eight operator constants and each scenario, every feasible path through the match dispatcher is followed with the lookup and the matcher replaced by their assumed outcome: the positive form forwards the matcher's pair, the negated form returns the negation exactly when the matcher returns no error and (false, err) otherwise, both consult the same matcher with the same arguments and have the same returns before the dispatch; an absent key yields NotPresentDisposition() for every operator and the table is complementary per pair; `contains`/`not contains` parse to the same constants as `in`/`not in`. Not decided here: that the positive matcher is right (C02)."
		r.Assume = append(r.Assume, "matcher outcomes abstracted to true/false/error", "the table is the grammar (C20)")
	})
}

// operator spellings as documented (README / the statements of C01 and C04)
var spellingSpec = map[string]string{
	"==": "MatchEqual", "!=": "MatchNotEqual",
	"in": "MatchIn", "not in": "MatchNotIn",
	"contains": "MatchIn", "not contains": "MatchNotIn", // `S contains v` and `v in S` are the same test
	"is empty": "MatchIsEmpty", "is not empty": "MatchIsNotEmpty",
	"matches": "MatchMatches", "not matches": "MatchNotMatches",
}

func checkOperatorSpellings(r *Run, ga *GA, pfx string) {
	found := map[string]string{}
	pos := map[string]string{}
	for _, rule := range ga.order {
		cs := setKeys(ga.rconst[rule.Name])
		if len(cs) != 1 || cs[0] == "" {
			continue
		}
		c, ok := ga.prog.Grammar.Types.Scope().Lookup(cs[0]).(*types.Const)
		if !ok || !namedIs(c.Type(), grammarPath, "MatchOperator") {
			continue
		}
		// keyword literals of the rule's sequence
		var words []string
		x := rule.Expr
		for x.Kind == "action" || x.Kind == "labeled" {
			x = x.Kids[0]
		}
		kids := x.Kids
		if x.Kind != "seq" {
			kids = []*pegNode{x}
		}
		for _, k := range kids {
			if k.Kind == "lit" {
				words = append(words, k.Val)
			}
		}
		sp := strings.Join(words, " ")
		found[sp] = c.Name()
		pos[sp] = ga.prog.pos(ga.tab.RulePos[rule])
	}
	r.Floor(pfx+".operator-spelling", 8)
	for sp, want := range spellingSpec {
		got, ok := found[sp]
		r.Check(pfx+".operator-spelling", "spelling:"+sp, pos[sp], ok && got == want, fmt.Sprintf("the spelling %q must parse to %s; the grammar's operator rule yields %q (rule found=%v)", sp, want, got, ok))
	}
	for sp, got := range found {
		if _, ok := spellingSpec[sp]; !ok {
			r.Check(pfx+".operator-spelling", "spelling:"+sp, pos[sp], false, fmt.Sprintf("the grammar has an operator spelling %q (→ %s) that the documented language does not have", sp, got))
		}
	}
}

// partOfExpression: x is this expression's selector or literal (a matcher may be handed just the part it reads).
func partOfExpression(x, pExpr *Sym) bool {
	for _, f := range []string{"Selector", "Value"} {
		if x.Key() == loadField(pExpr, f).Key() {
			return true
		}
		if x.K == sField && x.Str == f && x.A != nil && x.A.K == sLoad && x.A.A != nil && x.A.A.Key() == pExpr.Key() {
			return true
		}
	}
	return false
}
