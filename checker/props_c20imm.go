package main

import (
	"fmt"
	"go/types"

	"golang.org/x/tools/go/ssa"
)

// checkTableImmutable: the table that C20 compares with grammar.peg is the one the parser runs with only if nothing
// rewrites it after the package initialiser has built it. Decided by three censuses over the whole module:
//  1. the variable holding the table is assigned by the package initialiser alone and its address is not taken;
//  2. no field of a table node (the grammar, a rule, any expression node: the struct types with a `pos position` field)
//     is written outside the package initialiser — an init() function in another file counts as outside;
//  3. every slice or map taken out of a table node outside the initialiser is only read: ranged over, indexed for
//     reading, measured, or handed to a function that does the same (an in-place sort, an append that may reuse the
//     backing array, a store through an index are writes).
func checkTableImmutable(r *Run, prog *Program, pfx string) {
	if prog.SSA == nil || prog.GrammarSSA == nil {
		return
	}
	gt := prog.grammarType("grammar")
	if gt == nil {
		r.Fail("unresolved-anchor", pfx+".table-immutable", "grammar", "grammar/grammar.go", "type grammar not found")
		return
	}
	var table *ssa.Global
	for _, m := range prog.GrammarSSA.Members {
		if g, ok := m.(*ssa.Global); ok {
			if pt, ok := g.Type().Underlying().(*types.Pointer); ok {
				if p2, ok := pt.Elem().Underlying().(*types.Pointer); ok && types.Identical(p2.Elem(), gt) {
					table = g
				}
			}
		}
	}
	if table == nil {
		r.Fail("unresolved-anchor", pfx+".table-immutable", "g", "grammar/grammar.go", "no package variable of type *grammar")
		return
	}
	gm := prog.Globals()
	r.Check(pfx+".table-immutable", "variable:"+table.Name(), prog.pos(table.Pos()), gm.shallow[table] || gm.immut[table],
		"the variable holding the grammar table is assigned (or its address taken) outside the package initialiser")
	// the node types: what the table is made of — the struct types the package initialiser allocates for it
	node := map[*types.Named]bool{}
	for _, m := range prog.GrammarSSA.Members {
		f, ok := m.(*ssa.Function)
		if !ok || f.Synthetic != "package initializer" {
			continue
		}
		for _, b := range f.Blocks {
			for _, ins := range b.Instrs {
				if al, ok := ins.(*ssa.Alloc); ok {
					if nt, ok := al.Type().Underlying().(*types.Pointer).Elem().(*types.Named); ok && nt.Obj().Pkg() == prog.Grammar.Types {
						if _, isStruct := nt.Underlying().(*types.Struct); isStruct {
							node[nt] = true
						}
					}
				}
			}
		}
	}
	node[gt] = true
	isPkgInit := func(f *ssa.Function) bool {
		for f.Parent() != nil {
			f = f.Parent()
		}
		return f.Synthetic == "package initializer" && f.Pkg == prog.GrammarSSA
	}
	nw, nr := 0, 0
	for _, fa := range prog.FieldAccesses(prog.ModuleFuncs()) {
		if fa.Struct == nil || !node[fa.Struct] || isPkgInit(fa.Fn) {
			continue
		}
		switch fa.Kind {
		case "write":
			nw++
			r.Check(pfx+".table-immutable", fmt.Sprintf("write:%s.%s@%s", fa.Struct.Obj().Name(), fa.Field, fa.Fn.Name()), prog.pos(fa.Instr.Pos()), false,
				"field "+fa.Field+" of a grammar table node is written in "+fa.Fn.Name()+", after the table was built: the parser no longer runs the table grammar.peg describes")
		case "addr":
			nw++
			r.Check(pfx+".table-immutable", fmt.Sprintf("addr:%s.%s@%s", fa.Struct.Obj().Name(), fa.Field, fa.Fn.Name()), prog.pos(fa.Instr.Pos()), false,
				"the address of field "+fa.Field+" of a grammar table node escapes in "+fa.Fn.Name()+": it can be written after the table was built")
		case "nested":
			// an element of an array field, a field of an embedded struct: written through?
			if av, ok := fa.Instr.(ssa.Value); ok && writtenThrough(av, 0) {
				nw++
				r.Check(pfx+".table-immutable", fmt.Sprintf("write:%s.%s@%s", fa.Struct.Obj().Name(), fa.Field, fa.Fn.Name()), prog.pos(fa.Instr.Pos()), false,
					"field "+fa.Field+" of a grammar table node is written in "+fa.Fn.Name()+", after the table was built: the parser no longer runs the table grammar.peg describes")
			}
		case "read":
			// a slice or map taken out of the node: read-only uses only
			var v ssa.Value
			if ld, ok := fa.Instr.(*ssa.UnOp); ok {
				v = ld
			} else if f, ok := fa.Instr.(*ssa.Field); ok {
				v = f
			}
			if v == nil {
				continue
			}
			switch v.Type().Underlying().(type) {
			case *types.Slice, *types.Map:
			default:
				continue
			}
			nr++
			okRO := containerOnlyRead(prog, v, 0)
			r.Check(pfx+".table-immutable", fmt.Sprintf("container:%s.%s@%s", fa.Struct.Obj().Name(), fa.Field, fa.Fn.Name()), prog.pos(fa.Instr.Pos()), okRO,
				"the "+fa.Field+" of a grammar table node are handed to something that can write them in place ("+fa.Fn.Name()+"): the table changes while parsers run")
		}
	}
	r.Check(pfx+".table-immutable", "census", "", len(node) >= 10 && nr >= 5, fmt.Sprintf("info: %d node types, %d container reads examined, %d writes", len(node), nr, nw))
}

// containerOnlyRead: nothing is written into the slice or map v through any of its uses (what its elements point to is
// another matter: the node fields have their own census). Followed through sub-slices, phis, locals and into the
// parameters of module functions it is handed to.
func containerOnlyRead(prog *Program, v ssa.Value, depth int) bool {
	if depth > 4 {
		return false
	}
	refs := v.Referrers()
	if refs == nil {
		return true
	}
	for _, u := range *refs {
		switch x := u.(type) {
		case *ssa.DebugRef, *ssa.Range, *ssa.Index, *ssa.Next:
		case *ssa.Lookup:
		case *ssa.MapUpdate:
			if x.Map == v {
				return false
			}
		case *ssa.IndexAddr:
			if x.X != v {
				continue
			}
			if ir := x.Referrers(); ir != nil {
				for _, iu := range *ir {
					switch y := iu.(type) {
					case *ssa.UnOp, *ssa.DebugRef:
					case *ssa.Store:
						if y.Addr == ssa.Value(x) {
							return false
						}
					default:
						return false // the element's address goes somewhere
					}
				}
			}
		case *ssa.Slice:
			if !containerOnlyRead(prog, x, depth+1) {
				return false
			}
		case *ssa.Phi:
			if !containerOnlyRead(prog, x, depth+1) {
				return false
			}
		case *ssa.BinOp:
			// comparison with nil
		case *ssa.Store:
			if x.Val != v {
				continue
			}
			al, ok := x.Addr.(*ssa.Alloc)
			if !ok {
				return false
			}
			if ar := al.Referrers(); ar != nil {
				for _, au := range *ar {
					if ld, ok := au.(*ssa.UnOp); ok {
						if !containerOnlyRead(prog, ld, depth+1) {
							return false
						}
					} else if st, ok := au.(*ssa.Store); ok && st.Addr == ssa.Value(al) {
						// another assignment to the local
					} else if _, ok := au.(*ssa.DebugRef); ok {
					} else {
						return false
					}
				}
			}
		case ssa.CallInstruction:
			com := x.Common()
			if bi, ok := com.Value.(*ssa.Builtin); ok {
				switch bi.Name() {
				case "len", "cap":
				case "copy", "append":
					if len(com.Args) > 0 && com.Args[0] == v {
						return false
					}
				default:
					return false
				}
				continue
			}
			callee := com.StaticCallee()
			if callee == nil || !prog.InModule(callee) || len(callee.Blocks) == 0 {
				return false
			}
			args := com.Args
			for i, a := range args {
				if a == v {
					if i >= len(callee.Params) || !containerOnlyRead(prog, callee.Params[i], depth+1) {
						return false
					}
				}
			}
		default:
			return false
		}
	}
	return true
}

// writtenThrough: something is stored through the address addr (of an array element or an inner field), or the address
// goes somewhere it could be stored through.
func writtenThrough(addr ssa.Value, depth int) bool {
	if depth > 4 {
		return true
	}
	refs := addr.Referrers()
	if refs == nil {
		return false
	}
	for _, u := range *refs {
		switch x := u.(type) {
		case *ssa.UnOp, *ssa.DebugRef:
		case *ssa.Store:
			return true // stored through, or the address itself stored
		case *ssa.FieldAddr:
			if writtenThrough(x, depth+1) {
				return true
			}
		case *ssa.IndexAddr:
			if writtenThrough(x, depth+1) {
				return true
			}
		default:
			return true
		}
	}
	return false
}
