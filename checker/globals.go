package main

// Global tables: package-level variables of the two library packages that are
// initialised once (in the package initialiser) and only read afterwards are
// constants of the program. Their contents are recovered by interpreting the
// package initialisers symbolically, so that a dispatch written as data (a map
// or array of functions / flags indexed by an operator or a kind) is seen by
// the rules exactly like the switch statement it replaces.
//
// A variable qualifies only if NO instruction outside the initialiser can write
// it or anything reachable through it: every use outside init must be a load
// (of the variable, of an element, of a field), a map lookup, a range, or a
// len/cap. Anything else (a store, the address or the loaded map/slice handed
// to a call, stored somewhere, …) disqualifies the variable and its uses stay
// opaque — the safe direction (opaque values make rules undecided, never
// satisfied).

import (
	"go/constant"
	"go/types"

	"golang.org/x/tools/go/ssa"
)

type GlobalModel struct {
	st    *pstate // final state of the initialisers
	immut map[*ssa.Global]bool
	// shallow: the variable itself is never assigned outside its initialiser (every use is a plain load); what its
	// value refers to may still be written through a copy, so only values without interior (scalars, strings,
	// interfaces compared for identity or nil-ness, function values) are resolved through it
	shallow map[*ssa.Global]bool
	inits   map[*ssa.Function]bool
}

func (p *Program) Globals() *GlobalModel {
	if p.globals != nil {
		return p.globals
	}
	gm := &GlobalModel{immut: map[*ssa.Global]bool{}, inits: map[*ssa.Function]bool{}}
	p.globals = gm // set first: the interpretation below must not recurse into Globals()
	gm.st = newState()
	gm.st.gcells = map[*ssa.Global]*Sym{}
	for _, pkg := range []*ssa.Package{p.GrammarSSA, p.BexprSSA} {
		if pkg == nil {
			continue
		}
		init := pkg.Func("init")
		if init == nil || len(init.Blocks) == 0 {
			continue
		}
		gm.inits[init] = true
		ps := NewPathSim(p)
		ps.trackGlobals = true
		ps.maxPaths = 64
		ps.maxVisits = 40 // loops over literal lists (a set built from its members) run to their end: their tests are constant
		// a variable initialised with the result of a constructor of function values (a generic comparator builder, …):
		// the constructor is interpreted so that the closure it returns is known
		ps.Inline = func(c *ssa.Function) bool {
			if !p.InModule(c) || c.Signature.Results().Len() != 1 {
				return false
			}
			if _, isFn := c.Signature.Results().At(0).Type().Underlying().(*types.Signature); isFn {
				return true
			}
			// … or of a plain number computed from constants (a bit set built from its members): unexported, no receiver
			if bt, isB := c.Signature.Results().At(0).Type().Underlying().(*types.Basic); isB && bt.Info()&types.IsInteger != 0 {
				if o := c.Object(); o != nil && !o.Exported() && c.Signature.Recv() == nil && !recursive(p, c) {
					return true
				}
			}
			return false
		}
		// keep the accumulated state of the previous package
		prev := gm.st
		ps.Seed = func(st *pstate) {
			for k, v := range prev.gcells {
				st.gcells[k] = v
			}
			for k, v := range prev.cells {
				st.cells[k] = v
			}
			for k, v := range prev.maps {
				st.maps[k] = v
			}
		}
		var best *Summary
		for _, sm := range ps.Run(init) {
			if sm.Ret == nil {
				continue
			}
			if best == nil || len(sm.St.gcells)+len(sm.St.events) > len(best.St.gcells)+len(best.St.events) {
				best = sm
			}
		}
		if best != nil {
			gm.st = best.St
		}
	}
	// immutability census
	cand := map[*ssa.Global]bool{}
	onlyLoaded := map[*ssa.Global]bool{}
	for _, pkg := range []*ssa.Package{p.GrammarSSA, p.BexprSSA} {
		if pkg == nil {
			continue
		}
		for _, m := range pkg.Members {
			if g, ok := m.(*ssa.Global); ok {
				cand[g] = true
				onlyLoaded[g] = true
			}
		}
	}
	for _, fn := range p.ModuleFuncs() {
		if gm.inits[fn] {
			continue
		}
		for _, b := range fn.Blocks {
			for _, ins := range b.Instrs {
				var ops [16]*ssa.Value
				for _, op := range ins.Operands(ops[:0]) {
					g, ok := (*op).(*ssa.Global)
					if !ok || !cand[g] {
						continue
					}
					if !readOnlyUse(ins, g, 0) && !(isWholeLoad(ins, g) && gm.sharingFieldsNil(g)) {
						cand[g] = false
					}
					if !isWholeLoad(ins, g) {
						onlyLoaded[g] = false
					}
				}
			}
		}
	}
	for g, ok := range cand {
		if ok {
			gm.immut[g] = true
		}
	}
	gm.shallow = map[*ssa.Global]bool{}
	for g, ok := range onlyLoaded {
		if ok {
			gm.shallow[g] = true
		}
	}
	return gm
}

// readOnlyUse: instruction ins uses value v (an address rooted at a global, or a
// value loaded from one); can anything be written through this use?
func readOnlyUse(ins ssa.Instruction, v ssa.Value, depth int) bool {
	if depth > 6 {
		return false
	}
	users := func(x ssa.Value) bool {
		refs := x.Referrers()
		if refs == nil {
			return true
		}
		for _, r := range *refs {
			if !readOnlyUse(r, x, depth+1) {
				return false
			}
		}
		return true
	}
	switch x := ins.(type) {
	case *ssa.DebugRef:
		return true
	case *ssa.UnOp:
		// a load: the loaded value may itself give write access (map, slice, pointer)
		if x.X != v {
			return false
		}
		if !sharesStorage(x.Type()) {
			return true
		}
		return users(x)
	case *ssa.FieldAddr:
		return x.X == v && users(x)
	case *ssa.IndexAddr:
		return x.X == v && users(x)
	case *ssa.Field:
		if !sharesStorage(x.Type()) {
			return true
		}
		return users(x)
	case *ssa.Index:
		if x.X != v {
			return true // used as the index
		}
		if !sharesStorage(x.Type()) {
			return true
		}
		return users(x)
	case *ssa.Lookup:
		if x.X != v {
			return true // used as the key
		}
		if !sharesStorage(x.Type()) {
			return true
		}
		return users(x)
	case *ssa.Extract:
		if !sharesStorage(x.Type()) {
			return true
		}
		return users(x)
	case *ssa.Range:
		return users(x)
	case *ssa.Next:
		return true // keys/values are copies; a shared-storage value type was rejected at the Lookup/Index rule
	case *ssa.Slice:
		return x.X == v && users(x)
	case *ssa.Call:
		if b, ok := x.Call.Value.(*ssa.Builtin); ok && (b.Name() == "len" || b.Name() == "cap") {
			return true
		}
		// a function value loaded from the table being called is a read; being passed as an argument is not (for storage-sharing types)
		if x.Call.Value == v && !x.Call.IsInvoke() {
			return true
		}
		if !sharesStorage(v.Type()) {
			return true
		}
		return false
	case *ssa.BinOp, *ssa.If:
		return true
	case *ssa.Return, *ssa.MakeInterface, *ssa.Phi, *ssa.ChangeType, *ssa.Convert, *ssa.TypeAssert:
		if !sharesStorage(v.Type()) {
			return true
		}
		return false
	case *ssa.Store:
		// storing a copy of a value elsewhere is a read of the table; storing INTO it is a write
		return x.Val == v && x.Addr != v && !sharesStorage(v.Type())
	case *ssa.MapUpdate:
		return x.Map != v && !sharesStorage(v.Type())
	}
	return false
}

// sharesStorage: can a copy of a value of type t be used to modify storage shared with the original?
func sharesStorage(t types.Type) bool {
	return sharesStorageRec(t, 0)
}

func sharesStorageRec(t types.Type, depth int) bool {
	if depth > 5 {
		return true
	}
	switch u := t.Underlying().(type) {
	case *types.Basic, *types.Signature:
		return false
	case *types.Struct:
		for i := 0; i < u.NumFields(); i++ {
			if sharesStorageRec(u.Field(i).Type(), depth+1) {
				return true
			}
		}
		return false
	case *types.Array:
		return sharesStorageRec(u.Elem(), depth+1)
	case *types.Tuple:
		for i := 0; i < u.Len(); i++ {
			if sharesStorageRec(u.At(i).Type(), depth+1) {
				return true
			}
		}
		return false
	case *types.Interface:
		return true
	}
	return true // pointers, maps, slices, channels
}

// globalPath: is addr the address of (a constant path inside) a package-level variable?
func globalPath(st *pstate, addr *Sym) (*ssa.Global, []string, bool) {
	var path []string
	for addr != nil && (addr.K == sFieldAddr || addr.K == sIndexAddr) {
		if addr.K == sFieldAddr {
			path = append([]string{addr.Str}, path...)
		} else {
			c, ok := constKeyOf(st, addr.B)
			if !ok {
				return nil, nil, false
			}
			path = append([]string{"[" + c + "]"}, path...)
		}
		addr = addr.A
	}
	if addr == nil || addr.K != sGlobal {
		return nil, nil, false
	}
	g, ok := addr.V.(*ssa.Global)
	return g, path, ok
}

// constKeyOf: the canonical key of the constant a sym is, or is known to equal, on this path.
func constKeyOf(st *pstate, s *Sym) (string, bool) {
	for s != nil && s.K == sConvert && s.T != nil && s.A != nil && s.A.T != nil && isIntegral(s.T) && isIntegral(s.A.T) {
		s = s.A
	}
	if s == nil {
		return "", false
	}
	if s.K == sConst && s.C != nil {
		return "const(" + s.C.ExactString() + ")", true
	}
	if st != nil {
		if c, ok := st.eqc[s.Key()]; ok && c != "nil" {
			return c, true
		}
	}
	return "", false
}

func isIntegral(t types.Type) bool {
	b, ok := t.Underlying().(*types.Basic)
	return ok && b.Info()&types.IsInteger != 0
}

// loadGlobal: the value at a constant path of an initialise-once global.
func (gm *GlobalModel) loadGlobal(g *ssa.Global, path []string, t types.Type) (*Sym, bool) {
	if gm == nil {
		return nil, false
	}
	if !gm.immut[g] {
		// assigned once, loaded whole: a value without interior is what the initialiser gave it
		if !gm.shallow[g] || len(path) != 0 || t == nil {
			return nil, false
		}
		switch t.Underlying().(type) {
		case *types.Basic, *types.Interface, *types.Signature:
		default:
			return nil, false
		}
	}
	c, ok := gm.st.gcells[g]
	if !ok {
		if len(path) == 0 {
			return zeroSym(t), true // never assigned: the zero value
		}
		return nil, false
	}
	return cellValue(getPath(c, path), t)
}

func cellValue(v *Sym, t types.Type) (*Sym, bool) {
	if v == nil {
		return nil, false
	}
	if v.K == sStruct && v.A == nil && len(v.F) == 0 && t != nil {
		if _, isStruct := t.Underlying().(*types.Struct); !isStruct {
			if _, isArr := t.Underlying().(*types.Array); !isArr {
				return zeroSym(t), true
			}
		}
	}
	if v.K == sField || (v.K == sOpaque && v.V == nil) {
		return nil, false // a path into something that is not tracked
	}
	return v, true
}

// tableMap: the entries of a map made in a package initialiser and only read afterwards, by the map's symbol.
func (gm *GlobalModel) tableMap(m *Sym) (map[string]mapEnt, bool) {
	if gm == nil || m == nil || m.K != sFresh {
		return nil, false
	}
	mk, ok := m.V.(*ssa.MakeMap)
	if !ok || !gm.inits[mk.Parent()] {
		return nil, false
	}
	// the map must be the value of an immutable global (and of nothing else)
	held := false
	for g, v := range gm.st.gcells {
		if v != nil && v.K == sFresh && v.V == m.V {
			if !gm.immut[g] {
				return nil, false
			}
			held = true
		}
	}
	if !held {
		return nil, false
	}
	e := gm.st.maps[mk]
	if e == nil {
		e = map[string]mapEnt{}
	}
	return e, true
}

// initAlloc: the content of an allocation made in a package initialiser (backing array of a slice literal, a composite literal taken by address).
func (gm *GlobalModel) initAlloc(al *ssa.Alloc, path []string, t types.Type) (*Sym, bool) {
	if gm == nil || !gm.inits[al.Parent()] {
		return nil, false
	}
	// the allocation must be reachable only from immutable globals: conservatively, every global whose cell mentions it is immutable
	for g, v := range gm.st.gcells {
		if mentionsAlloc(v, al, 0) && !gm.immut[g] {
			return nil, false
		}
	}
	c, ok := gm.st.cells[al]
	if !ok {
		return nil, false
	}
	return cellValue(getPath(c, path), t)
}

func mentionsAlloc(s *Sym, al *ssa.Alloc, depth int) bool {
	if s == nil || depth > 8 {
		return false
	}
	if s.K == sFresh && s.V == ssa.Value(al) {
		return true
	}
	if mentionsAlloc(s.A, al, depth+1) || mentionsAlloc(s.B, al, depth+1) {
		return true
	}
	for _, k := range s.Kids {
		if mentionsAlloc(k, al, depth+1) {
			return true
		}
	}
	for _, k := range s.F {
		if mentionsAlloc(k, al, depth+1) {
			return true
		}
	}
	return false
}

func boolSym(b bool) *Sym { return &Sym{K: sConst, C: constant.MakeBool(b), T: types.Typ[types.Bool]} }

// isWholeLoad: ins loads the whole variable (a copy of its value is taken).
func isWholeLoad(ins ssa.Instruction, g *ssa.Global) bool {
	u, ok := ins.(*ssa.UnOp)
	return ok && u.X == ssa.Value(g) && u.Op.String() == "*"
}

// sharingFieldsNil: the variable holds a struct whose every field that could share storage with a copy (slices, maps,
// pointers, interfaces) is nil in the value the initialiser gives it: a copy of it shares nothing with the original.
func (gm *GlobalModel) sharingFieldsNil(g *ssa.Global) bool {
	pt, ok := g.Type().Underlying().(*types.Pointer)
	if !ok {
		return false
	}
	st, ok := pt.Elem().Underlying().(*types.Struct)
	if !ok {
		return false
	}
	v := gm.st.gcells[g]
	for i := 0; i < st.NumFields(); i++ {
		f := st.Field(i)
		if !sharesStorage(f.Type()) {
			continue
		}
		if v == nil {
			continue // never assigned: all zero
		}
		if v.K != sStruct {
			return false
		}
		fv, has := v.F[f.Name()]
		if !has && v.A == nil {
			continue // zero
		}
		if !has || !(fv.IsNil() || (fv.K == sStruct && fv.A == nil && len(fv.F) == 0)) {
			return false
		}
	}
	return true
}
