package main

// Spec tables transcribed from documentation (package reflect) — the oracle of
// the panic-site obligations. Nothing here is a copy of go-bexpr's source.

import (
	"go/constant"
	"go/types"
	"strconv"
	"strings"
)

type KindSet uint32

const (
	kInvalid = iota
	kBool
	kInt
	kInt8
	kInt16
	kInt32
	kInt64
	kUint
	kUint8
	kUint16
	kUint32
	kUint64
	kUintptr
	kFloat32
	kFloat64
	kComplex64
	kComplex128
	kArray
	kChan
	kFunc
	kInterface
	kMap
	kPtr
	kSlice
	kString
	kStruct
	kUnsafePointer
	nKinds
)

var kindNames = [...]string{"Invalid", "Bool", "Int", "Int8", "Int16", "Int32", "Int64", "Uint", "Uint8", "Uint16", "Uint32", "Uint64", "Uintptr",
	"Float32", "Float64", "Complex64", "Complex128", "Array", "Chan", "Func", "Interface", "Map", "Ptr", "Slice", "String", "Struct", "UnsafePointer"}

func ks(kinds ...int) KindSet {
	var s KindSet
	for _, k := range kinds {
		s |= 1 << uint(k)
	}
	return s
}

const ksAll KindSet = (1 << nKinds) - 1

var (
	ksSigned   = ks(kInt, kInt8, kInt16, kInt32, kInt64)
	ksUnsigned = ks(kUint, kUint8, kUint16, kUint32, kUint64, kUintptr)
	ksFloat    = ks(kFloat32, kFloat64)
	ksValid    = ksAll &^ ks(kInvalid)
)

func (s KindSet) String() string {
	if s == ksAll {
		return "{any kind incl. Invalid}"
	}
	if s == ksValid {
		return "{any valid kind}"
	}
	var out []string
	for i := 0; i < nKinds; i++ {
		if s&(1<<uint(i)) != 0 {
			out = append(out, kindNames[i])
		}
	}
	return "{" + strings.Join(out, ",") + "}"
}

func (s KindSet) SubsetOf(t KindSet) bool { return s&^t == 0 }

// reflect.Value methods with a documented panic condition on the receiver's kind:
// "It panics if v's Kind is not …".
var valueMethodReq = map[string]KindSet{
	"Len":         ks(kArray, kChan, kMap, kSlice, kString), // Len: Array, Chan, Map, Slice, String (or pointer to Array)
	"Cap":         ks(kArray, kChan, kSlice),
	"Index":       ks(kArray, kSlice, kString),
	"Elem":        ks(kInterface, kPtr),
	"MapIndex":    ks(kMap),
	"MapKeys":     ks(kMap),
	"MapRange":    ks(kMap),
	"SetMapIndex": ks(kMap),
	"Int":         ksSigned,
	"Uint":        ksUnsigned,
	"Float":       ksFloat,
	"Bool":        ks(kBool),
	"Complex":     ks(kComplex64, kComplex128),
	"Bytes":       0, // a slice of bytes or an *addressable* array of bytes: neither element type nor addressability is tracked, so never discharged
	"IsNil":       ks(kChan, kFunc, kInterface, kMap, kPtr, kSlice, kUnsafePointer),
	"NumField":    ks(kStruct),
	"Field":       ks(kStruct),
	"Slice":       ks(kArray, kSlice, kString),
	// valid receiver required ("panics if v is the zero Value")
	"Type":          ksValid,
	"CanInterface":  ksValid, // "panics if v is the zero Value" (flag == 0)
	"Interface":     ksValid,
	"Convert":       ksValid,
	"CanConvert":    ksValid,
	"Set":           ksValid,
	"Addr":          ksValid,
	"IsZero":        ksValid,
	"Comparable":    ksValid,
	"Equal":         ksAll,
	"FieldByName":   ks(kStruct),
	"NumMethod":     ksAll,
	"OverflowInt":   ksSigned,
	"OverflowUint":  ksUnsigned,
	"OverflowFloat": ksFloat,
	"UnsafePointer": ks(kChan, kFunc, kMap, kPtr, kSlice, kUnsafePointer),
	"Pointer":       ks(kChan, kFunc, kMap, kPtr, kSlice, kUnsafePointer),
	"Recv":          ks(kChan),
	"Send":          ks(kChan),
	"Call":          ks(kFunc),
}

// reflect.Value methods that never panic on any receiver.
var valueMethodSafe = map[string]bool{"Kind": true, "IsValid": true, "String": true, "CanSet": true, "CanAddr": true, "CanInt": true,
	"CanUint": true, "CanFloat": true, "CanComplex": true}

// reflect.Type methods with a kind precondition ("It panics if the type's Kind is not …").
var typeMethodReq = map[string]KindSet{
	"Elem":     ks(kArray, kChan, kMap, kPtr, kSlice),
	"Key":      ks(kMap),
	"Len":      ks(kArray),
	"NumField": ks(kStruct),
	"Field":    ks(kStruct),
	"NumIn":    ks(kFunc),
	"NumOut":   ks(kFunc),
	"In":       ks(kFunc),
	"Out":      ks(kFunc),
}

var typeMethodSafe = map[string]bool{"Kind": true, "String": true, "Name": true, "PkgPath": true, "ConvertibleTo": true, "AssignableTo": true, "Implements": true,
	"Comparable": true, "Size": true, "Align": true, "NumMethod": true}

// package-level reflect functions: kind required of the Type argument.
var reflectFuncTypeReq = map[string]KindSet{
	"MakeSlice": ks(kSlice),
	"MakeMap":   ks(kMap),
	// the size is a hint: any int, negative included, is accepted by the runtime
	"MakeMapWithSize": ks(kMap),
	"MakeChan":        ks(kChan),
}

var reflectFuncSafe = map[string]bool{"ValueOf": true, "TypeOf": true, "Indirect": true, "SliceOf": true, "PtrTo": true, "PointerTo": true, "Zero": false, "New": true, "DeepEqual": true}

func kindOfType(t types.Type) (int, bool) {
	switch u := t.Underlying().(type) {
	case *types.Basic:
		switch u.Kind() {
		case types.Bool, types.UntypedBool:
			return kBool, true
		case types.Int:
			return kInt, true
		case types.Int8:
			return kInt8, true
		case types.Int16:
			return kInt16, true
		case types.Int32:
			return kInt32, true
		case types.Int64:
			return kInt64, true
		case types.Uint:
			return kUint, true
		case types.Uint8:
			return kUint8, true
		case types.Uint16:
			return kUint16, true
		case types.Uint32:
			return kUint32, true
		case types.Uint64:
			return kUint64, true
		case types.Uintptr:
			return kUintptr, true
		case types.Float32:
			return kFloat32, true
		case types.Float64, types.UntypedFloat:
			return kFloat64, true
		case types.Complex64:
			return kComplex64, true
		case types.Complex128:
			return kComplex128, true
		case types.String, types.UntypedString:
			return kString, true
		case types.UnsafePointer:
			return kUnsafePointer, true
		}
	case *types.Array:
		return kArray, true
	case *types.Chan:
		return kChan, true
	case *types.Signature:
		return kFunc, true
	case *types.Interface:
		return kInterface, true
	case *types.Map:
		return kMap, true
	case *types.Pointer:
		return kPtr, true
	case *types.Slice:
		return kSlice, true
	case *types.Struct:
		return kStruct, true
	}
	return 0, false
}

func constKindBit(key string) (KindSet, bool) {
	// key is "const(N)"
	if !strings.HasPrefix(key, "const(") {
		return 0, false
	}
	n, err := strconv.Atoi(strings.TrimSuffix(strings.TrimPrefix(key, "const("), ")"))
	if err != nil || n < 0 || n >= nKinds {
		return 0, false
	}
	return 1 << uint(n), true
}

func kindConst(k int) *Sym { return &Sym{K: sConst, C: constant.MakeInt64(int64(k))} }
