package main

// C20 — translation validation: grammar/grammar.peg vs the rule table and the
// action functions compiled into grammar/grammar.go.

import (
	"bytes"
	"fmt"
	"go/ast"
	"go/parser"
	"go/printer"
	"go/scanner"
	"go/token"
	"go/types"
	"os"
	"path/filepath"
	"reflect"
	"sort"
	"strconv"
	"strings"

	"verifcheck/peg"
)

// Grammars holds both artefacts, loaded once per run.
type Grammars struct {
	Peg     *peg.Grammar
	PegPath string
	Tab     *Table
}

func loadGrammars(r *Run, prog *Program) *Grammars {
	pegPath := filepath.Join(prog.Repo, "grammar", "grammar.peg")
	src, err := os.ReadFile(pegPath)
	if err != nil {
		r.Fail("unresolved-anchor", "c20.artefacts", "grammar.peg", "grammar/grammar.peg", err.Error())
		return nil
	}
	pg, err := peg.Parse(string(src))
	if err != nil {
		r.Fail("undecided", "c20.artefacts", "grammar.peg:parse", "grammar/grammar.peg", err.Error())
		return nil
	}
	tab, err := ExtractTable(prog.Grammar)
	if err != nil {
		r.Fail("undecided", "c20.artefacts", "grammar.go:table", "grammar/grammar.go", err.Error())
		return nil
	}
	return &Grammars{Peg: pg, PegPath: pegPath, Tab: tab}
}

// normCode parses a code block as a function body and prints it without
// comments and with canonical formatting.
func normCode(code string) (string, error) {
	src := "package p\nfunc _() {\n" + code + "\n}\n"
	fset := token.NewFileSet()
	f, err := parser.ParseFile(fset, "block.go", src, 0)
	if err != nil {
		return "", err
	}
	body := f.Decls[0].(*ast.FuncDecl).Body
	return printBody(fset, body)
}

func printBody(fset *token.FileSet, body *ast.BlockStmt) (string, error) {
	var buf bytes.Buffer
	cfg := printer.Config{Mode: printer.RawFormat, Tabwidth: 1}
	if err := cfg.Fprint(&buf, fset, body); err != nil {
		return "", err
	}
	// the token sequence: formatting and comments are not a difference
	return tokenString(buf.String()), nil
}

func tokenString(src string) string {
	fs := token.NewFileSet()
	file := fs.AddFile("x.go", -1, len(src))
	var sc scanner.Scanner
	sc.Init(file, []byte(src), nil, 0) // comments are skipped
	var out []string
	for {
		_, tok, lit := sc.Scan()
		if tok == token.EOF {
			break
		}
		if tok == token.SEMICOLON && lit == "\n" {
			continue // automatically inserted at a line end
		}
		if lit != "" {
			out = append(out, lit)
		} else {
			out = append(out, tok.String())
		}
	}
	return strings.Join(out, " ")
}

// labelsInScope returns the labels visible to the code block at node n: the
// labels of the sequence the action wraps (or the single labeled expression),
// for predicates the labels of the enclosing sequence that precede it — as
// pigeon defines. Order of first appearance.
func labelsOfSeq(seq *peg.Node, upto *peg.Node) []string {
	var out []string
	add := func(l string) {
		for _, x := range out {
			if x == l {
				return
			}
		}
		out = append(out, l)
	}
	switch seq.Kind {
	case peg.Labeled:
		add(seq.Label)
	case peg.Seq:
		for _, k := range seq.Kids {
			if k == upto {
				break
			}
			if k.Kind == peg.Labeled {
				add(k.Label)
			}
		}
	}
	return out
}

func checkC20(r *Run, prog *Program, g *Grammars) {
	r.Level = "translation_validation"
	r.Technique = "static translation validation: structural comparison of grammar.peg (own PEG front-end) with the type-checked composite literal `g` and the on*/callon* declarations of grammar.go"
	pegG, tab := g.Peg, g.Tab
	fset := prog.Fset
	posT := func(n *peg.Node) string { return prog.pos(tab.NodePos[n]) }

	r.Floor("c20.rule", 25)
	r.Floor("c20.node", 300)
	r.Floor("c20.code-block", 35)
	r.Floor("c20.wrapper", 35)

	// 1. rules: number, order, names, display names
	r.Check("c20.rule-count", "rules", "grammar/grammar.go", len(pegG.Rules) == len(tab.G.Rules),
		fmt.Sprintf("grammar.peg has %d rules, table has %d", len(pegG.Rules), len(tab.G.Rules)))
	tabByName := map[string]*peg.Rule{}
	for _, tr := range tab.G.Rules {
		tabByName[tr.Name] = tr
	}
	pegByName := map[string]*peg.Rule{}
	for _, pr := range pegG.Rules {
		pegByName[pr.Name] = pr
	}
	for _, tr := range tab.G.Rules {
		if pegByName[tr.Name] == nil {
			r.Check("c20.rule", "rule:"+tr.Name, prog.pos(tab.RulePos[tr]), false, "rule "+tr.Name+" exists in the table but not in grammar.peg")
		}
	}
	usedOn := map[string]bool{}
	nodes, blocks := 0, 0
	var samples []string
	for i, pr := range pegG.Rules {
		tr := tabByName[pr.Name]
		if tr == nil {
			r.Check("c20.rule", "rule:"+pr.Name, "grammar/grammar.peg:"+strconv.Itoa(pr.Pos.Line), false, "rule "+pr.Name+" of grammar.peg has no entry in the table")
			continue
		}
		orderOK := i < len(tab.G.Rules) && tab.G.Rules[i].Name == pr.Name
		wantDisp := ""
		if pr.DisplayName != "" {
			// pigeon stores the display name as written (quoted)
			wantDisp = pr.DisplayName
		}
		r.Check("c20.rule", "rule:"+pr.Name, prog.pos(tab.RulePos[tr]), orderOK && wantDisp == tr.DisplayName,
			fmt.Sprintf("order ok=%v; displayName peg=%q table=%q", orderOK, wantDisp, tr.DisplayName))

		// 2. node by node
		var cmp func(a, b *peg.Node, path string)
		cmp = func(a, b *peg.Node, path string) {
			nodes++
			key := path
			var diffs []string
			if a.Kind != b.Kind {
				r.Check("c20.node", key, posT(b), false, fmt.Sprintf("kind: grammar.peg has %s (line %d), table has %s", a.Kind, a.Pos.Line, b.Kind))
				return
			}
			if len(a.Kids) != len(b.Kids) {
				diffs = append(diffs, fmt.Sprintf("children: peg %d, table %d", len(a.Kids), len(b.Kids)))
			}
			switch a.Kind {
			case peg.Labeled:
				if a.Label != b.Label {
					diffs = append(diffs, fmt.Sprintf("label: peg %q, table %q", a.Label, b.Label))
				}
			case peg.RuleRef:
				if a.Name != b.Name {
					diffs = append(diffs, fmt.Sprintf("rule reference: peg %q, table %q", a.Name, b.Name))
				}
			case peg.Lit:
				if a.Val != b.Val {
					diffs = append(diffs, fmt.Sprintf("literal: peg %q, table %q", a.Val, b.Val))
				}
				if a.IgnoreCase != b.IgnoreCase {
					diffs = append(diffs, fmt.Sprintf("ignoreCase: peg %v, table %v", a.IgnoreCase, b.IgnoreCase))
				}
				if a.Want != b.Want {
					diffs = append(diffs, fmt.Sprintf("want: peg %q, table %q", a.Want, b.Want))
				}
			case peg.Class:
				if a.Val != b.Val {
					diffs = append(diffs, fmt.Sprintf("class text: peg %q, table %q", a.Val, b.Val))
				}
				if !runesEq(a.Chars, b.Chars) {
					diffs = append(diffs, fmt.Sprintf("chars: peg %q, table %q", string(a.Chars), string(b.Chars)))
				}
				if !runesEq(a.Ranges, b.Ranges) {
					diffs = append(diffs, fmt.Sprintf("ranges: peg %q, table %q", string(a.Ranges), string(b.Ranges)))
				}
				if !reflect.DeepEqual(append([]string{}, a.Classes...), append([]string{}, b.Classes...)) {
					diffs = append(diffs, fmt.Sprintf("classes: peg %v, table %v", a.Classes, b.Classes))
				}
				if a.IgnoreCase != b.IgnoreCase || a.Inverted != b.Inverted {
					diffs = append(diffs, fmt.Sprintf("ignoreCase/inverted: peg %v/%v, table %v/%v", a.IgnoreCase, a.Inverted, b.IgnoreCase, b.Inverted))
				}
			case peg.Action, peg.AndCode, peg.NotCode:
				want := fmt.Sprintf("callon%s%d", pr.Name, a.Idx)
				if b.Run != want {
					diffs = append(diffs, fmt.Sprintf("run: expected (*parser).%s for node #%d, table has %s", want, a.Idx, b.Run))
				}
			}
			if a.Pos != b.Pos && b.Pos.Line != 0 {
				// informational drift only
				r.Extra["position_drift"] = true
			}
			if len(samples) < 6 {
				samples = append(samples, key)
			}
			r.Check("c20.node", key, posT(b), len(diffs) == 0, strings.Join(diffs, "; "))
			n := len(a.Kids)
			if len(b.Kids) < n {
				n = len(b.Kids)
			}
			for i := 0; i < n; i++ {
				cmp(a.Kids[i], b.Kids[i], fmt.Sprintf("%s/%s[%d]", path, a.Kind, i))
			}
		}
		cmp(pr.Expr, tr.Expr, pr.Name)

		// 3. code blocks and wrappers, driven by the .peg
		var walk func(n *peg.Node, encl *peg.Node)
		walk = func(n *peg.Node, encl *peg.Node) {
			switch n.Kind {
			case peg.Action, peg.AndCode, peg.NotCode:
				blocks++
				onName := fmt.Sprintf("on%s%d", pr.Name, n.Idx)
				callName := "call" + onName
				usedOn[onName] = true
				var labels []string
				if n.Kind == peg.Action {
					labels = labelsOfSeq(n.Kids[0], nil)
				} else if encl != nil {
					labels = labelsOfSeq(encl, n)
				}
				key := "block:" + onName
				fd := tab.On[onName]
				if fd == nil {
					r.Check("c20.code-block", key, "grammar/grammar.go", false, "no func (c *current) "+onName+" in grammar.go for the code block at grammar.peg:"+strconv.Itoa(n.Pos.Line))
				} else {
					var diffs []string
					// parameters = labels in scope, in order, typed any
					var params []string
					for _, f := range fd.Type.Params.List {
						tstr := types.ExprString(f.Type)
						for _, nm := range f.Names {
							params = append(params, nm.Name)
							if tstr != "any" && tstr != "interface{}" {
								diffs = append(diffs, "parameter "+nm.Name+" has type "+tstr)
							}
						}
					}
					if !reflect.DeepEqual(append([]string{}, params...), append([]string{}, labels...)) {
						diffs = append(diffs, fmt.Sprintf("parameters: labels in scope %v, function takes %v", labels, params))
					}
					// result types
					res := []string{}
					if fd.Type.Results != nil {
						for _, f := range fd.Type.Results.List {
							res = append(res, types.ExprString(f.Type))
						}
					}
					wantRes := []string{"any", "error"}
					if n.Kind != peg.Action {
						wantRes = []string{"bool", "error"}
					}
					if len(res) == 2 && res[0] == "interface{}" {
						res[0] = "any"
					}
					if !reflect.DeepEqual(res, wantRes) {
						diffs = append(diffs, fmt.Sprintf("results: want %v, have %v", wantRes, res))
					}
					a, err1 := normCode(n.Code)
					b, err2 := printBody(fset, fd.Body)
					if err1 != nil || err2 != nil {
						diffs = append(diffs, fmt.Sprintf("cannot parse code: %v %v", err1, err2))
					} else if a != b {
						diffs = append(diffs, "body differs: grammar.peg {"+clip(a, 160)+"} vs grammar.go {"+clip(b, 160)+"}")
					}
					r.Check("c20.code-block", key, prog.pos(fd.Pos()), len(diffs) == 0, strings.Join(diffs, "; "))
				}
				// wrapper
				cd := tab.Callon[callName]
				wkey := "wrapper:" + callName
				if cd == nil {
					r.Check("c20.wrapper", wkey, "grammar/grammar.go", false, "no func (p *parser) "+callName)
				} else {
					ok, why := checkWrapper(prog, cd, onName, labels)
					r.Check("c20.wrapper", wkey, prog.pos(cd.Pos()), ok, why)
				}
			}
			for _, k := range n.Kids {
				e := encl
				if n.Kind == peg.Seq {
					e = n
				}
				walk(k, e)
			}
		}
		walk(pr.Expr, nil)
	}

	// 6. no strays
	var strays []string
	for name := range tab.On {
		if !usedOn[name] {
			strays = append(strays, name)
		}
	}
	for name := range tab.Callon {
		if !usedOn[strings.TrimPrefix(name, "call")] {
			strays = append(strays, name)
		}
	}
	sort.Strings(strays)
	r.Check("c20.no-stray-actions", "strays", "grammar/grammar.go", len(strays) == 0, "action functions in grammar.go not derived from any code block of grammar.peg: "+strings.Join(strays, ", "))

	// every table action node is referenced exactly once
	runCount := map[string]int{}
	for _, tr := range tab.G.Rules {
		tr.Walk(func(n *peg.Node, _ string) {
			if n.Run != "" {
				runCount[n.Run]++
			}
		})
	}
	dups := []string{}
	for k, v := range runCount {
		if v != 1 {
			dups = append(dups, fmt.Sprintf("%s×%d", k, v))
		}
	}
	sort.Strings(dups)
	r.Check("c20.run-unique", "run-fields", "grammar/grammar.go", len(dups) == 0, "run: methods referenced more than once: "+strings.Join(dups, ", "))

	// initializer: package clause and imports present in grammar.go
	checkInitializer(r, prog, pegG)

	r.Extra["programs"] = len(pegG.Rules)
	r.Extra["disagreements_checked"] = nodes + 2*blocks
	r.Extra["nodes_compared"] = nodes
	r.Extra["code_blocks_compared"] = blocks
	r.Extra["sample_paths"] = samples
	r.Explain = fmt.Sprintf("Complete structural comparison of grammar.peg and grammar.go on this tree: %d rules, %d expression nodes compared field by field (kind, order, labels, references, literals incl. want, character classes incl. chars/ranges/unicode classes/inverted/ignoreCase, run-method naming by pre-order index), %d code blocks compared as Go ASTs modulo formatting/comments with parameter lists = labels in scope, %d callon wrappers checked for label wiring, no stray action functions, initializer imports present. Positions embedded in the table are informational.", len(pegG.Rules), nodes, blocks, blocks)
	r.Assume = append(r.Assume,
		"the PEG front-end (/verif/checker/peg) reads pigeon's notation as pigeon does for the constructs used; it rejects constructs it does not model; it is validated by reproducing every node of the shipped table",
		"go/parser and go/types resolve grammar.go as the compiler does")
}

func clip(s string, n int) string {
	if len(s) > n {
		return s[:n] + "…"
	}
	return s
}

func runesEq(a, b []rune) bool {
	if len(a) != len(b) {
		return false
	}
	for i := range a {
		if a[i] != b[i] {
			return false
		}
	}
	return true
}

// checkWrapper: callonX must return p.cur.onX(stack["l1"], stack["l2"], ...)
// where stack is the top frame of p.vstack.
func checkWrapper(prog *Program, cd *ast.FuncDecl, onName string, labels []string) (bool, string) {
	info := prog.Grammar.TypesInfo
	var ret *ast.ReturnStmt
	nret := 0
	ast.Inspect(cd.Body, func(n ast.Node) bool {
		if rs, ok := n.(*ast.ReturnStmt); ok {
			ret = rs
			nret++
		}
		return true
	})
	if nret != 1 || len(ret.Results) != 1 {
		return false, "wrapper does not consist of a single return of one call"
	}
	call, ok := ret.Results[0].(*ast.CallExpr)
	if !ok {
		return false, "wrapper does not return a call"
	}
	sel, ok := call.Fun.(*ast.SelectorExpr)
	if !ok {
		return false, "wrapper callee is not a method"
	}
	s := info.Selections[sel]
	if s == nil || s.Obj().Name() != onName {
		return false, fmt.Sprintf("wrapper calls %s, expected %s", types.ExprString(call.Fun), onName)
	}
	// receiver must be p.cur
	if rs, ok := sel.X.(*ast.SelectorExpr); !ok || rs.Sel.Name != "cur" {
		return false, "receiver of the action call is not p.cur"
	}
	// the stack variable: := p.vstack[len(p.vstack)-1]
	var stackObj types.Object
	for _, st := range cd.Body.List {
		as, ok := st.(*ast.AssignStmt)
		if !ok || len(as.Lhs) != 1 || len(as.Rhs) != 1 {
			continue
		}
		id, ok := as.Lhs[0].(*ast.Ident)
		if !ok || id.Name == "_" {
			continue
		}
		ix, ok := as.Rhs[0].(*ast.IndexExpr)
		if !ok {
			continue
		}
		if xs, ok := ix.X.(*ast.SelectorExpr); ok && xs.Sel.Name == "vstack" {
			// index must be len(p.vstack)-1
			if strings.Join(strings.Fields(types.ExprString(ix.Index)), "") == "len(p.vstack)-1" {
				stackObj = info.Defs[id]
			}
		}
	}
	if len(labels) > 0 && stackObj == nil {
		return false, "no `stack := p.vstack[len(p.vstack)-1]` found"
	}
	if len(call.Args) != len(labels) {
		return false, fmt.Sprintf("wrapper passes %d arguments, %d labels are in scope", len(call.Args), len(labels))
	}
	for i, a := range call.Args {
		ix, ok := a.(*ast.IndexExpr)
		if !ok {
			return false, "argument is not stack[\"label\"]"
		}
		id, ok := ix.X.(*ast.Ident)
		if !ok || info.Uses[id] != stackObj {
			return false, "argument does not index the top vstack frame"
		}
		tv := info.Types[ix.Index]
		if tv.Value == nil {
			return false, "label index is not a constant"
		}
		got, _ := strconv.Unquote(tv.Value.ExactString())
		if got != labels[i] {
			return false, fmt.Sprintf("argument %d reads label %q, the grammar binds %q", i, got, labels[i])
		}
	}
	return true, ""
}

func checkInitializer(r *Run, prog *Program, pg *peg.Grammar) {
	if pg.Init == "" {
		r.Check("c20.initializer", "initializer", "grammar/grammar.peg", false, "no initializer block in grammar.peg")
		return
	}
	f, err := parser.ParseFile(token.NewFileSet(), "init.go", pg.Init, parser.ImportsOnly)
	if err != nil {
		r.Check("c20.initializer", "initializer", "grammar/grammar.peg", false, "initializer does not parse: "+err.Error())
		return
	}
	gf := fileOf(prog.Grammar, "grammar.go")
	if gf == nil {
		r.Fail("unresolved-anchor", "c20.initializer", "grammar.go", "grammar/grammar.go", "grammar.go not loaded")
		return
	}
	have := map[string]bool{}
	for _, im := range gf.Imports {
		p, _ := strconv.Unquote(im.Path.Value)
		have[p] = true
	}
	var missing []string
	for _, im := range f.Imports {
		p, _ := strconv.Unquote(im.Path.Value)
		if !have[p] {
			missing = append(missing, p)
		}
	}
	ok := f.Name.Name == gf.Name.Name && len(missing) == 0
	r.Check("c20.initializer", "initializer", "grammar/grammar.go:1", ok,
		fmt.Sprintf("package peg=%s go=%s; imports of the initializer missing from grammar.go: %v", f.Name.Name, gf.Name.Name, missing))
}
