package main

// C10 — creating an evaluator is total: result xor error, everything input
// dependent under recover, type-safe post-parse assertion, terminating grammar.

import (
	"fmt"
	"go/ast"
	"go/constant"
	"go/token"
	"go/types"
	"sort"
	"strings"

	"golang.org/x/tools/go/ssa"
)

// checkResultShape: every return of fn (a constructor returning (*T, error)) is
// (nil, non-nil error) or (non-nil, nil); (nil, nil) only under `expression == ""` for CreateFilter.
func checkResultShape(r *Run, prog *Program, a *Anchors, fn *ssa.Function, pfx string) {
	r.Analysed(fn.String())
	ps := NewPathSim(prog)
	// constructor helpers (a function that assembles the Evaluator, one that parses) are interpreted in place
	ps.Inline = func(c *ssa.Function) bool { return bexprHelper(prog, a, c) && !recursive(prog, c) }
	sums := ps.Run(fn)
	r.Floor(pfx+".result-shape", 2)
	for _, sm := range sums {
		if sm.Panic != nil {
			r.Check(pfx+".result-shape", fn.Name()+":panic", prog.pos(sm.Panic.Pos()), false, "explicit panic in "+fn.Name())
			continue
		}
		if len(sm.Results) != 2 {
			continue
		}
		v, e := sm.Results[0], sm.Results[1]
		ec := errClass(sm, e)
		vNil := v.IsNil()
		vNon := definitelyNonNil(v)
		if !vNil && !vNon {
			// result of a constructor call checked for error: non-nil when its error is nil (induction: CreateEvaluator's own shape)
			if v.K == sRes && v.Idx == 0 {
				if callee, _ := calleeOfSym(v.A); callee == a.CreateEv {
					if eq, ok := evalEq(sm.St, &Sym{K: sRes, A: v.A, Idx: 1}, nilSym()); ok && eq {
						vNon = true
					}
				}
			}
		}
		ok := false
		why := fmt.Sprintf("returns (%s, %s): result nil=%v non-nil=%v, error %s", shortKey(v), shortKey(e), vNil, vNon, ec)
		switch {
		case vNil && ec == "nonnil":
			ok = true
		case vNon && ec == "nil":
			ok = true
		case vNil && ec == "nil" && fn == a.CreateFi:
			// only for the empty expression
			emp := &Sym{K: sCmp, Op: token.EQL, A: paramSym(fn.Params[0]), B: &Sym{K: sConst, C: constant.MakeString("")}}
			emp2 := &Sym{K: sCmp, Op: token.EQL, A: &Sym{K: sLen, A: paramSym(fn.Params[0])}, B: &Sym{K: sConst, C: constant.MakeInt64(0)}}
			if t, known := evalBool(sm.St, emp); known && t {
				ok = true
			} else if t, known := evalBool(sm.St, emp2); known && t {
				ok = true
			} else {
				why += "; the nil Filter with a nil error is only documented for the empty expression"
			}
		}
		r.Check(pfx+".result-shape", fmt.Sprintf("%s:return(%s,%s)", fn.Name(), symClass(v), ec), prog.pos(sm.Ret.Pos()), ok, why+" [path "+strings.Join(sm.St.trail, " ")+"]")
	}
}

func symClass(s *Sym) string {
	switch {
	case s.IsNil():
		return "nil"
	case definitelyNonNil(s):
		return "fresh"
	}
	return s.K.String()
}

// checkCreateEvaluator: acceptance coincides with the parser's; the asserted value is the parse result.
func checkCreateEvaluator(r *Run, prog *Program, a *Anchors, ga *GA, pfx string) {
	fn := a.CreateEv
	// every path: exactly one call to grammar.Parse, bytes = []byte(expression), error returned as is
	ps := NewPathSim(prog)
	ps.Inline = func(c *ssa.Function) bool { return bexprHelper(prog, a, c) }
	sums := ps.Run(fn)
	pExpr := paramSym(fn.Params[0])
	for _, sm := range sums {
		if sm.Ret == nil {
			continue
		}
		parses := sm.callsTo(a.Parse)
		pos := prog.pos(sm.Ret.Pos())
		if len(parses) != 1 {
			r.Check(pfx+".parse-call", "count", pos, false, fmt.Sprintf("%d calls to grammar.Parse on one path of CreateEvaluator", len(parses)))
			continue
		}
		p := parses[0]
		okB := len(p.Args) >= 2 && p.Args[1].K == sConvert && p.Args[1].A.Key() == pExpr.Key()
		r.Check(pfx+".parse-call", "bytes", prog.pos(p.Instr.Pos()), okB, "grammar.Parse must be given []byte(expression) and nothing else; got "+shortKey(p.Args[1]))
		perr := &Sym{K: sRes, A: p.Res, Idx: 1}
		eq, known := evalEq(sm.St, perr, nilSym())
		if !known {
			r.Check(pfx+".parse-call", "error-tested", pos, false, "CreateEvaluator returns without testing grammar.Parse's error")
			continue
		}
		if !eq {
			ok := sm.Results[0].IsNil() && sm.Results[1].Key() == perr.Key()
			r.Check(pfx+".parse-call", "error-returned", pos, ok, "a parse error must be returned as (nil, that error)")
		} else {
			ok := definitelyNonNil(sm.Results[0]) && sm.Results[1].IsNil()
			r.Check(pfx+".parse-call", "accepted", pos, ok, "a string grammar.Parse accepts must yield (evaluator, nil): acceptance has to coincide with the parser's")
		}
	}
	// the post-parse assertion is type-safe: the entry rule's value types on error-free runs all implement Expression
	if ga != nil && len(ga.order) > 0 {
		exprT := prog.grammarType("Expression")
		ts := setKeys(ga.rtypes[ga.order[0].Name])
		var bad []string
		for _, t := range ts {
			ok, dec := ga.assertable(t, exprT)
			if !dec || !ok {
				bad = append(bad, t)
			}
		}
		r.Check(pfx+".entry-result-type", "entry:"+ga.order[0].Name, ga.prog.pos(ga.tab.RulePos[ga.order[0]]), len(bad) == 0 && len(ts) > 0,
			fmt.Sprintf("on error-free runs the entry rule yields %v; not assertable to grammar.Expression: %v (the unguarded assertion in CreateEvaluator would panic, or a nil Expression would be returned)", ts, bad))
	}
	// the assertion in CreateEvaluator is applied to Parse's first result only on the err == nil path: checked through C09-style site analysis
	for _, b := range fn.Blocks {
		for _, ins := range b.Instrs {
			ta, ok := ins.(*ssa.TypeAssert)
			if !ok || ta.CommaOk {
				continue
			}
			root, _ := rootOf(ta.X)
			okR := false
			if ex, isEx := root.(*ssa.Extract); isEx && ex.Index == 0 {
				if c, isCall := ex.Tuple.(*ssa.Call); isCall && c.Call.StaticCallee() == a.Parse {
					okR = true
				}
			}
			r.Check(pfx+".post-parse-assertion", "CreateEvaluator:assert", prog.pos(ta.Pos()), okR && namedIs(ta.AssertedType, grammarPath, "Expression"),
				"single-value assertion in CreateEvaluator on something other than grammar.Parse's result")
		}
	}
}

// checkRecoverDiscipline: in (*parser).parse every input-dependent call happens after the deferred recover is installed.
func checkRecoverDiscipline(r *Run, prog *Program, pfx string) {
	parse := prog.Method(prog.GrammarSSA, "parser", "parse", true)
	if parse == nil {
		r.Fail("unresolved-anchor", pfx+".recover", "(*parser).parse", "grammar/grammar.go", "method not found")
		return
	}
	r.Analysed(parse.String())
	// the deferred closure that recovers
	var deferIns *ssa.Defer
	var recoverFn *ssa.Function
	for _, b := range parse.Blocks {
		for _, ins := range b.Instrs {
			if d, ok := ins.(*ssa.Defer); ok {
				var fn *ssa.Function
				if mc, ok := d.Call.Value.(*ssa.MakeClosure); ok {
					fn, _ = mc.Fn.(*ssa.Function)
				} else {
					fn = d.Call.StaticCallee()
				}
				if fn != nil && callsBuiltin(fn, "recover") {
					deferIns, recoverFn = d, fn
				}
			}
		}
	}
	if deferIns == nil {
		r.Check(pfx+".recover", "defer-recover", prog.pos(parse.Pos()), false, "(*parser).parse installs no deferred function that calls recover()")
		return
	}
	// the defer is guarded only by `p.recover`
	guardOK := false
	db := deferIns.Block()
	if len(db.Preds) == 1 {
		if ifi, ok := db.Preds[0].Instrs[len(db.Preds[0].Instrs)-1].(*ssa.If); ok && db.Preds[0].Succs[0] == db {
			if ld, ok := ifi.Cond.(*ssa.UnOp); ok {
				if fa, ok := ld.X.(*ssa.FieldAddr); ok && fieldName(fa.X.Type(), fa.Field) == "recover" {
					guardOK = true
				}
			}
		}
	}
	r.Check(pfx+".recover", "defer-guard", prog.pos(deferIns.Pos()), guardOK, "the recovering defer is not guarded by exactly the parser's recover flag")
	// input-dependent calls: anything that can reach read / parseRule / parseExpr / an action
	sensitive := map[*ssa.Function]bool{}
	for _, n := range []string{"read", "parseRule", "parseExpr"} {
		if f := prog.Method(prog.GrammarSSA, "parser", n, true); f != nil {
			sensitive[f] = true
		} else {
			r.Fail("unresolved-anchor", pfx+".recover", "(*parser)."+n, "grammar/grammar.go", "method not found")
		}
	}
	dom := func(a, b *ssa.BasicBlock) bool { return a.Dominates(b) }
	n := 0
	for _, b := range parse.Blocks {
		for i, ins := range b.Instrs {
			c, ok := ins.(*ssa.Call)
			if !ok {
				continue
			}
			callee := c.Call.StaticCallee()
			if callee == nil || !prog.InModule(callee) {
				continue
			}
			reach, _ := prog.Reachable(callee)
			hit := false
			for f := range sensitive {
				if reach[f] {
					hit = true
				}
			}
			if !hit {
				continue
			}
			n++
			// the call must come after the block that decides on the defer: i.e. be dominated by the join after `if p.recover {defer}`
			// = every path from entry to the call passes the If on p.recover
			ifBlock := db.Preds[0]
			after := dom(ifBlock, b) && b != ifBlock
			if b == ifBlock {
				after = false
			}
			_ = i
			r.Check(pfx+".recover", "guarded-call:"+callee.Name(), prog.pos(c.Pos()), after && guardOK, "call to "+callee.Name()+" (which reads input / runs actions) is reachable before the deferred recover is installed")
		}
	}
	// the recovering function itself never panics again: whatever was recovered becomes a recorded error
	rePanic := false
	for _, b := range recoverFn.Blocks {
		for _, ins := range b.Instrs {
			if _, ok := ins.(*ssa.Panic); ok {
				rePanic = true
			}
		}
	}
	r.Check(pfx+".recover", "no-repanic", prog.pos(recoverFn.Pos()), !rePanic, "the function that recovers a panic raised while parsing panics again for some recovered values: an input could crash Parse / CreateEvaluator")
	r.Check(pfx+".recover", "guarded-calls", prog.pos(parse.Pos()), n >= 2, fmt.Sprintf("info: %d input-dependent calls in (*parser).parse, all after the recover guard", n))
	// the recover flag: written only by newParser (true) and by the Recover option (unused: checked by parser-option-unused)
	for _, fa := range prog.FieldAccesses(prog.ModuleFuncs()) {
		if fa.Struct.Obj().Name() == "parser" && fa.Field == "recover" && fa.Kind == "write" {
			ok := false
			if np := prog.GrammarSSA.Func("newParser"); np != nil && ctorPart(prog, np, fa.Fn) {
				if c, isC := fa.Val.(*ssa.Const); isC && c.Value != nil && c.Value.Kind() == constant.Bool && constant.BoolVal(c.Value) {
					ok = true
				}
			}
			if fa.Fn.Parent() != nil && fa.Fn.Parent().Name() == "Recover" {
				ok = true // the option closure; its constructor has no caller (parser-option-unused)
			}
			r.Check(pfx+".recover", "recover-flag-writer:"+fa.Fn.Name(), prog.pos(fa.Instr.Pos()), ok, "parser.recover is written somewhere other than newParser (true) and the unused Recover option")
		}
	}
	// the deferred closure turns the panic into a non-nil error and a nil value
	if recoverFn != nil {
		// the places the recovering function writes parse's results through: captured result variables, or pointer
		// parameters that the defer statement binds to their addresses
		resultOf := map[ssa.Value]int{}
		resName := func(i int) string {
			if rs := parse.Signature.Results(); rs.Len() == 2 {
				return rs.At(i).Name()
			}
			return ""
		}
		bind := func(inner ssa.Value, outer ssa.Value) {
			if al, ok := outer.(*ssa.Alloc); ok && al.Comment != "" {
				for i := 0; i < 2; i++ {
					if al.Comment == resName(i) {
						resultOf[inner] = i
					}
				}
			}
		}
		if mc, ok := deferIns.Call.Value.(*ssa.MakeClosure); ok {
			for i, b := range mc.Bindings {
				if i < len(recoverFn.FreeVars) {
					bind(recoverFn.FreeVars[i], b)
				}
			}
		} else {
			for i, a := range deferIns.Call.Args {
				if i < len(recoverFn.Params) {
					bind(recoverFn.Params[i], a)
				}
			}
		}
		setsVal, setsErr := false, false
		for _, b := range recoverFn.Blocks {
			for _, ins := range b.Instrs {
				if st, ok := ins.(*ssa.Store); ok {
					if i, ok := resultOf[st.Addr]; ok {
						switch i {
						case 0:
							if c, ok := st.Val.(*ssa.Const); ok && c.Value == nil {
								setsVal = true
							}
						case 1:
							setsErr = true
						}
					}
				}
			}
		}
		r.Check(pfx+".recover", "recover-sets-results", prog.pos(recoverFn.Pos()), setsVal && setsErr && callsMethod(recoverFn, "addErr"), "the recovering closure must record the panic with addErr, set val = nil and err = p.errs.err()")
		// … in that order: the list is turned into the error after the panic has been put on it (taken before, it may
		// still be empty, and (nil, nil) reaches the caller's type assertion)
		if errM := prog.Method(prog.GrammarSSA, "errList", "err", true); errM != nil {
			psR := NewPathSim(prog)
			okOrder, whyOrder := true, ""
			for _, sm := range psR.Run(recoverFn) {
				lastAdd, lastErr := -1, -1
				for i, ev := range sm.Events() {
					if ev.Instr == nil || ev.Callee == nil {
						continue
					}
					if ev.Callee.Name() == "addErr" || ev.Callee.Name() == "addErrAt" {
						lastAdd = i
					}
					if ev.Callee == errM || (ev.Callee.Name() == errM.Name() && ev.Callee.Signature.Recv() != nil) {
						lastErr = i
					}
				}
				if lastAdd >= 0 && lastErr < lastAdd {
					okOrder = false
					whyOrder = "on a path of the recovering function the error list is read (errs.err()) before the recovered panic is recorded [path " + strings.Join(sm.St.trail, " ") + "]"
				}
			}
			r.Check(pfx+".recover", "recover-records-then-reads", prog.pos(recoverFn.Pos()), okOrder, whyOrder)
		}
	}
	// errList.err() is nil iff the list is empty
	if ef := prog.Method(prog.GrammarSSA, "errList", "err", true); ef != nil {
		ps := NewPathSim(prog)
		ok := true
		for _, sm := range ps.Run(ef) {
			if sm.Ret == nil || len(sm.Results) != 1 {
				ok = false
				continue
			}
			if sm.Results[0].IsNil() {
				// only when len(*e) == 0
				found := false
				for k, v := range sm.St.facts {
					if v && strings.HasPrefix(k, "cmp(==,const(0),len(") {
						found = true
					}
				}
				for k, c := range sm.St.eqc {
					if strings.HasPrefix(k, "len(") && c == "const(0)" {
						found = true
					}
				}
				if !found {
					ok = false
				}
			}
		}
		r.Check(pfx+".recover", "errList.err", prog.pos(ef.Pos()), ok, "errList.err must return nil only for an empty list")
	}
	// parse returns p.errs.err() on the ok path and adds an error on the not-ok path if none was recorded
	checkParseReturns(r, prog, parse, pfx)
	unprotectedPanicSites(r, prog, parse, recoverFn, pfx)
}

// unprotectedPanicSites: what runs outside the protection of the deferred recover must not panic implicitly either — the
// entry points and the constructor (before the defer is installed) and the recovering function with everything it calls
// to record the error (a panic there escapes Parse). The C09 site analysis (index, slice, conversion, assertion) is run on
// exactly these functions.
func unprotectedPanicSites(r *Run, prog *Program, parse, recoverFn *ssa.Function, pfx string) {
	a := FindAnchors(prog)
	if len(a.Missing) != 0 || prog.GrammarSSA == nil {
		return
	}
	roots := map[*ssa.Function]bool{}
	add := func(f *ssa.Function) {
		if f != nil && len(f.Blocks) > 0 {
			roots[f] = true
		}
	}
	add(recoverFn)
	np := prog.GrammarSSA.Func("newParser")
	add(np)
	add(a.Parse)
	for _, f := range prog.ModuleFuncs() {
		if f.Pkg != prog.GrammarSSA {
			continue
		}
		if np != nil && ctorPart(prog, np, f) {
			add(f)
		}
	}
	// everything the recovering function can reach inside the module
	if recoverFn != nil {
		// by static calls inside the grammar package (what formatting packages may call back is not run here)
		work := []*ssa.Function{recoverFn}
		seen := map[*ssa.Function]bool{recoverFn: true}
		for len(work) > 0 {
			f := work[0]
			work = work[1:]
			add(f)
			for _, b := range f.Blocks {
				for _, ins := range b.Instrs {
					if c, ok := ins.(ssa.CallInstruction); ok {
						if g := c.Common().StaticCallee(); g != nil && !seen[g] && g.Pkg == prog.GrammarSSA && len(g.Blocks) > 0 {
							seen[g] = true
							work = append(work, g)
						}
					}
				}
			}
		}
	}
	r.importing = "C09"
	c09SiteKinds = map[string]bool{"index": true, "slice": true, "type-assert": true, "division": true, "explicit-panic": true, "map-store": true}
	checkPanicSites(r, prog, a, "c09", roots, nil, false, 3)
	c09SiteKinds = nil
	r.importing = ""
}

func callsBuiltin(fn *ssa.Function, name string) bool {
	for _, b := range fn.Blocks {
		for _, ins := range b.Instrs {
			if c, ok := ins.(ssa.CallInstruction); ok {
				if bi, ok := c.Common().Value.(*ssa.Builtin); ok && bi.Name() == name {
					return true
				}
			}
		}
	}
	return false
}

func callsMethod(fn *ssa.Function, name string) bool {
	for _, b := range fn.Blocks {
		for _, ins := range b.Instrs {
			if c, ok := ins.(ssa.CallInstruction); ok {
				if f := c.Common().StaticCallee(); f != nil && f.Name() == name {
					return true
				}
			}
		}
	}
	return false
}

// checkParseReturns: every normal return of (*parser).parse has err = p.errs.err(); on the
// not-matched path an error is recorded first when the list is empty.
func checkParseReturns(r *Run, prog *Program, parse *ssa.Function, pfx string) {
	errM := prog.Method(prog.GrammarSSA, "errList", "err", true)
	// syntactic-on-SSA: each Return's error operand is (a load of the named result after) a call to errList.err
	fd := funcDecl(prog.Grammar, "parser", "parse")
	if fd == nil || errM == nil {
		r.Fail("unresolved-anchor", pfx+".parse-returns", "parse", "grammar/grammar.go", "declaration not found")
		return
	}
	n, bad := 0, 0
	ast.Inspect(fd.Body, func(x ast.Node) bool {
		if _, ok := x.(*ast.FuncLit); ok {
			return false
		}
		rs, ok := x.(*ast.ReturnStmt)
		if !ok {
			return true
		}
		n++
		if len(rs.Results) != 2 {
			bad++
			return true
		}
		call, ok := ast.Unparen(rs.Results[1]).(*ast.CallExpr)
		if !ok {
			bad++
			return true
		}
		sel, ok := call.Fun.(*ast.SelectorExpr)
		if !ok || prog.Grammar.TypesInfo.Uses[sel.Sel] != errM.Object() {
			bad++
		}
		return true
	})
	// the same two rules on the paths of parse (helpers of parse interpreted in place): a restructured parse is judged
	// by what its paths do, the spelling below is the quick way to the same verdict
	pAll, pNo, _, pDetail := parseReturnsOnPaths(prog, parse, errM)
	if pAll && !(n >= 2 && bad == 0) {
		n, bad = 2, 0
	}
	r.Check(pfx+".parse-returns", "all-return-errs.err()", prog.pos(parse.Pos()), n >= 2 && bad == 0, fmt.Sprintf("%d of %d returns of (*parser).parse do not return p.errs.err() as the error: an ok parse with recorded errors could return a nil error", bad, n))
	// not-ok path: `if len(*p.errs) == 0 { … addErrAt … }` precedes `return nil, p.errs.err()`
	okNot := false
	ast.Inspect(fd.Body, func(x ast.Node) bool {
		is, ok := x.(*ast.IfStmt)
		if !ok {
			return true
		}
		// if !ok { if len(*p.errs) == 0 { ...addErrAt } return nil, p.errs.err() }
		if u, isU := ast.Unparen(is.Cond).(*ast.UnaryExpr); isU && u.Op == token.NOT {
			hasInner, hasRet := false, false
			for _, st := range is.Body.List {
				if inner, ok := st.(*ast.IfStmt); ok {
					s := strings.Join(strings.Fields(types.ExprString(inner.Cond)), "")
					if s == "len(*p.errs)==0" {
						ast.Inspect(inner.Body, func(y ast.Node) bool {
							if c, ok := y.(*ast.CallExpr); ok {
								if se, ok := c.Fun.(*ast.SelectorExpr); ok && (se.Sel.Name == "addErrAt" || se.Sel.Name == "addErr") {
									hasInner = true
								}
							}
							return true
						})
					}
				}
				if rs, ok := st.(*ast.ReturnStmt); ok && len(rs.Results) == 2 {
					if id, ok := ast.Unparen(rs.Results[0]).(*ast.Ident); ok && id.Name == "nil" {
						hasRet = true
					}
				}
			}
			if hasInner && hasRet {
				okNot = true
			}
		}
		return true
	})
	if !okNot && pNo {
		okNot = true
	}
	if okNot && !pNo && pDetail != "" {
		r.Check(pfx+".parse-returns", "no-match-adds-error:paths", prog.pos(parse.Pos()), false, pDetail)
	}
	r.Check(pfx+".parse-returns", "no-match-adds-error", prog.pos(parse.Pos()), okNot, "on the no-match path (*parser).parse must record an error when none was recorded and return (nil, p.errs.err()): "+pDetail)
}

func init() {
	register("C10", true, func(r *Run, prog *Program) {
		a := FindAnchors(prog)
		if !a.Require(r, "c10.anchors") {
			return
		}
		var ga *GA
		g := loadGrammars(r, prog)
		if g != nil {
			ga = NewGA(prog, g.Tab)
		}
		checkResultShape(r, prog, a, a.CreateEv, "c10")
		checkResultShape(r, prog, a, a.CreateFi, "c10")
		checkCreateEvaluator(r, prog, a, ga, "c10")
		checkRecoverDiscipline(r, prog, "c10")
		checkRecordedErrorsNonNil(r, prog, "c10")
		checkParserOptionCallers(r, prog, "c10")
		r.importing = "C18"
		checkGetOpts(r, prog, a, "c18") // no budget unless one is asked for: CreateEvaluator accepts what grammar.Parse accepts
		r.importing = "C17"
		checkFilter(r, prog, a, "c17") // what CreateFilter hands back can be executed: the nil filter of the empty expression too
		r.importing = "C19"
		checkDumpPanicSites(r, prog, a, ga, "c19") // "… and a syntax tree returned without error dumped, without panicking"
		r.importing = ""
		if ga != nil {
			checkWellFormed(r, ga, "c10")
			checkActionTyping(r, ga, "c10")
		}
		// creation-time work outside the parser (the regexp precompilation walk) must not panic either
		roots := map[*ssa.Function]bool{}
		cs, _ := prog.Reachable(a.CreateEv, a.CreateFi)
		ps, _ := prog.Reachable(a.Parse)
		for f := range cs {
			if !ps[f] && prog.Bexpr.Types == fnPkg(f) {
				roots[f] = true
			}
		}
		checkPanicSites(r, prog, a, "c10", roots, ga, false, 3)
		// "a returned evaluator can always be evaluated": C09's obligations, imported
		r.importing = "C09"
		eroots := map[*ssa.Function]bool{}
		for f := range a.EvalSet {
			eroots[f] = true
		}
		checkPanicSites(r, prog, a, "c09", eroots, ga, true, 40)
		r.importing = ""
		r.Technique = "path-sensitive result-shape analysis of the constructors; dominance/ordering analysis of (*parser).parse w.r.t. the deferred recover; field-write census for the recover flag; grammar result-type inference for the post-parse assertion; PEG termination conditions; panic-site obligations for creation-time code outside the parser"
		r.Explain = "Input-independent argument, hence valid for every byte string: (1) every return of CreateEvaluator/CreateFilter is (nil, non-nil error) or (non-nil, nil) — (nil, nil) only under expression == \"\"; (2) acceptance coincides with grammar.Parse's error, which is p.errs.err() at every return, non-nil iff an error was recorded, and an error is recorded whenever there is no match; (3) every call in (*parser).parse that can reach read/parseRule/parseExpr/actions comes after the recover guard, whose flag is true and has no other writer; the recovering closure nils the value and returns the recorded error; (4) on error-free runs the entry rule yields only types implementing grammar.Expression, so the unguarded assertion cannot panic and the Expression is non-nil; all action assertions are satisfied; (5) no left recursion and no nullable repetition, so the recursive descent terminates; (6) creation-time code outside the parser has no undischarged panic site. Usability of the result (Evaluate / Dump total) is C09 / C19. NOT decided: stack exhaustion on absurd nesting; panics raised by caller-supplied Option functions."
		r.Assume = append(r.Assume, "a Go panic raised below a deferred recover in the same goroutine is recovered", "regexp.Compile does not panic")
	})
}

// checkRecordedErrorsNonNil: whatever is put on the parser's error list is an error: every call of addErr / addErrAt hands
// over a value that is not nil on that path (a sentinel, a freshly made error, a recovered value asserted to be an
// error, an error tested against nil, the caller's own parameter under the same obligation). A nil entry makes the
// list's own rendering dereference nil — inside parse's deferred handler, where nothing recovers any more.
func checkRecordedErrorsNonNil(r *Run, prog *Program, pfx string) {
	addErr := prog.Method(prog.GrammarSSA, "parser", "addErr", true)
	addErrAt := prog.Method(prog.GrammarSSA, "parser", "addErrAt", true)
	if addErr == nil && addErrAt == nil {
		r.Fail("unresolved-anchor", pfx+".recorded-errors", "addErr", "grammar/grammar.go", "addErr / addErrAt not found")
		return
	}
	sinks := map[*ssa.Function]bool{}
	for _, f := range []*ssa.Function{addErr, addErrAt} {
		if f != nil {
			sinks[f] = true
		}
	}
	// the parameter through which a sink takes the error
	errParam := func(f *ssa.Function) int {
		for i, p := range f.Params {
			if isErrorType(p.Type()) {
				return i
			}
		}
		return -1
	}
	n := 0
	for _, fn := range prog.ModuleFuncs() {
		if fn.Pkg != prog.GrammarSSA || len(fn.Blocks) == 0 {
			continue
		}
		calls := false
		for _, b := range fn.Blocks {
			for _, ins := range b.Instrs {
				if c, ok := ins.(ssa.CallInstruction); ok && sinks[c.Common().StaticCallee()] {
					calls = true
				}
			}
		}
		if !calls {
			continue
		}
		fn := fn
		type verdict struct {
			ok  bool
			why string
		}
		sites := map[ssa.Instruction]*verdict{}
		ps := NewPathSim(prog)
		ps.maxVisits = 2
		ps.OnEvent = func(st *pstate, ev *Event) {
			if ev.Instr == nil || ev.Inlined || !sinks[ev.Callee] || ev.In != fn {
				return
			}
			k := errParam(ev.Callee)
			if k < 0 || k >= len(ev.Args) {
				return
			}
			x := ev.Args[k]
			ok := definitelyNonNil(x)
			if !ok {
				if eq, known := evalEq(st, x, nilSym()); known && !eq {
					ok = true
				}
			}
			if !ok && x.K == sTAValue && x.A != nil {
				// the value of `e.(error)` where the assertion is known to have succeeded: an interface holding something
				if v, known := evalBool(st, &Sym{K: sTAOk, A: x.A, T: x.T}); known && v {
					ok = true
				}
			}
			if !ok && x.K == sParam && sinks[fn] {
				ok = true // a sink forwarding its own parameter: its callers carry the obligation
			}
			if !ok && x.K == sLoad && x.A != nil && x.A.K == sGlobal {
				// a package-level sentinel that is assigned once, with an error made in place
				if g, isG := x.A.V.(*ssa.Global); isG && prog.Globals() != nil {
					if v, found := prog.Globals().loadGlobal(g, nil, x.T); found && v != nil && definitelyNonNil(v) {
						ok = true
					}
				}
			}
			ins := ev.Instr.(ssa.Instruction)
			v := sites[ins]
			if v == nil {
				v = &verdict{ok: true}
				sites[ins] = v
			}
			if !ok {
				v.ok = false
				v.why = "the value recorded, " + shortKey(x) + ", is not known to be a non-nil error here [path " + strings.Join(st.trail, " ") + "]"
			}
		}
		ps.Run(fn)
		// closures of fn (the deferred handler) are functions of their own in the loop above
		var order []ssa.Instruction
		for ins := range sites {
			order = append(order, ins)
		}
		sort.Slice(order, func(i, j int) bool { return order[i].Pos() < order[j].Pos() })
		for k, ins := range order {
			n++
			v := sites[ins]
			r.Check(pfx+".recorded-errors", fmt.Sprintf("%s:record#%d", fn.Name(), k+1), prog.pos(ins.Pos()), v.ok, v.why)
		}
	}
	r.Check(pfx+".recorded-errors", "census", "grammar/grammar.go", n >= 4, fmt.Sprintf("info: %d recording sites examined", n))
}
