package main

// Rules added after the fourth round of independently seeded changes.

import (
	"fmt"
	"go/constant"
	"go/types"
	"strings"

	"golang.org/x/tools/go/ssa"
)

// checkMatchesSubject: what the regular expression of matches / not matches is applied to is the bytes of the value
// (value.Convert([]byte)), or value.String() on a path where the value's kind is String — never the placeholder text
// reflect prints for other kinds.
func checkMatchesSubject(r *Run, prog *Program, a *Anchors, pfx string) {
	n := 0
	for _, m := range a.Matchers {
		ps := NewPathSim(prog)
		ps.Inline = func(c *ssa.Function) bool { return bexprHelper(prog, a, c) && !recursive(prog, c) }
		ke := &kindEnv{prog: prog}
		_, pv := matcherOperands(m)
		if pv == nil {
			continue
		}
		sums := ps.Run(m)
		applies := false
		for _, sm := range sums {
			for _, ev := range sm.Events() {
				if ev.Instr != nil && ev.Callee != nil && ev.Callee.Pkg != nil && ev.Callee.Pkg.Pkg.Path() == "regexp" && ev.Callee.Signature.Recv() != nil && strings.HasPrefix(ev.Callee.Name(), "Match") {
					applies = true
				}
			}
		}
		if applies {
			// the matcher of `matches`: whatever it answers without an error is the verdict of the regular expression
			// itself — one Match call, its result returned as it is (no shortcut that answers in its place)
			for _, sm := range sums {
				if sm.Ret == nil || len(sm.Results) != 2 || errClass(sm, sm.Results[1]) != "nil" {
					continue
				}
				var verdicts []Event
				for _, ev := range sm.Events() {
					if ev.Instr != nil && ev.Callee != nil && ev.Callee.Pkg != nil && ev.Callee.Pkg.Pkg.Path() == "regexp" && ev.Callee.Signature.Recv() != nil && strings.HasPrefix(ev.Callee.Name(), "Match") {
						verdicts = append(verdicts, ev)
					}
				}
				okV := len(verdicts) == 1 && verdicts[0].Res != nil && sm.Results[0].Key() == verdicts[0].Res.Key()
				r.Check(pfx+".matches-subject", m.Name()+":verdict", prog.pos(sm.Ret.Pos()), okV, "a result without an error must be what the regular expression's Match returned for the value's bytes; this path returns "+shortKey(sm.Results[0])+" [path "+strings.Join(sm.St.trail, " ")+"]")
			}
		}
		for _, sm := range sums {
			for _, ev := range sm.Events() {
				if ev.Instr == nil || ev.Callee == nil || ev.Callee.Pkg == nil || ev.Callee.Pkg.Pkg.Path() != "regexp" || ev.Callee.Signature.Recv() == nil {
					continue
				}
				name := ev.Callee.Name()
				if !strings.HasPrefix(name, "Match") && !strings.HasPrefix(name, "Find") {
					continue
				}
				n++
				subj := ev.Args[len(ev.Args)-1]
				ok, why := false, "the subject is "+shortKey(subj)
				x := subj
				if x.K == sTAValue {
					x = x.A
				}
				// Interface() of Convert(value, []byte type)
				if f, _ := calleeOfSym(x); isReflectMethod(f, "Interface") {
					if as := symArgs(sm.St, x); len(as) == 1 {
						if f2, _ := calleeOfSym(as[0]); isReflectMethod(f2, "Convert") {
							if a2 := symArgs(sm.St, as[0]); len(a2) == 2 && a2[0].Key() == pv.Key() {
								ok = true
							}
						}
					}
				}
				if f, _ := calleeOfSym(x); isReflectMethod(f, "Bytes") {
					// Bytes() of Convert(value, []byte type): the same bytes as Interface().([]byte)
					if as := symArgs(sm.St, x); len(as) == 1 {
						if f2, _ := calleeOfSym(as[0]); isReflectMethod(f2, "Convert") {
							if a2 := symArgs(sm.St, as[0]); len(a2) == 2 && a2[0].Key() == pv.Key() && isByteSliceType(prog, sm.St, a2[1]) {
								ok = true
							}
						}
					}
				}
				if f, _ := calleeOfSym(x); !ok && (isReflectMethod(f, "Bytes") || isReflectMethod(f, "String")) {
					if as := symArgs(sm.St, x); len(as) == 1 && as[0].Key() == pv.Key() {
						k := ke.kinds(sm.St, pv)
						if isReflectMethod(f, "String") && k.SubsetOf(ks(kString)) {
							ok = true
						} else {
							why = fmt.Sprintf("the pattern is applied to value.%s() although the value's kind may be %s (String() of a non-string is reflect's placeholder text)", f.Name(), k)
						}
					}
				}
				r.Check(pfx+".matches-subject", m.Name()+":"+name, prog.pos(ev.Instr.Pos()), ok, "a regular expression must be matched against the bytes of the value (value.Convert to []byte): "+why)
			}
		}
	}
	r.Check(pfx+".matches-subject", "sites", "", n >= 1, "no application of a regular expression found in the matchers")
}

// checkBinaryActions: the actions that build `and` / `or` nodes return, on every error-free path, a new BinaryExpression
// whose Left and Right are exactly the two operand labels: no operand is dropped, swapped or merged.
func checkBinaryActions(r *Run, ga *GA, pfx string) {
	prog := ga.prog
	if prog.SSA == nil {
		return
	}
	n := 0
	for _, s := range ga.opSites() {
		if s.typ != "BinaryExpression" {
			continue
		}
		fd := ga.tab.On[strings.TrimPrefix(s.action.Run, "call")]
		if fd == nil {
			continue
		}
		fn := prog.Method(prog.GrammarSSA, "current", fd.Name.Name, true)
		if fn == nil {
			continue
		}
		n++
		ps := NewPathSim(prog)
		ps.Inline = func(c *ssa.Function) bool { return prog.actionHelper(c, 0) }
		ps.IfaceAssertIdentity = true
		var probs []string
		okPaths := 0
		c, _ := prog.Grammar.Types.Scope().Lookup(s.op).(*types.Const)
		for _, sm := range ps.Run(fn) {
			if sm.Ret == nil || len(sm.Results) != 2 {
				probs = append(probs, "panic or unexpected result shape")
				continue
			}
			if errClass(sm, sm.Results[1]) != "nil" {
				continue
			}
			okPaths++
			v := sm.Results[0]
			if v.K == sMkIface {
				v = v.A
			}
			al, path, ok := localPath(v)
			if !ok {
				probs = append(probs, "the action returns "+shortKey(v)+", not a node built here")
				continue
			}
			node, ok := loadLocal(sm.St, al, path, nil)
			if !ok || node.K != sStruct {
				probs = append(probs, "the node built is not tracked")
				continue
			}
			for f, lbl := range map[string]string{"Left": s.fields["Left"], "Right": s.fields["Right"]} {
				got := getPath(node, []string{f})
				want := ""
				for _, p := range fn.Params {
					if p.Name() == lbl {
						want = paramSym(p).Key()
					}
				}
				g := got
				for g != nil && (g.K == sTAValue || g.K == sMkIface) {
					g = g.A
				}
				if g == nil || want == "" || g.Key() != want {
					probs = append(probs, fmt.Sprintf("%s of the node is %s, expected the operand labelled %q", f, shortKey(got), lbl))
				}
			}
			if op := getPath(node, []string{"Operator"}); c == nil || op == nil || op.K != sConst || op.C == nil || !constant.Compare(op.C, 39 /* == */, c.Val()) {
				probs = append(probs, "the node's operator is not "+s.op)
			}
		}
		if okPaths != 1 {
			probs = append(probs, fmt.Sprintf("%d error-free paths (expected one: the node is built unconditionally)", okPaths))
		}
		r.Check(pfx+".binary-action", fd.Name.Name+":"+s.op, prog.pos(fd.Pos()), len(probs) == 0, strings.Join(uniq(probs), "; "))
	}
	r.Check(pfx+".binary-action", "sites", "grammar/grammar.go", n >= 2, fmt.Sprintf("%d actions building and/or nodes found (expected 2)", n))
}

// checkRuneErrorWidth: in the parser engine the rune utf8.RuneError alone never means "end of input" or "invalid
// encoding": on every path that assumes `rune == RuneError`, the width that DecodeRune returned is examined too (a
// validly encoded U+FFFD has width 3).
func checkRuneErrorWidth(r *Run, prog *Program, pfx string) {
	if prog.SSA == nil {
		return
	}
	n := 0
	mention := map[*ssa.Function]bool{}
	var work []*ssa.Function
	for _, fn := range prog.ModuleFuncs() {
		if fn.Pkg != prog.GrammarSSA || fn.Signature.Recv() == nil || !namedIs(fn.Signature.Recv().Type(), grammarPath, "parser") {
			continue
		}
		mentions := false
		for _, b := range fn.Blocks {
			for _, ins := range b.Instrs {
				if bo, ok := ins.(*ssa.BinOp); ok {
					for _, o := range []ssa.Value{bo.X, bo.Y} {
						if c, ok := o.(*ssa.Const); ok && c.Value != nil && c.Value.Kind() == constant.Int {
							if v, exact := constant.Int64Val(c.Value); exact && v == 0xFFFD {
								mentions = true
							}
						}
					}
				}
			}
		}
		if mentions {
			mention[fn] = true
			work = append(work, fn)
		}
	}
	// the methods that call one of those (a helper that answers "is this the end of the input?") are judged with it in place
	for f := range mention {
		for _, c := range prog.staticCallers(f) {
			if !mention[c] && prog.InModule(c) && len(c.Blocks) > 0 && !recursive(prog, f) {
				dup := false
				for _, w := range work {
					if w == c {
						dup = true
					}
				}
				if !dup {
					work = append(work, c)
				}
			}
		}
	}
	for _, fn := range work {
		fn := fn
		n++
		ps := NewPathSim(prog)
		ps.maxPaths = 4000
		ps.Inline = func(c *ssa.Function) bool { return mention[c] && c != fn && !recursive(prog, c) }
		ok := true
		where := ""
		wDot, wComma := "."+fW+")", "."+fW+","
		for _, sm := range ps.Run(fn) {
			assumed, width := false, false
			for k, v := range sm.St.facts {
				if strings.HasPrefix(k, "cmp(==,") && strings.Contains(k, "const(65533)") && v {
					assumed = true
				}
				if strings.HasPrefix(k, "cmp(") && (strings.Contains(k, wDot) || strings.Contains(k, wComma) || strings.Contains(k, "res(call(") && strings.Contains(k, "),1)")) {
					width = true
				}
			}
			for k := range sm.St.eqc {
				if strings.HasSuffix(k, wDot) || (strings.Contains(k, "res(call(") && strings.HasSuffix(k, "),1)")) {
					width = true
				}
			}
			for k := range sm.St.neqc {
				if strings.HasSuffix(k, wDot) || (strings.Contains(k, "res(call(") && strings.HasSuffix(k, "),1)")) {
					width = true
				}
			}
			for _, res := range sm.Results {
				// a predicate that answers with the width test itself (`return rn == RuneError && w == 0`)
				if res != nil && (strings.Contains(res.Key(), wDot) || strings.Contains(res.Key(), wComma)) {
					width = true
				}
			}
			if assumed && !width {
				ok = false
				where = strings.Join(sm.St.trail, " ")
			}
		}
		r.Check(pfx+".engine", "rune-error-with-width:"+fn.Name(), prog.pos(fn.Pos()), ok, "(*parser)."+fn.Name()+" treats the rune U+FFFD as end of input / invalid without looking at the width DecodeRune returned: a validly encoded U+FFFD is an ordinary character [path "+where+"]")
	}
	r.Check(pfx+".engine", "rune-error-sites", "grammar/grammar.go", n >= 2, fmt.Sprintf("%d engine methods compare with utf8.RuneError (expected at least 2)", n))
}

// isByteSliceType: t is reflect.TypeOf(<a []byte>) — computed on this path or by a package-level initialiser.
func isByteSliceType(prog *Program, st *pstate, t *Sym) bool {
	if t == nil {
		return false
	}
	if t.K == sLoad && t.A != nil && t.A.K == sGlobal {
		// an initialise-once variable whose load was not resolved: look at its initialiser
		if g, ok := t.A.V.(*ssa.Global); ok && prog.SSA != nil {
			if v, ok := prog.Globals().st.gcells[g]; ok {
				t = v
			}
		}
	}
	fn, call := calleeOfSym(t)
	if !isReflectFunc(fn, "TypeOf") || call == nil {
		return false
	}
	as := symArgs(st, t)
	if len(as) == 0 && prog.SSA != nil {
		as = symArgs(prog.Globals().st, t)
	}
	if len(as) != 1 || as[0].K != sMkIface || as[0].A == nil || as[0].A.T == nil {
		return false
	}
	sl, ok := as[0].A.T.Underlying().(*types.Slice)
	if !ok {
		return false
	}
	b, ok := sl.Elem().Underlying().(*types.Basic)
	return ok && b.Kind() == types.Uint8
}
