package main

// Engine invariants: two semantic facts about pigeon's runtime that the grammar-level arguments rely on and that a
// hand edit of grammar.go can break without touching the rule table. They are behavioural (what is returned /
// recorded on which path), not textual, so a regeneration with the same template leaves them true.

import (
	"fmt"
	"go/constant"
	"go/token"
	"go/types"
	"strings"

	"golang.org/x/tools/go/ssa"
)

func checkEngineInvariants(r *Run, prog *Program, pfx string) {
	checkRecoverCensus(r, prog, pfx)
	checkInputUnmodified(r, prog, pfx)

	if prog.SSA == nil {
		return
	}
	// 1. parseRule yields exactly what parseExpr yields for the rule's expression: a rule has no way to fail or
	//    succeed other than through its expression (no depth limits, caches or shortcuts)
	pr := prog.Method(prog.GrammarSSA, "parser", "parseRule", true)
	pe := prog.Method(prog.GrammarSSA, "parser", "parseExpr", true)
	if pr == nil || pe == nil {
		r.Fail("unresolved-anchor", pfx+".engine", "parseRule/parseExpr", "grammar/grammar.go", "engine methods not found")
		return
	}
	r.Analysed(pr.String())
	ps := NewPathSim(prog)
	// helpers of the engine (a push/parse/pop triple shared with the repetitions) are interpreted in place; the descent
	// itself, the primitives and the other combinators stay calls
	eng := newPegEngine(prog)
	ps.Inline = func(c *ssa.Function) bool {
		if c == pe || c == pr || c.Pkg != prog.GrammarSSA || eng.primitive(c) || eng.combinatorOf(c) {
			return false
		}
		o := c.Object()
		return o == nil || !o.Exported()
	}
	sums := ps.Run(pr)
	ok := len(sums) >= 1
	for _, sm := range sums {
		if sm.Ret == nil || len(sm.Results) != 2 {
			ok = false
			continue
		}
		calls := sm.callsTo(pe)
		a, b := sm.Results[0], sm.Results[1]
		if len(calls) != 1 || a.K != sRes || b.K != sRes || a.A.Key() != b.A.Key() || a.A.Key() != calls[0].Res.Key() {
			ok = false
			continue
		}
		// the expression parsed is the rule's own
		arg := calls[0].Args[1]
		if !(arg.K == sLoad && arg.A.K == sFieldAddr && arg.A.Str == "expr" && arg.A.A.Key() == paramSym(pr.Params[1]).Key()) {
			ok = false
		}
	}
	r.Check(pfx+".engine", "parseRule-forwards-parseExpr", prog.pos(pr.Pos()), ok, "(*parser).parseRule must return exactly the result of parseExpr(rule.expr) on every path: otherwise a rule can fail (or succeed) for a reason the grammar does not state")
	// 2. read() records errInvalidEncoding exactly for (RuneError, width 1) — the only case utf8.DecodeRune reports an
	//    invalid encoding; a validly encoded U+FFFD (width 3) and end of input (width 0) are not errors
	rd := prog.Method(prog.GrammarSSA, "parser", "read", true)
	if rd == nil {
		r.Fail("unresolved-anchor", pfx+".engine", "read", "grammar/grammar.go", "(*parser).read not found")
		return
	}
	r.Analysed(rd.String())
	ps2 := NewPathSim(prog)
	ps2.NoTables = true // the error variable is recognised by its name: its load stays symbolic
	okR, sawErr := true, false
	okPolarity, sawPolarity := true, false
	allowF := ""
	if m, ok := prog.GrammarSSA.Members["AllowInvalidUTF8"].(*ssa.Function); ok {
		for _, af := range m.AnonFuncs {
			for _, b := range af.Blocks {
				for _, ins := range b.Instrs {
					if st, isSt := ins.(*ssa.Store); isSt {
						if fa, isFA := st.Addr.(*ssa.FieldAddr); isFA {
							if root, _ := rootOf(st.Val); root != nil {
								if _, isFV := root.(*ssa.FreeVar); isFV {
									allowF = fieldName(fa.X.Type(), fa.Field)
								}
							}
						}
					}
				}
			}
		}
	}
	for _, sm := range ps2.Run(rd) {
		var dec *Event
		reported := false
		for _, ev := range sm.Events() {
			ev := ev
			if ev.Instr == nil || ev.Callee == nil {
				continue
			}
			if isCallTo(ev.Callee, "unicode/utf8", "DecodeRune") {
				dec = &ev
			}
			if ev.Callee.Name() == "addErr" && len(ev.Args) == 2 {
				if root := ev.Args[1]; strings.Contains(root.Key(), "errInvalidEncoding") {
					reported = true
				}
			}
		}
		if dec == nil {
			okR = false
			continue
		}
		rn := &Sym{K: sRes, A: dec.Res, Idx: 0}
		w := &Sym{K: sRes, A: dec.Res, Idx: 1}
		isErrRune, k1 := evalEq(sm.St, rn, &Sym{K: sConst, C: constant.MakeInt64(0xFFFD)})
		isW1, k2 := evalEq(sm.St, w, &Sym{K: sConst, C: constant.MakeInt64(1)})
		if reported {
			sawErr = true
			if !(k1 && isErrRune && k2 && isW1) {
				okR = false
			}
		}
		// … and then it does, unless the caller asked for invalid encodings to be let through (the field the
		// AllowInvalidUTF8 option stores its argument in)
		if allowF != "" && k1 && isErrRune && k2 && isW1 {
			if allowed, known := evalBool(sm.St, loadField(paramSym(rd.Params[0]), allowF)); known {
				sawPolarity = true
				if reported == allowed {
					okPolarity = false
				}
			}
		}
	}
	r.Check(pfx+".engine", "read-invalid-encoding-unless-allowed", prog.pos(rd.Pos()), allowF != "" && okPolarity && sawPolarity,
		"(*parser).read must record errInvalidEncoding for an invalid byte exactly when the AllowInvalidUTF8 option is off (option field: "+allowF+")")
	checkRuneErrorWidth(r, prog, pfx)
	checkErrorRecording(r, prog, pfx)
	checkRuleRefAndClasses(r, prog, pfx)
	_ = token.EQL
	r.Check(pfx+".engine", "read-invalid-encoding-iff-width-1", prog.pos(rd.Pos()), okR && sawErr, "(*parser).read must record errInvalidEncoding only when utf8.DecodeRune returned (RuneError, 1): a validly encoded U+FFFD or the end of input is not an encoding error")
	_ = ssa.Function{}
}

// checkRecoverCensus: a panic raised while parsing (the budget, an action's panic) travels up to the one deferred
// function of (*parser).parse. Any other function of the grammar package that calls recover() can swallow it on the way:
// the parse would go on past its budget, or an error would be lost.
func checkRecoverCensus(r *Run, prog *Program, pfx string) {
	parse := prog.Method(prog.GrammarSSA, "parser", "parse", true)
	n := 0
	for _, fn := range prog.ModuleFuncs() {
		if fn.Pkg != prog.GrammarSSA && (fn.Parent() == nil || fn.Parent().Pkg != prog.GrammarSSA) {
			continue
		}
		if !callsBuiltin(fn, "recover") {
			continue
		}
		n++
		// allowed: the function deferred by parse (a closure of parse, or a method it defers directly)
		ok := false
		if parse != nil {
			for _, b := range parse.Blocks {
				for _, ins := range b.Instrs {
					if d, isD := ins.(*ssa.Defer); isD {
						var f *ssa.Function
						if mc, isMC := d.Call.Value.(*ssa.MakeClosure); isMC {
							f, _ = mc.Fn.(*ssa.Function)
						} else {
							f = d.Call.StaticCallee()
						}
						if f == fn {
							ok = true
						}
					}
				}
			}
		}
		r.Check(pfx+".engine", "recover-only-in-parse:"+fn.Name(), prog.pos(fn.Pos()), ok, fn.Name()+" calls recover(): a panic raised deeper in the parse (the expression budget, an action) can be swallowed before it reaches (*parser).parse")
	}
	r.Check(pfx+".engine", "recover-census", "grammar/grammar.go", n >= 1, fmt.Sprintf("info: %d functions of the grammar package call recover()", n))
}

// checkInputUnmodified: the parser reads exactly the bytes it was given: the constructor stores its input parameter itself
// into the parser's data field, and nothing else writes that field.
func checkInputUnmodified(r *Run, prog *Program, pfx string) {
	np := prog.GrammarSSA.Func("newParser")
	if np == nil {
		r.Fail("unresolved-anchor", pfx+".engine", "newParser", "grammar/grammar.go", "newParser not found")
		return
	}
	var in *ssa.Parameter
	for _, p := range np.Params {
		if sl, ok := p.Type().Underlying().(*types.Slice); ok {
			if bt, ok := sl.Elem().Underlying().(*types.Basic); ok && bt.Kind() == types.Uint8 {
				in = p
			}
		}
	}
	n := 0
	for _, fa := range prog.FieldAccesses(prog.ModuleFuncs()) {
		if fa.Kind != "write" || fa.Field != fDATA || fa.Struct == nil || fa.Struct.Obj().Name() != "parser" || fa.Struct.Obj().Pkg().Path() != grammarPath {
			continue
		}
		n++
		ok := in != nil && ctorPart(prog, np, fa.Fn)
		if ok {
			// the value stored, followed from a part of the constructor up to the constructor's own parameter
			v := fa.Val
			ok = false
			for depth := 0; depth < 4; depth++ {
				if v == ssa.Value(in) {
					ok = true
					break
				}
				par, isP := v.(*ssa.Parameter)
				if !isP || par.Parent() == np {
					break
				}
				next := prog.originOfParam(v, 4)
				if next == v {
					break
				}
				v = next
			}
		}
		r.Check(pfx+".engine", "input-unmodified:"+fa.Fn.Name(), prog.pos(fa.Instr.Pos()), ok, "the parser's input (field data) is not the byte slice given to the constructor as it is: bytes are dropped or changed before the grammar sees them")
	}
	r.Check(pfx+".engine", "input-unmodified", prog.pos(np.Pos()), n == 1, fmt.Sprintf("%d writers of the parser's input field (expected one, in the constructor)", n))
}
