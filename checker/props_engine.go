package main

// Engine invariants: two semantic facts about pigeon's runtime that the grammar-level arguments rely on and that a
// hand edit of grammar.go can break without touching the rule table. They are behavioural (what is returned /
// recorded on which path), not textual, so a regeneration with the same template leaves them true.

import (
	"go/constant"
	"go/token"
	"strings"

	"golang.org/x/tools/go/ssa"
)

func checkEngineInvariants(r *Run, prog *Program, pfx string) {
	if prog.SSA == nil {
		return
	}
	// 1. parseRule yields exactly what parseExpr yields for the rule's expression: a rule has no way to fail or
	//    succeed other than through its expression (no depth limits, caches or shortcuts)
	pr := prog.Method(prog.GrammarSSA, "parser", "parseRule", true)
	pe := prog.Method(prog.GrammarSSA, "parser", "parseExpr", true)
	if pr == nil || pe == nil {
		r.Fail("unresolved-anchor", pfx+".engine", "parseRule/parseExpr", "grammar/grammar.go", "engine methods not found")
		return
	}
	r.Analysed(pr.String())
	ps := NewPathSim(prog)
	sums := ps.Run(pr)
	ok := len(sums) >= 1
	for _, sm := range sums {
		if sm.Ret == nil || len(sm.Results) != 2 {
			ok = false
			continue
		}
		calls := sm.callsTo(pe)
		a, b := sm.Results[0], sm.Results[1]
		if len(calls) != 1 || a.K != sRes || b.K != sRes || a.A != b.A || a.A.Key() != calls[0].Res.Key() {
			ok = false
			continue
		}
		// the expression parsed is the rule's own
		arg := calls[0].Args[1]
		if !(arg.K == sLoad && arg.A.K == sFieldAddr && arg.A.Str == "expr" && arg.A.A.Key() == paramSym(pr.Params[1]).Key()) {
			ok = false
		}
	}
	r.Check(pfx+".engine", "parseRule-forwards-parseExpr", prog.pos(pr.Pos()), ok, "(*parser).parseRule must return exactly the result of parseExpr(rule.expr) on every path: otherwise a rule can fail (or succeed) for a reason the grammar does not state")
	// 2. read() records errInvalidEncoding exactly for (RuneError, width 1) — the only case utf8.DecodeRune reports an
	//    invalid encoding; a validly encoded U+FFFD (width 3) and end of input (width 0) are not errors
	rd := prog.Method(prog.GrammarSSA, "parser", "read", true)
	if rd == nil {
		r.Fail("unresolved-anchor", pfx+".engine", "read", "grammar/grammar.go", "(*parser).read not found")
		return
	}
	r.Analysed(rd.String())
	ps2 := NewPathSim(prog)
	ps2.NoTables = true // the error variable is recognised by its name: its load stays symbolic
	okR, sawErr := true, false
	for _, sm := range ps2.Run(rd) {
		var dec *Event
		reported := false
		for _, ev := range sm.Events() {
			ev := ev
			if ev.Instr == nil || ev.Callee == nil {
				continue
			}
			if isCallTo(ev.Callee, "unicode/utf8", "DecodeRune") {
				dec = &ev
			}
			if ev.Callee.Name() == "addErr" && len(ev.Args) == 2 {
				if root := ev.Args[1]; strings.Contains(root.Key(), "errInvalidEncoding") {
					reported = true
				}
			}
		}
		if dec == nil {
			okR = false
			continue
		}
		rn := &Sym{K: sRes, A: dec.Res, Idx: 0}
		w := &Sym{K: sRes, A: dec.Res, Idx: 1}
		isErrRune, k1 := evalEq(sm.St, rn, &Sym{K: sConst, C: constant.MakeInt64(0xFFFD)})
		isW1, k2 := evalEq(sm.St, w, &Sym{K: sConst, C: constant.MakeInt64(1)})
		if reported {
			sawErr = true
			if !(k1 && isErrRune && k2 && isW1) {
				okR = false
			}
		}
	}
	checkRuneErrorWidth(r, prog, pfx)
	checkErrorRecording(r, prog, pfx)
	checkRuleRefAndClasses(r, prog, pfx)
	_ = token.EQL
	r.Check(pfx+".engine", "read-invalid-encoding-iff-width-1", prog.pos(rd.Pos()), okR && sawErr, "(*parser).read must record errInvalidEncoding only when utf8.DecodeRune returned (RuneError, 1): a validly encoded U+FFFD or the end of input is not an encoding error")
	_ = ssa.Function{}
}
