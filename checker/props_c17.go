package main

// C17 — Filter.Execute returns exactly the elements for which Evaluate is true.

import (
	"fmt"
	"go/constant"
	"go/token"
	"go/types"
	"strings"

	"golang.org/x/tools/go/ssa"
)

// reflCall: is s the result of reflect's method/function `method`? Returns s itself as the handle.
func reflCall(s *Sym, method string) (*Sym, bool) {
	fn, call := calleeOfSym(s)
	if call != nil && (isReflectMethod(fn, method) || isReflectFunc(fn, method)) {
		return s, true
	}
	return nil, false
}

func checkFilter(r *Run, prog *Program, a *Anchors, pfx string) {
	fn := a.ExecuteM
	r.Analysed(fn.String())
	if len(fn.Params) != 2 {
		r.Fail("unresolved-anchor", pfx+".filter", "params", prog.pos(fn.Pos()), "Execute does not have (receiver, data) parameters")
		return
	}
	pF, pData := paramSym(fn.Params[0]), paramSym(fn.Params[1])
	fNil := &Sym{K: sCmp, Op: token.EQL, A: pF, B: nilSym()}

	// 1. nil filter: identity, decided first
	{
		ps := NewPathSim(prog)
		ps.Seed = func(st *pstate) { assume(st, fNil, true) }
		sums := ps.Run(fn)
		ok := len(sums) == 1 && len(sums[0].Results) == 2 && sums[0].Results[0].Key() == pData.Key() && sums[0].Results[1].IsNil() && len(sums[0].Events()) == 0
		r.Check(pfx+".nil-filter", "identity", prog.pos(fn.Pos()), ok, "a nil Filter must return its input unchanged with a nil error, before doing anything else")
	}
	evalM := a.EvaluateM
	type scen struct {
		name string
		o    outcome
	}
	r.Floor(pfx+".filter-path", 12)
	classes := map[string]int{}
	for _, sc := range []scen{{"element=true", oT}, {"element=false", oF}, {"element=error", oEF}, {"element=error(+true)", oET}} {
		sc := sc
		ps := NewPathSim(prog)
		ps.maxVisits = 3
		ps.Inline = func(c *ssa.Function) bool {
			return prog.InModule(c) && c != evalM && c != fn && fnPkg(c) == prog.Bexpr.Types && (c.Object() == nil || !c.Object().Exported())
		}
		ps.Seed = func(st *pstate) { assume(st, fNil, false) }
		errs := map[string]bool{}
		ps.Model = func(ev *Event) *Sym {
			if ev.Callee == evalM {
				var e *Sym = nilSym()
				if sc.o.isErr() {
					e = &Sym{K: sNewErr, V: ev.Instr.Value(), Str: "element"}
					errs[e.Key()] = true
				}
				return &Sym{K: sTuple, Kids: []*Sym{{K: sConst, C: constant.MakeBool(sc.o.boolVal())}, e}}
			}
			return nil
		}
		ke := &kindEnv{prog: prog}
		for _, sm := range ps.Run(fn) {
			if sm.Panic != nil || len(sm.Results) != 2 {
				r.Check(pfx+".filter-path", sc.name+":shape", prog.pos(fn.Pos()), false, "panic or unexpected result shape")
				continue
			}
			pos := prog.pos(sm.Ret.Pos())
			res, err := sm.Results[0], sm.Results[1]
			trail := " [path " + strings.Join(sm.St.trail, " ") + "]"
			// the reflected input
			var rv *Sym
			for _, ev := range sm.Events() {
				if ev.Instr != nil && isReflectFunc(ev.Callee, "ValueOf") && len(ev.Args) == 1 && ev.Args[0].Key() == pData.Key() {
					rv = ev.Res
				}
			}
			if rv == nil {
				if isNil, known := evalBool(sm.St, &Sym{K: sCmp, Op: token.EQL, A: pData, B: nilSym()}); known && isNil {
					// the untyped nil input, recognised before reflecting: the one input of no kind at all
					noEval := true
					for _, ev := range sm.Events() {
						if ev.Instr != nil && ev.Callee == evalM {
							noEval = false
						}
					}
					classes["other"]++
					okNil := res.IsNil() && errClass(sm, err) == "nonnil" && noEval
					r.Check(pfx+".filter-path", sc.name+":other", pos, okNil, "a nil input must be (nil, error) without evaluating anything"+trail)
					continue
				}
				r.Check(pfx+".filter-path", sc.name+":no-valueof", pos, false, "the input is not inspected through reflect.ValueOf(data)"+trail)
				continue
			}
			kinds := ke.kinds(sm.St, rv)
			var evals, inserts []Event
			for _, ev := range sm.Events() {
				if ev.Instr == nil {
					continue
				}
				if ev.Callee == evalM {
					evals = append(evals, ev)
				}
				if isReflectFunc(ev.Callee, "Append") || isReflectMethod(ev.Callee, "SetMapIndex") {
					inserts = append(inserts, ev)
				}
			}
			var probs []string
			cls := ""
			switch {
			case kinds.SubsetOf(ks(kSlice)) || kinds.SubsetOf(ks(kArray)):
				cls = "list"
			case kinds.SubsetOf(ks(kMap)):
				cls = "map"
			case kinds&ks(kSlice, kArray, kMap) == 0:
				cls = "other"
			default:
				cls = "undetermined"
			}
			classes[cls]++
			if cls == "other" || cls == "undetermined" {
				if !(res.IsNil() && errClass(sm, err) == "nonnil" && len(evals) == 0) {
					probs = append(probs, fmt.Sprintf("input of kind %s: must be (nil, error) without evaluating anything; got (%s, %s)", kinds, shortKey(res), shortKey(err)))
				}
				r.Check(pfx+".filter-path", sc.name+":"+cls, pos, len(probs) == 0, strings.Join(probs, "; ")+trail)
				continue
			}
			// every evaluation: receiver is f.evaluator, datum is item.Interface() of an element obtained from the input by this iteration's index/key
			items := []string{}
			for n, ev := range evals {
				if len(ev.Args) != 2 || ev.Args[0].Key() != loadField(pF, filterEvalField(prog)).Key() {
					probs = append(probs, "the element is not evaluated with the filter's own evaluator")
					continue
				}
				ic, ok := reflCall(ev.Args[1], "Interface")
				if !ok {
					probs = append(probs, "the value evaluated is not item.Interface() but "+shortKey(ev.Args[1]))
					continue
				}
				item := symArgs(sm.St, ic)[0]
				items = append(items, item.Key())
				if cls == "list" {
					xc, ok := reflCall(item, "Index")
					if !ok {
						probs = append(probs, "the evaluated item is not input.Index(i): "+shortKey(item))
						continue
					}
					xa := symArgs(sm.St, xc)
					b, o := linear(xa[1])
					if xa[0].Key() != rv.Key() || b != "" || o != int64(n) {
						probs = append(probs, fmt.Sprintf("iteration %d evaluates element %s of %s; elements must be visited in ascending order from 0", n, shortKey(xa[1]), shortKey(xa[0])))
					}
				} else {
					if isIterPart(sm.St, item, rv, "Value") {
						continue // `it := input.MapRange(); for it.Next() { it.Value() }`
					}
					xc, ok := reflCall(item, "MapIndex")
					if !ok {
						probs = append(probs, "the evaluated item is not input.MapIndex(key) / iterator.Value(): "+shortKey(item))
						continue
					}
					xa := symArgs(sm.St, xc)
					if xa[0].Key() != rv.Key() || !isMapKeyOf(sm.St, xa[1], rv, int64(n)) {
						probs = append(probs, fmt.Sprintf("iteration %d does not evaluate input[MapKeys()[%d]]", n, n))
					}
				}
			}
			// no element taken out of the input is passed over: each is the item of one of the evaluations
			for _, ev := range sm.Events() {
				if ev.Instr == nil || ev.Res == nil {
					continue
				}
				fetch := false
				switch {
				case (isReflectMethod(ev.Callee, "Index") || isReflectMethod(ev.Callee, "MapIndex")) && len(ev.Args) >= 1 && ev.Args[0].Key() == rv.Key():
					fetch = true
				case isIterPart(sm.St, ev.Res, rv, "Value"):
					fetch = true
				}
				if !fetch {
					continue
				}
				seen := false
				for _, k := range items {
					if k == ev.Res.Key() {
						seen = true
					}
				}
				if !seen {
					// refused outright — the filtering ends here with an error and nothing is evaluated afterwards — is not passed over
					later := false
					past := false
					for _, e2 := range sm.Events() {
						if e2.Instr == ev.Instr && e2.Res != nil && e2.Res.Key() == ev.Res.Key() {
							past = true
							continue
						}
						if past && e2.Instr != nil && e2.Callee == evalM {
							later = true
						}
					}
					if !later && res.IsNil() && errClass(sm, err) == "nonnil" {
						continue
					}
					probs = append(probs, "an element taken out of the input ("+shortKey(ev.Res)+") is passed over without being evaluated: every element is judged by Evaluate alone")
				}
			}
			// insertions: only when the element evaluated true, and the very item (and key) evaluated
			switch {
			case sc.o == oT:
				if len(inserts) != len(evals) {
					probs = append(probs, fmt.Sprintf("%d elements evaluated true but %d insertions", len(evals), len(inserts)))
				}
				for n, ins := range inserts {
					if n >= len(items) {
						break
					}
					if isReflectFunc(ins.Callee, "Append") {
						el := getPath(ins.Deref[1], []string{"[const(0)]"})
						if ins.Deref[1] == nil || el == nil || el.Key() != items[n] || len(ins.Deref[1].F) != 1 {
							probs = append(probs, "what is appended is not exactly the element that was evaluated")
						}
					} else {
						okKey := len(ins.Args) == 3 && (isMapKeyOf(sm.St, ins.Args[1], rv, int64(n)) || sameIteration(sm.St, ins.Args[1], ins.Args[2], rv))
						if len(ins.Args) != 3 || ins.Args[2].Key() != items[n] || !okKey {
							probs = append(probs, "what is stored is not the evaluated entry under its own key")
						}
					}
				}
			default:
				if len(inserts) != 0 {
					probs = append(probs, "an element is kept although its evaluation was not (true, nil)")
				}
			}
			// result
			if sc.o.isErr() && len(evals) > 0 {
				if !(res.IsNil() && errs[err.Key()] && len(evals) == 1) {
					probs = append(probs, "the first evaluation error must end the call with (nil, that error); got ("+shortKey(res)+", "+shortKey(err)+") after "+fmt.Sprint(len(evals))+" evaluations")
				}
			} else if errClass(sm, err) != "nil" {
				if !res.IsNil() {
					probs = append(probs, "an error is returned together with a non-nil result")
				}
			} else {
				// normal completion: Interface() of the fresh container
				ic, ok := reflCall(res, "Interface")
				if !ok {
					probs = append(probs, "the result is not newContainer.Interface(): "+shortKey(res))
				} else {
					cont := symArgs(sm.St, ic)[0]
					root := cont
					for {
						ac, ok := reflCall(root, "Append")
						if !ok {
							break
						}
						root = symArgs(sm.St, ac)[0]
					}
					if cls == "list" {
						mc, ok := reflCall(root, "MakeSlice")
						if !ok {
							probs = append(probs, "the result slice is not built from reflect.MakeSlice")
						} else {
							ma := symArgs(sm.St, mc)
							if b, o := linear(ma[1]); b != "" || o != 0 {
								probs = append(probs, "the result slice does not start empty (MakeSlice length "+shortKey(ma[1])+")")
							}
							wantSlice := (&Sym{K: sTypeOf, A: rv}).Key()
							isArr := kinds.SubsetOf(ks(kArray))
							tOK := false
							if !isArr {
								tOK = ma[0].Key() == wantSlice
							} else if sc2, ok := reflCall(ma[0], "SliceOf"); ok {
								tOK = symArgs(sm.St, sc2)[0].Key() == (&Sym{K: sTElem, A: &Sym{K: sTypeOf, A: rv}}).Key()
							}
							if !tOK {
								probs = append(probs, "result slice type is "+shortKey(ma[0])+"; must be the input's own type for slices and []Elem for arrays")
							}
						}
						// all elements visited: the exit fact is !(i < input.Len())
						n := int64(len(evals))
						exit := &Sym{K: sCmp, Op: token.LSS, A: &Sym{K: sConst, C: constant.MakeInt64(n)}, B: &Sym{K: sRLen, A: rv}}
						if v, ok := evalBool(sm.St, exit); !ok || v {
							// the index may be represented as 0+1…: accept the linear form
							if !exitFact(sm.St, n, (&Sym{K: sRLen, A: rv}).Key()) {
								probs = append(probs, fmt.Sprintf("the loop ends after %d elements without the test `%d < input.Len()` being false", n, n))
							}
						}
					} else {
						mc, ok := reflCall(root, "MakeMap")
						if !ok {
							mc, ok = reflCall(root, "MakeMapWithSize") // same map, with a capacity hint
						}
						if !ok || symArgs(sm.St, mc)[0].Key() != (&Sym{K: sTypeOf, A: rv}).Key() {
							probs = append(probs, "the result map is not reflect.MakeMap(input's type)")
						}
					}
				}
			}
			r.Check(pfx+".filter-path", sc.name+":"+cls, pos, len(probs) == 0, strings.Join(uniq(probs), "; ")+trail)
		}
	}
	for _, cl := range []string{"list", "map", "other"} {
		r.Check(pfx+".filter-classes", cl, prog.pos(fn.Pos()), classes[cl] > 0, "no path of Execute handles inputs of class "+cl)
	}
	r.Check(pfx+".filter-classes", "undetermined", prog.pos(fn.Pos()), classes["undetermined"] == 0, "some path of Execute returns without having determined the kind of the input")

	// Filter literals: only in CreateFilter, with the evaluator CreateEvaluator returned without error
	n := 0
	for _, fa := range prog.FieldAccesses(prog.ModuleFuncs()) {
		if fa.Struct.Obj().Name() == "Filter" && fa.Struct.Obj().Pkg().Path() == modPath && fa.Kind == "write" {
			n++
			ok := fa.Fn == a.CreateFi || (prog.ctorHelper(a, fa.Fn, 0) && prog.contextOnly(fa.Fn, func(c *ssa.Function) bool { return c == a.CreateFi }))
			if ok {
				root, _ := rootOf(fa.Val)
				root = prog.originOfParam(root, 0) // a helper of CreateFilter stores what CreateFilter hands it
				root, _ = rootOf(root)
				ex, isEx := root.(*ssa.Extract)
				ok = isEx && ex.Index == 0
				if ok {
					c, isCall := ex.Tuple.(*ssa.Call)
					ok = isCall && (c.Call.StaticCallee() == a.CreateEv || evaluatorCtorHelper(prog, a, c.Call.StaticCallee()))
				}
			}
			r.Check(pfx+".filter-constructor", fa.Fn.Name()+":store:Filter."+fa.Field, prog.pos(fa.Instr.Pos()), ok, "Filter."+fa.Field+" must be set only by CreateFilter, to the evaluator CreateEvaluator returned")
		}
	}
	r.Check(pfx+".filter-constructor", "writers", prog.pos(a.CreateFi.Pos()), n == 1, fmt.Sprintf("%d writers of Filter fields (expected one)", n))
}

// isIterPart: s = it.<part>() with it = rv.MapRange().
func isIterPart(st *pstate, s, rv *Sym, part string) bool {
	fn, _ := calleeOfSym(s)
	if fn == nil || fn.Name() != part || fn.Pkg == nil || fn.Pkg.Pkg.Path() != "reflect" {
		return false
	}
	a := symArgs(st, s)
	if len(a) != 1 {
		return false
	}
	if mc, ok := reflCall(a[0], "MapRange"); ok {
		if ra := symArgs(st, mc); len(ra) == 1 && ra[0].Key() == rv.Key() {
			return true
		}
	}
	return false
}

// sameIteration: key = it.Key() and val = it.Value() of the same iterator, read in the same loop iteration.
func sameIteration(st *pstate, key, val, rv *Sym) bool {
	return isIterPart(st, key, rv, "Key") && isIterPart(st, val, rv, "Value") && key.iter == val.iter
}

// exitFact: is `const(n) < bound` (in any of its linear spellings) known false?
func exitFact(st *pstate, n int64, boundKey string) bool {
	for k, v := range st.facts {
		if v || !strings.HasPrefix(k, "cmp(<,") || !strings.HasSuffix(k, ","+boundKey+")") {
			continue
		}
		lhs := strings.TrimSuffix(strings.TrimPrefix(k, "cmp(<,"), ","+boundKey+")")
		if linearKeyValue(lhs) == n {
			return true
		}
	}
	return false
}

// linearKeyValue evaluates keys like const(2) / bin(+,bin(+,const(0),const(1)),const(1)); -1<<62 if not constant.
func linearKeyValue(k string) int64 {
	var v int64
	if _, err := fmt.Sscanf(k, "const(%d)", &v); err == nil && k == fmt.Sprintf("const(%d)", v) {
		return v
	}
	if strings.HasPrefix(k, "bin(+,") && strings.HasSuffix(k, ")") {
		inner := strings.TrimSuffix(strings.TrimPrefix(k, "bin(+,"), ")")
		i := strings.LastIndex(inner, ",const(")
		if i > 0 {
			var c int64
			if _, err := fmt.Sscanf(inner[i+1:], "const(%d)", &c); err == nil {
				a := linearKeyValue(inner[:i])
				if a > -1<<61 {
					return a + c
				}
			}
		}
	}
	return -1 << 62
}

// isMapKeyOf: key is MapKeys(rv)[n].
func isMapKeyOf(st *pstate, key, rv *Sym, n int64) bool {
	if key.K != sLoad || key.A.K != sIndexAddr {
		return false
	}
	// element n of a slice that collects every key of rv (keycoll.go)
	if kc, m := collectedKeys(st, key.A.A); kc != nil && !kc.strings && m.Key() == rv.Key() {
		b, o := linear(key.A.B)
		return b == "" && o == n
	}
	mc, ok := reflCall(key.A.A, "MapKeys")
	if !ok || symArgs(st, mc)[0].Key() != rv.Key() {
		return false
	}
	b, o := linear(key.A.B)
	return b == "" && o == n
}

func init() {
	register("C17", true, func(r *Run, prog *Program) {
		a := FindAnchors(prog)
		if !a.Require(r, "c17.anchors") {
			return
		}
		checkFilter(r, prog, a, "c17")
		roots := map[*ssa.Function]bool{a.ExecuteM: true}
		for f := range a.ExecSet {
			if !a.EvalSet[f] {
				roots[f] = true
			}
		}
		checkPanicSites(r, prog, a, "c17", roots, nil, false, 10)
		checkResultShape(r, prog, a, a.CreateFi, "c17")
		checkFilterText(r, prog, a, "c17")
		// "the elements for which Evaluate is true" presupposes that Evaluate is a function of the element alone: the same
		// verdict whichever elements were looked at before, in this call or an earlier one
		r.importing = "C13"
		checkEffects(r, prog, a, "c13", true)
		r.importing = "C05"
		checkValueLookup(r, prog, a, "c05")
		// "the filter's expression": the tree a Filter evaluates is the parse of its text, as for an Evaluator
		r.importing = "C03"
		checkASTIntegrity(r, prog, a, "c03")
		checkTreeHandedOver(r, prog, a, "c03")
		r.importing = ""
		r.Technique = "abstract execution of Execute over element outcomes {true,false,error} (3 loop visits) with def-use identity checks (what is evaluated is what is kept), KindAI panic-site obligations on Execute, constructor census for Filter"
		r.Explain = "Decides: the nil-filter shortcut comes first and returns the input itself; for lists the elements are visited by Index(0), Index(1), … and the loop ends only when i < Len() is false; for maps entry n is MapIndex(MapKeys()[n]); the value handed to the filter's own evaluator is Interface() of exactly the item that is appended / stored (under its own key) and only when the evaluation was (true, nil); the result is Interface() of a container rooted at MakeSlice(type, 0, …) with the input's own type for slices and SliceOf(Elem) for arrays, or MakeMap(input type); the first element error ends the call with (nil, err); every other kind of input, nil included, reaches an error return without a panicking reflect call. NOT decided: that Evaluate is right (C01…), reflect.Append/SetMapIndex semantics."
		r.Assume = append(r.Assume, "reflect.Append / SetMapIndex / MakeSlice / MakeMap behave as documented")
	})
}

// isCollectedKeyString: s is element n of a slice that collects the string every key of rv spells.
func isCollectedKeyString(st *pstate, s, rv *Sym, n int64) bool {
	if s == nil || s.K != sLoad || s.A.K != sIndexAddr {
		return false
	}
	kc, m := collectedKeys(st, s.A.A)
	if kc == nil || !kc.strings || m.Key() != rv.Key() {
		return false
	}
	b, o := linear(s.A.B)
	return b == "" && o == n
}

// evaluatorCtorHelper: f is a helper of the constructors that CreateEvaluator itself returns the result of (the part the
// two constructors share): what it returns is an evaluator made the way CreateEvaluator makes one.
func evaluatorCtorHelper(prog *Program, a *Anchors, f *ssa.Function) bool {
	if f == nil || !prog.ctorHelper(a, f, 0) || f.Signature.Results().Len() != 2 {
		return false
	}
	pt, ok := f.Signature.Results().At(0).Type().Underlying().(*types.Pointer)
	if !ok || !namedIs(pt.Elem(), modPath, "Evaluator") {
		return false
	}
	// CreateEvaluator returns this helper's result as it is
	for _, b := range a.CreateEv.Blocks {
		for _, ins := range b.Instrs {
			ret, ok := ins.(*ssa.Return)
			if !ok || len(ret.Results) != 2 {
				continue
			}
			for _, rv := range ret.Results {
				ex, isEx := rv.(*ssa.Extract)
				if !isEx {
					return false
				}
				c, isCall := ex.Tuple.(*ssa.Call)
				if !isCall || c.Call.StaticCallee() != f {
					return false
				}
			}
			return true
		}
	}
	return false
}

// checkFilterText: "the filter's expression" is the text CreateFilter was given: what it hands to the evaluator's
// constructor (or to the helper the two constructors share) is that very string, not something computed from it.
func checkFilterText(r *Run, prog *Program, a *Anchors, pfx string) {
	n := 0
	// CreateFilter and the unexported helpers it is split into
	fns := []*ssa.Function{a.CreateFi}
	seenF := map[*ssa.Function]bool{a.CreateFi: true}
	for i := 0; i < len(fns) && i < 8; i++ {
		for _, b := range fns[i].Blocks {
			for _, ins := range b.Instrs {
				if c, ok := ins.(*ssa.Call); ok {
					g := c.Call.StaticCallee()
					if g != nil && !seenF[g] && g != a.CreateEv && prog.InModule(g) && g.Object() != nil && !g.Object().Exported() && prog.ctorHelper(a, g, 0) && !evaluatorCtorHelper(prog, a, g) {
						seenF[g] = true
						fns = append(fns, g)
					}
				}
			}
		}
	}
	var blocks []*ssa.BasicBlock
	for _, f := range fns {
		blocks = append(blocks, f.Blocks...)
	}
	for _, b := range blocks {
		for _, ins := range b.Instrs {
			c, ok := ins.(*ssa.Call)
			if !ok {
				continue
			}
			callee := c.Call.StaticCallee()
			if callee == nil || !(callee == a.CreateEv || evaluatorCtorHelper(prog, a, callee)) {
				continue
			}
			for _, arg := range c.Call.Args {
				if !types.Identical(arg.Type().Underlying(), types.Typ[types.String]) {
					continue
				}
				n++
				r.Check(pfx+".filter-text", "CreateFilter:"+callee.Name(), prog.pos(c.Pos()), isCtorExpression(prog, a, arg, 0),
					"CreateFilter hands "+describeRoot(prog, arg)+" to "+callee.Name()+", not the expression it was given: the filter would select by another expression than Evaluate of the same text")
			}
		}
	}
	r.Check(pfx+".filter-text", "census", prog.pos(a.CreateFi.Pos()), n >= 1, "CreateFilter does not hand an expression text to the evaluator's constructor")
}
