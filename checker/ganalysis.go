package main

// Engine G: analyses of the rule table (what executes; C20 ties it to the
// .peg): nullable, FIRST/FOLLOW as rune sets, left recursion, nullable
// repetition, rule-graph well-formedness, result-type and constant inference
// for rule values, label scope.

import (
	"fmt"
	"go/ast"
	"go/token"
	"go/types"
	"sort"
	"strings"

	"verifcheck/peg"
)

type GA struct {
	prog  *Program
	tab   *Table
	rules map[string]*peg.Rule
	order []*peg.Rule

	nullable map[*peg.Node]bool
	rnull    map[string]bool
	first    map[*peg.Node]RuneSet
	rfirst   map[string]RuneSet
	follow   map[string]RuneSet

	// result inference
	types  map[*peg.Node]map[string]bool // dynamic type names ("nil" = untyped nil)
	rtypes map[string]map[string]bool
	consts map[*peg.Node]map[string]bool // names of package constants; "" marks a non-constant value
	rconst map[string]map[string]bool

	parent map[*peg.Node]*peg.Node
	ruleOf map[*peg.Node]*peg.Rule
	// action node -> its on* function
	onOf map[*peg.Node]*ast.FuncDecl
}

func NewGA(prog *Program, tab *Table) *GA {
	g := &GA{prog: prog, tab: tab, rules: map[string]*peg.Rule{}, nullable: map[*peg.Node]bool{}, rnull: map[string]bool{},
		first: map[*peg.Node]RuneSet{}, rfirst: map[string]RuneSet{}, follow: map[string]RuneSet{},
		types: map[*peg.Node]map[string]bool{}, rtypes: map[string]map[string]bool{},
		consts: map[*peg.Node]map[string]bool{}, rconst: map[string]map[string]bool{},
		parent: map[*peg.Node]*peg.Node{}, ruleOf: map[*peg.Node]*peg.Rule{}, onOf: map[*peg.Node]*ast.FuncDecl{}}
	inl := newASTInliner(prog.Grammar)
	for _, r := range tab.G.Rules {
		g.rules[r.Name] = r // last duplicate wins, as in pigeon's buildRulesTable
		g.order = append(g.order, r)
		var walk func(n, p *peg.Node)
		walk = func(n, p *peg.Node) {
			g.parent[n] = p
			g.ruleOf[n] = r
			if n.Run != "" {
				g.onOf[n] = inl.Expand(tab.On[strings.TrimPrefix(n.Run, "call")]) // helper calls expanded in place (astinline.go)
			}
			for _, k := range n.Kids {
				walk(k, n)
			}
		}
		walk(r.Expr, nil)
	}
	g.computeNullable()
	g.computeFirst()
	g.computeFollow()
	g.inferResults()
	return g
}

func (g *GA) computeNullable() {
	for changed := true; changed; {
		changed = false
		var nul func(n *peg.Node) bool
		nul = func(n *peg.Node) bool {
			v := false
			switch n.Kind {
			case peg.Choice:
				for _, k := range n.Kids {
					if nul(k) {
						v = true
					}
				}
			case peg.Seq:
				v = true
				for _, k := range n.Kids {
					if !nul(k) {
						v = false
					}
				}
			case peg.Labeled, peg.Action, peg.Plus:
				v = nul(n.Kids[0])
			case peg.Opt, peg.Star:
				nul(n.Kids[0])
				v = true
			case peg.And, peg.Not:
				nul(n.Kids[0])
				v = true
			case peg.AndCode, peg.NotCode:
				v = true
			case peg.RuleRef:
				v = g.rnull[n.Name]
			case peg.Lit:
				v = n.Val == ""
			case peg.Class, peg.Any:
				v = false
			}
			if v != g.nullable[n] {
				g.nullable[n] = v
				changed = true
			}
			return v
		}
		for _, r := range g.order {
			v := nul(r.Expr)
			if v != g.rnull[r.Name] {
				g.rnull[r.Name] = v
				changed = true
			}
		}
	}
}

func (g *GA) classSet(n *peg.Node) RuneSet {
	var s RuneSet
	for _, c := range n.Chars {
		s = s.Union(rsOf(c))
	}
	for i := 0; i+1 < len(n.Ranges); i += 2 {
		s = s.Union(rsRange(n.Ranges[i], n.Ranges[i+1]))
	}
	for _, c := range n.Classes {
		cs, _ := rsUnicodeClass(c)
		s = s.Union(cs)
	}
	if n.IgnoreCase {
		// approximate: add ASCII other-case
		var extra RuneSet
		for c := 'a'; c <= 'z'; c++ {
			if s.Has(c) {
				extra = extra.Union(rsOf(c - 32))
			}
		}
		s = s.Union(extra)
	}
	if n.Inverted {
		s = s.Complement()
	}
	return s
}

// FIRST: the set of runes (or EOF) an expression's match can start with / a
// predicate can inspect first. For nullable expressions the set does not
// include what follows; callers combine with FOLLOW.
func (g *GA) computeFirst() {
	for changed := true; changed; {
		changed = false
		var fst func(n *peg.Node) RuneSet
		fst = func(n *peg.Node) RuneSet {
			var v RuneSet
			switch n.Kind {
			case peg.Choice:
				for _, k := range n.Kids {
					v = v.Union(fst(k))
				}
			case peg.Seq:
				done := false
				for _, k := range n.Kids {
					f := fst(k)
					if done {
						continue
					}
					// predicates restrict rather than contribute; treat !x / &x as transparent
					if k.Kind == peg.Not || k.Kind == peg.And || k.Kind == peg.AndCode || k.Kind == peg.NotCode {
						continue
					}
					v = v.Union(f)
					if !g.nullable[k] {
						done = true
					}
				}
			case peg.Labeled, peg.Action, peg.Plus, peg.Opt, peg.Star:
				v = fst(n.Kids[0])
			case peg.And:
				v = fst(n.Kids[0])
			case peg.Not:
				fst(n.Kids[0])
				// !. is EOF
				if n.Kids[0].Kind == peg.Any {
					v = rsEOF()
				}
			case peg.RuleRef:
				v = g.rfirst[n.Name]
			case peg.Lit:
				if n.Val != "" {
					r := []rune(n.Val)[0]
					v = rsOf(r)
					if n.IgnoreCase {
						v = v.Union(rsOf([]rune(strings.ToUpper(string(r)))[0]))
					}
				}
			case peg.Class:
				v = g.classSet(n)
			case peg.Any:
				v = rsAll()
			}
			old := g.first[n]
			if len(old.r) != len(v.r) || old.String() != v.String() {
				g.first[n] = v
				changed = true
			}
			return v
		}
		for _, r := range g.order {
			v := fst(r.Expr)
			old := g.rfirst[r.Name]
			if len(old.r) != len(v.r) || old.String() != v.String() {
				g.rfirst[r.Name] = v
				changed = true
			}
		}
	}
}

// firstOfSeqTail: FIRST of kids[i:] of a sequence, plus whether the tail is nullable.
func (g *GA) firstOfTail(kids []*peg.Node) (RuneSet, bool) {
	var v RuneSet
	for _, k := range kids {
		if k.Kind == peg.Not || k.Kind == peg.AndCode || k.Kind == peg.NotCode {
			if k.Kind == peg.Not && k.Kids[0].Kind == peg.Any {
				// !. : only EOF can follow
				return v.Union(rsEOF()), false
			}
			continue
		}
		if k.Kind == peg.And {
			// &x: what follows must start like x
			return v.Union(g.first[k]), g.nullable[k.Kids[0]]
		}
		v = v.Union(g.first[k])
		if !g.nullable[k] {
			return v, false
		}
	}
	return v, true
}

// FOLLOW(rule): runes (or EOF) that can come right after a match of the rule.
func (g *GA) computeFollow() {
	if len(g.order) > 0 {
		g.follow[g.order[0].Name] = rsEOF()
	}
	for changed := true; changed; {
		changed = false
		add := func(rule string, s RuneSet) {
			n := g.follow[rule].Union(s)
			if n.String() != g.follow[rule].String() || len(n.r) != len(g.follow[rule].r) {
				g.follow[rule] = n
				changed = true
			}
		}
		// walk with "what follows this node"
		var walk func(n *peg.Node, fol RuneSet)
		walk = func(n *peg.Node, fol RuneSet) {
			switch n.Kind {
			case peg.RuleRef:
				add(n.Name, fol)
			case peg.Choice:
				for _, k := range n.Kids {
					walk(k, fol)
				}
			case peg.Seq:
				for i, k := range n.Kids {
					tail, nul := g.firstOfTail(n.Kids[i+1:])
					f := tail
					if nul {
						f = f.Union(fol)
					}
					walk(k, f)
				}
			case peg.Labeled, peg.Action, peg.Opt:
				walk(n.Kids[0], fol)
			case peg.Star, peg.Plus:
				walk(n.Kids[0], fol.Union(g.first[n.Kids[0]]))
			case peg.And, peg.Not:
				// predicates consume nothing; what "follows" inside is irrelevant for keyword boundaries
				walk(n.Kids[0], rsAll().Union(rsEOF()))
			}
		}
		for _, r := range g.order {
			walk(r.Expr, g.follow[r.Name])
		}
	}
}

// leftCalls: rules reachable at the left edge (without consuming input).
func (g *GA) leftRefs(n *peg.Node, out map[string]bool) {
	switch n.Kind {
	case peg.RuleRef:
		out[n.Name] = true
	case peg.Choice:
		for _, k := range n.Kids {
			g.leftRefs(k, out)
		}
	case peg.Seq:
		for _, k := range n.Kids {
			g.leftRefs(k, out)
			if !g.nullable[k] {
				break
			}
		}
	case peg.Labeled, peg.Action, peg.Plus, peg.Opt, peg.Star, peg.And, peg.Not:
		g.leftRefs(n.Kids[0], out)
	}
}

func (g *GA) leftRecursive() []string {
	edges := map[string]map[string]bool{}
	for _, r := range g.order {
		m := map[string]bool{}
		g.leftRefs(r.Expr, m)
		edges[r.Name] = m
	}
	var bad []string
	for _, r := range g.order {
		seen := map[string]bool{}
		var dfs func(x string) bool
		dfs = func(x string) bool {
			for y := range edges[x] {
				if y == r.Name {
					return true
				}
				if !seen[y] {
					seen[y] = true
					if dfs(y) {
						return true
					}
				}
			}
			return false
		}
		if dfs(r.Name) {
			bad = append(bad, r.Name)
		}
	}
	sort.Strings(bad)
	return bad
}

func (g *GA) reachableRules() map[string]bool {
	seen := map[string]bool{}
	if len(g.order) == 0 {
		return seen
	}
	var visit func(name string)
	visit = func(name string) {
		if seen[name] {
			return
		}
		seen[name] = true
		r := g.rules[name]
		if r == nil {
			return
		}
		r.Walk(func(n *peg.Node, _ string) {
			if n.Kind == peg.RuleRef {
				visit(n.Name)
			}
		})
	}
	visit(g.order[0].Name)
	return seen
}

// neverMatches: the node cannot succeed on any input: a code predicate whose
// every return is the constant that makes it fail (the grammar's explicit error
// productions end in `&{ return false, errors.New(...) }`), or a sequence /
// wrapper containing one.
func (g *GA) neverMatches(n *peg.Node) bool {
	switch n.Kind {
	case peg.AndCode, peg.NotCode:
		fd := g.onOf[n]
		if fd == nil {
			return false
		}
		want := "false"
		if n.Kind == peg.NotCode {
			want = "true"
		}
		all, cnt := true, 0
		ast.Inspect(fd.Body, func(x ast.Node) bool {
			if _, ok := x.(*ast.FuncLit); ok {
				return false
			}
			if rs, ok := x.(*ast.ReturnStmt); ok {
				cnt++
				if len(rs.Results) != 2 {
					all = false
					return true
				}
				id, ok := ast.Unparen(rs.Results[0]).(*ast.Ident)
				if !ok || id.Name != want || g.prog.Grammar.TypesInfo.Uses[id] != types.Universe.Lookup(want) {
					all = false
				}
			}
			return true
		})
		return all && cnt > 0
	case peg.Seq:
		for _, k := range n.Kids {
			if g.neverMatches(k) {
				return true
			}
		}
	case peg.Labeled, peg.Action, peg.Plus, peg.And:
		return g.neverMatches(n.Kids[0])
	case peg.Choice:
		for _, k := range n.Kids {
			if !g.neverMatches(k) {
				return false
			}
		}
		return true
	}
	return false
}

// ---------------------------------------------------------------------------
// Result-type and constant inference

func setAdd(m map[string]bool, xs ...string) bool {
	ch := false
	for _, x := range xs {
		if !m[x] {
			m[x] = true
			ch = true
		}
	}
	return ch
}

func setKeys(m map[string]bool) []string {
	var out []string
	for k := range m {
		out = append(out, k)
	}
	sort.Strings(out)
	return out
}

// expressionImpls: named types of package grammar whose pointer or value type
// implements the named interface.
func (g *GA) implementers(iface *types.Interface) []string {
	var out []string
	scope := g.prog.Grammar.Types.Scope()
	for _, name := range scope.Names() {
		tn, ok := scope.Lookup(name).(*types.TypeName)
		if !ok {
			continue
		}
		if _, isIface := tn.Type().Underlying().(*types.Interface); isIface {
			continue
		}
		if types.Implements(tn.Type(), iface) {
			out = append(out, name)
		} else if types.Implements(types.NewPointer(tn.Type()), iface) {
			out = append(out, "*"+name)
		}
	}
	return out
}

func (g *GA) typeName(t types.Type) string {
	return types.TypeString(t, func(p *types.Package) string {
		if p == g.prog.Grammar.Types {
			return ""
		}
		return p.Name()
	})
}

// labelNode finds, for the action/predicate node n, the labeled node with the
// given label that is in scope.
func (g *GA) labelNode(n *peg.Node, label string) *peg.Node {
	var scope *peg.Node
	if n.Kind == peg.Action {
		scope = n.Kids[0]
	} else {
		scope = g.parent[n]
	}
	if scope == nil {
		return nil
	}
	if scope.Kind == peg.Labeled && scope.Label == label {
		return scope
	}
	if scope.Kind == peg.Seq {
		for _, k := range scope.Kids {
			if k == n {
				break
			}
			if k.Kind == peg.Labeled && k.Label == label {
				return k
			}
		}
	}
	return nil
}

// elemTypes: the dynamic types of the elements of the []any value of a
// star/plus/seq node (through labels).
func (g *GA) elemTypes(n *peg.Node) map[string]bool {
	out := map[string]bool{}
	switch n.Kind {
	case peg.Labeled, peg.Opt:
		return g.elemTypes(n.Kids[0])
	case peg.Star, peg.Plus:
		for k := range g.types[n.Kids[0]] {
			out[k] = true
		}
	case peg.Seq:
		for _, k := range n.Kids {
			for t := range g.types[k] {
				out[t] = true
			}
		}
	case peg.RuleRef:
		if r := g.rules[n.Name]; r != nil {
			return g.elemTypes(r.Expr)
		}
	case peg.Choice:
		for _, k := range n.Kids {
			for t := range g.elemTypes(k) {
				out[t] = true
			}
		}
	case peg.Action:
		out["?"] = true
	}
	return out
}

func (g *GA) inferResults() {
	info := g.prog.Grammar.TypesInfo
	for changed := true; changed; {
		changed = false
		var inf func(n *peg.Node) (map[string]bool, map[string]bool)
		inf = func(n *peg.Node) (map[string]bool, map[string]bool) {
			ty := g.types[n]
			if ty == nil {
				ty = map[string]bool{}
				g.types[n] = ty
			}
			cs := g.consts[n]
			if cs == nil {
				cs = map[string]bool{}
				g.consts[n] = cs
			}
			for _, k := range n.Kids {
				inf(k)
			}
			switch n.Kind {
			case peg.Choice:
				for _, k := range n.Kids {
					if g.neverMatches(k) {
						continue
					}
					if setAdd(ty, setKeys(g.types[k])...) {
						changed = true
					}
					if setAdd(cs, setKeys(g.consts[k])...) {
						changed = true
					}
				}
			case peg.Seq, peg.Star, peg.Plus:
				if n.Kind == peg.Seq && g.neverMatches(n) {
					break
				}
				if setAdd(ty, "[]any") {
					changed = true
				}
				if setAdd(cs, "") {
					changed = true
				}
			case peg.Labeled:
				if setAdd(ty, setKeys(g.types[n.Kids[0]])...) {
					changed = true
				}
				if setAdd(cs, setKeys(g.consts[n.Kids[0]])...) {
					changed = true
				}
			case peg.Opt:
				if setAdd(ty, setKeys(g.types[n.Kids[0]])...) || setAdd(ty, "nil") {
					changed = true
				}
				if setAdd(cs, "") {
					changed = true
				}
			case peg.And, peg.Not, peg.AndCode, peg.NotCode:
				if setAdd(ty, "nil") {
					changed = true
				}
				if setAdd(cs, "") {
					changed = true
				}
			case peg.Lit, peg.Class, peg.Any:
				if setAdd(ty, "[]byte") {
					changed = true
				}
				if setAdd(cs, "") {
					changed = true
				}
			case peg.RuleRef:
				if setAdd(ty, setKeys(g.rtypes[n.Name])...) {
					changed = true
				}
				if setAdd(cs, setKeys(g.rconst[n.Name])...) {
					changed = true
				}
			case peg.Action:
				fd := g.onOf[n]
				if fd == nil {
					if setAdd(ty, "?") {
						changed = true
					}
					break
				}
				t2, c2 := g.actionResults(n, fd, info)
				if setAdd(ty, setKeys(t2)...) {
					changed = true
				}
				if setAdd(cs, setKeys(c2)...) {
					changed = true
				}
			}
			return ty, cs
		}
		for _, r := range g.order {
			ty, cs := inf(r.Expr)
			if g.rtypes[r.Name] == nil {
				g.rtypes[r.Name] = map[string]bool{}
				g.rconst[r.Name] = map[string]bool{}
			}
			if setAdd(g.rtypes[r.Name], setKeys(ty)...) {
				changed = true
			}
			if setAdd(g.rconst[r.Name], setKeys(cs)...) {
				changed = true
			}
		}
	}
}

// paramTypes: for the action function fd of node n, the dynamic type set of
// each parameter (= label).
func (g *GA) paramTypes(n *peg.Node, name string) map[string]bool {
	ln := g.labelNode(n, name)
	if ln == nil {
		return map[string]bool{"?": true}
	}
	return g.types[ln]
}

// actionResults: dynamic types and constants of the first result of the
// returns whose error result is the nil constant.
func (g *GA) actionResults(n *peg.Node, fd *ast.FuncDecl, info *types.Info) (map[string]bool, map[string]bool) {
	ty, cs := map[string]bool{}, map[string]bool{}
	params := map[types.Object]string{}
	for _, f := range fd.Type.Params.List {
		for _, nm := range f.Names {
			params[info.Defs[nm]] = nm.Name
		}
	}
	var exprTypes func(e ast.Expr) (map[string]bool, map[string]bool)
	exprTypes = func(e ast.Expr) (map[string]bool, map[string]bool) {
		t, c := map[string]bool{}, map[string]bool{}
		e = ast.Unparen(e)
		if id, ok := e.(*ast.Ident); ok {
			if id.Name == "nil" && info.Uses[id] == types.Universe.Lookup("nil") {
				t["nil"] = true
				c[""] = true
				return t, c
			}
			if o := info.Uses[id]; o != nil {
				if pn, ok := params[o]; ok {
					for k := range g.paramTypes(n, pn) {
						t[k] = true
					}
					if ln := g.labelNode(n, pn); ln != nil {
						for k := range g.consts[ln] {
							c[k] = true
						}
					}
					return t, c
				}
				if co, ok := o.(*types.Const); ok {
					t[g.typeName(co.Type())] = true
					c[canonConstName(co)] = true
					return t, c
				}
			}
		}
		c[""] = true
		tv, ok := info.Types[e]
		if !ok {
			t["?"] = true
			return t, c
		}
		if ifc, ok := tv.Type.Underlying().(*types.Interface); ok {
			// a value of interface type: a type assertion names the type; a field of
			// interface type may hold any implementer
			if ta, ok := e.(*ast.TypeAssertExpr); ok && ta.Type != nil {
				t[g.typeName(info.Types[ta.Type].Type)] = true
				return t, c
			}
			if ifc.NumMethods() > 0 {
				for _, im := range g.implementers(ifc) {
					t[im] = true
				}
				return t, c
			}
			t["?"] = true
			return t, c
		}
		t[g.typeName(tv.Type)] = true
		return t, c
	}
	ast.Inspect(fd.Body, func(x ast.Node) bool {
		if _, ok := x.(*ast.FuncLit); ok {
			return false
		}
		rs, ok := x.(*ast.ReturnStmt)
		if !ok {
			return true
		}
		switch len(rs.Results) {
		case 2:
			// only error-free returns define the value: `nil` as the error, or an error variable that may be nil (the pair
			// a decoding routine returned, handed on through locals); an error made on the spot is an error return
			if id, ok := ast.Unparen(rs.Results[1]).(*ast.Ident); !ok || id.Name != "nil" {
				if call, isCall := ast.Unparen(rs.Results[1]).(*ast.CallExpr); isCall {
					_ = call
					return true
				}
				if _, isId := ast.Unparen(rs.Results[1]).(*ast.Ident); !isId {
					return true
				}
				if id0, isId0 := ast.Unparen(rs.Results[0]).(*ast.Ident); isId0 && id0.Name == "nil" {
					return true
				}
			}
			t, c := exprTypes(rs.Results[0])
			setAdd(ty, setKeys(t)...)
			setAdd(cs, setKeys(c)...)
		case 1:
			// return f(...) with f returning (T, error)
			if call, ok := ast.Unparen(rs.Results[0]).(*ast.CallExpr); ok {
				if tup, ok := info.Types[call].Type.(*types.Tuple); ok && tup.Len() == 2 {
					rt := tup.At(0).Type()
					if _, isIface := rt.Underlying().(*types.Interface); isIface {
						ty["?"] = true
					} else {
						ty[g.typeName(rt)] = true
					}
					cs[""] = true
					return true
				}
			}
			ty["?"] = true
			cs[""] = true
		default:
			ty["?"] = true
			cs[""] = true
		}
		return true
	})
	return ty, cs
}

// assertable: can a value of dynamic type name dyn be asserted to target?
func (g *GA) assertable(dyn string, target types.Type) (bool, bool) {
	if dyn == "?" {
		return false, false // undecided
	}
	if dyn == "nil" {
		return false, true
	}
	tname := g.typeName(target)
	norm := func(s string) string { return strings.ReplaceAll(s, "interface{}", "any") }
	if norm(dyn) == norm(tname) {
		return true, true
	}
	if ifc, ok := target.Underlying().(*types.Interface); ok {
		// resolve dyn to a types.Type in package grammar
		ptr := strings.HasPrefix(dyn, "*")
		o := g.prog.Grammar.Types.Scope().Lookup(strings.TrimPrefix(dyn, "*"))
		if tn, ok := o.(*types.TypeName); ok {
			var t types.Type = tn.Type()
			if ptr {
				t = types.NewPointer(t)
			}
			return types.Implements(t, ifc), true
		}
		if ifc.NumMethods() == 0 {
			return true, true
		}
		return false, true
	}
	return false, true
}

// ---------------------------------------------------------------------------

// sequences containing node n as a direct child, with its index
func (g *GA) position(n *peg.Node) (*peg.Node, int) {
	p := g.parent[n]
	if p == nil {
		return nil, -1
	}
	for i, k := range p.Kids {
		if k == n {
			return p, i
		}
	}
	return p, -1
}

func (g *GA) nodePath(n *peg.Node) string {
	var parts []string
	for x := n; x != nil; x = g.parent[x] {
		p, i := g.position(x)
		if p == nil {
			break
		}
		parts = append([]string{fmt.Sprintf("%s[%d]", p.Kind, i)}, parts...)
	}
	return g.ruleOf[n].Name + "/" + strings.Join(parts, "/")
}

func (g *GA) posOf(n *peg.Node) string {
	if p, ok := g.tab.NodePos[n]; ok && p != token.NoPos {
		return g.prog.pos(p)
	}
	return "grammar/grammar.go"
}

type pegNode = peg.Node
