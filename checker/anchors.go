package main

// Anchors: the subjects of the rules, found by role first (signature + place in
// the call graph), by name only for the public API.

import (
	"go/constant"
	"go/token"
	"go/types"
	"sort"
	"strings"

	"golang.org/x/tools/go/ssa"
)

type Anchors struct {
	prog *Program

	EvaluateM *ssa.Function // (*Evaluator).Evaluate
	ExecuteM  *ssa.Function // (*Filter).Execute
	CreateEv  *ssa.Function
	CreateFi  *ssa.Function
	Parse     *ssa.Function // grammar.Parse

	Dispatch  *ssa.Function   // evaluate(ast Expression, datum, opt...) (bool, error)
	MatchEval *ssa.Function   // evaluateMatchExpression
	CollEval  *ssa.Function   // evaluateCollectionExpression
	GetValue  *ssa.Function   // getValue(datum, path, opt...) (interface{}, bool, error)
	Matchers  []*ssa.Function // doMatch*: (*MatchExpression, reflect.Value) (bool, error)
	EqTable   *ssa.Function   // primitiveEqualityFn: reflect.Kind -> func(interface{}, reflect.Value) bool
	EqLitIdx  int             // position of the coerced literal among a comparator's parameters
	EqValIdx  int             // position of the reflected value
	CoerceTab *ssa.Function   // getMatchExprValue: (*MatchExpression, reflect.Kind) (interface{}, error)
	GetOpts   *ssa.Function

	EvalSet map[*ssa.Function]bool // module functions reachable from Evaluate
	ExecSet map[*ssa.Function]bool
	EvalBnd map[*ssa.Function]bool // boundary callees
	ExecBnd map[*ssa.Function]bool

	Missing []string
}

func namedIs(t types.Type, pkgPath, name string) bool {
	if p, ok := t.(*types.Pointer); ok {
		t = p.Elem()
	}
	n, ok := t.(*types.Named)
	if !ok {
		if a, ok := t.(*types.Alias); ok {
			return namedIs(types.Unalias(a), pkgPath, name)
		}
		return false
	}
	return n.Obj().Name() == name && n.Obj().Pkg() != nil && n.Obj().Pkg().Path() == pkgPath
}

func isBoolErr(sig *types.Signature) bool {
	r := sig.Results()
	return r.Len() == 2 && isBool(r.At(0).Type()) && isErrorType(r.At(1).Type())
}

func isBool(t types.Type) bool {
	b, ok := t.Underlying().(*types.Basic)
	return ok && b.Kind() == types.Bool
}

func isErrorType(t types.Type) bool {
	return types.Identical(t, types.Universe.Lookup("error").Type())
}

func isEmptyIface(t types.Type) bool {
	i, ok := t.Underlying().(*types.Interface)
	return ok && i.NumMethods() == 0
}

func FindAnchors(prog *Program) *Anchors {
	a := &Anchors{prog: prog}
	need := func(name string, f *ssa.Function) *ssa.Function {
		if f == nil {
			a.Missing = append(a.Missing, name)
		}
		return f
	}
	a.EvaluateM = need("(*Evaluator).Evaluate", prog.Method(prog.BexprSSA, "Evaluator", "Evaluate", true))
	a.ExecuteM = need("(*Filter).Execute", prog.Method(prog.BexprSSA, "Filter", "Execute", true))
	a.CreateEv = need("CreateEvaluator", prog.BexprSSA.Func("CreateEvaluator"))
	a.CreateFi = need("CreateFilter", prog.BexprSSA.Func("CreateFilter"))
	a.Parse = need("grammar.Parse", prog.GrammarSSA.Func("Parse"))
	if a.EvaluateM == nil {
		return a
	}
	a.EvalSet, a.EvalBnd = prog.Reachable(a.EvaluateM)
	if a.ExecuteM != nil {
		a.ExecSet, a.ExecBnd = prog.Reachable(a.ExecuteM)
	}
	cands := sortedFuncs(a.EvalSet)
	var coerceCands []*ssa.Function
	first := func(sig *types.Signature) types.Type {
		if sig.Params().Len() == 0 {
			return nil
		}
		return sig.Params().At(0).Type()
	}
	for _, f := range cands {
		sig := f.Signature
		p0 := first(sig)
		// matchers written as methods of an operand type: func (m operands) equal() (bool, error)
		if p0 == nil && f.Parent() == nil && isBoolErr(sig) && sig.Recv() != nil {
			if ef, vf := operandFields(sig.Recv().Type()); ef != "" && vf != "" {
				a.Matchers = append(a.Matchers, f)
			}
		}
		if p0 == nil || f.Parent() != nil {
			continue
		}
		// the evaluation functions are recognised by the node they take — wherever it stands among the parameters
		if isBoolErr(sig) {
			for i := 0; i < sig.Params().Len(); i++ {
				t := sig.Params().At(i).Type()
				if namedIs(t, grammarPath, "Expression") || namedIs(t, grammarPath, "MatchExpression") || namedIs(t, grammarPath, "CollectionExpression") {
					if !(namedIs(t, grammarPath, "MatchExpression") && sig.Params().Len() >= 2 && hasReflectValueParam(sig)) {
						p0 = t
					}
					break
				}
			}
		}
		switch {
		case isBoolErr(sig) && namedIs(p0, grammarPath, "Expression") && (a.Dispatch == nil || (a.Dispatch.Signature.Recv() != nil && sig.Recv() == nil)):
			// the dispatcher is the entry the rest of the package calls: a plain function is preferred over a method it
			// may delegate to
			a.Dispatch = f
		case isBoolErr(sig) && namedIs(p0, grammarPath, "MatchExpression") && sig.Params().Len() >= 2 && namedIs(sig.Params().At(1).Type(), "reflect", "Value"):
			a.Matchers = append(a.Matchers, f)
		case isBoolErr(sig) && sig.Recv() == nil && sig.Params().Len() == 2 && namedIs(p0, "reflect", "Value") && namedIs(sig.Params().At(1).Type(), grammarPath, "MatchExpression"):
			a.Matchers = append(a.Matchers, f) // (value, expression)
		case isBoolErr(sig) && sig.Recv() == nil && sig.Params().Len() == 2 && namedIs(sig.Params().At(1).Type(), "reflect", "Value") &&
			(namedIs(p0, grammarPath, "Selector") || namedIs(p0, grammarPath, "MatchValue")):
			// a matcher narrowed to the part of the expression it reads (its selector for messages, its literal)
			a.Matchers = append(a.Matchers, f)
		case isBoolErr(sig) && namedIs(p0, grammarPath, "MatchExpression") && a.MatchEval == nil:
			a.MatchEval = f
		case isBoolErr(sig) && namedIs(p0, grammarPath, "CollectionExpression") && a.CollEval == nil:
			a.CollEval = f
		case lookupShape(sig):
			// the lookup proper takes (datum, path, options...); helpers it is split into share the result shape only
			if sig.Variadic() && sig.Params().Len() == 3 && (a.GetValue == nil || !a.GetValue.Signature.Variadic()) {
				a.GetValue = f
			} else if a.GetValue == nil {
				a.GetValue = f
			}
		case sig.Params().Len() == 1 && namedIs(p0, "reflect", "Kind") && (sig.Results().Len() == 1 || (sig.Results().Len() == 2 && isBool(sig.Results().At(1).Type()))):
			// (the comparator alone — nil when there is none — or the comparator and whether there is one)
			// the table of comparators: func(reflect.Kind) func(literal interface{}, value reflect.Value) bool
			if rs, ok := sig.Results().At(0).Type().Underlying().(*types.Signature); ok && a.EqTable == nil &&
				rs.Params().Len() == 2 && rs.Results().Len() == 1 && isBool(rs.Results().At(0).Type()) {
				// (the coerced literal and the reflected value, in either order)
				switch {
				case isEmptyIface(rs.Params().At(0).Type()) && namedIs(rs.Params().At(1).Type(), "reflect", "Value"):
					a.EqTable, a.EqLitIdx, a.EqValIdx = f, 0, 1
				case isEmptyIface(rs.Params().At(1).Type()) && namedIs(rs.Params().At(0).Type(), "reflect", "Value"):
					a.EqTable, a.EqLitIdx, a.EqValIdx = f, 1, 0
				}
			}
		case sig.Params().Len() == 2 && coerceTabParams(sig) && sig.Results().Len() == 2 && isEmptyIface(sig.Results().At(0).Type()) && isErrorType(sig.Results().At(1).Type()):
			// (the literal — as the match expression or as its MatchValue — and the kind, in either order)
			coerceCands = append(coerceCands, f)
			if a.CoerceTab == nil {
				a.CoerceTab = f
			}
		}
	}
	// of several functions with the coercion table's signature the table proper is the one that does not hand the job on to
	// another of them (a wrapper that adds a message around the table has the signature too)
	if len(coerceCands) > 1 {
		isCand := map[*ssa.Function]bool{}
		for _, f := range coerceCands {
			isCand[f] = true
		}
		for _, f := range coerceCands {
			wraps := false
			for _, b := range f.Blocks {
				for _, ins := range b.Instrs {
					if c, ok := ins.(*ssa.Call); ok {
						if g := c.Call.StaticCallee(); g != nil && g != f && isCand[g] {
							wraps = true
						}
					}
				}
			}
			if !wraps {
				a.CoerceTab = f
				break
			}
		}
	}
	if a.EqTable != nil && a.EqTable.Signature.Results().Len() == 2 {
		commaOkFuncs[a.EqTable] = true
	}
	a.Matchers = refineMatchers(prog, a.Matchers)
	a.GetOpts = optRoles(prog).getOpts
	optGetOpts = a.GetOpts
	need("evaluate dispatcher (func(grammar.Expression, …) (bool, error) reachable from Evaluate)", a.Dispatch)
	need("match evaluator (func(*grammar.MatchExpression, …) (bool, error))", a.MatchEval)
	need("collection evaluator (func(*grammar.CollectionExpression, …) (bool, error))", a.CollEval)
	need("value lookup (func(…) (interface{}, bool, error))", a.GetValue)
	need("kind→equality table (func(reflect.Kind) func(…) bool)", a.EqTable)
	need("kind→coercion table (func(*grammar.MatchExpression, reflect.Kind) (interface{}, error))", a.CoerceTab)
	need("option folder (func(...Option) options)", a.GetOpts)
	if len(a.Matchers) == 0 {
		a.Missing = append(a.Missing, "matchers (func(*grammar.MatchExpression, reflect.Value) (bool, error))")
	}
	sort.Slice(a.Matchers, func(i, j int) bool { return a.Matchers[i].Name() < a.Matchers[j].Name() })
	return a
}

func (a *Anchors) Require(r *Run, rule string) bool {
	if len(a.Missing) > 0 {
		r.Fail("unresolved-anchor", rule, "anchors", "", "cannot resolve: "+strings.Join(a.Missing, "; "))
		return false
	}
	return true
}

// grammarType returns the named type T of package grammar.
func (p *Program) grammarType(name string) *types.Named {
	o := p.Grammar.Types.Scope().Lookup(name)
	if o == nil {
		return nil
	}
	n, _ := o.Type().(*types.Named)
	return n
}

// enumConsts: the package-level constants of package grammar whose type is T.
func (p *Program) enumConsts(t types.Type) []*types.Const {
	var out []*types.Const
	sc := p.Grammar.Types.Scope()
	for _, n := range sc.Names() {
		if c, ok := sc.Lookup(n).(*types.Const); ok && types.Identical(c.Type(), t) {
			out = append(out, c)
		}
	}
	sort.Slice(out, func(i, j int) bool { return out[i].Pos() < out[j].Pos() })
	// a second name for a value that an exported constant of the type already has (an alias: `matchContains = MatchIn`)
	// is not another member of the enumeration
	var uniq []*types.Const
	for _, c := range out {
		alias := false
		if !c.Exported() {
			for _, d := range out {
				if d != c && d.Exported() && constant.Compare(d.Val(), token.EQL, c.Val()) {
					alias = true
				}
			}
		}
		if !alias {
			uniq = append(uniq, c)
		}
	}
	return uniq
}

// refineMatchers: of the functions with the matcher signature, the matchers proper are those that implement a positive
// operator. Two kinds of function share the signature without the role and are removed:
//   - dispatch wrappers: they hand exactly their own (expression, value) pair on to another function of the same signature
//     and choose it from the operator (they read expression.Operator) or from data they carry (they have a receiver);
//   - parts of a matcher: every caller is itself a matcher.
func refineMatchers(prog *Program, cands []*ssa.Function) []*ssa.Function {
	isCand := map[*ssa.Function]bool{}
	for _, f := range cands {
		isCand[f] = true
	}
	sameSig := func(t types.Type) bool {
		sig, ok := t.Underlying().(*types.Signature)
		return ok && isBoolErr(sig) && sig.Params().Len() == 2 && namedIs(sig.Params().At(0).Type(), grammarPath, "MatchExpression") && namedIs(sig.Params().At(1).Type(), "reflect", "Value")
	}
	wrapper := map[*ssa.Function]bool{}
	for _, f := range cands {
		n := len(f.Params)
		if n < 2 {
			continue
		}
		pe, pv := f.Params[n-2], f.Params[n-1]
		forwards, readsOp := false, false
		for _, b := range f.Blocks {
			for _, ins := range b.Instrs {
				switch x := ins.(type) {
				case *ssa.Call:
					args := x.Call.Args
					if len(args) >= 2 && args[len(args)-2] == ssa.Value(pe) && args[len(args)-1] == ssa.Value(pv) {
						if callee := x.Call.StaticCallee(); callee != nil {
							if isCand[callee] {
								forwards = true
							}
						} else if !x.Call.IsInvoke() && sameSig(x.Call.Value.Type()) {
							forwards = true
						}
					}
				case *ssa.FieldAddr:
					if x.X == ssa.Value(pe) && fieldName(x.X.Type(), x.Field) == "Operator" {
						readsOp = true
					}
				}
			}
		}
		if forwards && (readsOp || f.Signature.Recv() != nil) {
			wrapper[f] = true
		}
	}
	out := map[*ssa.Function]bool{}
	for _, f := range cands {
		if !wrapper[f] {
			out[f] = true
		}
	}
	for changed := true; changed; {
		changed = false
		for f := range out {
			n := prog.CG.Nodes[f]
			if n == nil || len(n.In) == 0 {
				continue
			}
			all := true
			for _, e := range n.In {
				if c := e.Caller.Func; !out[c] || c == f {
					all = false
				}
			}
			if all {
				delete(out, f)
				changed = true
			}
		}
	}
	var res []*ssa.Function
	for _, f := range cands {
		if out[f] {
			res = append(res, f)
		}
	}
	return res
}

// operandFields: for a struct type (or pointer to one) that carries the two operands of a matcher — a
// *grammar.MatchExpression and a reflect.Value — the names of those two fields.
func operandFields(t types.Type) (exprField, valueField string) {
	if p, ok := t.Underlying().(*types.Pointer); ok {
		t = p.Elem()
	}
	st, ok := t.Underlying().(*types.Struct)
	if !ok {
		return "", ""
	}
	for i := 0; i < st.NumFields(); i++ {
		ft := st.Field(i).Type()
		switch {
		case namedIs(ft, grammarPath, "MatchExpression"):
			exprField = st.Field(i).Name()
		case namedIs(ft, "reflect", "Value"):
			valueField = st.Field(i).Name()
		}
	}
	return
}

// matcherOperands: the symbols of the expression and the value a matcher works on: its last two parameters, or the two
// operand fields of its receiver.
func matcherOperands(m *ssa.Function) (expr, value *Sym) {
	if rv := m.Signature.Recv(); rv != nil && m.Signature.Params().Len() == 0 && len(m.Params) == 1 {
		ef, vf := operandFields(rv.Type())
		recv := paramSym(m.Params[0])
		if _, isPtr := rv.Type().Underlying().(*types.Pointer); isPtr {
			return loadField(recv, ef), loadField(recv, vf)
		}
		return &Sym{K: sField, A: recv, Str: ef}, &Sym{K: sField, A: recv, Str: vf}
	}
	n := len(m.Params)
	if n < 2 {
		return nil, nil
	}
	if namedIs(m.Params[n-2].Type(), "reflect", "Value") && !namedIs(m.Params[n-1].Type(), "reflect", "Value") {
		return paramSym(m.Params[n-1]), paramSym(m.Params[n-2]) // (value, expression)
	}
	return paramSym(m.Params[n-2]), paramSym(m.Params[n-1])
}

// matcherCallOperands: the expression and the value handed to a matcher at a call.
func matcherCallOperands(st *pstate, ev *Event) (expr, value *Sym) {
	m := ev.Callee
	if m == nil {
		return nil, nil
	}
	if rv := m.Signature.Recv(); rv != nil && m.Signature.Params().Len() == 0 && len(ev.Args) == 1 {
		ef, vf := operandFields(rv.Type())
		recv := ev.Args[0]
		if recv.K == sStruct {
			return getPath(recv, []string{ef}), getPath(recv, []string{vf})
		}
		if len(ev.Deref) > 0 && ev.Deref[0] != nil {
			return getPath(ev.Deref[0], []string{ef}), getPath(ev.Deref[0], []string{vf})
		}
		return mkField(recv, ef), mkField(recv, vf)
	}
	n := len(ev.Args)
	if n < 2 {
		return nil, nil
	}
	if len(m.Params) == n && namedIs(m.Params[n-2].Type(), "reflect", "Value") && !namedIs(m.Params[n-1].Type(), "reflect", "Value") {
		return ev.Args[n-1], ev.Args[n-2] // (value, expression)
	}
	return ev.Args[n-2], ev.Args[n-1]
}

// dispatchDelegates: module functions the dispatcher hands its own node parameter to (the body of a dispatcher written as
// a method of a struct that carries the constant arguments).
func dispatchDelegates(prog *Program, a *Anchors) map[*ssa.Function]bool {
	out := map[*ssa.Function]bool{}
	fn := a.Dispatch
	if fn == nil || len(fn.Params) == 0 {
		return out
	}
	for _, b := range fn.Blocks {
		for _, ins := range b.Instrs {
			c, ok := ins.(*ssa.Call)
			if !ok {
				continue
			}
			g := c.Call.StaticCallee()
			if g == nil || g == fn || !prog.InModule(g) || !isVerdict(g.Signature) {
				continue
			}
			for _, arg := range c.Call.Args {
				if arg == ssa.Value(fn.Params[0]) {
					out[g] = true
				}
			}
		}
	}
	return out
}

// argsCarry: one of the arguments is the value k, or a struct value one of whose fields is.
func argsCarry(args []*Sym, k *Sym) bool {
	for _, x := range args {
		if x == nil {
			continue
		}
		if x.Key() == k.Key() {
			return true
		}
		if x.K == sStruct {
			for _, f := range x.F {
				if f != nil && f.Key() == k.Key() {
					return true
				}
			}
		}
	}
	return false
}

// coerceTabParams: one parameter is a reflect.Kind, the other a *grammar.MatchExpression or a *grammar.MatchValue.
func coerceTabParams(sig *types.Signature) bool {
	k, l := -1, -1
	for i := 0; i < sig.Params().Len(); i++ {
		t := sig.Params().At(i).Type()
		switch {
		case namedIs(t, "reflect", "Kind"):
			k = i
		case namedIs(t, grammarPath, "MatchExpression"), namedIs(t, grammarPath, "MatchValue"):
			l = i
		}
	}
	return k >= 0 && l >= 0
}

// coerceTabRoles: the positions of the kind and of the literal among the coercion table's parameters, and whether the
// literal is passed as the whole match expression (its Value field is the literal) or as the MatchValue itself.
func (a *Anchors) coerceTabRoles() (kindIdx, litIdx int, viaExpr bool) {
	sig := a.CoerceTab.Signature
	for i := 0; i < sig.Params().Len(); i++ {
		t := sig.Params().At(i).Type()
		switch {
		case namedIs(t, "reflect", "Kind"):
			kindIdx = i
		case namedIs(t, grammarPath, "MatchExpression"):
			litIdx, viaExpr = i, true
		case namedIs(t, grammarPath, "MatchValue"):
			litIdx, viaExpr = i, false
		}
	}
	return
}

// coerceLiteral: the symbol of the *MatchValue the coercion table reads, and of the kind it is asked for.
func (a *Anchors) coerceLiteral() (lit, kind *Sym) {
	ki, li, via := a.coerceTabRoles()
	p := paramSym(a.CoerceTab.Params[li])
	if via {
		return loadField(p, "Value"), paramSym(a.CoerceTab.Params[ki])
	}
	return p, paramSym(a.CoerceTab.Params[ki])
}

// coerceKindArg: the kind argument of a call to the coercion table.
func (a *Anchors) coerceKindArg(args []*Sym) *Sym {
	ki, _, _ := a.coerceTabRoles()
	if ki < len(args) {
		return args[ki]
	}
	return nil
}

// lookupShape: the result shape of the value lookup — (interface{}, bool, error), or the first two grouped in a small
// struct: (struct{value interface{}; present bool}, error).
func lookupShape(sig *types.Signature) bool {
	rs := sig.Results()
	if rs.Len() == 3 && isEmptyIface(rs.At(0).Type()) && isBool(rs.At(1).Type()) && isErrorType(rs.At(2).Type()) {
		return true
	}
	if rs.Len() == 2 && isErrorType(rs.At(1).Type()) {
		vf, pf := lookupFields(rs.At(0).Type())
		return vf != "" && pf != ""
	}
	return false
}

// lookupFields: the names of the value and presence fields of a grouped lookup result.
func lookupFields(t types.Type) (valueField, presentField string) {
	st, ok := t.Underlying().(*types.Struct)
	if !ok || st.NumFields() != 2 {
		return "", ""
	}
	for i := 0; i < 2; i++ {
		switch {
		case isEmptyIface(st.Field(i).Type()):
			valueField = st.Field(i).Name()
		case isBool(st.Field(i).Type()):
			presentField = st.Field(i).Name()
		}
	}
	return
}

// lookupModel: the result of the value lookup, in the shape its signature has.
func (a *Anchors) lookupModel(val, present, err *Sym) *Sym {
	rs := a.GetValue.Signature.Results()
	if rs.Len() == 3 {
		return &Sym{K: sTuple, Kids: []*Sym{val, present, err}}
	}
	vf, pf := lookupFields(rs.At(0).Type())
	return &Sym{K: sTuple, Kids: []*Sym{{K: sStruct, F: map[string]*Sym{vf: val, pf: present}, T: rs.At(0).Type()}, err}}
}

// lookupResults: (value, present, error) of a return of the value lookup (or of a function with its result shape).
func lookupResults(sig *types.Signature, rs []*Sym) (val, present, err *Sym, ok bool) {
	if len(rs) == 3 {
		return rs[0], rs[1], rs[2], true
	}
	if len(rs) == 2 && sig.Results().Len() == 2 {
		vf, pf := lookupFields(sig.Results().At(0).Type())
		if vf == "" {
			return nil, nil, nil, false
		}
		g := rs[0]
		if g.K == sMkIface {
			g = g.A
		}
		return getPath(g, []string{vf}), getPath(g, []string{pf}), rs[1], true
	}
	return nil, nil, nil, false
}

// cmpParams: a comparator's literal (interface{}) and value (reflect.Value) parameters, by type.
func cmpParams(f *ssa.Function) (lit, val *ssa.Parameter) {
	for _, p := range f.Params {
		switch {
		case isEmptyIface(p.Type()):
			lit = p
		case namedIs(p.Type(), "reflect", "Value"):
			val = p
		}
	}
	return
}

// filterEvalField: the field of Filter that holds the evaluator the filter was created with — by its type: *Evaluator,
// or an interface of the module that *Evaluator implements.
func filterEvalField(prog *Program) string {
	ft, ok := prog.Bexpr.Types.Scope().Lookup("Filter").(*types.TypeName)
	et, ok2 := prog.Bexpr.Types.Scope().Lookup("Evaluator").(*types.TypeName)
	if !ok || !ok2 {
		return "evaluator"
	}
	st, ok := ft.Type().Underlying().(*types.Struct)
	if !ok {
		return "evaluator"
	}
	pe := types.NewPointer(et.Type())
	for i := 0; i < st.NumFields(); i++ {
		t := st.Field(i).Type()
		if types.Identical(t, pe) {
			return st.Field(i).Name()
		}
		if it, isI := t.Underlying().(*types.Interface); isI && it.NumMethods() > 0 && types.Implements(pe, it) {
			return st.Field(i).Name()
		}
	}
	return "evaluator"
}

// canonConstName: the name a constant is known by — for an unexported second name of a value that an exported constant
// of the same type has, the exported constant's name.
func canonConstName(c *types.Const) string {
	if c.Exported() || c.Pkg() == nil {
		return c.Name()
	}
	sc := c.Pkg().Scope()
	for _, n := range sc.Names() {
		if d, ok := sc.Lookup(n).(*types.Const); ok && d != c && d.Exported() && types.Identical(d.Type(), c.Type()) && constant.Compare(d.Val(), token.EQL, c.Val()) {
			return d.Name()
		}
	}
	return c.Name()
}

// lookupParams: the parameters of the value lookup by role — the datum (interface{}), the selector's path ([]string)
// and the options: the caller's option list (…Option / []Option), or the option set already folded into the options
// struct (resolved == true).
func (a *Anchors) lookupParams(prog *Program) (datum, path, opts *ssa.Parameter, resolved bool) {
	ot := optRoles(prog).optionsT
	for _, p := range a.GetValue.Params {
		t := p.Type()
		switch {
		case isEmptyIface(t) && datum == nil:
			datum = p
		case isStringSlice(t) && path == nil:
			path = p
		case namedIs(t, grammarPath, "Selector") && path == nil:
			path = p // the whole selector: its Path is what is looked up
		case isOptionList(t):
			opts = p
		case ot != nil && types.Identical(t, ot):
			opts, resolved = p, true
		}
	}
	return
}

func isStringSlice(t types.Type) bool {
	s, ok := t.Underlying().(*types.Slice)
	return ok && types.Identical(s.Elem(), types.Typ[types.String])
}

func isOptionList(t types.Type) bool {
	s, ok := t.Underlying().(*types.Slice)
	return ok && namedIs(s.Elem(), modPath, "Option")
}

// verdictFields: for a function whose one result is a small struct made of a truth value and an error (the pair
// (bool, error) grouped), the names of the two fields.
func verdictFields(sig *types.Signature) (okField, errField string) {
	rs := sig.Results()
	if rs.Len() != 1 {
		return "", ""
	}
	st, ok := rs.At(0).Type().Underlying().(*types.Struct)
	if !ok || st.NumFields() != 2 {
		return "", ""
	}
	for i := 0; i < 2; i++ {
		switch {
		case isBool(st.Field(i).Type()):
			okField = st.Field(i).Name()
		case isErrorType(st.Field(i).Type()):
			errField = st.Field(i).Name()
		}
	}
	if okField == "" || errField == "" {
		return "", ""
	}
	return
}

// isVerdict: the function answers with a truth value and an error — as a pair, or grouped in a struct.
func isVerdict(sig *types.Signature) bool {
	if isBoolErr(sig) {
		return true
	}
	o, e := verdictFields(sig)
	return o != "" && e != ""
}

// verdictModel: (b, e) in the shape the function's signature has.
func verdictModel(sig *types.Signature, b, e *Sym) *Sym {
	if isBoolErr(sig) {
		return &Sym{K: sTuple, Kids: []*Sym{b, e}}
	}
	of, ef := verdictFields(sig)
	return &Sym{K: sStruct, F: map[string]*Sym{of: b, ef: e}, T: sig.Results().At(0).Type()}
}

// verdictOf: the truth value and the error of a return, whatever the shape.
func verdictOf(sig *types.Signature, rs []*Sym) (b, e *Sym, ok bool) {
	if len(rs) == 2 && isBoolErr(sig) {
		return rs[0], rs[1], true
	}
	of, ef := verdictFields(sig)
	if len(rs) == 1 && of != "" {
		g := rs[0]
		return getPath(g, []string{of}), getPath(g, []string{ef}), true
	}
	return nil, nil, false
}

func hasReflectValueParam(sig *types.Signature) bool {
	for i := 0; i < sig.Params().Len(); i++ {
		if namedIs(sig.Params().At(i).Type(), "reflect", "Value") {
			return true
		}
	}
	return false
}

// evalParams: the parameters of an evaluation function (dispatcher, match evaluator, collection evaluator) by role: the
// node it evaluates, the datum (interface{}), the options (the last parameter).
func evalParams(fn *ssa.Function) (node, datum, opts *ssa.Parameter) {
	ps := fn.Params
	if fn.Signature.Recv() != nil && len(ps) > 0 {
		ps = ps[1:]
	}
	for _, p := range ps {
		t := p.Type()
		switch {
		case node == nil && (namedIs(t, grammarPath, "Expression") || namedIs(t, grammarPath, "MatchExpression") || namedIs(t, grammarPath, "CollectionExpression")):
			node = p
		case datum == nil && isEmptyIface(t):
			datum = p
		}
	}
	if len(ps) > 0 {
		opts = ps[len(ps)-1]
		if opts == node || opts == datum {
			opts = nil
		}
	}
	return
}

// comparatorOf: the comparator in what a call of the equality table returned (the result itself, or the first of
// (comparator, ok)).
func (a *Anchors) comparatorOf(res *Sym) *Sym {
	if a.EqTable != nil && a.EqTable.Signature.Results().Len() == 2 && res != nil && res.K != sRes {
		return &Sym{K: sRes, A: res, Idx: 0}
	}
	return res
}

// The parser engine's fields by role, whatever they are called: fPT the parser's current savepoint (a struct embedding
// the position, with one rune and one int of its own), fRN that savepoint's rune, fW its width, fDATA the parser's input
// bytes. Resolved from the types when the program is loaded; the names of the reference tree are the fallback.
var fPT, fRN, fW, fDATA = "pt", "rn", "w", "data"

func resolveEngineFields(p *Program) {
	fPT, fRN, fW, fDATA = "pt", "rn", "w", "data"
	if p == nil || p.Grammar == nil || p.Grammar.Types == nil {
		return
	}
	sc := p.Grammar.Types.Scope()
	for _, nm := range sc.Names() {
		tn, ok := sc.Lookup(nm).(*types.TypeName)
		if !ok {
			continue
		}
		st, ok := tn.Type().Underlying().(*types.Struct)
		if !ok {
			continue
		}
		pt, rn, w, data := "", "", "", ""
		nbytes := 0
		for i := 0; i < st.NumFields(); i++ {
			f := st.Field(i)
			if sl, isSl := f.Type().Underlying().(*types.Slice); isSl {
				if b, isB := sl.Elem().Underlying().(*types.Basic); isB && b.Kind() == types.Uint8 {
					data = f.Name()
					nbytes++
				}
			}
			sp, ok := f.Type().Underlying().(*types.Struct)
			if !ok || f.Embedded() {
				continue
			}
			emb, runes, ints := 0, []string{}, []string{}
			for j := 0; j < sp.NumFields(); j++ {
				g := sp.Field(j)
				if g.Embedded() {
					if _, isS := g.Type().Underlying().(*types.Struct); isS {
						emb++
					}
					continue
				}
				if b, isB := g.Type().Underlying().(*types.Basic); isB {
					switch b.Kind() {
					case types.Int32:
						runes = append(runes, g.Name())
					case types.Int:
						ints = append(ints, g.Name())
					}
				}
			}
			if emb == 1 && len(runes) == 1 && len(ints) == 1 && sp.NumFields() == 3 {
				pt, rn, w = f.Name(), runes[0], ints[0]
			}
		}
		if pt != "" && data != "" && nbytes == 1 {
			fPT, fRN, fW, fDATA = pt, rn, w, data
			return
		}
	}
}
