package main

// C01 — Evaluate returns what the expression denotes (narrow): producer/consumer
// exhaustiveness between the parser's actions and the evaluator, plus the
// semantic skeleton (the rule sets of C02–C07, imported).

import (
	"fmt"
	"go/ast"
	"go/constant"
	"go/token"
	"go/types"
	"sort"
	"strings"

	"golang.org/x/tools/go/ssa"

	"verifcheck/peg"
)

// producible: (node type → operator constants) the grammar's actions can build.
func (ga *GA) producible() map[string]map[string]bool {
	info := ga.prog.Grammar.TypesInfo
	out := map[string]map[string]bool{}
	for n, fd := range ga.onOf {
		if fd == nil || n.Kind != peg.Action {
			continue
		}
		params := map[types.Object]string{}
		for _, f := range fd.Type.Params.List {
			for _, nm := range f.Names {
				params[info.Defs[nm]] = nm.Name
			}
		}
		ast.Inspect(fd.Body, func(x ast.Node) bool {
			cl, ok := x.(*ast.CompositeLit)
			if !ok {
				return true
			}
			nn, ok := info.Types[cl].Type.(*types.Named)
			if !ok || nn.Obj().Pkg() != ga.prog.Grammar.Types {
				return true
			}
			tn := nn.Obj().Name()
			for _, el := range cl.Elts {
				kv, ok := el.(*ast.KeyValueExpr)
				if !ok {
					continue
				}
				fname := kv.Key.(*ast.Ident).Name
				if fname != "Operator" && fname != "Op" && fname != "Mode" {
					continue
				}
				if out[tn] == nil {
					out[tn] = map[string]bool{}
				}
				v := ast.Unparen(kv.Value)
				for i := 0; i < 3; i++ {
					// through assertions and single-assignment locals (a constructor helper's parameter bound to a label)
					if ta, ok := v.(*ast.TypeAssertExpr); ok {
						v = ast.Unparen(ta.X)
					}
					if id, ok := v.(*ast.Ident); ok {
						if _, isParam := params[info.Uses[id]]; isParam {
							break
						}
					}
					nv := ast.Unparen(resolveLocal(info, fd.Body, v))
					if nv == v {
						break
					}
					v = nv
				}
				if id, ok := v.(*ast.Ident); ok {
					if c, ok := info.Uses[id].(*types.Const); ok {
						out[tn][canonConstName(c)] = true
					} else if pn, ok := params[info.Uses[id]]; ok {
						if ln := ga.labelNode(n, pn); ln != nil {
							for c := range ga.consts[ln] {
								if c != "" {
									out[tn][c] = true
								} else {
									out[tn]["<non-constant>"] = true
								}
							}
						}
					}
				}
			}
			return true
		})
	}
	return out
}

func checkProducerConsumer(r *Run, prog *Program, a *Anchors, ga *GA, pfx string) {
	prod := ga.producible()
	r.Floor(pfx+".handled", 12)
	// 1. every Expression implementation has an arm in the dispatcher that is not the fallback
	exprT := prog.grammarType("Expression")
	fn := a.Dispatch
	pNode := paramSym(fn.Params[0])
	if nP, _, _ := evalParams(fn); nP != nil {
		pNode = paramSym(nP)
	}
	for _, impl := range ga.implementers(exprT.Underlying().(*types.Interface)) {
		tn := strings.TrimPrefix(impl, "*")
		nt := prog.grammarType(tn)
		if nt == nil {
			continue
		}
		var dyn types.Type = nt
		if strings.HasPrefix(impl, "*") {
			dyn = types.NewPointer(nt)
		}
		ops := setKeys(prod[tn])
		// operator field of the node (Unary/Binary carry "Operator"; Match/Collection are dispatched whole)
		st := nt.Underlying().(*types.Struct)
		var opConsts []*types.Const
		hasOpInDispatcher := tn == "UnaryExpression" || tn == "BinaryExpression"
		for i := 0; i < st.NumFields(); i++ {
			if st.Field(i).Name() == "Operator" && hasOpInDispatcher {
				opConsts = prog.enumConsts(st.Field(i).Type())
			}
		}
		if len(opConsts) == 0 {
			opConsts = []*types.Const{nil}
		}
		for _, oc := range opConsts {
			key := tn
			if oc != nil {
				key += "." + oc.Name()
				if !prod[tn][oc.Name()] {
					// a constant the grammar never produces: nothing to handle
					r.Check(pfx+".handled", "dispatch:"+key, prog.pos(fn.Pos()), true, "info: not produced by the grammar")
					continue
				}
			}
			ps := NewPathSim(prog)
			oc := oc
			delegates := dispatchDelegates(prog, a)
			ps.Inline = func(c *ssa.Function) bool { return delegates[c] } // a dispatcher whose body is a method it delegates to
			ps.Seed = func(st *pstate) {
				st.dyn[pNode.Key()] = dyn
				if oc != nil {
					st.eqc[opSym(pNode, dyn, "Operator").Key()] = constKey(oc)
				}
			}
			ps.Model = func(ev *Event) *Sym {
				if ev.Callee != nil && prog.InModule(ev.Callee) && isBoolErr(ev.Callee.Signature) {
					return &Sym{K: sTuple, Kids: []*Sym{{K: sConst, C: constant.MakeBool(true)}, nilSym()}}
				}
				return nil
			}
			fallback := 0
			handled := 0
			for _, sm := range ps.Run(fn) {
				if sm.Ret == nil {
					continue
				}
				called := false
				for _, ev := range sm.Events() {
					if ev.Instr != nil && ev.Callee != nil && prog.InModule(ev.Callee) && isBoolErr(ev.Callee.Signature) {
						called = true
					}
				}
				if called {
					handled++
				} else {
					fallback++
				}
			}
			r.Check(pfx+".handled", "dispatch:"+key, prog.pos(fn.Pos()), handled > 0 && fallback == 0,
				fmt.Sprintf("a %s the parser can produce (operators %v) falls through to the dispatcher's error fallback on %d path(s) (handled on %d)", key, ops, fallback, handled))
		}
	}
	// 2. every operator constant the grammar produces for match / collection expressions exists and is in the evaluator's tables
	for tn, field := range map[string]string{"MatchExpression": "MatchOperator", "CollectionExpression": "CollectionOperator", "CollectionNameBinding": "CollectionBindMode"} {
		t := prog.grammarType(field)
		if t == nil {
			continue
		}
		known := map[string]bool{}
		for _, c := range prog.enumConsts(t) {
			known[c.Name()] = true
		}
		for _, c := range setKeys(prod[tn]) {
			r.Check(pfx+".handled", "producible:"+tn+"."+c, "grammar/grammar.go", known[c], "the grammar builds a "+tn+" with "+c+", which is not a declared constant of "+field)
		}
		// and every declared constant is producible (no dead operator) — informational
		var dead []string
		for c := range known {
			if !prod[tn][c] {
				dead = append(dead, c)
			}
		}
		sort.Strings(dead)
		if len(dead) > 0 {
			r.Note("constants of %s never produced by the grammar: %v", field, dead)
		}
	}
	checkBindingModes(r, prog, ga, pfx)
	_ = ssa.Function{}
}

// checkBindingModes: each binding mode sets a determined subset of Default/Index/Value, and those are the names the
// evaluator binds (the blank placeholder `_` sets none).
func checkBindingModes(r *Run, prog *Program, ga *GA, pfx string) {
	info := prog.Grammar.TypesInfo
	modeFields := map[string][]string{}
	for n, fd := range ga.onOf {
		if fd == nil || n.Kind != peg.Action {
			continue
		}
		ast.Inspect(fd.Body, func(x ast.Node) bool {
			cl, ok := x.(*ast.CompositeLit)
			if !ok {
				return true
			}
			nn, ok := info.Types[cl].Type.(*types.Named)
			if !ok || nn.Obj().Name() != "CollectionNameBinding" {
				return true
			}
			mode := ""
			var fields []string
			for _, el := range cl.Elts {
				kv := el.(*ast.KeyValueExpr)
				f := kv.Key.(*ast.Ident).Name
				if f == "Mode" {
					if id, ok := ast.Unparen(kv.Value).(*ast.Ident); ok {
						mode = id.Name
					}
				} else {
					fields = append(fields, f)
				}
			}
			sort.Strings(fields)
			modeFields[mode] = fields
			return true
		})
	}
	want := map[string][]string{"CollectionBindDefault": {"Default"}, "CollectionBindIndex": {"Index"}, "CollectionBindValue": {"Value"}, "CollectionBindIndexAndValue": {"Index", "Value"}}
	for mode, w := range want {
		got := modeFields[mode]
		r.Check(pfx+".binding-modes", mode, "grammar/grammar.go", strings.Join(got, ",") == strings.Join(w, ","), fmt.Sprintf("binding mode %s sets the names %v, expected %v (the evaluator binds exactly the names that are set)", mode, got, w))
	}
	_ = ssa.Function{}
}

func init() {
	register("C01", true, func(r *Run, prog *Program) {
		a := FindAnchors(prog)
		if !a.Require(r, "c01.anchors") {
			return
		}
		g := loadGrammars(r, prog)
		if g == nil {
			return
		}
		ga := NewGA(prog, g.Tab)
		checkProducerConsumer(r, prog, a, ga, "c01")
		checkTreeHandedOver(r, prog, a, "c01")
		checkMatchesSubject(r, prog, a, "c01")
		checkInOnString(r, prog, a, "c01")
		checkSliceArrayAlike(r, prog, a, "c01")
		checkRegexpSource(r, prog, a, "c01")
		r.importing = "C14"
		checkUnorderedSources(r, prog, a, "c14") // what an expression denotes does not depend on Go's map order
		r.importing = ""
		// the semantic skeleton: the clauses of the statement are the rule sets of C02–C07
		r.importing = "C03"
		checkConnectives(r, prog, a, "c03")
		r.importing = "C04"
		checkMatchDispatch(r, prog, a, "c04")
		checkOperatorSpellings(r, ga, "c04")
		r.importing = "C02"
		checkEqualityTables(r, prog, a, "c02")
		checkJSONNumber(r, prog, a, "c02")
		checkCoercionErrors(r, prog, a, "c02")
		checkElementTransparency(r, prog, a, "c02")
		checkDerefHelpers(r, prog, "c02")
		r.importing = "C09"
		checkComparatorCalls(r, prog, a, a.EvalSet)
		r.importing = "C05"
		checkValueLookup(r, prog, a, "c05")
		checkDispositionTable(r, prog, "c05", false, true)
		r.importing = "C06"
		checkQuantifier(r, prog, a, "c06")
		checkScan(r, prog, a, "c06")
		checkWithLocalVariable(r, prog, "c06")
		checkQuantifierAbsent(r, prog, a, "c06") // an absent collection: all true, any false
		r.importing = "C07"
		checkSelectorGrammar(r, ga, "c07")
		checkSpellingBlind(r, prog, a, "c07")
		r.importing = "C18"
		checkEvaluatorPipeline(r, prog, a, "c18") // what Evaluate runs with is what CreateEvaluator was given (an unknown value of nil is an unknown value)
		r.importing = "C15"
		checkEngineInvariants(r, prog, "c15") // every expression of the language is an expression: the engine reads the table as written, any character included
		r.importing = "C16"
		checkLiteralFidelity(r, ga) // the literal compared is the literal written: the quoted string decoded, a bare word as the selector it spells
		r.importing = ""
		r.Technique = "producer/consumer exhaustiveness between the grammar's actions (constant and type inference) and the evaluator's dispatch (abstract execution per node type and operator); the rule sets of C02–C07 re-evaluated as the semantic skeleton of the statement"
		r.Explain = "Agreement with an independent interpreter over all expressions × all data is a run-time relation and is NOT decided. Decided, as structural necessary conditions: every (node type, operator constant) the parser's actions can produce reaches a real handler in the evaluator (never the `Invalid AST node` fallback); every operator/binding-mode constant the grammar uses is declared and each binding mode sets exactly the names the evaluator binds; the tree evaluated is the tree parsed; and each clause of the statement's semantics — selectors walk the datum through one gateway by path parts (C07, C05), each operator compares in the value's own type (C02) with exact complements (C04) and the documented absent-key table (C05), not/and/or/any/all combine left to right (C03, C06) — holds by the imported rule sets, whose obligations are listed as shared."
		r.Assume = append(r.Assume, "the documented semantics are the clauses transcribed in the spec tables of C02–C07")
	})
}

// checkSliceArrayAlike: wherever an evaluation function singles out values of kind Slice, it singles out those of kind
// Array the same way (the same case list, or a case of its own that falls through to the slice's): lists are lists. A
// belief the code states in every kind switch it has (`in`, `is empty`, any/all, Filter); one switch that forgets the
// array contradicts the others.
func checkSliceArrayAlike(r *Run, prog *Program, a *Anchors, pfx string) {
	const kSliceC, kArrayC = 23, 17
	set := map[*ssa.Function]bool{}
	for f := range a.EvalSet {
		set[f] = true
	}
	for f := range a.ExecSet {
		set[f] = true
	}
	type test struct {
		x      ssa.Value
		target *ssa.BasicBlock
		pos    token.Pos
	}
	sameSubject := func(x, y ssa.Value) bool {
		if x == y {
			return true
		}
		cx, okx := x.(*ssa.Call)
		cy, oky := y.(*ssa.Call)
		if okx && oky && cx.Call.StaticCallee() != nil && cx.Call.StaticCallee() == cy.Call.StaticCallee() && len(cx.Call.Args) == 1 && len(cy.Call.Args) == 1 {
			return cx.Call.Args[0] == cy.Call.Args[0]
		}
		return false
	}
	reaches := func(from, to *ssa.BasicBlock) bool {
		b := from
		for i := 0; i < 6 && b != nil; i++ {
			if b == to {
				return true
			}
			if len(b.Succs) != 1 {
				return false
			}
			b = b.Succs[0]
		}
		return false
	}
	n := 0
	var fns []*ssa.Function
	for f := range set {
		if prog.InModule(f) && len(f.Blocks) > 0 {
			fns = append(fns, f)
		}
	}
	sort.Slice(fns, func(i, j int) bool { return fns[i].String() < fns[j].String() })
	for _, fn := range fns {
		var slices, arrays []test
		for _, b := range fn.Blocks {
			ifi, ok := b.Instrs[len(b.Instrs)-1].(*ssa.If)
			if !ok {
				continue
			}
			bo, ok := ifi.Cond.(*ssa.BinOp)
			if !ok || bo.Op != token.EQL || !namedIs(bo.X.Type(), "reflect", "Kind") {
				continue
			}
			c, ok := bo.Y.(*ssa.Const)
			if !ok || c.Value == nil {
				continue
			}
			v, _ := constant.Int64Val(c.Value)
			switch v {
			case kSliceC:
				slices = append(slices, test{bo.X, b.Succs[0], bo.Pos()})
			case kArrayC:
				arrays = append(arrays, test{bo.X, b.Succs[0], bo.Pos()})
			}
		}
		for k, s := range slices {
			n++
			ok := false
			for _, ar := range arrays {
				if sameSubject(s.x, ar.x) && (ar.target == s.target || reaches(ar.target, s.target)) {
					ok = true
				}
				// each in a case of its own, both handed to the same helper (`filterList(v, …)`)
				if sameSubject(s.x, ar.x) {
					callee := func(b *ssa.BasicBlock) *ssa.Function {
						for _, ins := range b.Instrs {
							if c, isC := ins.(*ssa.Call); isC {
								if g := c.Call.StaticCallee(); g != nil && prog.InModule(g) {
									return g
								}
							}
						}
						return nil
					}
					if g := callee(s.target); g != nil && g == callee(ar.target) {
						ok = true
					}
				}
			}
			if !ok {
				// `kind == Slice || kind == Array` as the value of a predicate: the array test is not a branch of its own
				// but the other operand of the disjunction the slice test short-circuits
				for _, b := range fn.Blocks {
					for _, ins := range b.Instrs {
						bo, isBO := ins.(*ssa.BinOp)
						if !isBO || bo.Op != token.EQL || !sameSubject(s.x, bo.X) {
							continue
						}
						if c, isC := bo.Y.(*ssa.Const); isC && c.Value != nil {
							if v, _ := constant.Int64Val(c.Value); v == kArrayC {
								if refs := bo.Referrers(); refs != nil {
									for _, u := range *refs {
										if phi, isPhi := u.(*ssa.Phi); isPhi && phi.Block() == s.target {
											ok = true
										}
										if _, isRet := u.(*ssa.Return); isRet && len(s.target.Instrs) > 0 {
											if _, retT := s.target.Instrs[len(s.target.Instrs)-1].(*ssa.Return); retT {
												ok = true
											}
										}
									}
								}
							}
						}
					}
				}
			}
			r.Check(pfx+".slice-array-alike", fmt.Sprintf("%s:slice-test#%d", fn.Name(), k+1), prog.pos(s.pos), ok,
				fn.Name()+" singles out values of kind Slice here but not, in the same way, those of kind Array: arrays are lists everywhere else")
		}
	}
	r.Check(pfx+".slice-array-alike", "census", prog.pos(a.Dispatch.Pos()), n >= 1, fmt.Sprintf("info: %d tests for kind Slice examined", n))
}
