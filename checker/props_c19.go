package main

// C19 — ExpressionDump and Selector.String render the tree faithfully.

import (
	"fmt"
	"go/constant"
	"go/token"
	"go/types"
	"strings"

	"golang.org/x/tools/go/ssa"
)

// operator names of the statement
var nameSpec = map[string]map[string]string{
	"MatchOperator": {"MatchEqual": "Equal", "MatchNotEqual": "Not Equal", "MatchIn": "In", "MatchNotIn": "Not In", "MatchIsEmpty": "Is Empty",
		"MatchIsNotEmpty": "Is Not Empty", "MatchMatches": "Matches", "MatchNotMatches": "Not Matches"},
	"BinaryOperator": {"BinaryOpAnd": "And", "BinaryOpOr": "Or"},
	"UnaryOperator":  {"UnaryOpNot": "Not"},
}

// string-valued enumerations: the constant's value is the rendering
var valueSpec = map[string]map[string]string{
	"CollectionOperator": {"CollectionOpAll": "ALL", "CollectionOpAny": "ANY"},
}

func checkNames(r *Run, prog *Program, pfx string) {
	r.Floor(pfx+".name", 11)
	for tn, spec := range nameSpec {
		t := prog.grammarType(tn)
		m := prog.Method(prog.GrammarSSA, tn, "String", false)
		if t == nil || m == nil {
			r.Fail("unresolved-anchor", pfx+".name", tn+".String", "grammar/ast.go", "type or String method not found")
			continue
		}
		r.Analysed(m.String())
		p := paramSym(m.Params[0])
		seen := map[string]string{}
		for _, c := range prog.enumConsts(t) {
			c := c
			ps := NewPathSim(prog)
			ps.Seed = func(st *pstate) { st.eqc[p.Key()] = constKey(c) }
			ps.Inline = func(g *ssa.Function) bool { return prog.InModule(g) && g != m }
			sums := ps.Run(m)
			got := "?"
			if len(sums) == 1 && len(sums[0].Results) == 1 {
				res := sums[0].Results[0]
				if res.K == sLoad && res.A.K == sIndexAddr && res.A.A.K == sGlobal {
					// a lookup in a package-level table initialised once: resolve the element
					if idx, ok := constValue(sums[0].St, res.A.B); ok {
						if i, exact := constant.Int64Val(idx); exact {
							if el, ok := globalArrayElem(prog, res.A.A.V.(*ssa.Global), i); ok {
								res = el
							}
						}
					}
				}
				if res.K == sConst && res.C != nil && res.C.Kind() == constant.String {
					got = constant.StringVal(res.C)
				}
			}
			want, has := spec[c.Name()]
			ok := has && got == want
			if prev, dup := seen[got]; dup {
				ok = false
				want += " (and distinct from " + prev + ")"
			}
			seen[got] = c.Name()
			r.Check(pfx+".name", tn+"."+c.Name(), prog.pos(c.Pos()), ok, fmt.Sprintf("%s renders as %q, the documented name is %q (in table: %v)", c.Name(), got, want, has))
		}
		for cn := range spec {
			if _, ok := prog.Grammar.Types.Scope().Lookup(cn).(*types.Const); !ok {
				r.Check(pfx+".name", tn+"."+cn, "grammar/ast.go", false, "documented operator "+cn+" no longer exists")
			}
		}
	}
	for tn, spec := range valueSpec {
		t := prog.grammarType(tn)
		if t == nil {
			r.Fail("unresolved-anchor", pfx+".name", tn, "grammar/ast.go", "type not found")
			continue
		}
		for _, c := range prog.enumConsts(t) {
			want, has := spec[c.Name()]
			got := ""
			if c.Val().Kind() == constant.String {
				got = constant.StringVal(c.Val())
			}
			r.Check(pfx+".name", tn+"."+c.Name(), prog.pos(c.Pos()), has && got == want, fmt.Sprintf("%s has value %q, the documented rendering is %q", c.Name(), got, want))
		}
	}
	// binding rendering: each mode prints its own name(s)
	m := prog.Method(prog.GrammarSSA, "CollectionNameBinding", "String", true)
	bt := prog.grammarType("CollectionBindMode")
	if m == nil || bt == nil {
		r.Fail("unresolved-anchor", pfx+".binding-name", "CollectionNameBinding.String", "grammar/ast.go", "not found")
		return
	}
	want := map[string][]string{"CollectionBindDefault": {"Default"}, "CollectionBindIndex": {"Index"}, "CollectionBindValue": {"Value"}, "CollectionBindIndexAndValue": {"Index", "Value"}}
	p := paramSym(m.Params[0])
	for _, c := range prog.enumConsts(bt) {
		c := c
		ps := NewPathSim(prog)
		ps.Seed = func(st *pstate) { st.eqc[loadField(p, "Mode").Key()] = constKey(c) }
		ps.Inline = func(g *ssa.Function) bool { return prog.InModule(g) && g != m }
		sums := ps.Run(m)
		ok := len(sums) == 1
		var got []string
		if ok && len(sums[0].Results) == 1 {
			// the leaves of the rendered string, in order: through Sprintf arguments, concatenations and conversions
			for _, leaf := range stringLeaves(sums[0].St, sums[0].Results[0], 0) {
				for _, f := range []string{"Default", "Index", "Value"} {
					if leaf.Key() == loadField(p, f).Key() {
						got = append(got, f)
					}
				}
			}
		}
		w, has := want[c.Name()]
		r.Check(pfx+".binding-name", c.Name(), prog.pos(c.Pos()), ok && has && strings.Join(got, ",") == strings.Join(w, ","),
			fmt.Sprintf("binding mode %s renders the names %v, expected %v", c.Name(), got, w))
	}
}

// globalArrayElem: element i of a package-level array/slice variable that is written only by package initialisation.
func globalArrayElem(prog *Program, g *ssa.Global, i int64) (*Sym, bool) {
	init := g.Pkg.Func("init")
	if init == nil {
		return nil, false
	}
	for _, fn := range prog.ModuleFuncs() {
		if fn == init {
			continue
		}
		for _, b := range fn.Blocks {
			for _, ins := range b.Instrs {
				if st, ok := ins.(*ssa.Store); ok {
					if root, _ := rootOf(st.Addr); root == ssa.Value(g) {
						return nil, false
					}
				}
			}
		}
	}
	var found *Sym
	for _, b := range init.Blocks {
		for _, ins := range b.Instrs {
			st, ok := ins.(*ssa.Store)
			if !ok {
				continue
			}
			ia, ok := st.Addr.(*ssa.IndexAddr)
			if !ok {
				continue
			}
			root, _ := rootOf(ia.X)
			if root != ssa.Value(g) {
				continue
			}
			c, ok := ia.Index.(*ssa.Const)
			if !ok || c.Value == nil {
				continue
			}
			if v, exact := constant.Int64Val(c.Value); exact && v == i {
				if cv, ok := st.Val.(*ssa.Const); ok {
					found = &Sym{K: sConst, C: cv.Value, T: cv.Type()}
				}
			}
		}
	}
	return found, found != nil
}

// checkDumpInduction: per ExpressionDump method: open line, each child once in declaration order with (w, indent, level+1), close line.
func checkDumpInduction(r *Run, prog *Program, ga *GA, pfx string) {
	exprT := prog.grammarType("Expression")
	if exprT == nil {
		r.Fail("unresolved-anchor", pfx+".dump", "Expression", "grammar/ast.go", "interface not found")
		return
	}
	r.Floor(pfx+".dump", 4)
	for _, impl := range ga.implementers(exprT.Underlying().(*types.Interface)) {
		tn := strings.TrimPrefix(impl, "*")
		m := prog.Method(prog.GrammarSSA, tn, "ExpressionDump", strings.HasPrefix(impl, "*"))
		nt := prog.grammarType(tn)
		if m == nil || nt == nil || len(m.Params) != 4 {
			r.Fail("unresolved-anchor", pfx+".dump", tn+".ExpressionDump", "grammar/ast.go", "method not found")
			continue
		}
		r.Analysed(m.String())
		pRecv, pW, pIndent, pLevel := paramSym(m.Params[0]), paramSym(m.Params[1]), paramSym(m.Params[2]), paramSym(m.Params[3])
		children := exprFields(nt)
		ps := NewPathSim(prog)
		ps.maxVisits = 5
		ps.MaxDepth = 4
		ps.Inline = func(c *ssa.Function) bool {
			return prog.InModule(c) && c.Name() != "ExpressionDump" && c.Name() != "String"
		}
		sums := ps.Run(m)
		if len(sums) == 0 {
			r.Check(pfx+".dump", tn, prog.pos(m.Pos()), false, "no path")
			continue
		}
		for _, sm := range sums {
			var probs []string
			if sm.Panic != nil {
				probs = append(probs, "explicit panic")
			}
			isChild := func(ev *Event) bool {
				return ev.Instr.Common().IsInvoke() && ev.Instr.Common().Method.Name() == "ExpressionDump"
			}
			pieces := outputOf(sm, pW, isChild)
			var childOrder []string
			// segments between the child dumps
			segs := [][]outPiece{nil}
			for _, pc := range pieces {
				if pc.bad != "" {
					probs = append(probs, pc.bad)
					continue
				}
				if pc.child == nil {
					segs[len(segs)-1] = append(segs[len(segs)-1], pc)
					continue
				}
				segs = append(segs, nil)
				ev := pc.child
				f, ok := "", false
				if ev.Args[0].K == sLoad && ev.Args[0].A.K == sFieldAddr && ev.Args[0].A.A.Key() == pRecv.Key() {
					f, ok = ev.Args[0].A.Str, true
				}
				if !ok {
					probs = append(probs, "recursion on something that is not a child field of the receiver: "+shortKey(ev.Args[0]))
					continue
				}
				childOrder = append(childOrder, f)
				if len(ev.Args) != 4 || ev.Args[1].Key() != pW.Key() || ev.Args[2].Key() != pIndent.Key() {
					probs = append(probs, "child "+f+" is not dumped to the same writer with the same indent string")
				}
				if len(ev.Args) == 4 {
					b, o := linear(ev.Args[3])
					if b != pLevel.Key() || o != 1 {
						probs = append(probs, fmt.Sprintf("child %s is dumped at level %s, expected level+1 (one indent level per tree level, at every depth)", f, shortKey(ev.Args[3])))
					}
				}
			}
			// a node that has a selector prints it in its own spelling: the Selector value itself (its String method), never
			// its parts re-joined some other way
			if hasField(nt, "Selector") {
				selPrinted := false
				for _, pc := range pieces {
					if pc.arg == nil {
						continue
					}
					if (pc.verb == 'v' || pc.verb == 's') && pc.flags == "" && (pc.arg.Key() == loadField(pRecv, "Selector").Key() || isSelectorString(sm.St, pc.arg, pRecv)) {
						selPrinted = true
					} else if strings.Contains(pc.arg.Key(), loadField(pRecv, "Selector").Key()[2:]) || strings.Contains(pc.arg.Key(), "&"+pRecv.Key()+".Selector") {
						probs = append(probs, "the selector is rendered from its parts ("+shortKey(pc.arg)+") instead of in its own spelling (Selector.String)")
					}
				}
				if !selPrinted {
					probs = append(probs, "the node's selector is not printed in its own spelling (%v of the Selector / Selector.String)")
				}
			}
			if strings.Join(childOrder, ",") != strings.Join(children, ",") {
				probs = append(probs, fmt.Sprintf("children dumped: %v; the node's Expression fields in declaration order: %v (each exactly once, pre-order)", childOrder, children))
			}
			// every line the node writes itself starts with strings.Repeat(indent, level) (level+1 for a leaf's inner lines)
			lineOK := func(line []outPiece, levels ...int64) bool {
				if len(line) == 0 {
					return false
				}
				k, ok := indentLevel(sm.St, line[0], pIndent, pLevel)
				if !ok {
					return false
				}
				for _, l := range levels {
					if k == l {
						return true
					}
				}
				return false
			}
			endsWith := func(line []outPiece, suffix string) bool {
				last := line[len(line)-1]
				return last.verb == 0 && last.child == nil && strings.HasSuffix(last.lit, suffix)
			}
			describe := func() string {
				var seq []string
				for i, sg := range segs {
					if i > 0 {
						seq = append(seq, "child")
					}
					ls, rest := templateLines(sg)
					for range ls {
						seq = append(seq, "line")
					}
					if len(rest) > 0 {
						seq = append(seq, "partial-line")
					}
				}
				return strings.Join(seq, " ")
			}
			if len(children) > 0 && len(segs) == len(children)+1 {
				open, rest0 := templateLines(segs[0])
				okShape := len(open) == 1 && len(rest0) == 0 && lineOK(open[0], 0) && len(open[0]) >= 2 && endsWith(open[0], " {")
				for _, mid := range segs[1 : len(segs)-1] {
					if len(mid) != 0 {
						okShape = false
					}
				}
				cl, rest1 := templateLines(segs[len(segs)-1])
				if !(len(cl) == 1 && len(rest1) == 0 && lineOK(cl[0], 0) && len(cl[0]) == 2 && cl[0][1].verb == 0 && cl[0][1].lit == "}") {
					okShape = false
				}
				if !okShape {
					probs = append(probs, "a composite node must write an opening line `<indent×level><header> {`, dump its children, and write the closing line `<indent×level>}`: "+describe())
				}
			} else if len(children) == 0 {
				ls, rest := templateLines(segs[0])
				okLeaf := len(segs) == 1 && len(ls) >= 2 && len(rest) == 0
				for i, ln := range ls {
					switch {
					case i == 0:
						okLeaf = okLeaf && lineOK(ln, 0) && endsWith(ln, " {")
					case i == len(ls)-1:
						okLeaf = okLeaf && lineOK(ln, 0) && len(ln) == 2 && ln[1].lit == "}"
					default:
						okLeaf = okLeaf && lineOK(ln, 1)
					}
				}
				if !okLeaf {
					probs = append(probs, "a leaf must be rendered as `<indent×level><operator> {`, inner lines at level+1, `<indent×level>}`: "+describe())
				}
			}
			pos := prog.pos(m.Pos())
			if sm.Ret != nil {
				pos = prog.pos(sm.Ret.Pos())
			}
			r.Check(pfx+".dump", tn, pos, len(probs) == 0, strings.Join(uniq(probs), "; ")+" [path "+strings.Join(sm.St.trail, " ")+"]")
		}
	}
}

// checkLeafDump: the literal is dereferenced only for operators that always carry one, printed with a quoting verb;
// the selector is printed in its own spelling.
func checkLeafDump(r *Run, prog *Program, ga *GA, pfx string) {
	m := prog.Method(prog.GrammarSSA, "MatchExpression", "ExpressionDump", true)
	opT := prog.grammarType("MatchOperator")
	if m == nil || opT == nil {
		r.Fail("unresolved-anchor", pfx+".leaf", "MatchExpression.ExpressionDump", "grammar/ast.go", "not found")
		return
	}
	pair := ga.operatorValuePairing()
	pRecv := paramSym(m.Params[0])
	opKey := loadField(pRecv, "Operator").Key()
	rawKey := (&Sym{K: sLoad, A: &Sym{K: sFieldAddr, A: loadField(pRecv, "Value"), Str: "Raw"}}).Key()
	selT := prog.grammarType("Selector")
	// the equality and membership operators print the quoted literal
	printsLiteral := map[string]bool{"MatchEqual": true, "MatchNotEqual": true, "MatchIn": true, "MatchNotIn": true}
	for _, c := range prog.enumConsts(opT) {
		c := c
		ps := NewPathSim(prog)
		ps.Seed = func(st *pstate) { st.eqc[opKey] = constKey(c) }
		ps.Inline = func(g *ssa.Function) bool {
			return prog.InModule(g) && g != m && g.Name() != "String" && g.Name() != "ExpressionDump"
		}
		for _, sm := range ps.Run(m) {
			usesRaw, quoted, selOK, opName := false, false, false, false
			for _, pc := range outputOf(sm, paramSym(m.Params[1]), nil) {
				x := pc.arg
				if x == nil {
					continue
				}
				if x.Key() == rawKey {
					usesRaw = true
					if pc.verb == 'q' && pc.flags == "" {
						quoted = true // the verb applied to the literal quotes (plain %q: strconv.Quote)
					}
				}
				if (pc.verb == 'v' || pc.verb == 's') && pc.flags == "" && (x.Key() == loadField(pRecv, "Selector").Key() || isSelectorString(sm.St, x, pRecv)) {
					if selT != nil && implementsStringer(selT) {
						selOK = true
					}
				}
				if fn, _ := calleeOfSym(x); fn != nil && fn.Name() == "String" && (pc.verb == 'v' || pc.verb == 's') && pc.flags == "" {
					if ra := symArgs(sm.St, x); len(ra) == 1 && ra[0].Key() == opKey {
						opName = true
					}
				}
			}
			var probs []string
			p, has := pair[c.Name()]
			if usesRaw && !(has && p.nonNil && !p.nilV) {
				probs = append(probs, "the dump dereferences the literal for "+c.Name()+", which the grammar can build without a value: nil dereference")
			}
			if printsLiteral[c.Name()] && !(usesRaw && quoted) {
				probs = append(probs, "for "+c.Name()+" the quoted literal must be printed")
			}
			if !printsLiteral[c.Name()] && usesRaw {
				probs = append(probs, "for "+c.Name()+" the rendering shows a literal: the documented block has the literal for the equality and membership operators only")
			}
			if !selOK {
				probs = append(probs, "the selector is not printed in its own spelling (through Selector.String)")
			}
			if !opName {
				probs = append(probs, "the operator is not named through MatchOperator.String of this node's operator")
			}
			pos := prog.pos(m.Pos())
			if sm.Ret != nil {
				pos = prog.pos(sm.Ret.Pos())
			}
			r.Check(pfx+".leaf", c.Name(), pos, len(probs) == 0, strings.Join(probs, "; "))
		}
	}
}

func nthVerb(format string, n int) byte {
	idx := -1
	for i := 0; i < len(format); i++ {
		if format[i] != '%' {
			continue
		}
		if i+1 < len(format) && format[i+1] == '%' {
			i++
			continue
		}
		idx++
		j := i + 1
		for j < len(format) && strings.ContainsRune("+-# 0123456789.[]*", rune(format[j])) {
			j++
		}
		if idx == n && j < len(format) {
			return format[j]
		}
	}
	return 0
}

func isSelectorString(st *pstate, x *Sym, recv *Sym) bool {
	fn, _ := calleeOfSym(x)
	if fn == nil || fn.Name() != "String" {
		return false
	}
	ra := symArgs(st, x)
	return len(ra) == 1 && ra[0].Key() == loadField(recv, "Selector").Key()
}

func implementsStringer(t *types.Named) bool {
	for i := 0; i < t.NumMethods(); i++ {
		m := t.Method(i)
		if m.Name() == "String" {
			sig := m.Type().(*types.Signature)
			if sig.Params().Len() == 0 && sig.Results().Len() == 1 {
				if _, isPtr := sig.Recv().Type().(*types.Pointer); !isPtr {
					return true
				}
			}
		}
	}
	return false
}

// checkSelectorString: Bexpr ↦ join with ".", JsonPointer ↦ join with "/", empty path ↦ "".
func checkSelectorString(r *Run, prog *Program, pfx string) {
	m := prog.Method(prog.GrammarSSA, "Selector", "String", false)
	if m == nil {
		r.Fail("unresolved-anchor", pfx+".selector-string", "Selector.String", "grammar/ast.go", "not found")
		return
	}
	r.Analysed(m.String())
	want := map[string]string{"SelectorTypeBexpr": ".", "SelectorTypeJsonPointer": "/"}
	ps := NewPathSim(prog)
	sums := ps.Run(m)
	seen := map[string]bool{}
	for _, sm := range sums {
		if sm.Ret == nil || len(sm.Results) != 1 {
			continue
		}
		res := sm.Results[0]
		fn, _ := calleeOfSym(res)
		if isCallTo(fn, "strings", "Join") {
			ra := symArgs(sm.St, res)
			sep := ""
			if len(ra) == 2 && ra[1].K == sConst && ra[1].C != nil {
				sep = constant.StringVal(ra[1].C)
			}
			// which selector type on this path?
			typ := ""
			for k, c := range sm.St.eqc {
				if strings.HasSuffix(k, ".Type") || strings.Contains(k, "Type") {
					for name := range want {
						if o, ok := prog.Grammar.Types.Scope().Lookup(name).(*types.Const); ok && "const("+o.Val().ExactString()+")" == c {
							typ = name
						}
					}
				}
			}
			seen[typ] = true
			okPath := len(ra) == 2 && (ra[0].K == sField && ra[0].Str == "Path" || strings.HasSuffix(ra[0].Key(), ".Path") || strings.Contains(ra[0].Key(), "Path"))
			r.Check(pfx+".selector-string", "type:"+typ, prog.pos(sm.Ret.Pos()), typ != "" && want[typ] == sep && okPath, fmt.Sprintf("selector type %s is rendered by joining %s with %q; expected its Path joined with %q", typ, shortKey(ra[0]), sep, want[typ]))
		} else {
			ok := res.K == sConst && res.C != nil && constant.StringVal(res.C) == ""
			r.Check(pfx+".selector-string", "other-paths", prog.pos(sm.Ret.Pos()), ok, "a path of Selector.String returns something other than a join or the empty string: "+shortKey(res))
		}
	}
	for name := range want {
		r.Check(pfx+".selector-string", "covered:"+name, prog.pos(m.Pos()), seen[name], "Selector.String has no branch for "+name)
	}
	_ = token.EQL
}

func init() {
	register("C19", true, func(r *Run, prog *Program) {
		a := FindAnchors(prog)
		g := loadGrammars(r, prog)
		if g == nil {
			return
		}
		ga := NewGA(prog, g.Tab)
		checkNames(r, prog, "c19")
		checkDumpInduction(r, prog, ga, "c19")
		checkLeafDump(r, prog, ga, "c19")
		checkSelectorString(r, prog, "c19")
		// termination / no panic: children are non-nil (action assertions to Expression) and the tree is acyclic and immutable
		checkActionTyping(r, ga, "c19")
		if len(a.Missing) == 0 {
			checkASTIntegrity(r, prog, a, "c19")
			checkDumpPanicSites(r, prog, a, ga, "c19")
		}
		// what is rendered is what was parsed: the selector nodes carry their type and parts as written, in memory of
		// their own
		r.importing = "C07"
		checkSelectorGrammar(r, ga, "c07")
		r.importing = "C01"
		checkBindingModes(r, prog, ga, "c01") // "ALL/ANY with binding": the names printed are the names that were written, each under its own mode
		r.importing = "C16"
		checkLiteralFidelity(r, ga) // "the quoted literal": the literal a parser-produced leaf carries is the string written, and a bare one the selector's rendering
		r.importing = ""
		r.Technique = "constant-table extraction from the String methods against the documented names; structural-induction obligations on every ExpressionDump method by symbolic execution (event order, argument identity); operator/value pairing for the literal dereference; tree integrity and action typing for termination"
		r.Explain = "Decides: every operator constant renders as the documented name (exhaustive, pairwise distinct), ALL/ANY and the four binding forms likewise; every composite ExpressionDump writes an opening line, dumps each Expression-typed field of its receiver exactly once in declaration order with (the same writer, the same indent string, level+1), then writes a closing line; every line has a constant format and is prefixed by strings.Repeat(indent, level) (level+1 inside a leaf) — by induction over tree height this is pre-order with one indent level per tree level at every depth; the leaf names its operator through MatchOperator.String, prints the selector through Selector.String (dotted / slash-joined / empty), and dereferences and quotes the literal only for operators the grammar always builds with a literal; children are non-nil and the tree is acyclic and never modified after parsing, so the recursion terminates without panicking. NOT decided: byte-exact layout inside the constant format strings."
		r.Assume = append(r.Assume, "fmt.Fprintf with a constant format and %v/%s on a Stringer calls its String method")
	})
}

// stringLeaves: the operands a rendered string is made of, in order: `a + b`, conversions, and the arguments of
// fmt.Sprintf / fmt.Sprint are looked through.
func stringLeaves(st *pstate, s *Sym, depth int) []*Sym {
	if s == nil || depth > 8 {
		return nil
	}
	switch s.K {
	case sBin:
		if s.Op == token.ADD {
			return append(stringLeaves(st, s.A, depth+1), stringLeaves(st, s.B, depth+1)...)
		}
	case sConvert:
		return stringLeaves(st, s.A, depth+1)
	case sMkIface:
		return stringLeaves(st, s.A, depth+1)
	case sCall:
		if fn, _ := calleeOfSym(s); isCallTo(fn, "fmt", "Sprintf") || isCallTo(fn, "fmt", "Sprint") {
			var out []*Sym
			for _, ev := range st.events {
				if ev.Res != nil && ev.Res.Key() == s.Key() && ev.Instr != nil {
					last := len(ev.Args) - 1
					if last >= 0 && ev.Deref[last] != nil {
						elems, _ := sliceElems(st, ev.Args[last], ev.Deref[last])
						for _, el := range elems {
							out = append(out, stringLeaves(st, el, depth+1)...)
						}
					}
				}
			}
			return out
		}
	}
	return []*Sym{s}
}

func hasField(nt *types.Named, name string) bool {
	st, ok := nt.Underlying().(*types.Struct)
	if !ok {
		return false
	}
	for i := 0; i < st.NumFields(); i++ {
		if st.Field(i).Name() == name {
			return true
		}
	}
	return false
}

// checkDumpPanicSites: the rendering functions (ExpressionDump of every node type, the String methods they print
// through) contain no unproven assertion, index, slice, explicit panic or call into foreign code on a value of the tree:
// "a syntax tree returned without error is dumped without panicking". (Dereferences of the literal are decided by the
// operator/value pairing of checkLeafDump.)
func checkDumpPanicSites(r *Run, prog *Program, a *Anchors, ga *GA, pfx string) {
	roots := map[*ssa.Function]bool{}
	for _, fn := range prog.ModuleFuncs() {
		if fn.Pkg != prog.GrammarSSA || fn.Signature.Recv() == nil {
			continue
		}
		if fn.Name() == "ExpressionDump" || (fn.Name() == "String" && fn.Signature.Params().Len() == 0) {
			roots[fn] = true
		}
	}
	if len(roots) < 4 {
		r.Fail("unresolved-anchor", pfx+".panic-site", "dump-roots", "grammar/ast.go", "rendering methods not found")
		return
	}
	saved := c09SiteKinds
	c09SiteKinds = map[string]bool{"type-assert": true, "foreign-invoke": true, "index": true, "slice": true, "explicit-panic": true, "dynamic-call": true, "division": true}
	checkPanicSites(r, prog, a, pfx, roots, ga, false, 0)
	c09SiteKinds = saved
}
