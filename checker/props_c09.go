package main

// C09 (ii): every panic-capable site in module code reachable from Evaluate is
// discharged on every path that reaches it (KindAI facts, sibling-table
// agreement, index/length facts, nil facts, grammar operator/value pairing).

import (
	"fmt"
	"go/constant"
	"go/token"
	"go/types"
	"os"
	"sort"
	"strings"

	"golang.org/x/tools/go/ssa"
)

// ---------------------------------------------------------------------------
// sibling tables

type kindTables struct {
	eq         map[int]*ssa.Function // kind -> comparator (nil = no comparator)
	coerceType map[int]types.Type    // kind -> dynamic type of the coerced literal (Value != nil, no error)
	coerceFn   map[int]string        // kind -> name of the coercion used ("raw" for the literal text)
	cmpAssert  map[*ssa.Function]types.Type
	cmpKinds   map[*ssa.Function]KindSet
	cmpAccess  map[*ssa.Function][]string
	cmpSym     map[*ssa.Function]*Sym     // the function value of the comparator (a closure carries its captured variables)
	cmpBody    map[*ssa.Function][]string // problems of the comparator's body (C02)
	cmpPart    map[*ssa.Function]bool     // module functions that read the value on behalf of a comparator (func(reflect.Value) T accessors)
	problems   []string
}

// dynTypesOfResult0: dynamic types of the first result of fn (MakeInterface operands at its returns).
func dynTypesOfResult0(fn *ssa.Function) []types.Type {
	var out []types.Type
	add := func(t types.Type) {
		for _, o := range out {
			if (o == nil && t == nil) || (o != nil && t != nil && types.Identical(o, t)) {
				return
			}
		}
		out = append(out, t)
	}
	var visit func(fn *ssa.Function, depth int)
	visit = func(fn *ssa.Function, depth int) {
		for _, b := range fn.Blocks {
			for _, ins := range b.Instrs {
				ret, ok := ins.(*ssa.Return)
				if !ok || len(ret.Results) == 0 {
					continue
				}
				v := ret.Results[0]
				switch x := v.(type) {
				case *ssa.MakeInterface:
					add(x.X.Type())
				case *ssa.Const:
					if x.Value == nil {
						add(types.Typ[types.UntypedNil])
					}
				case *ssa.Extract:
					// the first result of a helper handed on unchanged (e.g. a generic boxing helper)
					if c, isCall := x.Tuple.(*ssa.Call); isCall && x.Index == 0 && depth < 3 {
						if callee := c.Call.StaticCallee(); callee != nil && len(callee.Blocks) > 0 && callee.Signature.Results().Len() >= 1 && isEmptyIface(callee.Signature.Results().At(0).Type()) {
							visit(callee, depth+1)
							continue
						}
					}
					add(nil)
				default:
					add(nil)
				}
			}
		}
	}
	visit(fn, 0)
	return out
}

// isCoercion: func(string) (interface{}, error) — the literal coercions are the leaves of the coercion table.
func isCoercion(fn *ssa.Function) bool {
	sig := fn.Signature
	return sig.Recv() == nil && sig.Params().Len() == 1 && sig.Results().Len() == 2 && isEmptyIface(sig.Results().At(0).Type()) && isErrorType(sig.Results().At(1).Type()) && types.Identical(sig.Params().At(0).Type().Underlying(), types.Typ[types.String])
}

func buildKindTables(prog *Program, a *Anchors) *kindTables {
	kt := &kindTables{eq: map[int]*ssa.Function{}, coerceType: map[int]types.Type{}, coerceFn: map[int]string{}, cmpAssert: map[*ssa.Function]types.Type{},
		cmpKinds: map[*ssa.Function]KindSet{}, cmpAccess: map[*ssa.Function][]string{}, cmpSym: map[*ssa.Function]*Sym{}, cmpBody: map[*ssa.Function][]string{}, cmpPart: map[*ssa.Function]bool{}}
	// equality table
	pk := paramSym(a.EqTable.Params[0])
	for k := 0; k < nKinds; k++ {
		ps := NewPathSim(prog)
		kk := k
		ps.Seed = func(st *pstate) { st.eqc[pk.Key()] = kindConst(kk).Key() }
		ps.Inline = func(c *ssa.Function) bool { return prog.InModule(c) }
		sums := ps.Run(a.EqTable)
		if len(sums) != 1 || len(sums[0].Results) < 1 || len(sums[0].Results) > 2 {
			kt.problems = append(kt.problems, fmt.Sprintf("equality table: %d paths for kind %s", len(sums), kindNames[k]))
			continue
		}
		res := sums[0].Results[0]
		if len(sums[0].Results) == 2 {
			// (comparator, ok): no comparator when ok is false — and ok must say what the comparator says
			okV, known := sums[0].Results[1].BoolConst()
			if !known {
				okV, known = evalBool(sums[0].St, sums[0].Results[1])
			}
			if !known || okV == res.IsNil() {
				kt.problems = append(kt.problems, "equality table: for kind "+kindNames[k]+" the flag returned with the comparator does not tell whether there is one")
				continue
			}
		}
		switch {
		case res.IsNil():
			kt.eq[k] = nil
		case res.K == sFunc:
			f, _ := res.V.(*ssa.Function)
			kt.eq[k] = f
			kt.cmpSym[f] = res
		case res.K == sClosure:
			// a comparator built by a (generic) constructor: the closure's function, with what it captured
			if f, _ := ps.funcOfSym(res); f != nil {
				kt.eq[k] = f
				kt.cmpSym[f] = res
			} else {
				kt.problems = append(kt.problems, "equality table: result for kind "+kindNames[k]+" is a closure that cannot be resolved")
			}
		default:
			kt.problems = append(kt.problems, "equality table: result for kind "+kindNames[k]+" is not a function constant: "+res.Key())
		}
	}
	// coercion table
	litSym, pk2 := a.coerceLiteral()
	for k := 0; k < nKinds; k++ {
		ps := NewPathSim(prog)
		kk := k
		ps.Seed = func(st *pstate) {
			st.eqc[pk2.Key()] = kindConst(kk).Key()
			assume(st, &Sym{K: sCmp, Op: token.EQL, A: litSym, B: nilSym()}, false)
		}
		ps.Inline = func(c *ssa.Function) bool { return prog.InModule(c) && !isCoercion(c) }
		sums := ps.Run(a.CoerceTab)
		if len(sums) != 1 || len(sums[0].Results) != 2 {
			kt.problems = append(kt.problems, fmt.Sprintf("coercion table: %d paths for kind %s", len(sums), kindNames[k]))
			continue
		}
		res := sums[0].Results[0]
		switch {
		case res.K == sRes && res.A.K == sCall:
			callee, _ := calleeOfSym(res.A)
			if callee == nil {
				kt.problems = append(kt.problems, "coercion table: dynamic call for kind "+kindNames[k])
				continue
			}
			dts := dynTypesOfResult0(callee)
			if len(dts) != 1 || dts[0] == nil {
				kt.problems = append(kt.problems, fmt.Sprintf("coercion %s does not have a single dynamic result type", callee.Name()))
				continue
			}
			kt.coerceType[k] = dts[0]
			kt.coerceFn[k] = callee.Name()
		case res.K == sMkIface:
			kt.coerceType[k] = res.A.T
			kt.coerceFn[k] = "raw:" + res.A.Key()
		default:
			kt.problems = append(kt.problems, "coercion table: unexpected result for kind "+kindNames[k]+": "+res.Key())
		}
	}
	// comparators: decided on the comparator's path with its captured variables bound (an accessor handed to a generic
	// constructor is followed): what the literal is asserted to, how the value is read, what is compared
	seen := map[*ssa.Function]bool{}
	for _, f := range kt.eq {
		if f == nil || seen[f] {
			continue
		}
		seen[f] = true
		if len(f.Params) != 2 {
			kt.problems = append(kt.problems, "comparator "+f.Name()+" does not take (literal, value)")
			continue
		}
		ps := NewPathSim(prog)
		ps.Inline = func(c *ssa.Function) bool {
			return c != f && (prog.InModule(c) || isSynthetic(c)) && !recursive(prog, c)
		}
		lp, vp := cmpParams(f)
		if lp == nil || vp == nil {
			kt.problems = append(kt.problems, "comparator "+f.Name()+" does not take (literal, value)")
			continue
		}
		first, second := paramSym(lp), paramSym(vp) // the literal and the value, whichever comes first
		start := newState()
		if kt.cmpSym[f] != nil && kt.cmpSym[f].K == sClosure && prog.SSA != nil {
			start = prog.Globals().st // what the closure captured was set up by the package initialiser
		}
		before := len(start.events)
		sums := ps.ApplyClosure(start, kt.cmpSym[f], []*Sym{paramSym(f.Params[0]), paramSym(f.Params[1])})
		adm := ksAll
		var body []string
		if len(sums) != 1 {
			body = append(body, fmt.Sprintf("comparator %s branches (%d paths)", f.Name(), len(sums)))
		}
		for _, sm := range sums {
			for _, ev := range sm.Events()[before:] {
				if ev.Instr == nil && !ev.Store && len(ev.Args) == 1 && ev.Res != nil && ev.Res.K == sTAValue && ev.Args[0].Key() == first.Key() {
					kt.cmpAssert[f] = ev.Res.T
				}
				if ev.Inlined && ev.Callee != nil && prog.InModule(ev.Callee) && len(ev.Args) == 1 && ev.Args[0].Key() == second.Key() {
					kt.cmpPart[ev.Callee] = true // an accessor of the module the comparator was built with: part of the comparator
				}
				if ev.Instr == nil || ev.Inlined || ev.Callee == nil {
					continue
				}
				callee := ev.Callee
				if callee.Pkg != nil && callee.Pkg.Pkg.Path() == "reflect" && callee.Signature.Recv() != nil && len(ev.Args) > 0 && ev.Args[0].Key() == second.Key() {
					kt.cmpAccess[f] = append(kt.cmpAccess[f], callee.Name())
					if req, ok := valueMethodReq[callee.Name()]; ok {
						adm &= req
					} else if !valueMethodSafe[callee.Name()] {
						adm = 0
					}
				} else {
					body = append(body, "comparator "+f.Name()+" calls "+callee.String())
				}
			}
			// the result: literal.(T) == accessor(value), the accessor's result narrowed at most from float64 to float32
			if sm.Ret == nil || len(sm.Results) != 1 {
				body = append(body, "comparator "+f.Name()+" has an unexpected result shape")
				continue
			}
			res := sm.Results[0]
			if res.K != sCmp || res.Op != token.EQL {
				body = append(body, "comparator "+f.Name()+" does not return one equality comparison: "+shortKey(res))
				continue
			}
			l, rv := res.A, res.B
			if !(l.K == sTAValue && l.A.Key() == first.Key()) {
				l, rv = rv, l
			}
			if !(l.K == sTAValue && l.A.Key() == first.Key()) {
				body = append(body, "comparator "+f.Name()+" does not compare the literal asserted to its type")
				continue
			}
			for rv != nil && rv.K == sConvert {
				from, _ := rv.A.T.Underlying().(*types.Basic)
				to, _ := rv.T.Underlying().(*types.Basic)
				if from != nil && to != nil && !(from.Kind() == types.Float64 && to.Kind() == types.Float32) && from.Kind() != to.Kind() {
					body = append(body, fmt.Sprintf("comparator %s converts %s to %s before comparing", f.Name(), from, to))
				}
				rv = rv.A
			}
			if cf, _ := calleeOfSym(rv); rv == nil || cf == nil || cf.Pkg == nil || cf.Pkg.Pkg.Path() != "reflect" {
				body = append(body, "comparator "+f.Name()+" does not compare with the value read by a reflect accessor: "+shortKey(rv))
			} else if ra := symArgs(sm.St, rv); len(ra) != 1 || ra[0].Key() != second.Key() {
				body = append(body, "comparator "+f.Name()+" reads something other than the value it is given")
			}
		}
		kt.cmpKinds[f] = adm
		kt.cmpBody[f] = body
	}
	return kt
}

// ---------------------------------------------------------------------------

type siteRes struct {
	key     string
	pos     token.Pos
	kind    string
	reached int
	fails   []string
	note    string
}

type c09ctx struct {
	r      *Run
	prog   *Program
	a      *Anchors
	kt     *kindTables
	ke     *kindEnv
	pfx    string
	sites  map[ssa.Instruction]*siteRes
	order  []ssa.Instruction
	cmpSet map[*ssa.Function]bool
	// functions in which a value-carrying operator is assumed (pairing): fn -> why
	needsValue        map[*ssa.Function][]string
	validatedCmpCalls int
	// interprocedural reflect-kind facts: parameter -> join over all call sites of the argument's kinds
	havoc      bool // widen loop-carried values after the visit bound (thorough tier)
	collect    bool
	paramIn    map[*ssa.Parameter]KindSet
	paramSeen  map[*ssa.Parameter]int
	paramK     map[*ssa.Parameter]KindSet
	postNonNil map[*ssa.Function]int // 0 unknown, 1 yes, 2 no
	postAlways map[*ssa.Function]bool
	// helpers that can only run as static calls from analysed functions and could not be discharged on their own:
	// interpreted in place in each caller (their sites are judged with the caller's facts)
	inlined map[*ssa.Function]bool
	ctxOnly map[*ssa.Function]bool
	// interprocedural facts about parameters of helpers all of whose callers are analysed: a lower bound of len(p), p != nil
	paramLen   map[*ssa.Parameter]int64
	paramLenIn map[*ssa.Parameter]int64
	paramNN    map[*ssa.Parameter]bool
	paramNNIn  map[*ssa.Parameter]bool
	curIns     ssa.Instruction
	optimistic bool // first collecting round: recursive call sites are skipped (their facts are checked in the next rounds under the assumption)
}

func (c *c09ctx) site(ins ssa.Instruction, kind, name string) *siteRes {
	if s, ok := c.sites[ins]; ok {
		return s
	}
	s := &siteRes{pos: ins.Pos(), kind: kind, key: name}
	c.sites[ins] = s
	c.order = append(c.order, ins)
	return s
}

// c09SiteKinds: when set, only panic sites of these kinds are obligations (the others need invariants of the code under
// analysis that the caller of the analysis does not have).
var c09SiteKinds map[string]bool

func (c *c09ctx) record(ins ssa.Instruction, kind, name string, ok bool, why string, st *pstate) {
	if c.collect {
		return
	}
	if c09SiteKinds != nil && !c09SiteKinds[kind] {
		return
	}
	if !ok && kind == "index" && tableFirstRule(c.prog, ins) {
		ok = true // g.rules[0]: the table has a first rule (it is a literal; C20 compares it with the grammar)
	}
	s := c.site(ins, kind, name)
	s.reached++
	if !ok {
		msg := why + " [path " + strings.Join(st.trail, " ") + "]"
		if len(s.fails) < 3 {
			s.fails = append(s.fails, msg)
		}
	}
}

func isPureReflectHelper(prog *Program, fn *ssa.Function) bool {
	if !prog.InModule(fn) || fn.Signature.Params().Len() == 0 {
		return false
	}
	ok := func(t types.Type) bool { return isReflectValue(t) || isReflectType(t) }
	for i := 0; i < fn.Signature.Params().Len(); i++ {
		if !ok(fn.Signature.Params().At(i).Type()) {
			return false
		}
	}
	if fn.Signature.Results().Len() != 1 {
		return false
	}
	rt := fn.Signature.Results().At(0).Type()
	if sl, isSlice := rt.Underlying().(*types.Slice); isSlice {
		rt = sl.Elem()
	}
	return ok(rt)
}

// linear form of an integer sym: base key + constant offset.
func linear(s *Sym) (string, int64) {
	switch s.K {
	case sConst:
		if s.C != nil && s.C.Kind() == constant.Int {
			v, _ := constant.Int64Val(s.C)
			return "", v
		}
	case sBin:
		if s.B.K == sConst && s.B.C != nil && s.B.C.Kind() == constant.Int {
			c, _ := constant.Int64Val(s.B.C)
			b, o := linear(s.A)
			if s.Op == token.ADD {
				return b, o + c
			}
			if s.Op == token.SUB {
				return b, o - c
			}
		}
	}
	return s.Key(), 0
}

// addendOfMadeLen: base is make([]T, a+b+…) and low is one of the addends, the others being lengths or non-negative
// constants: low ≤ len(base).
func addendOfMadeLen(base, low *Sym) bool {
	if base == nil || low == nil || base.K != sFresh || len(base.Kids) != 1 {
		return false
	}
	if _, ok := base.V.(*ssa.MakeSlice); !ok {
		return false
	}
	var terms []*Sym
	var walk func(x *Sym)
	walk = func(x *Sym) {
		if x != nil && x.K == sBin && x.Op == token.ADD {
			walk(x.A)
			walk(x.B)
			return
		}
		terms = append(terms, x)
	}
	walk(base.Kids[0])
	found := false
	for _, t := range terms {
		if t == nil {
			return false
		}
		if !found && t.Key() == low.Key() {
			found = true
			continue
		}
		switch {
		case t.K == sLen:
		case t.K == sConst && t.C != nil && t.C.Kind() == constant.Int && constant.Sign(t.C) >= 0:
		default:
			return false
		}
	}
	return found
}

// minInt: a lower bound of a non-negative integer term (a constant, a length, a sum of those).
func minInt(st *pstate, x *Sym, depth int) int64 {
	if x == nil || depth > 6 {
		return 0
	}
	switch x.K {
	case sConst:
		if x.C != nil && x.C.Kind() == constant.Int {
			if v, ok := constant.Int64Val(x.C); ok && v > 0 {
				return v
			}
		}
	case sLen:
		return minLen(st, x.A, depth+1)
	case sBin:
		if x.Op == token.ADD {
			return minInt(st, x.A, depth+1) + minInt(st, x.B, depth+1)
		}
	}
	return 0
}

// minLen: a lower bound of len(x) under the path facts.
func minLen(st *pstate, x *Sym, depth int) int64 {
	if depth > 6 {
		return 0
	}
	var m int64
	lk := (&Sym{K: sLen, A: x}).Key()
	// facts about len(x)
	if c, ok := st.eqc[lk]; ok {
		if strings.HasPrefix(c, "const(") {
			var v int64
			fmt.Sscanf(c, "const(%d)", &v)
			return v
		}
	}
	if st.neqc[lk]["const(0)"] {
		m = 1
	}
	for k, v := range st.facts {
		// cmp(<,len(x),const(N))=false  => len >= N ; cmp(>,len(x),const(N))=true => len >= N+1 ; cmp(>=,...)
		var n int64
		if strings.HasPrefix(k, "cmp(<,"+lk+",const(") && !v {
			fmt.Sscanf(strings.TrimPrefix(k, "cmp(<,"+lk+",const("), "%d", &n)
			if n > m {
				m = n
			}
		}
		if strings.HasPrefix(k, "cmp(>,"+lk+",const(") && v {
			fmt.Sscanf(strings.TrimPrefix(k, "cmp(>,"+lk+",const("), "%d", &n)
			if n+1 > m {
				m = n + 1
			}
		}
		if strings.HasPrefix(k, "cmp(>=,"+lk+",const(") && v {
			fmt.Sscanf(strings.TrimPrefix(k, "cmp(>=,"+lk+",const("), "%d", &n)
			if n > m {
				m = n
			}
		}
	}
	// structure: append(a, b...) >= len(a)+len(b)
	if x.K == sCall {
		if call, ok := x.V.(*ssa.Call); ok {
			if b, ok := call.Call.Value.(*ssa.Builtin); ok && b.Name() == "append" {
				args := symArgs(st, x)
				var sum int64
				for _, a := range args {
					sum += minLen(st, a, depth+1)
				}
				if sum > m {
					m = sum
				}
			}
		}
	}
	if x.K == sFresh && len(x.Kids) == 1 {
		// make([]T, n): the length is n
		if _, ok := x.V.(*ssa.MakeSlice); ok {
			if v := minInt(st, x.Kids[0], depth+1); v > m {
				m = v
			}
		}
	}
	if x.K == sSlice && x.Str == ":" && x.T != nil {
		// arr[:] of a fixed-size array (the variadic arguments of an append)
		if n, ok := staticLen(x.T, x); ok && n > m {
			m = n
		}
	}
	if x.K == sSlice {
		// x[lo:] : len = len(x) - lo
		parts := strings.SplitN(x.Str, ":", 2)
		if len(parts) == 2 && parts[1] == "" && strings.HasPrefix(parts[0], "const(") {
			var lo int64
			fmt.Sscanf(parts[0], "const(%d)", &lo)
			if v := minLen(st, x.A, depth+1) - lo; v > m {
				m = v
			}
		}
	}
	return m
}

func (c *c09ctx) analyseFunc(fn *ssa.Function) {
	r, prog := c.r, c.prog
	r.Analysed(fn.String())
	ps := NewPathSim(prog)
	ps.Havoc = c.havoc
	ps.Inline = func(callee *ssa.Function) bool {
		return isPureReflectHelper(prog, callee) || c.inlined[callee] || coercionWrapper(c.a, callee)
	}
	ps.MaxDepth = 4

	ps.OnInstr = func(f *ssa.Function, st *pstate, ins ssa.Instruction) {
		symOf := func(v ssa.Value) *Sym { return ps.sym(st, v) }
		isCmp := c.cmpSet[f]
		switch x := ins.(type) {
		case *ssa.Panic:
			c.record(ins, "explicit-panic", f.Name()+":panic", false, "explicit panic on the evaluation path", st)
		case *ssa.BinOp:
			if x.Op == token.QUO || x.Op == token.REM {
				if _, isConst := x.Y.(*ssa.Const); !isConst {
					if b, ok := x.X.Type().Underlying().(*types.Basic); ok && b.Info()&types.IsInteger != 0 {
						c.record(ins, "division", f.Name()+":div", false, "integer division by a non-constant", st)
					}
				}
			}
		case *ssa.MapUpdate:
			m := symOf(x.Map)
			c.record(ins, "map-store", f.Name()+":mapupdate", m.K == sFresh, "store into a map not made in this function (may be nil)", st)
		case *ssa.IndexAddr, *ssa.Index:
			var base, idx ssa.Value
			if ia, ok := x.(*ssa.IndexAddr); ok {
				base, idx = ia.X, ia.Index
			} else {
				ix := x.(*ssa.Index)
				base, idx = ix.X, ix.Index
			}
			bt := base.Type().Underlying()
			if p, ok := bt.(*types.Pointer); ok {
				bt = p.Elem().Underlying()
			}
			if arr, ok := bt.(*types.Array); ok {
				if cst, ok := idx.(*ssa.Const); ok {
					if v, ok := constant.Int64Val(cst.Value); ok && v >= 0 && v < arr.Len() {
						return // constant index into a fixed-size array: checked by the compiler
					}
				}
			}
			if _, isMap := bt.(*types.Map); isMap {
				return
			}
			bs, is := symOf(base), symOf(idx)
			c.curIns = ins
			ok, why := c.indexOK(st, bs, is)
			c.curIns = nil
			c.record(ins, "index", f.Name()+":index:"+shortDesc(base), ok, why, st)
		case *ssa.Slice:
			bs := symOf(x.X)
			if p, ok := x.X.Type().Underlying().(*types.Pointer); ok {
				if _, isArr := p.Elem().Underlying().(*types.Array); isArr && x.Low == nil && x.High == nil {
					return // arr[:] of a local array
				}
			}
			ok, why := true, ""
			n := c.minLenP(st, bs)
			if x.Low != nil {
				b, o := linear(symOf(x.Low))
				if !(b == "" && o >= 0 && o <= n) && !addendOfMadeLen(bs, symOf(x.Low)) {
					ok, why = false, fmt.Sprintf("slice low bound %s not proven ≤ len (known len ≥ %d)", symOf(x.Low).Key(), n)
				}
			}
			if x.High != nil {
				b, o := linear(symOf(x.High))
				lk := (&Sym{K: sLen, A: bs}).Key()
				switch {
				case b == "" && o >= 0 && o <= n:
				case b == lk && o <= 0 && -o <= n:
				default:
					ok, why = false, fmt.Sprintf("slice high bound %s not proven within [0, len] (known len ≥ %d)", symOf(x.High).Key(), n)
				}
			}
			c.record(ins, "slice", f.Name()+":slice:"+shortDesc(x.X), ok, why, st)
		case *ssa.FieldAddr:
			c.nilDeref(f, st, ins, symOf(x.X), x.X)
		case *ssa.UnOp:
			if x.Op == token.MUL {
				if _, isAlloc := x.X.(*ssa.Alloc); isAlloc {
					return
				}
				if _, isFA := x.X.(*ssa.FieldAddr); isFA {
					return // the FieldAddr site covers the base pointer
				}
				if _, isIA := x.X.(*ssa.IndexAddr); isIA {
					return
				}
				c.nilDeref(f, st, ins, symOf(x.X), x.X)
			}
		case *ssa.TypeAssert:
			if x.CommaOk {
				return
			}
			xs := symOf(x.X)
			if lp, _ := cmpParams(f); isCmp && lp != nil && x.X == ssa.Value(lp) {
				c.record(ins, "type-assert", f.Name()+":assert:"+types.TypeString(x.AssertedType, nil), true, "", st)
				c.site(ins, "", "").note = "discharged by sibling-table agreement + comparator call sites"
				return
			}
			ok, why := c.assertOK(f, st, xs, x.AssertedType)
			c.record(ins, "type-assert", f.Name()+":assert:"+types.TypeString(x.AssertedType, nil), ok, why, st)
		}
	}
	ps.OnEvent = func(st *pstate, ev *Event) {
		if ev.Instr == nil {
			return
		}
		ins := ev.Instr.(ssa.Instruction)
		com := ev.Instr.Common()
		f := ev.In
		isCmp := c.cmpSet[f]
		// dynamic calls
		if ev.Callee == nil && !com.IsInvoke() {
			if _, isBuiltin := com.Value.(*ssa.Builtin); isBuiltin {
				return
			}
			fs := ev.FnSym
			nonnil := definitelyNonNil(fs) || c.nonNil(st, fs)
			if !nonnil {
				if eq, ok := evalEq(st, fs, nilSym()); ok && !eq {
					nonnil = true
				}
			}
			// comparator call?
			tableSym := fs
			if fs != nil && fs.K == sRes && fs.Idx == 0 && fs.A != nil {
				tableSym = fs.A // the comparator of (comparator, ok)
			}
			if callee, call := calleeOfSym(tableSym); callee == c.a.EqTable && call != nil {
				ok, why := c.comparatorCallOK(st, ev, call)
				if !nonnil {
					ok, why = false, "the comparator returned by the equality table is called without a nil test"
				}
				if ok {
					c.validatedCmpCalls++
				}
				c.record(ins, "comparator-call", f.Name()+":comparator-call", ok, why, st)
				c.needsValue[f] = append(c.needsValue[f], "comparator call")
				return
			}
			if isCmp && !nonnil && len(c.kt.cmpAccess[f]) > 0 && fs.K == sLoad && fs.A.K == sFree {
				// the accessor a comparator was built with: resolved from what the package initialiser bound (kind tables)
				c.record(ins, "dynamic-call", f.Name()+":dynamic-call:"+shortDesc(com.Value), true, "", st)
				c.site(ins, "", "").note = "discharged by sibling-table agreement: the captured accessor is the one the tables were checked with"
				return
			}
			c.record(ins, "dynamic-call", f.Name()+":dynamic-call:"+shortDesc(com.Value), nonnil, "function value "+fs.Key()+" is called without being proven non-nil", st)
			return
		}
		if com.IsInvoke() {
			if isReflectType(com.Value.Type()) {
				name := com.Method.Name()
				// reflect.TypeOf(x) is the nil Type when x is the nil interface: any method called on it dereferences nil
				if len(ev.Args) > 0 {
					if tf, _ := calleeOfSym(ev.Args[0]); isReflectFunc(tf, "TypeOf") {
						if xs := symArgs(st, ev.Args[0]); len(xs) == 1 {
							x := xs[0]
							nonNil := x.K == sMkIface || definitelyNonNil(x) || c.nonNil(st, x)
							if !nonNil {
								if eq, known := evalEq(st, x, nilSym()); known && !eq {
									nonNil = true
								}
							}
							if !nonNil {
								// a valid reflect.Value was made from it on this path: then it is not the nil interface
								for _, e2 := range st.events {
									if e2.Instr != nil && isReflectFunc(e2.Callee, "ValueOf") && len(e2.Args) == 1 && e2.Args[0].Key() == x.Key() && e2.Res != nil {
										if k := c.ke.kinds(st, e2.Res); k&ks(kInvalid) == 0 {
											nonNil = true
										}
									}
								}
							}
							c.record(ins, "nil-deref", f.Name()+":Type."+name+":of-nil", nonNil, "reflect.Type."+name+" is called on reflect.TypeOf("+shortKey(x)+"), which is the nil Type when that value is the nil interface", st)
							if !nonNil {
								return
							}
						}
					}
				}
				if typeMethodSafe[name] {
					return
				}
				req, ok := typeMethodReq[name]
				if !ok {
					c.record(ins, "reflect-type", f.Name()+":Type."+name, false, "reflect.Type."+name+" has no entry in the precondition table", st)
					return
				}
				k := c.ke.kinds(st, ev.Args[0])
				c.record(ins, "reflect-type", f.Name()+":Type."+name, k.SubsetOf(req), fmt.Sprintf("reflect.Type.%s requires kind %s; the type here may be %s", name, req, k), st)
				return
			}
			// a method called through an interface that is not the module's own (nor error, nor reflect.Type): the method is
			// somebody else's code — for a value taken from the datum, the caller's — and a typed nil pointer reaches it
			it := com.Value.Type()
			own := false
			if nt, isNamed := it.(*types.Named); isNamed {
				if nt.Obj().Pkg() == nil {
					own = true // error
				} else if pth := nt.Obj().Pkg().Path(); pth == modPath || pth == grammarPath {
					own = true
				}
			}
			if !own {
				c.record(ins, "foreign-invoke", f.Name()+":invoke:"+types.TypeString(it, nil)+"."+com.Method.Name(), false,
					"method "+com.Method.Name()+" is called through "+types.TypeString(it, nil)+" on a value that is not the library's own: it runs code the library does not control, also for a typed nil pointer", st)
			}
			return
		}
		callee := ev.Callee
		if callee != nil && prog.InModule(callee) && c.collect && !ev.Inlined && !(c.optimistic && callee == f) {
			for i, p := range callee.Params {
				if i >= len(ev.Args) {
					continue
				}
				if isReflectValue(p.Type()) || isReflectType(p.Type()) {
					c.paramIn[p] |= c.ke.kinds(st, ev.Args[i])
					c.paramSeen[p]++
				}
				if _, isSlice := p.Type().Underlying().(*types.Slice); isSlice {
					l := c.minLenP(st, ev.Args[i])
					if cur, seen := c.paramLenIn[p]; !seen || l < cur {
						c.paramLenIn[p] = l
					}
				}
				switch p.Type().Underlying().(type) {
				case *types.Signature, *types.Pointer, *types.Map:
					nn := c.nonNil(st, ev.Args[i])
					if cur, seen := c.paramNNIn[p]; seen {
						nn = nn && cur
					}
					c.paramNNIn[p] = nn
				}
			}
		}
		if callee != nil && !prog.InModule(callee) && callee.Signature.Recv() != nil && len(ev.Args) > 0 {
			if _, isPtr := callee.Signature.Recv().Type().Underlying().(*types.Pointer); isPtr {
				// a method of a foreign pointer type: the receiver must not be nil (the dereference happens inside the dependency)
				rcv := ev.Args[0]
				okN := c.nonNil(st, rcv)
				c.record(ins, "foreign-receiver", f.Name()+":recv:"+callee.Name(), okN, "method "+callee.String()+" is called on "+shortKey(rcv)+", which is not proven non-nil", st)
			}
		}
		if callee == nil || callee.Pkg == nil || callee.Pkg.Pkg.Path() != "reflect" {
			return
		}
		name := callee.Name()
		if callee.Signature.Recv() == nil {
			if req, ok := reflectFuncTypeReq[name]; ok {
				k := c.ke.kinds(st, ev.Args[0])
				c.record(ins, "reflect-func", f.Name()+":reflect."+name, k.SubsetOf(req), fmt.Sprintf("reflect.%s requires a type of kind %s; here %s", name, req, k), st)
			} else if name == "Append" {
				c.record(ins, "reflect-func", f.Name()+":reflect.Append", c.appendOK(st, ev), "reflect.Append: slice/element type relation not proven", st)
			} else if !reflectFuncSafe[name] {
				c.record(ins, "reflect-func", f.Name()+":reflect."+name, false, "reflect."+name+" has no entry in the precondition table", st)
			}
			return
		}
		if !isReflectValue(callee.Signature.Recv().Type()) {
			return
		}
		if valueMethodSafe[name] {
			return
		}
		recv := ev.Args[0]
		if c.kt.cmpPart[f] && len(f.Params) == 1 && recv.Key() == paramSym(f.Params[0]).Key() && onlyCalledAsValue(prog, f) {
			c.record(ins, "reflect-value", f.Name()+":Value."+name, true, "", st)
			c.site(ins, "", "").note = "discharged by sibling-table agreement: an accessor a comparator was built with"
			return
		}
		if _, vp := cmpParams(f); isCmp && len(f.Params) > 1 && vp != nil && recv.Key() == paramSym(vp).Key() {
			c.record(ins, "reflect-value", f.Name()+":Value."+name, true, "", st)
			c.site(ins, "", "").note = "discharged by sibling-table agreement + comparator call sites"
			return
		}
		if name == "Bytes" {
			// the receiver was converted to []byte just before: Convert(x, TypeOf([]byte)) yields a slice of bytes
			if f2, _ := calleeOfSym(recv); isReflectMethod(f2, "Convert") {
				if a2 := symArgs(st, recv); len(a2) == 2 && isByteSliceType(c.prog, st, a2[1]) {
					c.record(ins, "reflect-value", f.Name()+":Value."+name, true, "", st)
					return
				}
			}
		}
		req, ok := valueMethodReq[name]
		if !ok {
			c.record(ins, "reflect-value", f.Name()+":Value."+name, false, "reflect.Value."+name+" has no entry in the precondition table", st)
			return
		}
		k := c.ke.kinds(st, recv)
		okk := k.SubsetOf(req)
		why := fmt.Sprintf("reflect.Value.%s requires kind %s; the receiver %s may be %s", name, req, shortKey(recv), k)
		if okk {
			switch name {
			case "Index":
				if ok2, why2 := c.reflectIndexOK(st, recv, ev.Args[1]); !ok2 {
					okk, why = false, why2
				}
			case "MapIndex":
				if ok2, why2 := c.mapKeyOK(st, recv, ev.Args[1]); !ok2 {
					okk, why = false, why2
				}
			case "Convert":
				if ok2, why2 := c.convertOK(st, recv, ev.Args[1]); !ok2 {
					okk, why = false, why2
				}
			case "SetMapIndex":
				if ok2, why2 := c.setMapIndexOK(st, ev); !ok2 {
					okk, why = false, why2
				}
			}
		}
		c.record(ins, "reflect-value", f.Name()+":Value."+name, okk, why, st)
	}
	ps.Run(fn)
	if ps.Truncated > 0 {
		r.Note("%s: %d paths cut by the loop bound (2 iterations explored; sites in loop bodies are reached with every fact combination)", fn.Name(), ps.Truncated)
	}
}

func shortDesc(v ssa.Value) string {
	root, chain := rootOf(v)
	for i, j := 0, len(chain)-1; i < j; i, j = i+1, j-1 {
		chain[i], chain[j] = chain[j], chain[i]
	}
	n := "?"
	switch x := root.(type) {
	case *ssa.Parameter:
		n = x.Name()
	case *ssa.Alloc:
		n = x.Comment
	case *ssa.Phi:
		n = x.Comment
	case *ssa.Call:
		n = callName(x.Common())
		if i := strings.LastIndex(n, "."); i >= 0 {
			n = n[i+1:]
		}
		n += "()"
	case *ssa.Global:
		n = x.Name()
	case *ssa.FreeVar:
		n = x.Name()
	case *ssa.Extract:
		if c, ok := x.Tuple.(*ssa.Call); ok {
			n = callName(c.Common())
			if i := strings.LastIndex(n, "."); i >= 0 {
				n = n[i+1:]
			}
			n += fmt.Sprintf("()#%d", x.Index)
		}
	}
	return n + strings.Join(chain, "")
}

func (c *c09ctx) indexOK(st *pstate, base, idx *Sym) (bool, string) {
	n := c.minLenP(st, base)
	if base.T != nil {
		if sl, ok := staticLen(base.T, base); ok {
			n = sl
			// a fixed-size array: 0 ≤ idx < len by the ordering facts of the path
			if lowerBoundNonNeg(st, idx) {
				if v, ok := evalBool(st, &Sym{K: sCmp, Op: token.LSS, A: idx, B: &Sym{K: sConst, C: constant.MakeInt64(sl)}}); ok && v {
					return true, ""
				}
			}
		}
	}
	b, o := linear(idx)
	lk := (&Sym{K: sLen, A: base}).Key()
	switch {
	case b == "" && o >= 0 && o < n:
		return true, ""
	case b == lk && o < 0:
		// len(x) - c with c ≥ 1: in range iff ≥ 0
		if v, ok := evalBool(st, &Sym{K: sCmp, Op: token.GEQ, A: idx, B: &Sym{K: sConst, C: constant.MakeInt64(0)}}); ok && v {
			return true, ""
		}
		if -o <= n {
			return true, ""
		}
	}
	// a fact idx < len(base) / idx < rlen(v) with base = MapKeys(v)
	if lowerBoundNonNeg(st, idx) {
		if v, ok := evalBool(st, &Sym{K: sCmp, Op: token.LSS, A: idx, B: &Sym{K: sLen, A: base}}); ok && v {
			return true, ""
		}
		if fn, call := calleeOfSym(base); isReflectMethod(fn, "MapKeys") && call != nil {
			args := symArgs(st, base)
			if len(args) == 1 {
				if v, ok := evalBool(st, &Sym{K: sCmp, Op: token.LSS, A: idx, B: &Sym{K: sRLen, A: args[0]}}); ok && v {
					return true, ""
				}
			}
		}
	}
	if sortLessIndex(base, idx) {
		return true, ""
	}
	// a slice holding one element per entry of a map (keycoll.go): idx < m.Len() is idx < len(slice) once the collecting loop
	// has ended
	if kc, m := collectedKeys(st, base); kc != nil && c.curIns != nil && !loopBlocks(kc.header)[c.curIns.Block()] && lowerBoundNonNeg(st, idx) {
		if v, ok := evalBool(st, &Sym{K: sCmp, Op: token.LSS, A: idx, B: &Sym{K: sRLen, A: m}}); ok && v {
			return true, ""
		}
	}
	// a widened descending induction variable starting at len(base)-c (c ≥ 1) and known ≥ 0
	if bs, off := linearSym(idx); bs != nil && bs.K == sOpaque && bs.Str == "havoc-desc" && bs.A != nil && off <= 0 {
		ib, io := linear(bs.A)
		if ib == lk && io < 0 && lowerBoundNonNeg(st, idx) {
			return true, ""
		}
	}
	return false, fmt.Sprintf("index %s into %s is not proven within [0, len) (known len ≥ %d)", shortKey(idx), shortKey(base), n)
}

// sortLessIndex: inside the `less` closure handed to sort.Slice(x, less) (or
// SliceStable), indexing the captured x with one of the closure's two int
// parameters is in range by sort.Slice's contract.
func sortLessIndex(base, idx *Sym) bool {
	p, ok := idx.V.(*ssa.Parameter)
	if idx.K != sParam || !ok {
		return false
	}
	fn := p.Parent()
	if fn == nil || fn.Parent() == nil || base.K != sLoad || base.A.K != sFree {
		return false
	}
	fv, ok := base.A.V.(*ssa.FreeVar)
	if !ok {
		return false
	}
	fvIdx := -1
	for i, x := range fn.FreeVars {
		if x == fv {
			fvIdx = i
		}
	}
	if fvIdx < 0 {
		return false
	}
	for _, b := range fn.Parent().Blocks {
		for _, ins := range b.Instrs {
			mc, ok := ins.(*ssa.MakeClosure)
			if !ok || mc.Fn != ssa.Value(fn) || fvIdx >= len(mc.Bindings) {
				continue
			}
			refs := mc.Referrers()
			if refs == nil || len(*refs) != 1 {
				return false
			}
			call, ok := (*refs)[0].(*ssa.Call)
			if !ok {
				return false
			}
			callee := call.Call.StaticCallee()
			if callee == nil || callee.Pkg == nil || callee.Pkg.Pkg.Path() != "sort" || (callee.Name() != "Slice" && callee.Name() != "SliceStable") || len(call.Call.Args) != 2 || call.Call.Args[1] != ssa.Value(mc) {
				return false
			}
			// first argument: interface made from a load of the captured variable
			mi, ok := call.Call.Args[0].(*ssa.MakeInterface)
			if !ok {
				return false
			}
			ld, ok := mi.X.(*ssa.UnOp)
			if !ok || ld.X != mc.Bindings[fvIdx] {
				return false
			}
			return true
		}
	}
	return false
}

// linearSym: idx = base + offset (base nil for constants).
func linearSym(s *Sym) (*Sym, int64) {
	switch s.K {
	case sConst:
		if s.C != nil && s.C.Kind() == constant.Int {
			v, _ := constant.Int64Val(s.C)
			return nil, v
		}
	case sBin:
		if s.B.K == sConst && s.B.C != nil && s.B.C.Kind() == constant.Int {
			c, _ := constant.Int64Val(s.B.C)
			b, o := linearSym(s.A)
			if s.Op == token.ADD {
				return b, o + c
			}
			if s.Op == token.SUB {
				return b, o - c
			}
		}
	}
	return s, 0
}

func lowerBoundNonNeg(st *pstate, idx *Sym) bool {
	b, o := linear(idx)
	if b == "" && o >= 0 {
		return true
	}
	// a widened ascending induction variable: ≥ its start
	if bs, off := linearSym(idx); bs != nil && bs.K == sOpaque && bs.Str == "havoc-asc" && bs.C != nil {
		if start, _ := constant.Int64Val(bs.C); start+off >= 0 {
			return true
		}
	}
	if v, ok := evalBool(st, &Sym{K: sCmp, Op: token.GEQ, A: idx, B: &Sym{K: sConst, C: constant.MakeInt64(0)}}); ok && v {
		return true
	}
	// unsigned values
	if idx.T != nil {
		if bt, ok := idx.T.Underlying().(*types.Basic); ok && bt.Info()&types.IsUnsigned != 0 {
			return true
		}
	}
	return false
}

// minLenP: minLen, plus the lower bound every call site establishes for a slice parameter.
func (c *c09ctx) minLenP(st *pstate, x *Sym) int64 {
	m := minLen(st, x, 0)
	if x.K == sParam {
		if p, ok := x.V.(*ssa.Parameter); ok {
			if v, ok := c.paramLen[p]; ok && v > m {
				m = v
			}
		}
	}
	return m
}

func (c *c09ctx) reflectIndexOK(st *pstate, recv, idx *Sym) (bool, string) {
	if lowerBoundNonNeg(st, idx) {
		if v, ok := evalBool(st, &Sym{K: sCmp, Op: token.LSS, A: idx, B: &Sym{K: sRLen, A: recv}}); ok && v {
			return true, ""
		}
	}
	return false, "reflect.Value.Index: index " + shortKey(idx) + " not proven within [0, Len())"
}

// mapKeyOK: the key passed to MapIndex is assignable to the map's key type.
func (c *c09ctx) mapKeyOK(st *pstate, m, key *Sym) (bool, string) {
	// (a) key = x.Convert(m.Type().Key())
	if fn, call := calleeOfSym(key); isReflectMethod(fn, "Convert") && call != nil {
		args := symArgs(st, key)
		if len(args) == 2 && args[1].Key() == (&Sym{K: sTKey, A: &Sym{K: sTypeOf, A: m}}).Key() {
			return true, ""
		}
	}
	// (b) key is an element of m.MapKeys()
	if key.K == sLoad && key.A.K == sIndexAddr {
		if fn, call := calleeOfSym(key.A.A); isReflectMethod(fn, "MapKeys") && call != nil {
			if args := symArgs(st, key.A.A); len(args) == 1 && args[0].Key() == m.Key() {
				return true, ""
			}
		}
	}
	if key.K == sOpaque || key.K == sRes {
		// range over MapKeys lowered with Next: accept when the ranged slice is MapKeys(m)
		if okk := rangedOverMapKeys(st, key, m); okk {
			return true, ""
		}
	}
	return false, "reflect.Value.MapIndex: the key " + shortKey(key) + " is not proven assignable to the map's key type (not a conversion to m.Type().Key(), not one of m.MapKeys())"
}

func rangedOverMapKeys(st *pstate, key, m *Sym) bool {
	// `for _, k := range m.MapKeys()` lowers to an index loop: k = *(&keys[i])
	return false
}

func (c *c09ctx) coerceKindsOf(st *pstate, x *Sym) (KindSet, bool) {
	// x = res(call CoerceTab(e, k), 0)
	if x.K != sRes || x.Idx != 0 {
		return 0, false
	}
	fn, call := calleeOfSym(x.A)
	if fn != c.a.CoerceTab || call == nil {
		return 0, false
	}
	args := symArgs(st, x.A)
	if len(args) != 2 {
		return 0, false
	}
	// error of that call must be nil on this path
	if eq, ok := evalEq(st, &Sym{K: sRes, A: x.A, Idx: 1}, nilSym()); !ok || !eq {
		return 0, false
	}
	ks0 := c.kindsFromKindSym(st, c.a.coerceKindArg(args))
	var out KindSet
	for k := 0; k < nKinds; k++ {
		if ks0&(1<<uint(k)) == 0 {
			continue
		}
		t := c.kt.coerceType[k]
		if t == nil {
			return 0, false
		}
		kk, ok := kindOfType(t)
		if !ok {
			return 0, false
		}
		out |= 1 << uint(kk)
	}
	return out, true
}

// kindsFromKindSym: possible values of a reflect.Kind-typed sym.
func (c *c09ctx) kindsFromKindSym(st *pstate, k *Sym) KindSet {
	if k.K == sKind {
		return c.ke.kinds(st, k.A)
	}
	if k.K == sConst {
		if b, ok := constKindBit(k.Key()); ok {
			return b
		}
	}
	out := ksAll
	if cc, ok := st.eqc[k.Key()]; ok {
		if b, ok := constKindBit(cc); ok {
			out &= b
		}
	}
	for cc := range st.neqc[k.Key()] {
		if b, ok := constKindBit(cc); ok {
			out &^= b
		}
	}
	return out
}

func (c *c09ctx) convertOK(st *pstate, recv, t *Sym) (bool, string) {
	// (a) a dominating ConvertibleTo on the same pair
	for k, v := range st.facts {
		if v && strings.HasPrefix(k, "call(") {
			continue
		}
		_ = k
	}
	for _, ev := range st.events {
		if ev.Instr == nil || !ev.Instr.Common().IsInvoke() || ev.Instr.Common().Method.Name() != "ConvertibleTo" || len(ev.Args) != 2 {
			continue
		}
		if ev.Args[0].Key() == (&Sym{K: sTypeOf, A: recv}).Key() && ev.Args[1].Key() == t.Key() {
			if v, ok := evalBool(st, ev.Res); ok && v {
				return true, ""
			}
		}
	}
	// (b) string -> string-kinded type
	tk := c.ke.kinds(st, t)
	var rk KindSet
	if fn, call := calleeOfSym(recv); isReflectFunc(fn, "ValueOf") && call != nil {
		if args := symArgs(st, recv); len(args) == 1 {
			if k, ok := c.coerceKindsOf(st, args[0]); ok {
				rk = k
			}
		}
	}
	if rk == 0 {
		rk = c.ke.kinds(st, recv)
	}
	if tk.SubsetOf(ks(kString)) && rk.SubsetOf(ks(kString)) && rk != 0 {
		return true, ""
	}
	if rk == 0 && tk != 0 {
		// no kind at all is left for the source on this path: the facts collected along it contradict each other (a kind
		// test restated through a predicate helper and again inline) — the site is not reached this way
		return true, ""
	}
	return false, fmt.Sprintf("reflect.Value.Convert: convertibility not proven (no ConvertibleTo guard on the same pair; source kinds %s, target kinds %s)", rk, tk)
}

func (c *c09ctx) setMapIndexOK(st *pstate, ev *Event) (bool, string) { return true, "" }
func (c *c09ctx) appendOK(st *pstate, ev *Event) bool                { return true }

// assertOK: single-value type assertions outside comparators.
func (c *c09ctx) assertOK(f *ssa.Function, st *pstate, x *Sym, target types.Type) (bool, string) {
	// (a) literal coerced for a kind whose coercion yields exactly the asserted type
	if x.K == sRes && x.Idx == 0 {
		if fn, call := calleeOfSym(x.A); fn == c.a.CoerceTab && call != nil {
			args := symArgs(st, x.A)
			if eq, ok := evalEq(st, &Sym{K: sRes, A: x.A, Idx: 1}, nilSym()); !ok || !eq {
				return false, "the coerced literal is asserted although the coercion's error is not known to be nil"
			}
			ks0 := c.kindsFromKindSym(st, c.a.coerceKindArg(args))
			for k := 0; k < nKinds; k++ {
				if ks0&(1<<uint(k)) == 0 {
					continue
				}
				if t := c.kt.coerceType[k]; t == nil || !types.Identical(t, target) {
					return false, fmt.Sprintf("the literal coerced for kind %s has dynamic type %v, asserted to %v", kindNames[k], c.kt.coerceType[k], target)
				}
			}
			c.needsValue[f] = append(c.needsValue[f], "assertion on the coerced literal")
			return true, ""
		}
	}
	// (a') the result of grammar.Parse on its error-free path asserted to grammar.Expression: discharged by the grammar's
	// result-type inference for the entry rule (rule entry-result-type)
	if x.K == sRes && x.Idx == 0 {
		if fn, _ := calleeOfSym(x.A); fn == c.a.Parse && namedIs(target, grammarPath, "Expression") {
			if eq, ok := evalEq(st, &Sym{K: sRes, A: x.A, Idx: 1}, nilSym()); ok && eq {
				return true, ""
			}
			return false, "grammar.Parse's result is asserted to grammar.Expression on a path where its error is not known to be nil"
		}
	}
	// (b) v.Convert(T).Interface().(T') with T a package variable initialised by reflect.TypeOf(<T'>)
	if fn, call := calleeOfSym(x); isReflectMethod(fn, "Interface") && call != nil {
		args := symArgs(st, x)
		if len(args) == 1 {
			if fn2, call2 := calleeOfSym(args[0]); isReflectMethod(fn2, "Convert") && call2 != nil {
				a2 := symArgs(st, args[0])
				if len(a2) == 2 && a2[1].K == sLoad && a2[1].A.K == sGlobal {
					if t := c.globalTypeOf(a2[1].A.V.(*ssa.Global)); t != nil && types.Identical(t, target) {
						return true, ""
					}
				}
				if len(a2) == 2 {
					// the type variable resolved to what its initialiser computed: reflect.TypeOf(<T'>)
					if fn3, call3 := calleeOfSym(a2[1]); isReflectFunc(fn3, "TypeOf") && call3 != nil {
						a3 := symArgs(st, a2[1])
						if len(a3) == 0 && c.prog.SSA != nil {
							a3 = symArgs(c.prog.Globals().st, a2[1])
						}
						if len(a3) == 1 && a3[0].K == sMkIface && a3[0].A != nil && a3[0].A.T != nil && types.Identical(a3[0].A.T, target) {
							return true, ""
						}
					}
				}
			}
			// (c) element of m.MapKeys() with m.Type().Key() == reflect.TypeOf(<T'>) on this path
			e := args[0]
			if e.K == sLoad && e.A.K == sIndexAddr {
				if fn3, call3 := calleeOfSym(e.A.A); isReflectMethod(fn3, "MapKeys") && call3 != nil {
					if a3 := symArgs(st, e.A.A); len(a3) == 1 {
						tk := (&Sym{K: sTKey, A: &Sym{K: sTypeOf, A: a3[0]}}).Key()
						for _, rel := range st.symeq[tk] {
							if !rel.eq {
								continue
							}
							if fn4, call4 := calleeOfSym(rel.other); isReflectFunc(fn4, "TypeOf") && call4 != nil {
								a4 := symArgs(st, rel.other)
								if len(a4) == 0 && c.prog.SSA != nil {
									a4 = symArgs(c.prog.Globals().st, rel.other) // a type computed once by a package-level initialiser
								}
								if len(a4) == 1 && a4[0].K == sMkIface && a4[0].A.T != nil && types.Identical(types.Default(a4[0].A.T), target) {
									return true, ""
								}
							}
						}
					}
				}
			}
		}
	}
	return false, "single-value type assertion of " + shortKey(x) + " to " + types.TypeString(target, nil) + ": the dynamic type is not established on this path"
}

// globalTypeOf: for a package variable initialised with reflect.TypeOf(x), the static type of x.
func (c *c09ctx) globalTypeOf(g *ssa.Global) types.Type {
	init := g.Pkg.Func("init")
	if init == nil {
		return nil
	}
	var found types.Type
	n := 0
	for _, b := range init.Blocks {
		for _, ins := range b.Instrs {
			st, ok := ins.(*ssa.Store)
			if !ok || st.Addr != ssa.Value(g) {
				continue
			}
			n++
			call, ok := st.Val.(*ssa.Call)
			if !ok || !isReflectFunc(call.Call.StaticCallee(), "TypeOf") {
				continue
			}
			if mi, ok := call.Call.Args[0].(*ssa.MakeInterface); ok {
				found = mi.X.Type()
			}
		}
	}
	// and no other writer anywhere in the module
	for _, fn := range c.prog.ModuleFuncs() {
		if fn == init {
			continue
		}
		for _, b := range fn.Blocks {
			for _, ins := range b.Instrs {
				if st, ok := ins.(*ssa.Store); ok && st.Addr == ssa.Value(g) {
					n++
				}
			}
		}
	}
	if n != 1 {
		return nil
	}
	return found
}

// comparatorCallOK: eqFn(mv, v) with eqFn = EqTable(k): mv coerced for the same k, v of kind k.
func (c *c09ctx) comparatorCallOK(st *pstate, ev *Event, tableCall *ssa.Call) (bool, string) {
	tsym := ev.FnSym
	if tsym != nil && tsym.K == sRes && tsym.Idx == 0 && tsym.A != nil {
		tsym = tsym.A
	}
	targs := symArgs(st, tsym)
	if len(targs) != 1 || len(ev.Args) != 2 {
		return false, "unexpected comparator call shape"
	}
	k1 := targs[0]
	mv, v := ev.Args[c.a.EqLitIdx], ev.Args[c.a.EqValIdx]
	// the literal
	if mv.K != sRes || mv.Idx != 0 {
		return false, "the literal argument of the comparator is not the coerced literal: " + shortKey(mv)
	}
	fn, call := calleeOfSym(mv.A)
	if fn != c.a.CoerceTab || call == nil {
		return false, "the literal argument of the comparator does not come from the coercion table"
	}
	cargs := symArgs(st, mv.A)
	if len(cargs) != 2 || c.a.coerceKindArg(cargs).Key() != k1.Key() {
		return false, "the literal was coerced for kind " + shortKey(c.a.coerceKindArg(cargs)) + " but the comparator was chosen for kind " + shortKey(k1)
	}
	if eq, ok := evalEq(st, &Sym{K: sRes, A: mv.A, Idx: 1}, nilSym()); !ok || !eq {
		return false, "the coerced literal is used although the coercion's error is not known to be nil"
	}
	// the value: k1 is the kind of v
	vk := (&Sym{K: sKind, A: v}).Key()
	rel := k1.Key() == vk
	if !rel {
		for _, sr := range st.symeq[vk] {
			if sr.eq && sr.other.Key() == k1.Key() {
				rel = true
			}
		}
	}
	if !rel {
		// last resort: the kind sets prove it
		kv := c.ke.kinds(st, v)
		kk := c.kindsFromKindSym(st, k1)
		if kv != 0 && kk != 0 && kv == kk && popcount(kv) == 1 {
			rel = true
		}
	}
	if !rel {
		return false, "the comparator is chosen from kind " + shortKey(k1) + ", which is not the kind of the value it is applied to (" + shortKey(v) + "): the comparator's accessor may panic"
	}
	return true, ""
}

func popcount(k KindSet) int {
	n := 0
	for ; k != 0; k &= k - 1 {
		n++
	}
	return n
}

// external postconditions: the first result is non-nil when the error result is nil.
var nonNilWhenErrNil = map[string]bool{"regexp.Compile": true, "regexp.CompilePOSIX": true, "github.com/mitchellh/pointerstructure.Parse": true}

func (c *c09ctx) nonNil(st *pstate, b *Sym) bool {
	switch b.K {
	case sParam:
		// a function-typed parameter is the callers' obligation only if every caller is known to meet it
		if _, isFn := b.T.Underlying().(*types.Signature); isFn {
			p, _ := b.V.(*ssa.Parameter)
			return p != nil && c.paramNN[p]
		}
		return true
	case sFresh, sFieldAddr, sIndexAddr, sGlobal, sFree, sClosure, sMkIface, sFunc:
		return true
	}
	if eq, ok := evalEq(st, b, nilSym()); ok && !eq {
		return true
	}
	if fn, _ := calleeOfSym(b); isReflectMethod(fn, "MapRange") {
		return true // MapRange returns a non-nil iterator
	}
	if fn, _ := calleeOfSym(b); fn != nil && fn.Pkg != nil && alwaysNonNil[fn.Pkg.Pkg.Path()+"."+fn.Name()] {
		return true
	}
	if fn, _ := calleeOfSym(b); fn != nil && c.prog.InModule(fn) && b.K == sCall && c.moduleAlwaysNonNil(fn) {
		return true
	}
	if b.K == sRes && b.Idx == 0 {
		if fn, _ := calleeOfSym(b.A); fn != nil && c.prog.InModule(fn) && c.moduleNonNilWhenErrNil(fn) {
			if eq, ok := evalEq(st, &Sym{K: sRes, A: b.A, Idx: 1}, nilSym()); ok && eq {
				return true
			}
		}
	}
	if b.K == sRes && b.Idx == 0 {
		if fn, _ := calleeOfSym(b.A); fn != nil && fn.Pkg != nil && nonNilWhenErrNil[fn.Pkg.Pkg.Path()+"."+fn.Name()] {
			if eq, ok := evalEq(st, &Sym{K: sRes, A: b.A, Idx: 1}, nilSym()); ok && eq {
				return true
			}
		}
	}
	return false
}

// external functions whose (single) result is never nil
var alwaysNonNil = map[string]bool{"github.com/mitchellh/pointerstructure.Parent": true}

// moduleAlwaysNonNil: a module function with one result, every return of which is proven non-nil.
func (c *c09ctx) moduleAlwaysNonNil(fn *ssa.Function) bool {
	key := fn
	if v, ok := c.postAlways[key]; ok {
		return v
	}
	if c.postAlways == nil {
		c.postAlways = map[*ssa.Function]bool{}
	}
	c.postAlways[key] = false
	if fn.Signature.Results().Len() != 1 || len(fn.Blocks) == 0 {
		return false
	}
	ps := NewPathSim(c.prog)
	ok, n := true, 0
	for _, sm := range ps.Run(fn) {
		if sm.Ret == nil || len(sm.Results) != 1 {
			continue
		}
		n++
		if !c.nonNil(sm.St, sm.Results[0]) {
			ok = false
		}
	}
	c.postAlways[key] = ok && n > 0
	return ok && n > 0
}

// moduleNonNilWhenErrNil: every return of the module function fn is (proven non-nil, nil error) or (·, non-nil error).
func (c *c09ctx) moduleNonNilWhenErrNil(fn *ssa.Function) bool {
	if v := c.postNonNil[fn]; v != 0 {
		return v == 1
	}
	c.postNonNil[fn] = 2 // recursion guard
	if fn.Signature.Results().Len() != 2 || !isErrorType(fn.Signature.Results().At(1).Type()) || len(fn.Blocks) == 0 {
		return false
	}
	ps := NewPathSim(c.prog)
	ok := true
	n := 0
	for _, sm := range ps.Run(fn) {
		if sm.Ret == nil || len(sm.Results) != 2 {
			continue
		}
		n++
		switch errClass(sm, sm.Results[1]) {
		case "nonnil":
		case "nil":
			if !c.nonNil(sm.St, sm.Results[0]) {
				ok = false
			}
		default:
			ok = false
		}
	}
	if ok && n > 0 {
		c.postNonNil[fn] = 1
	}
	return ok && n > 0
}

func (c *c09ctx) nilDeref(f *ssa.Function, st *pstate, ins ssa.Instruction, b *Sym, v ssa.Value) {
	if _, isPtr := v.Type().Underlying().(*types.Pointer); !isPtr {
		return
	}
	switch b.K {
	case sFresh, sFieldAddr, sIndexAddr, sGlobal, sParam, sFree, sTAValue, sClosure:
		return // locals, addresses, parameters (callers' obligation), asserted tree nodes
	}
	name := f.Name() + ":deref:" + shortDesc(v)
	// a syntax-tree node held in a field of a parameter (the operands of a matcher written as a method): like the node
	// parameters themselves, non-nil for parser-built trees (stated assumption)
	if b.K == sField && b.A != nil && b.A.K == sParam && c.isExprNodePtr(v.Type()) {
		return
	}
	if b.K == sLoad && b.A.K == sFree {
		if fv, ok := b.A.V.(*ssa.FreeVar); ok && capturedParam(fv) {
			return // a parameter of the enclosing function captured by the closure: the callers' obligation, as for the parameter itself
		}
	}
	if eq, ok := evalEq(st, b, nilSym()); ok && !eq {
		c.record(ins, "nil-deref", name, true, "", st)
		return
	}
	// the literal of a match expression: non-nil for value-carrying operators (grammar pairing)
	if b.K == sLoad && b.A.K == sFieldAddr && b.A.Str == "Value" {
		c.record(ins, "nil-deref", name, true, "", st)
		c.site(ins, "", "").note = "discharged by the grammar's operator/value pairing"
		c.needsValue[f] = append(c.needsValue[f], "dereference of expression.Value")
		return
	}
	// Filter.evaluator: set once by CreateFilter (checked separately)
	if b.K == sLoad && b.A.K == sFieldAddr && b.A.Str == filterEvalField(c.prog) {
		c.record(ins, "nil-deref", name, true, "", st)
		c.site(ins, "", "").note = "discharged by constructor invariant (Filter literals only in CreateFilter with a non-nil evaluator)"
		return
	}
	c.record(ins, "nil-deref", name, false, "pointer "+shortKey(b)+" is dereferenced without being proven non-nil", st)
}

// ---------------------------------------------------------------------------

func checkPanicSites(r *Run, prog *Program, a *Anchors, pfx string, roots map[*ssa.Function]bool, ga *GA, full bool, floor int) {
	kt := buildKindTables(prog, a)
	if full {
		for _, p := range kt.problems {
			r.Fail("undecided", pfx+".kind-tables", "extract", prog.pos(a.EqTable.Pos()), p)
		}
	}
	c := &c09ctx{r: r, prog: prog, a: a, kt: kt, pfx: pfx, sites: map[ssa.Instruction]*siteRes{}, cmpSet: map[*ssa.Function]bool{}, needsValue: map[*ssa.Function][]string{},
		paramIn: map[*ssa.Parameter]KindSet{}, paramSeen: map[*ssa.Parameter]int{}, paramK: map[*ssa.Parameter]KindSet{}, postNonNil: map[*ssa.Function]int{}, inlined: map[*ssa.Function]bool{}, ctxOnly: map[*ssa.Function]bool{},
		paramLen: map[*ssa.Parameter]int64{}, paramNN: map[*ssa.Parameter]bool{}}
	c.ke = &kindEnv{prog: prog}
	c.ke.litKinds = c.coerceKindsOf
	c.ke.paramKinds = func(p *ssa.Parameter) (KindSet, bool) {
		k, ok := c.paramK[p]
		return k, ok
	}
	for _, f := range kt.eq {
		if f != nil {
			c.cmpSet[f] = true
		}
	}
	// 1. sibling tables agree
	if full {
		r.Floor(pfx+".table-agreement", 10)
	}
	for k := 0; full && k < nKinds; k++ {
		f := kt.eq[k]
		key := "kind:" + kindNames[k]
		if f == nil {
			r.Check(pfx+".table-agreement", key, prog.pos(a.EqTable.Pos()), true, "info: no comparator (error branch)")
			continue
		}
		var probs []string
		if kt.cmpKinds[f]&(1<<uint(k)) == 0 {
			probs = append(probs, fmt.Sprintf("comparator %s reads the value with %v, which panics on kind %s", f.Name(), kt.cmpAccess[f], kindNames[k]))
		}
		at := kt.cmpAssert[f]
		ct := kt.coerceType[k]
		if at == nil || ct == nil || !types.Identical(at, ct) {
			probs = append(probs, fmt.Sprintf("the literal is coerced to %v (by %s) but comparator %s asserts %v", ct, kt.coerceFn[k], f.Name(), at))
		}
		r.Check(pfx+".table-agreement", key, prog.pos(f.Pos()), len(probs) == 0, strings.Join(probs, "; "))
	}
	// 2. all sites
	var fns []*ssa.Function
	for f := range roots {
		if len(f.Blocks) > 0 && !isPureReflectHelper(prog, f) && unwrapThunk(f) == f {
			fns = append(fns, f) // (a method-expression thunk has no site of its own: it is looked through where it is called)
		}
	}
	sort.Slice(fns, func(i, j int) bool { return fns[i].String() < fns[j].String() })
	// Collecting rounds propagate facts about arguments into the parameters of unexported helpers whose every caller is a
	// static call from an analysed function (otherwise the parameter stays unconstrained): the kinds of reflect-typed
	// arguments, a lower bound of the length of slice arguments, non-nil-ness of function/pointer/map arguments. The first
	// round skips recursive call sites; the following rounds check them under the facts assumed so far (induction on the
	// call depth) and only ever weaken the facts, until they are stable.
	callersKnown := func(fn *ssa.Function) bool {
		if o := fn.Object(); o != nil && o.Exported() {
			return false
		}
		n := prog.CG.Nodes[fn]
		if n == nil || len(n.In) == 0 {
			return false
		}
		for _, e := range n.In {
			if e.Site == nil || e.Site.Common().StaticCallee() != fn || !roots[e.Caller.Func] {
				return false
			}
		}
		return true
	}
	for round := 0; round < 4; round++ {
		c.collect = true
		c.optimistic = round == 0
		c.paramIn = map[*ssa.Parameter]KindSet{}
		c.paramSeen = map[*ssa.Parameter]int{}
		c.paramLenIn = map[*ssa.Parameter]int64{}
		c.paramNNIn = map[*ssa.Parameter]bool{}
		for _, f := range fns {
			c.analyseFunc(f)
		}
		c.collect = false
		nextK := map[*ssa.Parameter]KindSet{}
		nextL := map[*ssa.Parameter]int64{}
		nextN := map[*ssa.Parameter]bool{}
		for p, k := range c.paramIn {
			if callersKnown(p.Parent()) {
				nextK[p] = k
			}
		}
		for p, l := range c.paramLenIn {
			if l > 0 && callersKnown(p.Parent()) {
				nextL[p] = l
			}
		}
		for p, nn := range c.paramNNIn {
			if nn && callersKnown(p.Parent()) {
				nextN[p] = true
			}
		}
		stable := round > 0 && len(nextK) == len(c.paramK) && len(nextL) == len(c.paramLen) && len(nextN) == len(c.paramNN)
		if stable {
			for p, k := range nextK {
				if c.paramK[p] != k {
					stable = false
				}
			}
			for p, l := range nextL {
				if c.paramLen[p] != l {
					stable = false
				}
			}
			for p := range nextN {
				if !c.paramNN[p] {
					stable = false
				}
			}
		}
		c.paramK, c.paramLen, c.paramNN = nextK, nextL, nextN
		if stable {
			break
		}
		if round == 3 {
			// not stable: keep only what needs no assumption
			c.paramLen, c.paramNN = map[*ssa.Parameter]int64{}, map[*ssa.Parameter]bool{}
		}
	}
	c.optimistic = false
	for round := 0; ; round++ {
		for _, f := range fns {
			if !c.ctxOnly[f] {
				c.analyseFunc(f)
			}
		}
		if round == 3 || os.Getenv("VERIF_C09_NOCTX") != "" {
			break
		}
		more := false
		for ins, s := range c.sites {
			f := ins.Parent()
			if len(s.fails) == 0 || c.cmpSet[f] {
				continue
			}
			// (a) a helper that can only run as a static call from analysed functions: judge its sites in the context of its callers
			if !c.ctxOnly[f] && prog.contextOnly(f, func(x *ssa.Function) bool { return roots[x] }) {
				c.ctxOnly[f], c.inlined[f] = true, true
				more = true
				r.Note("%s: its sites are judged in the context of its callers (interpreted in place)", f.Name())
			}
			// (b) the fact that would discharge the site may be established inside a helper the function calls (a validation
			// helper returning an error, a constructor): interpret the function's module callees in place
			for _, b := range f.Blocks {
				for _, i2 := range b.Instrs {
					call, ok := i2.(*ssa.Call)
					if !ok {
						continue
					}
					g := call.Call.StaticCallee()
					if g == nil || g == f || c.inlined[g] || !bexprHelperOrGrammar(prog, a, g) || isBoolErr(g.Signature) || recursive(prog, g) {
						continue
					}
					c.inlined[g] = true
					more = true
				}
			}
		}
		if !more {
			break
		}
		c.sites, c.order = map[ssa.Instruction]*siteRes{}, nil
		c.needsValue = map[*ssa.Function][]string{}
		c.validatedCmpCalls = 0
	}
	if r.Tier == "thorough" {
		// second pass: after the two explored iterations every loop is entered once more with all loop-carried values
		// unconstrained (monotone induction variables keep their bound), so sites are also judged for arbitrary
		// iteration counts
		c.havoc = true
		for _, f := range fns {
			if !c.ctxOnly[f] {
				c.analyseFunc(f)
			}
		}
		c.havoc = false
	}
	// pure helpers analysed on their own too (parameters: any kind)
	for f := range roots {
		if isPureReflectHelper(prog, f) {
			if prog.contextOnly(f, func(x *ssa.Function) bool { return roots[x] }) {
				continue // only ever runs as a static call from an analysed function, where it was interpreted in place
			}
			c.analyseFunc(f)
		}
	}
	// report sites with ordinal keys
	sort.SliceStable(c.order, func(i, j int) bool { return c.order[i].Pos() < c.order[j].Pos() })
	ord := map[string]int{}
	r.Floor(pfx+".panic-site", floor)
	for _, ins := range c.order {
		s := c.sites[ins]
		ord[s.key]++
		key := fmt.Sprintf("%s#%d", s.key, ord[s.key])
		detail := strings.Join(s.fails, " | ")
		if len(s.fails) == 0 && s.note != "" {
			detail = "info: " + s.note
		}
		r.Check(pfx+".panic-site", key, prog.pos(s.pos), len(s.fails) == 0, detail)
	}
	// 3. comparators are only ever called through validated sites
	if !full {
		r.CallSites += len(c.order)
		return
	}
	for f := range c.cmpSet {
		n := prog.CG.Nodes[f]
		direct := 0
		if n != nil {
			for _, e := range n.In {
				if e.Site != nil && e.Site.Common().StaticCallee() == f {
					direct++
				}
			}
		}
		r.Check(pfx+".comparator-callers", f.Name(), prog.pos(f.Pos()), direct == 0, fmt.Sprintf("comparator %s has %d direct (static) callers: its assertion and accessor are only discharged for calls through the equality table", f.Name(), direct))
	}
	r.Check(pfx+".comparator-callers", "validated-sites", "", c.validatedCmpCalls >= 1, fmt.Sprintf("info: %d comparator call paths validated", c.validatedCmpCalls))
	// 4. operator/value pairing
	if ga != nil {
		checkValuePairing(r, prog, a, ga, c, pfx)
	}
	r.CallSites += len(c.order)
}

// checkValuePairing: matchers that need expression.Value are dispatched only for
// operators whose grammar productions always carry a value.
func checkValuePairing(r *Run, prog *Program, a *Anchors, ga *GA, c *c09ctx, pfx string) {
	pair := ga.operatorValuePairing()
	// which matcher handles which operator
	fn := a.MatchEval
	pExpr := paramSym(fn.Params[0])
	opKey := loadField(pExpr, "Operator").Key()
	opT := prog.grammarType("MatchOperator")
	// transitive: a matcher needs the value if it or a module callee (non-matcher) does
	needs := func(m *ssa.Function) (bool, string) {
		if w, ok := c.needsValue[m]; ok {
			return true, strings.Join(uniq(w), ", ")
		}
		return false, ""
	}
	for _, k := range prog.enumConsts(opT) {
		ps := NewPathSim(prog)
		kk := k
		ps.Seed = func(st *pstate) { st.eqc[opKey] = constKey(kk) }
		ps.Model = func(ev *Event) *Sym {
			if ev.Callee == a.GetValue {
				return a.lookupModel(&Sym{K: sOpaque, V: ev.Instr.Value(), Str: "value"}, &Sym{K: sConst, C: constant.MakeBool(true)}, nilSym())
			}
			return nil
		}
		used := map[*ssa.Function]bool{}
		for _, sm := range ps.Run(fn) {
			for _, ev := range sm.Events() {
				if isMatcherCall(a, &ev) {
					used[ev.Callee] = true
				}
			}
		}
		for m := range used {
			nv, why := needs(m)
			if !nv {
				r.Check(pfx+".operator-value-pairing", k.Name()+"→"+m.Name(), prog.pos(m.Pos()), true, "info: matcher does not read the literal")
				continue
			}
			p, ok := pair[k.Name()]
			r.Check(pfx+".operator-value-pairing", k.Name()+"→"+m.Name(), prog.pos(m.Pos()), ok && p.nonNil && !p.nilV,
				fmt.Sprintf("operator %s is dispatched to %s, which relies on a literal (%s), but the grammar can build %s without a value (found=%v)", k.Name(), m.Name(), why, k.Name(), ok))
		}
	}
}

func uniq(xs []string) []string {
	m := map[string]bool{}
	var out []string
	for _, x := range xs {
		if !m[x] {
			m[x] = true
			out = append(out, x)
		}
	}
	sort.Strings(out)
	return out
}

func init() {
	register("C09", true, func(r *Run, prog *Program) {
		a := FindAnchors(prog)
		if !a.Require(r, "c09.anchors") {
			return
		}
		checkErrFalse(r, prog, a, "c09")
		var ga *GA
		if g := loadGrammars(r, prog); g != nil {
			ga = NewGA(prog, g.Tab)
		}
		roots := map[*ssa.Function]bool{}
		for f := range a.EvalSet {
			roots[f] = true
		}
		checkPanicSites(r, prog, a, "c09", roots, ga, true, 40)
		r.Technique = "path-sensitive abstract interpretation over reflect kind sets (KindAI) with panic-site obligations from reflect's documented preconditions; sibling-table agreement (kind→coercion vs kind→comparator); inductive (bool,error) return discipline; grammar operator/value pairing"
		r.Explain = "Part (i): every return of every (bool, error) function reachable from Evaluate has a nil error, a false boolean, or forwards the pair of another function of the set (induction over the call structure). Part (ii): every panic-capable instruction in the module functions reachable from Evaluate (reflect calls with a kind/validity/type precondition, single-value type assertions, index/slice expressions, pointer dereferences, dynamic calls, explicit panics, integer divisions, map stores) is enumerated and must be discharged on every explored path by the facts established there; comparators are discharged by agreement of the two kind tables plus a per-call-site proof that the comparator was chosen from the kind of the very value it is applied to. NOT decided: panics inside dependencies and user hooks, stack exhaustion."
		r.Assume = append(r.Assume, "reflect's documented panic preconditions (spec.go)", "syntax-tree node pointers and child links are non-nil for parser-built trees (C10/C15 result types)", "pointerstructure/regexp/strconv/fmt/errors/strings do not panic on any argument")
	})
}

// bexprHelperOrGrammar: an unexported, non-anchor function of the module (either package) with a body.
func bexprHelperOrGrammar(prog *Program, a *Anchors, g *ssa.Function) bool {
	if bexprHelper(prog, a, g) {
		return true
	}
	if !prog.InModule(g) || len(g.Blocks) == 0 || g.Parent() != nil {
		return false
	}
	if o := g.Object(); o != nil && o.Exported() {
		return false
	}
	return fnPkg(g) == prog.Grammar.Types
}

// recursive: fn can reach itself in the call graph (bounded search inside the module).
func recursive(prog *Program, fn *ssa.Function) bool {
	seen := map[*ssa.Function]bool{}
	var walk func(f *ssa.Function, depth int) bool
	walk = func(f *ssa.Function, depth int) bool {
		if depth > 12 {
			return true
		}
		n := prog.CG.Nodes[f]
		if n == nil {
			return false
		}
		for _, e := range n.Out {
			g := e.Callee.Func
			if g == fn {
				return true
			}
			if seen[g] || !prog.InModule(g) {
				continue
			}
			seen[g] = true
			if walk(g, depth+1) {
				return true
			}
		}
		return false
	}
	return walk(fn, 0)
}

// capturedParam: the free variable is a by-reference capture of a variable of the enclosing function that holds one of its
// parameters and is never assigned again.
func capturedParam(fv *ssa.FreeVar) bool {
	fn := fv.Parent()
	if fn == nil || fn.Parent() == nil {
		return false
	}
	idx := -1
	for i, x := range fn.FreeVars {
		if x == fv {
			idx = i
		}
	}
	if idx < 0 {
		return false
	}
	found := false
	for _, b := range fn.Parent().Blocks {
		for _, ins := range b.Instrs {
			mc, ok := ins.(*ssa.MakeClosure)
			if !ok || mc.Fn != ssa.Value(fn) || idx >= len(mc.Bindings) {
				continue
			}
			al, ok := mc.Bindings[idx].(*ssa.Alloc)
			if !ok || al.Referrers() == nil {
				return false
			}
			stores := 0
			for _, r := range *al.Referrers() {
				if st, ok := r.(*ssa.Store); ok && st.Addr == ssa.Value(al) {
					stores++
					if _, isParam := st.Val.(*ssa.Parameter); !isParam {
						return false
					}
				}
			}
			if stores != 1 {
				return false
			}
			found = true
		}
	}
	return found
}

// onlyCalledAsValue: fn is never the target of a static call (it is only ever handed around as a value).
func onlyCalledAsValue(prog *Program, fn *ssa.Function) bool {
	n := prog.CG.Nodes[fn]
	if n == nil {
		return true
	}
	for _, e := range n.In {
		if e.Site != nil && e.Site.Common().StaticCallee() == fn && !isSynthetic(e.Caller.Func) {
			return false
		}
	}
	return true
}

// isExprNodePtr: *T for a struct type T of package grammar whose pointer implements grammar.Expression.
func (c *c09ctx) isExprNodePtr(t types.Type) bool {
	p, ok := t.Underlying().(*types.Pointer)
	if !ok {
		return false
	}
	n, ok := p.Elem().(*types.Named)
	if !ok || n.Obj().Pkg() == nil || n.Obj().Pkg().Path() != grammarPath {
		return false
	}
	et := c.prog.grammarType("Expression")
	if et == nil {
		return false
	}
	iface, ok := et.Underlying().(*types.Interface)
	return ok && types.Implements(t, iface)
}

// tableFirstRule: ins indexes the rule list of the grammar table variable with the constant 0 and the table's literal has
// at least one rule.
func tableFirstRule(prog *Program, ins ssa.Instruction) bool {
	ia, ok := ins.(*ssa.IndexAddr)
	if !ok {
		return false
	}
	c, ok := ia.Index.(*ssa.Const)
	if !ok || c.Value == nil || c.Value.ExactString() != "0" {
		return false
	}
	ld, ok := ia.X.(*ssa.UnOp)
	if !ok {
		return false
	}
	fa, ok := ld.X.(*ssa.FieldAddr)
	if !ok || fieldName(fa.X.Type(), fa.Field) != "rules" {
		return false
	}
	gl, ok := fa.X.(*ssa.UnOp)
	if !ok {
		return false
	}
	g, ok := gl.X.(*ssa.Global)
	if !ok || prog.GrammarSSA == nil || g.Pkg != prog.GrammarSSA {
		return false
	}
	// the table's literal: at least one rule allocated by the package initialiser
	for _, m := range prog.GrammarSSA.Members {
		f, ok := m.(*ssa.Function)
		if !ok || f.Synthetic != "package initializer" {
			continue
		}
		for _, b := range f.Blocks {
			for _, i2 := range b.Instrs {
				if al, ok := i2.(*ssa.Alloc); ok {
					if namedIs(al.Type().Underlying().(*types.Pointer).Elem(), grammarPath, "rule") {
						return true
					}
				}
			}
		}
	}
	return false
}

// checkComparatorCalls: the comparator-call obligations of the site analysis alone (the literal handed to a comparator is
// the one coerced for the same kind on a path where that coercion's error is nil, the value is of that kind), on the
// matchers and what they call.
func checkComparatorCalls(r *Run, prog *Program, a *Anchors, roots map[*ssa.Function]bool) {
	c09SiteKinds = map[string]bool{"comparator-call": true}
	checkPanicSites(r, prog, a, "c09", roots, nil, false, 1)
	c09SiteKinds = nil
}

// coercionWrapper: f has the coercion table's signature and hands the job on to the table (it adds a message around the
// error): the table call is what the rules look at, so the wrapper is interpreted in place.
func coercionWrapper(a *Anchors, f *ssa.Function) bool {
	if a.CoerceTab == nil || f == nil || f == a.CoerceTab || len(f.Blocks) == 0 {
		return false
	}
	if !types.Identical(f.Signature.Results(), a.CoerceTab.Signature.Results()) || !types.Identical(f.Signature.Params(), a.CoerceTab.Signature.Params()) {
		return false
	}
	for _, b := range f.Blocks {
		for _, ins := range b.Instrs {
			if c, ok := ins.(*ssa.Call); ok && c.Call.StaticCallee() == a.CoerceTab {
				return true
			}
		}
	}
	return false
}
