package main

import (
	"fmt"
	"sort"
	"strings"
	"unicode"
)

// RuneSet is a set of runes as sorted, disjoint, non-adjacent closed ranges.
// The pseudo-rune eofRune stands for "end of input" in FIRST/FOLLOW sets.
type RuneSet struct{ r [][2]rune }

const (
	maxRune = unicode.MaxRune
	eofRune = rune(maxRune + 1)
)

func rsOf(rs ...rune) RuneSet {
	var s RuneSet
	for _, c := range rs {
		s = s.Union(RuneSet{[][2]rune{{c, c}}})
	}
	return s
}

func rsRange(lo, hi rune) RuneSet {
	if lo > hi {
		return RuneSet{}
	}
	return RuneSet{[][2]rune{{lo, hi}}}
}

func rsAll() RuneSet { return rsRange(0, maxRune) }
func rsEOF() RuneSet { return rsOf(eofRune) }

func (a RuneSet) Empty() bool { return len(a.r) == 0 }

func normalize(r [][2]rune) RuneSet {
	if len(r) == 0 {
		return RuneSet{}
	}
	sort.Slice(r, func(i, j int) bool { return r[i][0] < r[j][0] })
	out := [][2]rune{r[0]}
	for _, x := range r[1:] {
		last := &out[len(out)-1]
		if x[0] <= last[1]+1 {
			if x[1] > last[1] {
				last[1] = x[1]
			}
		} else {
			out = append(out, x)
		}
	}
	return RuneSet{out}
}

func (a RuneSet) Union(b RuneSet) RuneSet {
	r := make([][2]rune, 0, len(a.r)+len(b.r))
	r = append(r, a.r...)
	r = append(r, b.r...)
	return normalize(r)
}

func (a RuneSet) Intersect(b RuneSet) RuneSet {
	var out [][2]rune
	i, j := 0, 0
	for i < len(a.r) && j < len(b.r) {
		lo, hi := a.r[i][0], a.r[i][1]
		if b.r[j][0] > lo {
			lo = b.r[j][0]
		}
		if b.r[j][1] < hi {
			hi = b.r[j][1]
		}
		if lo <= hi {
			out = append(out, [2]rune{lo, hi})
		}
		if a.r[i][1] < b.r[j][1] {
			i++
		} else {
			j++
		}
	}
	return RuneSet{out}
}

// Complement within real runes (EOF is never part of a complement).
func (a RuneSet) Complement() RuneSet {
	var out [][2]rune
	next := rune(0)
	for _, x := range a.r {
		if x[0] > maxRune {
			break
		}
		if x[0] > next {
			out = append(out, [2]rune{next, x[0] - 1})
		}
		next = x[1] + 1
	}
	if next <= maxRune {
		out = append(out, [2]rune{next, maxRune})
	}
	return RuneSet{out}
}

func (a RuneSet) Minus(b RuneSet) RuneSet {
	hadEOF := a.Has(eofRune) && !b.Has(eofRune)
	res := a.Intersect(b.Complement())
	if hadEOF {
		res = res.Union(rsEOF())
	}
	return res
}

func (a RuneSet) Has(c rune) bool {
	for _, x := range a.r {
		if c >= x[0] && c <= x[1] {
			return true
		}
	}
	return false
}

// Sample returns one member (preferring printable ASCII).
func (a RuneSet) Sample() rune {
	for _, x := range a.r {
		lo := x[0]
		if lo < 0x21 {
			lo = 0x21
		}
		if lo <= x[1] && lo < 0x7f {
			return lo
		}
	}
	if len(a.r) > 0 {
		return a.r[0][0]
	}
	return -1
}

func (a RuneSet) String() string {
	var sb strings.Builder
	n := 0
	for _, x := range a.r {
		if n > 8 {
			sb.WriteString("…")
			break
		}
		n++
		show := func(c rune) string {
			if c == eofRune {
				return "EOF"
			}
			if c > 0x20 && c < 0x7f {
				return string(c)
			}
			return fmt.Sprintf("U+%04X", c)
		}
		if x[0] == x[1] {
			sb.WriteString(show(x[0]))
		} else {
			sb.WriteString(show(x[0]) + "-" + show(x[1]))
		}
		sb.WriteString(" ")
	}
	return "{" + strings.TrimSpace(sb.String()) + "}"
}

func rsFromTable(t *unicode.RangeTable) RuneSet {
	var r [][2]rune
	for _, x := range t.R16 {
		if x.Stride == 1 {
			r = append(r, [2]rune{rune(x.Lo), rune(x.Hi)})
		} else {
			for c := rune(x.Lo); c <= rune(x.Hi); c += rune(x.Stride) {
				r = append(r, [2]rune{c, c})
			}
		}
	}
	for _, x := range t.R32 {
		if x.Stride == 1 {
			r = append(r, [2]rune{rune(x.Lo), rune(x.Hi)})
		} else {
			for c := rune(x.Lo); c <= rune(x.Hi); c += rune(x.Stride) {
				r = append(r, [2]rune{c, c})
			}
		}
	}
	return normalize(r)
}

// rsUnicodeClass resolves the names pigeon's rangeTable accepts.
func rsUnicodeClass(name string) (RuneSet, bool) {
	if t, ok := unicode.Categories[name]; ok {
		return rsFromTable(t), true
	}
	if t, ok := unicode.Properties[name]; ok {
		return rsFromTable(t), true
	}
	if t, ok := unicode.Scripts[name]; ok {
		return rsFromTable(t), true
	}
	return RuneSet{}, false
}
