package main

// C03 — not/and/or: abstract execution of the dispatcher over the finite
// outcome domain {true, false, error} of the operands.

import (
	"fmt"
	"go/constant"
	"go/types"
	"strings"

	"golang.org/x/tools/go/ssa"
)

func init() {
	register("C03", true, func(r *Run, prog *Program) {
		a := FindAnchors(prog)
		if !a.Require(r, "c03.anchors") {
			return
		}
		checkConnectives(r, prog, a, "c03")
		checkASTIntegrity(r, prog, a, "c03")
		checkTreeHandedOver(r, prog, a, "c03")
		r.importing = "C18"
		checkOptionConstructors(r, prog, "c18") // no state is carried from one operand's evaluation to the next through the options
		r.importing = "C14"
		checkUnorderedSources(r, prog, a, "c14") // an operand means one thing: a quantified operand over a map does not answer by Go's iteration order
		r.importing = "C04"
		checkRegexpSource(r, prog, a, "c04") // an operand means the same on either side of a connective: its pattern is prepared the same way wherever it stands
		r.importing = "C06"
		checkQuantifier(r, prog, a, "c06") // … nor through bindings left behind by a quantified operand: each element gets its own list
		r.importing = ""
		if g := loadGrammars(r, prog); g != nil {
			r.importing = "C15"
			checkBinaryActions(r, NewGA(prog, g.Tab), "c15") // the node evaluated has the two operands that were written
			r.importing = "C15"
			checkAnchoring(r, NewGA(prog, g.Tab)) // the whole text is the expression: nothing after a leading group is dropped
			r.importing = "C16"
			checkExposure(r, NewGA(prog, g.Tab)) // … grouped as written: the operand of `not` is what follows it, not the conjunction it stands in
			r.importing = ""
		}
		r.Technique = "abstract interpretation of the SSA of the expression dispatcher over the outcome domain {true,false,error}×{true,false,error} (path-sensitive, helpers inlined to depth 3), compared with the 3×3 table transcribed from the statement"
		r.Explain = "For each connective (node type × operator constant) and each assignment of outcomes to the operands, every feasible path through the dispatcher is followed symbolically with the operand evaluation calls replaced by their assumed outcome; the returned pair, which operands were evaluated, their order, and the datum/options forwarded to them are compared with the statement's table. By induction on expression depth this covers every expression. Decides the whole property given sub-results."
		r.Assume = append(r.Assume, "Go SSA construction preserves source semantics", "operand outcomes are abstracted to {true,false,error}; an error outcome is 'err != nil' whatever the boolean")
	})
}

type outcome int

const (
	oT outcome = iota
	oF
	oET // error, with boolean true
	oEF // error, with boolean false
)

func (o outcome) String() string {
	return [...]string{"true", "false", "error(+true)", "error(+false)"}[o]
}
func (o outcome) isErr() bool   { return o == oET || o == oEF }
func (o outcome) boolVal() bool { return o == oT || o == oET }

// exprFields: names of the fields of struct T (in package grammar) whose type is the Expression interface.
func exprFields(t *types.Named) []string {
	var out []string
	st, ok := t.Underlying().(*types.Struct)
	if !ok {
		return nil
	}
	for i := 0; i < st.NumFields(); i++ {
		if namedIs(st.Field(i).Type(), grammarPath, "Expression") {
			out = append(out, st.Field(i).Name())
		}
	}
	return out
}

// childField: if s is `*(&tav(param, *T).F)`, returns F.
func childField(s *Sym, param *Sym, ptrT types.Type) (string, bool) {
	if s == nil || s.K != sLoad || s.A.K != sFieldAddr {
		return "", false
	}
	base := s.A.A
	if base.K != sTAValue || base.A.Key() != param.Key() || !types.Identical(base.T, ptrT) {
		return "", false
	}
	return s.A.Str, true
}

func opSym(param *Sym, ptrT types.Type, field string) *Sym {
	return &Sym{K: sLoad, A: &Sym{K: sFieldAddr, A: &Sym{K: sTAValue, A: param, T: ptrT}, Str: field}}
}

func constKey(c *types.Const) string { return "const(" + c.Val().ExactString() + ")" }

type connSpec struct {
	typeName string
	constNm  string
	fields   []string // operand fields in evaluation order
	// eval returns the expected outcome and which operands are evaluated
	eval func(as []outcome) (res string, from int, evaluated []bool)
}

// the 3×3 tables of the statement. res: "T","F" or "E"; from = index of the operand whose error is passed through.
var connSpecs = []connSpec{
	{"UnaryExpression", "UnaryOpNot", []string{"Operand"}, func(as []outcome) (string, int, []bool) {
		// `not` swaps true and false and passes an error through
		switch {
		case as[0].isErr():
			return "E", 0, []bool{true}
		case as[0] == oT:
			return "F", -1, []bool{true}
		}
		return "T", -1, []bool{true}
	}},
	{"BinaryExpression", "BinaryOpAnd", []string{"Left", "Right"}, func(as []outcome) (string, int, []bool) {
		// `and` yields A's outcome if A is false or an error and otherwise B's outcome
		if as[0].isErr() {
			return "E", 0, []bool{true, false}
		}
		if as[0] == oF {
			return "F", -1, []bool{true, false}
		}
		if as[1].isErr() {
			return "E", 1, []bool{true, true}
		}
		if as[1] == oT {
			return "T", -1, []bool{true, true}
		}
		return "F", -1, []bool{true, true}
	}},
	{"BinaryExpression", "BinaryOpOr", []string{"Left", "Right"}, func(as []outcome) (string, int, []bool) {
		// `or` yields A's outcome if A is true or an error and otherwise B's
		if as[0].isErr() {
			return "E", 0, []bool{true, false}
		}
		if as[0] == oT {
			return "T", -1, []bool{true, false}
		}
		if as[1].isErr() {
			return "E", 1, []bool{true, true}
		}
		if as[1] == oT {
			return "T", -1, []bool{true, true}
		}
		return "F", -1, []bool{true, true}
	}},
}

func checkConnectives(r *Run, prog *Program, a *Anchors, pfx string) {
	fn := a.Dispatch
	r.Analysed(fn.String())
	r.Floor(pfx+".connective-cell", 30)
	if len(fn.Params) < 3 {
		r.Fail("unresolved-anchor", pfx+".connective-cell", "dispatcher-params", prog.pos(fn.Pos()), "dispatcher does not have (node, datum, options) parameters")
		return
	}
	nP, dP, oP := evalParams(fn)
	if nP == nil || dP == nil || oP == nil {
		r.Fail("unresolved-anchor", pfx+".connective-cell", "dispatcher-params", prog.pos(fn.Pos()), "dispatcher does not have (node, datum, options) parameters")
		return
	}
	pNode := &Sym{K: sParam, V: nP, T: nP.Type()}
	pDatum := &Sym{K: sParam, V: dP, T: dP.Type()}
	pOpt := &Sym{K: sParam, V: oP, T: oP.Type()}

	// every operator constant of the node types must have a spec row
	for _, tn := range []string{"UnaryExpression", "BinaryExpression"} {
		nt := prog.grammarType(tn)
		if nt == nil {
			r.Fail("unresolved-anchor", pfx+".connective-cell", "type:"+tn, "", "type grammar."+tn+" not found")
			continue
		}
		st := nt.Underlying().(*types.Struct)
		var opT types.Type
		for i := 0; i < st.NumFields(); i++ {
			if st.Field(i).Name() == "Operator" {
				opT = st.Field(i).Type()
			}
		}
		if opT == nil {
			r.Fail("unresolved-anchor", pfx+".connective-cell", "field:"+tn+".Operator", "", "no Operator field")
			continue
		}
		for _, c := range prog.enumConsts(opT) {
			found := false
			for _, sp := range connSpecs {
				if sp.typeName == tn && sp.constNm == c.Name() {
					found = true
				}
			}
			r.Check(pfx+".operator-has-spec", tn+"."+c.Name(), prog.pos(c.Pos()), found, "operator constant "+c.Name()+" is not one of the connectives of the statement (not/and/or): no outcome table to check it against")
		}
	}

	delegates := dispatchDelegates(prog, a)
	for _, sp := range connSpecs {
		nt := prog.grammarType(sp.typeName)
		if nt == nil {
			continue
		}
		ptrT := types.NewPointer(nt)
		var kc *types.Const
		if o, ok := prog.Grammar.Types.Scope().Lookup(sp.constNm).(*types.Const); ok {
			kc = o
		}
		if kc == nil {
			r.Fail("unresolved-anchor", pfx+".connective-cell", "const:"+sp.constNm, "", "constant not found")
			continue
		}
		// operand fields must be exactly the Expression-typed fields of the node
		ef := exprFields(nt)
		r.Check(pfx+".operand-fields", sp.typeName, prog.pos(nt.Obj().Pos()), strings.Join(ef, ",") == strings.Join(sp.fields, ",") || sameSet(ef, sp.fields),
			fmt.Sprintf("node type %s has Expression fields %v, the statement's connective has operands %v", sp.typeName, ef, sp.fields))

		n := len(sp.fields)
		var assigns [][]outcome
		var gen func(cur []outcome)
		gen = func(cur []outcome) {
			if len(cur) == n {
				assigns = append(assigns, append([]outcome(nil), cur...))
				return
			}
			for _, o := range []outcome{oT, oF, oET, oEF} {
				gen(append(cur, o))
			}
		}
		gen(nil)
		for _, as := range assigns {
			cell := sp.constNm + "["
			for i, f := range sp.fields {
				if i > 0 {
					cell += ","
				}
				cell += f + "=" + as[i].String()
			}
			cell += "]"
			wantRes, wantFrom, wantEval := sp.eval(as)

			ps := NewPathSim(prog)
			errSyms := map[string]*Sym{}
			ps.Seed = func(st *pstate) { st.dyn[pNode.Key()] = ptrT }
			ps.Inline = func(callee *ssa.Function) bool {
				return prog.InModule(callee) && callee != fn && callee != a.MatchEval && callee != a.CollEval
			}
			ps.Model = func(ev *Event) *Sym {
				if ev.Callee == nil || len(ev.Args) == 0 || !prog.InModule(ev.Callee) || !isVerdict(ev.Callee.Signature) {
					return nil
				}
				f, ok := "", false
				for _, x := range ev.Args {
					if ff, isChild := childField(x, pNode, ptrT); isChild {
						f, ok = ff, true
						break
					}
				}
				if !ok {
					return nil
				}
				for i, sf := range sp.fields {
					if sf == f {
						var e *Sym
						if as[i].isErr() {
							e = &Sym{K: sNewErr, V: ev.Instr.Value(), Str: f}
							errSyms[e.Key()] = e
						} else {
							e = &Sym{K: sConst, C: nil}
						}
						return verdictModel(ev.Callee.Signature, &Sym{K: sConst, C: constant.MakeBool(as[i].boolVal())}, e)
					}
				}
				return nil
			}
			sums := ps.Run(fn)
			opKey := opSym(pNode, ptrT, "Operator").Key()
			matched := 0
			for _, sm := range sums {
				if sm.Panic != nil {
					r.Check(pfx+".connective-cell", cell, prog.pos(sm.Panic.Pos()), false, "explicit panic on a path of the connective")
					matched++
					continue
				}
				if eq, ok := sm.St.eqc[opKey]; ok {
					if eq != constKey(kc) {
						continue
					}
				} else if sm.St.neqc[opKey][constKey(kc)] {
					continue
				}
				matched++
				// which operands were evaluated, in which order, with which arguments
				evald := make([]int, n)
				var order []string
				var argProblems []string
				for _, ev := range sm.Events() {
					if ev.Instr == nil || ev.Callee == nil || len(ev.Args) == 0 || ev.Inlined {
						continue
					}
					f, ok := "", false
					for _, x := range ev.Args {
						if ff, isChild := childField(x, pNode, ptrT); isChild {
							f, ok = ff, true
							break
						}
					}
					if !ok {
						continue
					}
					for i, sf := range sp.fields {
						if sf == f {
							evald[i]++
							order = append(order, f)
						}
					}
					if ev.Callee != fn && !delegates[ev.Callee] {
						argProblems = append(argProblems, fmt.Sprintf("operand %s is evaluated through %s, not through the dispatcher", f, ev.Callee.Name()))
					}
					if delegates[ev.Callee] {
						// the operand is evaluated by the function the dispatcher delegates to: with exactly the context the
						// dispatcher itself handed it (no counter, flag or accumulated state that differs from the top level)
						var entry *Event
						for _, e0 := range sm.Events() {
							e0 := e0
							if e0.Inlined && e0.Callee == ev.Callee && entry == nil {
								entry = &e0
							}
						}
						if entry == nil || len(entry.Args) != len(ev.Args) {
							argProblems = append(argProblems, "operand "+f+": the delegate's entry cannot be compared")
						} else {
							for i := range ev.Args {
								if _, isChild := childField(ev.Args[i], pNode, ptrT); isChild {
									continue
								}
								if ev.Args[i].Key() != entry.Args[i].Key() {
									argProblems = append(argProblems, fmt.Sprintf("operand %s is evaluated in a different context than the node itself (argument %d is %s, the dispatcher passed %s): its outcome would not be that of the operand on its own", f, i, shortKey(ev.Args[i]), shortKey(entry.Args[i])))
								}
							}
						}
					}
					if !argsCarry(ev.Args, pDatum) {
						argProblems = append(argProblems, "operand "+f+" is not evaluated against the same datum")
					}
					if !argsCarry(ev.Args, pOpt) {
						argProblems = append(argProblems, "operand "+f+" is not given the caller's options")
					}
				}
				var got string
				var gotFrom = -1
				problems := argProblems
				if len(sm.Results) != 2 {
					problems = append(problems, "not a (bool, error) return")
				} else {
					b, e := sm.Results[0], sm.Results[1]
					switch {
					case e.IsNil():
						if bv, ok := b.BoolConst(); ok {
							got = map[bool]string{true: "T", false: "F"}[bv]
						} else {
							got = "?bool:" + b.Key()
						}
					case e.K == sNewErr && errSyms[e.Key()] != nil:
						got = "E"
						for i, sf := range sp.fields {
							if sf == e.Str {
								gotFrom = i
							}
						}
					default:
						got = "other:" + e.Key()
					}
				}
				if got != wantRes || (wantRes == "E" && gotFrom != wantFrom) {
					problems = append(problems, fmt.Sprintf("outcome %s(from operand %d), the statement's table gives %s(from operand %d)", got, gotFrom, wantRes, wantFrom))
				}
				for i := range sp.fields {
					if wantEval[i] && evald[i] != 1 {
						problems = append(problems, fmt.Sprintf("operand %s evaluated %d times, expected once", sp.fields[i], evald[i]))
					}
					if !wantEval[i] && evald[i] != 0 {
						problems = append(problems, fmt.Sprintf("operand %s is evaluated although the short-circuit must not reach it", sp.fields[i]))
					}
				}
				if len(order) == 2 && order[0] != sp.fields[0] {
					problems = append(problems, "operands evaluated in the order "+strings.Join(order, ","))
				}
				pos := "-"
				if sm.Ret != nil {
					pos = prog.pos(sm.Ret.Pos())
				}
				r.Check(pfx+".connective-cell", cell, pos, len(problems) == 0, strings.Join(problems, "; ")+" [path "+strings.Join(sm.St.trail, " ")+"]")
			}
			if matched == 0 {
				r.Check(pfx+".connective-cell", cell, prog.pos(fn.Pos()), false, "no path of the dispatcher handles a "+sp.typeName+" with operator "+sp.constNm)
			}
			if ps.Truncated > 0 {
				r.Note("%s: %d paths truncated by the loop bound", cell, ps.Truncated)
			}
		}
	}
}

func sameSet(a, b []string) bool {
	if len(a) != len(b) {
		return false
	}
	m := map[string]bool{}
	for _, x := range a {
		m[x] = true
	}
	for _, x := range b {
		if !m[x] {
			return false
		}
	}
	return true
}
