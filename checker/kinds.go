package main

// KindAI on top of the path engine: the set of reflect kinds a symbolic
// reflect.Value / reflect.Type can have under the facts of the current path.

import (
	"fmt"
	"go/constant"
	"go/token"
	"go/types"
	"strings"

	"golang.org/x/tools/go/ssa"
)

type kindEnv struct {
	prog       *Program
	paramKinds func(p *ssa.Parameter) (KindSet, bool)
	litKinds   func(st *pstate, x *Sym) (KindSet, bool) // kinds of reflect.ValueOf(x) for x a coerced literal
	depth      int
}

func calleeOfSym(s *Sym) (*ssa.Function, *ssa.Call) {
	if s == nil || (s.K != sCall && s.K != sRCall) {
		return nil, nil
	}
	c, ok := s.V.(*ssa.Call)
	if !ok {
		return nil, nil
	}
	if s.Fn != nil {
		return s.Fn, c
	}
	return c.Call.StaticCallee(), c
}

func isReflectFunc(fn *ssa.Function, name string) bool {
	return fn != nil && fn.Pkg != nil && fn.Pkg.Pkg.Path() == "reflect" && fn.Name() == name && fn.Signature.Recv() == nil
}

func isReflectMethod(fn *ssa.Function, name string) bool {
	return fn != nil && fn.Pkg != nil && fn.Pkg.Pkg.Path() == "reflect" && fn.Name() == name && fn.Signature.Recv() != nil
}

// argSyms returns the symbolic arguments of the call that produced s, as recorded in the path's events.
func argSyms(st *pstate, call *ssa.Call) []*Sym {
	for i := len(st.events) - 1; i >= 0; i-- {
		if st.events[i].Instr == ssa.CallInstruction(call) {
			return st.events[i].Args
		}
	}
	return nil
}

// symArgs returns the arguments of the very call execution that produced s
// (a call instruction inside a loop executes several times on one path).
func symArgs(st *pstate, s *Sym) []*Sym {
	k := s.Key()
	for i := len(st.events) - 1; i >= 0; i-- {
		if st.events[i].Res != nil && st.events[i].Instr != nil && st.events[i].Res.Key() == k {
			return st.events[i].Args
		}
	}
	return nil
}

func (ke *kindEnv) base(st *pstate, a *Sym) KindSet {
	if a == nil {
		return ksAll
	}
	switch a.K {
	case sOpaque:
		// a loop-carried value after widening: the join of what its phi can merge, as far as that is fixed by the
		// producing calls alone (reflect.MakeSlice / Append yield slices, MakeMap yields a map)
		if phi, ok := a.V.(*ssa.Phi); ok && strings.HasPrefix(a.Str, "havoc") && isReflectValue(phi.Type()) {
			seen := map[*ssa.Phi]bool{}
			var join func(p *ssa.Phi) (KindSet, bool)
			join = func(p *ssa.Phi) (KindSet, bool) {
				if seen[p] {
					return 0, true
				}
				seen[p] = true
				var out KindSet
				for _, e := range p.Edges {
					switch x := e.(type) {
					case *ssa.Phi:
						k, ok := join(x)
						if !ok {
							return 0, false
						}
						out |= k
					case *ssa.Call:
						switch f := x.Call.StaticCallee(); {
						case isReflectFunc(f, "MakeSlice"), isReflectFunc(f, "Append"), isReflectFunc(f, "AppendSlice"):
							out |= ks(kSlice)
						case isReflectFunc(f, "MakeMap"), isReflectFunc(f, "MakeMapWithSize"):
							out |= ks(kMap)
						default:
							return 0, false
						}
					default:
						return 0, false
					}
				}
				return out, true
			}
			if out, ok := join(phi); ok && out != 0 {
				return out
			}
		}
		return ksAll
	case sTypeOf:
		return ke.kinds(st, a.A) &^ ks(kInvalid)
	case sTElem, sTKey:
		return ksValid
	case sParam:
		if ke.paramKinds != nil {
			if p, ok := a.V.(*ssa.Parameter); ok {
				if k, ok := ke.paramKinds(p); ok {
					return k
				}
			}
		}
		return ksAll
	case sLoad:
		// element of MapKeys(v): a valid value
		if a.A.K == sIndexAddr {
			if fn, _ := calleeOfSym(a.A.A); isReflectMethod(fn, "MapKeys") {
				return ksValid
			}
		}
		if a.A.K == sGlobal && a.T != nil && isReflectType(a.T) {
			return ksValid
		}
		return ksAll
	case sCall:
		fn, _ := calleeOfSym(a)
		if fn == nil {
			return ksAll
		}
		args := symArgs(st, a)
		if ke.prog != nil && ke.prog.InModule(fn) {
			derefPostcondition(ke.prog)
			if forb, ok := derefPost[fn]; ok {
				return ksAll &^ forb
			}
		}
		switch {
		case isReflectFunc(fn, "ValueOf"):
			if len(args) == 1 {
				x := args[0]
				if x.K == sMkIface && x.A != nil && x.A.T != nil {
					if _, isIface := x.A.T.Underlying().(*types.Interface); !isIface {
						if k, ok := kindOfType(x.A.T); ok {
							return ks(k)
						}
					}
				}
				if x.IsNil() {
					return ks(kInvalid)
				}
				if ke.litKinds != nil {
					if k, ok := ke.litKinds(st, x); ok {
						return k
					}
				}
				// an interface known not to be nil holds a value of some type: reflect has a valid Value for it
				if isNil, known := evalBool(st, &Sym{K: sCmp, Op: token.EQL, A: x, B: nilSym()}); known && !isNil {
					return ksValid &^ ks(kInterface)
				}
			}
			return ksAll &^ ks(kInterface)
		case isReflectFunc(fn, "Indirect"):
			if len(args) == 1 {
				k := ke.kinds(st, args[0])
				if k&ks(kPtr) == 0 {
					return k
				}
			}
			return ksAll
		case isReflectFunc(fn, "TypeOf"):
			if len(args) == 1 {
				x := args[0]
				if x.K == sMkIface && x.A != nil && x.A.T != nil {
					if k, ok := kindOfType(x.A.T); ok {
						return ks(k)
					}
				}
			}
			return ksValid
		case isReflectFunc(fn, "SliceOf"):
			return ks(kSlice)
		case isReflectFunc(fn, "MakeSlice"):
			return ks(kSlice)
		case isReflectFunc(fn, "MakeMap"), isReflectFunc(fn, "MakeMapWithSize"):
			return ks(kMap)
		case isReflectFunc(fn, "Append"):
			return ks(kSlice)
		case isReflectMethod(fn, "Elem"):
			return ksAll
		case isReflectMethod(fn, "Index"):
			return ksValid
		case fn.Pkg != nil && fn.Pkg.Pkg.Path() == "reflect" && fn.Signature.Recv() != nil && namedIs(fn.Signature.Recv().Type(), "reflect", "MapIter") && (fn.Name() == "Key" || fn.Name() == "Value"):
			return ksValid
		case isReflectMethod(fn, "MapIndex"):
			// m.MapIndex(k) with k one of m.MapKeys(): the entry is found — unless the key is not equal to itself
			// (a NaN inside a float, complex, interface, array or struct key): only for key kinds without NaN
			if len(args) == 2 && args[1].K == sLoad && args[1].A.K == sIndexAddr {
				if fn2, _ := calleeOfSym(args[1].A.A); isReflectMethod(fn2, "MapKeys") {
					if a2 := symArgs(st, args[1].A.A); len(a2) == 1 && a2[0].Key() == args[0].Key() {
						kk := ke.kinds(st, &Sym{K: sTKey, A: &Sym{K: sTypeOf, A: args[0]}})
						if kk.SubsetOf(ks(kString, kBool, kInt, kInt8, kInt16, kInt32, kInt64, kUint, kUint8, kUint16, kUint32, kUint64, kUintptr, kPtr, kChan)) {
							return ksValid
						}
					}
				}
			}
			return ksAll
		case isReflectMethod(fn, "Convert"):
			if len(args) == 2 {
				return ke.kinds(st, args[1]) &^ ks(kInvalid)
			}
			return ksValid
		}
		return ksAll
	}
	return ksAll
}

// kinds: base set refined by the path facts about kindOf(a).
func (ke *kindEnv) kinds(st *pstate, a *Sym) KindSet {
	ke.depth++
	defer func() { ke.depth-- }()
	if ke.depth > 12 {
		return ksAll
	}
	k := ke.base(st, a)
	key := (&Sym{K: sKind, A: a}).Key()
	if c, ok := st.eqc[key]; ok {
		if b, ok := constKindBit(c); ok {
			k &= b
		}
	}
	for c := range st.neqc[key] {
		if b, ok := constKindBit(c); ok {
			k &^= b
		}
	}
	for _, rel := range st.symeq[key] {
		if rel.eq && rel.other.K == sKind && rel.other.A.Key() != a.Key() {
			k &= ke.kinds(st, rel.other.A)
		}
	}
	// membership in a set of kinds written as a bit mask: M & (1 << kind) != 0 (or == 0), M a constant of the path
	maskOf := func(f string) (KindSet, bool) {
		// cmp(OP,bin(&,const(M),bin(<<,const(1),KEY)),const(0))
		pre, suf := "bin(&,const(", "),bin(<<,const(1),"+key+"))"
		i := strings.Index(f, pre)
		if i < 0 || !strings.Contains(f, suf) || !strings.HasSuffix(f, ",const(0))") {
			return 0, false
		}
		rest := f[i+len(pre):]
		j := strings.Index(rest, ")")
		if j < 0 {
			return 0, false
		}
		var m uint64
		if _, err := fmt.Sscanf(rest[:j], "%d", &m); err != nil {
			return 0, false
		}
		return KindSet(m) & ksAll, true
	}
	for f, v := range st.facts {
		if !strings.Contains(f, key) || !strings.Contains(f, "bin(<<,") {
			continue
		}
		m, ok := maskOf(f)
		if !ok {
			continue
		}
		switch {
		case strings.HasPrefix(f, "cmp(!=,") && v, strings.HasPrefix(f, "cmp(==,") && !v:
			k &= m
		case strings.HasPrefix(f, "cmp(!=,") && !v, strings.HasPrefix(f, "cmp(==,") && v:
			k &^= m
		}
	}
	return k
}

// indirectOf recognises the three spellings of reflect.Indirect(X) on a path: the call itself; X.Elem() where the path
// knows X.Kind() == Ptr; X itself where the path knows X.Kind() != Ptr.
func indirectOf(st *pstate, s *Sym) (*Sym, bool) {
	isPtr := func(x *Sym) (bool, bool) {
		return evalBool(st, &Sym{K: sCmp, Op: token.EQL, A: &Sym{K: sKind, A: x}, B: &Sym{K: sConst, C: constant.MakeInt64(int64(kPtr))}})
	}
	if fn, call := calleeOfSym(s); call != nil {
		args := symArgs(st, s)
		if isReflectFunc(fn, "Indirect") && len(args) == 1 {
			return args[0], true
		}
		if isReflectMethod(fn, "Elem") && len(args) == 1 {
			if p, known := isPtr(args[0]); known && p {
				return args[0], true
			}
		}
	}
	if p, known := isPtr(s); known && !p {
		return s, true
	}
	return nil, false
}
