package main

// C18 — options act only on their own aspect, in any order, on every Evaluate.

import (
	"fmt"
	"go/constant"
	"go/token"
	"go/types"
	"sort"
	"strings"

	"golang.org/x/tools/go/ssa"
)

// the pipeline table: option field -> constructor, Evaluator field, re-issued by Evaluate?
type pipeRow struct {
	field, ctor, evalField string
	reissued               bool
}

// keyed by the public constructors; the option field each one writes and the Evaluator field that carries it are
// discovered from the code (pipeRows), so renaming the unexported plumbing does not matter.
var pipeCtors = []struct {
	ctor     string
	reissued bool
}{
	{"WithTagName", true},
	{"WithHookFn", true},
	{"WithUnknownValue", true},
	{"WithMaxExpressions", false}, // consumed at creation (C11)
	{"WithLocalVariable", false},  // internal: quantifier bindings (C06)
}

var pipeSpec []pipeRow

// pipeRows resolves the table for this program; evalField is filled in by checkEvaluatorPipeline.
func pipeRows(prog *Program) []pipeRow {
	var rows []pipeRow
	for _, c := range pipeCtors {
		rows = append(rows, pipeRow{field: optField(prog, c.ctor), ctor: c.ctor, reissued: c.reissued})
	}
	return rows
}

func optionsStruct(prog *Program) *types.Struct {
	o := optRoles(prog).optionsT
	if o == nil {
		return nil
	}
	st, _ := o.Underlying().(*types.Struct)
	return st
}

// sliceElems: the elements of a slice built as arr[:] of a local array literal, possibly extended by appends.
func sliceElems(st *pstate, s *Sym, deref *Sym) ([]*Sym, bool) {
	if s == nil {
		return nil, false
	}
	if s.IsNil() {
		return nil, true
	}
	if s.K == sSlice && (s.Str == ":const(0)" || s.Str == "const(0):const(0)") {
		return nil, true // make([]T, 0, n) with constant n: an empty slice of a local array
	}
	if s.K == sSlice && s.Str == ":" {
		if deref == nil {
			if al, path, ok := localPath(s.A); ok {
				if v, ok := loadLocal(st, al, path, nil); ok {
					deref = v
				}
			}
		}
		if deref == nil || deref.K != sStruct {
			return nil, false
		}
		var keys []string
		for k := range deref.F {
			keys = append(keys, k)
		}
		sort.Slice(keys, func(i, j int) bool {
			var a, b int
			fmt.Sscanf(keys[i], "[const(%d)]", &a)
			fmt.Sscanf(keys[j], "[const(%d)]", &b)
			return a < b
		})
		var out []*Sym
		for _, k := range keys {
			out = append(out, deref.F[k])
		}
		return out, true
	}
	if s.K == sFresh {
		if mk, ok := s.V.(*ssa.MakeSlice); ok {
			if c, ok := mk.Len.(*ssa.Const); ok && c.Value != nil && c.Value.ExactString() == "0" {
				return nil, true // make([]T, 0, n)
			}
		}
	}
	if s.K == sCall {
		for i := len(st.events) - 1; i >= 0; i-- {
			ev := &st.events[i]
			if ev.Res != nil && ev.Res.Key() == s.Key() && isBuiltinCall(ev, "append") && len(ev.Args) == 2 {
				a, ok1 := sliceElems(st, ev.Args[0], ev.Deref[0])
				b, ok2 := sliceElems(st, ev.Args[1], ev.Deref[1])
				return append(a, b...), ok1 && ok2
			}
		}
	}
	return nil, false
}

func checkOptionConstructors(r *Run, prog *Program, pfx string) {
	pipeSpec = pipeRows(prog)
	ost := optionsStruct(prog)
	if ost == nil {
		r.Fail("unresolved-anchor", pfx+".constructor", "options", "options.go", "type options not found")
		return
	}
	// every field has a pipeline row, and every row a field
	have := map[string]bool{}
	for i := 0; i < ost.NumFields(); i++ {
		have[ost.Field(i).Name()] = true
		found := false
		for _, row := range pipeSpec {
			if row.field == ost.Field(i).Name() || (optFlag(prog, row.ctor) != "" && optFlag(prog, row.ctor) == ost.Field(i).Name()) {
				found = true
			}
		}
		r.Check(pfx+".pipeline-table", "field:"+ost.Field(i).Name(), prog.pos(ost.Field(i).Pos()), found, "option field "+ost.Field(i).Name()+" has no pipeline in the checker's table: a new option must be carried from creation to every Evaluate")
	}
	r.Floor(pfx+".constructor", 4)
	dupField := map[string]string{}
	for _, row := range pipeSpec {
		if row.field == "" || !have[row.field] {
			r.Check(pfx+".pipeline-table", "row:"+row.ctor, "options.go", false, "constructor "+row.ctor+" does not store into exactly one field of the options struct")
			continue
		}
		if other, dup := dupField[row.field]; dup {
			r.Check(pfx+".pipeline-table", "row:"+row.ctor, "options.go", false, row.ctor+" and "+other+" write the same option field "+row.field+": options would override each other")
		}
		dupField[row.field] = row.ctor
		ctor := prog.BexprSSA.Func(row.ctor)
		if ctor == nil {
			r.Check(pfx+".constructor", row.ctor, "options.go", false, "constructor "+row.ctor+" not found")
			continue
		}
		cl := ctor
		var probs []string
		paths := optionEffect(prog, ctor)
		if len(paths) != 1 {
			probs = append(probs, "the option is applied conditionally")
		}
		for _, op := range paths {
			if op.opaque {
				probs = append(probs, "the function value the constructor returns cannot be followed")
				continue
			}
			nst := 0
			for _, st := range op.stores {
				if st.field == "" {
					if _, _, isLocal := localPath(st.addr); isLocal {
						continue
					}
					probs = append(probs, "stores somewhere other than a field of its *options argument")
					continue
				}
				if fl := optFlag(prog, row.ctor); fl != "" && st.field == fl {
					if bv, isC := st.val.BoolConst(); !isC || !bv {
						probs = append(probs, "the presence flag "+fl+" is set to something other than true")
					}
					continue
				}
				nst++
				if st.field != row.field {
					probs = append(probs, "writes option field "+st.field+" (its own field is "+row.field+")")
				}
				// the value: the constructor's own parameter (or the address of a copy of it), or for the bindings an append of
				// one new binding to the same field
				v := st.val
				okV := ownParameter(op.sm.St, v, 0)
				if !okV && row.ctor == "WithLocalVariable" {
					if base, parts := appendChain(op.sm.St, v); len(parts) == 1 && base != nil && base.K == sLoad && base.A.Key() == st.addr.Key() {
						okV = true
					}
				}
				if !okV {
					probs = append(probs, "stores "+shortKey(v)+", not its own parameter unmodified")
				}
			}
			for _, rd := range op.reads {
				if rd != row.field || row.ctor != "WithLocalVariable" {
					probs = append(probs, "reads option field "+rd+": options must not depend on each other or on earlier settings (last one wins)")
				}
			}
			if nst != 1 {
				probs = append(probs, fmt.Sprintf("%d stores into the options (expected exactly one)", nst))
			}
		}
		r.Check(pfx+".constructor", row.ctor, prog.pos(cl.Pos()), len(probs) == 0, strings.Join(uniq(probs), "; "))
	}
	// any other exported function returning Option must be in the table
	sc := prog.Bexpr.Types.Scope()
	for _, n := range sc.Names() {
		f, ok := sc.Lookup(n).(*types.Func)
		if !ok {
			continue
		}
		sig := f.Type().(*types.Signature)
		if sig.Results().Len() == 1 && namedIs(sig.Results().At(0).Type(), modPath, "Option") {
			found := false
			for _, row := range pipeSpec {
				if row.ctor == n {
					found = true
				}
			}
			r.Check(pfx+".pipeline-table", "ctor:"+n, prog.pos(f.Pos()), found, "option constructor "+n+" is not in the pipeline table")
		}
	}
}

func checkGetOpts(r *Run, prog *Program, a *Anchors, pfx string) {
	// the defaults: what getOpts yields when no option is given (a struct built by a helper, or a package-level variable that
	// is only ever read), decided on the option-free path of getOpts with everything interpreted in place
	gdo := optRoles(prog).getDefault
	var defaults *Sym
	{
		ps0 := NewPathSim(prog)
		ps0.maxVisits = 1
		ps0.Inline = func(c *ssa.Function) bool { return prog.InModule(c) && !recursive(prog, c) }
		ps0.Seed = func(st *pstate) {
			st.eqc[(&Sym{K: sLen, A: paramSym(a.GetOpts.Params[0])}).Key()] = "const(0)"
		}
		for _, sm := range ps0.Run(a.GetOpts) {
			if sm.Ret == nil || len(sm.Results) != 1 {
				continue
			}
			applied := false
			for _, ev := range sm.Events() {
				if ev.Instr != nil && !ev.Inlined && ev.FnSym != nil {
					if _, isB := ev.Instr.Common().Value.(*ssa.Builtin); !isB {
						applied = true
					}
				}
			}
			if !applied && sm.Results[0].K == sStruct {
				defaults = sm.Results[0]
			}
		}
	}
	pos := prog.pos(a.GetOpts.Pos())
	if gdo != nil {
		pos = prog.pos(gdo.Pos())
	}
	ok := defaults != nil
	why := "the options in force when none is given cannot be reconstructed (not a struct literal / an initialise-once variable)"
	if ok {
		d := defaults
		// neutral values of the statement: tag name `bexpr`, budget 0, no hook, no unknown value, no bindings
		for f, v := range d.F {
			switch f {
			case optField(prog, "WithTagName"):
				if v.K != sConst || v.C == nil || v.C.Kind() != constant.String || constant.StringVal(v.C) != "bexpr" {
					ok, why = false, "default tag name is "+v.Key()+", the documented neutral value is \"bexpr\""
				}
			case optField(prog, "WithMaxExpressions"):
				if b, o := linear(v); b != "" || o != 0 {
					ok, why = false, "default budget is "+v.Key()+", expected 0 (unlimited)"
				}
			default:
				if bv, isB := v.BoolConst(); isB && !bv {
					continue // a presence flag that is off
				}
				if !v.IsNil() && !(v.K == sStruct && v.A == nil && len(v.F) == 0) {
					ok, why = false, "default of "+f+" is "+v.Key()+", expected nil"
				}
			}
		}
		if _, has := d.F[optField(prog, "WithTagName")]; !has {
			ok, why = false, "the default options do not set the tag name"
		}
	}
	r.Check(pfx+".defaults", "getDefaultOptions", pos, ok, why)
	// getOpts: defaults, then every non-nil option in slice order, applied to the same struct — decided on the paths of
	// getOpts (helpers it is split into interpreted in place), three loop visits
	fn := a.GetOpts
	pOpt := paramSym(fn.Params[0])
	psF := NewPathSim(prog)
	psF.maxVisits = 3
	psF.Inline = func(c *ssa.Function) bool { return prog.InModule(c) && !recursive(prog, c) }
	isDefaults := func(d *Sym) bool { return d != nil && defaults != nil && d.Key() == defaults.Key() }
	okLoop, okBase, okCall, okRet := true, true, true, true
	maxCalls, nPaths := 0, 0
	why2 := ""
	// the edges on which a loop over the option list is left because the list is exhausted: `i < len(opts)` false
	exhaustEdge := map[string]bool{}
	for _, f := range prog.ModuleFuncs() {
		if f != fn && !(prog.InModule(f) && fnPkg(f) == prog.Bexpr.Types) {
			continue
		}
		for _, b := range f.Blocks {
			ifi, isIf := b.Instrs[len(b.Instrs)-1].(*ssa.If)
			if !isIf {
				continue
			}
			bo, isBO := ifi.Cond.(*ssa.BinOp)
			if !isBO || bo.Op != token.LSS {
				continue
			}
			lc, isCall := bo.Y.(*ssa.Call)
			if !isCall {
				continue
			}
			if bi, isB := lc.Call.Value.(*ssa.Builtin); !isB || bi.Name() != "len" || len(lc.Call.Args) != 1 || !isOptionList(lc.Call.Args[0].Type()) {
				continue
			}
			exhaustEdge[fmt.Sprintf("%s.b%d:F", f.Name(), b.Index)] = true
		}
	}
	for _, sm := range psF.Run(fn) {
		if sm.Ret == nil || len(sm.Results) != 1 {
			okRet = false
			continue
		}
		nPaths++
		if len(exhaustEdge) > 0 {
			exhausted := false
			for _, t := range sm.St.trail {
				if exhaustEdge[t] {
					exhausted = true
				}
			}
			if !exhausted {
				// an empty list needs no loop
				if eq, known := evalEq(sm.St, &Sym{K: sLen, A: pOpt}, &Sym{K: sConst, C: constant.MakeInt64(0)}); known && eq {
					exhausted = true
				}
			}
			if !exhausted {
				okLoop, why2 = false, "getOpts returns on a path that leaves the loop over the options before the list is exhausted (a nil entry is skipped, it does not end the fold) [path "+strings.Join(sm.St.trail, " ")+"]"
			}
		}
		var idxs []int64
		var target *Sym
		for _, ev := range sm.Events() {
			if ev.Instr == nil || ev.Inlined || ev.FnSym == nil {
				continue
			}
			if _, isB := ev.Instr.Common().Value.(*ssa.Builtin); isB {
				continue
			}
			f := ev.FnSym
			if !(f.K == sLoad && f.A.K == sIndexAddr && f.A.A.Key() == pOpt.Key()) {
				okCall, why2 = false, "a function value other than an element of the option list is called: "+shortKey(f)
				continue
			}
			b, o := linear(f.A.B)
			if b != "" {
				okLoop, why2 = false, "an option is taken at a position that is not a constant offset on the path: "+shortKey(f.A.B)
				continue
			}
			if len(idxs) > 0 && o <= idxs[len(idxs)-1] {
				okLoop, why2 = false, "the options are not applied in slice order"
			}
			// a skipped position must be a nil option
			prev := int64(-1)
			if len(idxs) > 0 {
				prev = idxs[len(idxs)-1]
			}
			for j := prev + 1; j < o; j++ {
				el := &Sym{K: sLoad, A: &Sym{K: sIndexAddr, A: pOpt, B: &Sym{K: sConst, C: constant.MakeInt64(j)}}}
				if eq, known := evalEq(sm.St, el, nilSym()); !known || !eq {
					okLoop, why2 = false, fmt.Sprintf("option %d is skipped although it is not known to be nil", j)
				}
			}
			idxs = append(idxs, o)
			if len(ev.Args) != 1 || ev.Args[0].K != sFresh {
				okCall, why2 = false, "an option is not applied to the local options struct: "+shortKey(ev.Args[0])
				continue
			}
			if target == nil {
				target = ev.Args[0]
				// at the first application the struct holds the defaults
				d := ev.Deref[0]
				if d == nil {
					okBase, why2 = false, "the struct the options are applied to is not tracked"
				} else if !isDefaults(d) {
					okBase, why2 = false, "the struct the options are applied to is not initialised with the defaults: "+shortKey(d)
				}
			} else if target.Key() != ev.Args[0].Key() {
				okCall, why2 = false, "options are applied to different structs"
			}
		}
		if len(idxs) > maxCalls {
			maxCalls = len(idxs)
		}
		res := sm.Results[0]
		switch {
		case target != nil:
			if !(res.K == sLoad && res.A.Key() == target.Key()) {
				okRet, why2 = false, "the result is not the struct the options were applied to: "+shortKey(res)
			}
		default:
			if !isDefaults(res) {
				okBase, why2 = false, "without options the result is not the defaults: "+shortKey(res)
			}
		}
	}
	r.Check(pfx+".fold-order", "getOpts", prog.pos(fn.Pos()), okLoop && okBase && okCall && maxCalls >= 2 && nPaths > 0,
		fmt.Sprintf("getOpts must apply the non-nil options in slice order to one struct initialised with the defaults (in order=%v, defaults=%v, applied to that struct=%v, options applied on the longest explored path=%d) %s", okLoop, okBase, okCall, maxCalls, why2))
	r.Check(pfx+".fold-order", "getOpts:returns", prog.pos(fn.Pos()), okRet, "getOpts has an unexpected return shape "+why2)
}

// ascendingInduction: phi(const c, step, step…) where every step is phi+1 (directly or via a value computed as phi+1).
func ascendingInduction(phi *ssa.Phi) (int64, bool) {
	var start int64
	nconst := 0
	for _, e := range phi.Edges {
		if c, ok := e.(*ssa.Const); ok && c.Value != nil && c.Value.Kind() == constant.Int {
			start, _ = constant.Int64Val(c.Value)
			nconst++
			continue
		}
		bo, ok := e.(*ssa.BinOp)
		if !ok || bo.Op != token.ADD || bo.X != ssa.Value(phi) {
			return 0, false
		}
		c, ok := bo.Y.(*ssa.Const)
		if !ok {
			return 0, false
		}
		if v, _ := constant.Int64Val(c.Value); v != 1 {
			return 0, false
		}
	}
	return start, nconst == 1
}

type creation struct {
	sm      *Summary
	created *Sym
}

// checkReissueAtCreation: the variant in which the list of options every evaluation runs with is built once, by
// CreateEvaluator, and kept in a field that Evaluate hands to the dispatcher as it is. The same obligations, decided at
// creation: the list re-issues exactly the tag name and the hook of getOpts(own options) and the unknown value iff one
// was configured; nothing else writes the field.
func checkReissueAtCreation(r *Run, prog *Program, a *Anchors, pfx, listField string, optsSym *Sym, creations []creation, fas []FieldAccess, evT types.Object) {
	r.Floor(pfx+".pipeline", 6)
	pipeSpec = pipeRows(prog)
	pos := prog.pos(a.CreateEv.Pos())
	seenUnk, seenNoUnk := false, false
	for _, c := range creations {
		L := getPath(c.created, []string{listField})
		for L != nil && L.K == sSlice && L.Str != ":" {
			// opts[:len(opts):len(opts)] — the same elements, capacity clipped
			if strings.HasSuffix(L.Str, ":"+(&Sym{K: sLen, A: L.A}).Key()) || strings.HasPrefix(L.Str, ":") {
				L = L.A
				continue
			}
			break
		}
		var elems []*Sym
		ok := L != nil
		if ok {
			base, parts := appendChain(c.sm.St, L)
			if len(parts) > 0 {
				be, okB := sliceElems(c.sm.St, base, nil)
				ok = okB
				elems = append(elems, be...)
				for _, e := range flattenAppended(c.sm.St, parts, 0) {
					if e == nil {
						ok = false
					}
					elems = append(elems, e)
				}
			} else {
				elems, ok = sliceElems(c.sm.St, L, nil)
			}
		}
		if !ok {
			r.Check(pfx+".pipeline", "create:options-list", pos, false, "the option list kept in Evaluator."+listField+" is not a literal list of re-issued options: "+shortKey(L))
			continue
		}
		got := map[string]string{}
		for _, el := range elems {
			callee, _ := calleeOfSym(el)
			args := symArgs(c.sm.St, el)
			if callee == nil || len(args) != 1 {
				r.Check(pfx+".pipeline", "create:option-form", pos, false, "an option kept for the evaluations is not a constructor applied to one value: "+shortKey(el))
				continue
			}
			got[callee.Name()] = args[0].Key()
		}
		unkGiven, known := optionGiven(prog, c.sm.St, optsSym, "WithUnknownValue")
		unkNil := !unkGiven
		for _, row := range pipeSpec {
			if !row.reissued {
				if _, has := got[row.ctor]; has {
					r.Check(pfx+".pipeline", "evaluate:"+row.ctor, pos, false, row.ctor+" is re-issued for every Evaluate although it only concerns creation")
				}
				continue
			}
			want := (&Sym{K: sField, A: optsSym, Str: row.field}).Key()
			if row.ctor == "WithUnknownValue" {
				if !known {
					r.Check(pfx+".pipeline", "evaluate:"+row.ctor, pos, false, "CreateEvaluator does not test whether an unknown value was configured")
					continue
				}
				want = optionValueKey(prog, optsSym, "WithUnknownValue")
				if unkNil {
					seenNoUnk = true
					_, has := got[row.ctor]
					r.Check(pfx+".pipeline", "evaluate:"+row.ctor+":unset", pos, !has, "an unknown value is issued although none was configured")
					continue
				}
				seenUnk = true
			}
			g, has := got[row.ctor]
			r.Check(pfx+".pipeline", "evaluate:"+row.ctor, pos, has && g == want,
				fmt.Sprintf("every Evaluate must run with %s of the creation-time value (option %s of getOpts(own options)); issued: %v (%s)", row.ctor, row.field, has, g))
		}
	}
	r.Check(pfx+".pipeline", "evaluate:paths", pos, seenUnk && seenNoUnk, "info: creation paths with and without an unknown value")
	// no other writer of the list
	n := 0
	for _, fa := range fas {
		if fa.Struct.Obj() == evT && fa.Field == listField && fa.Kind == "write" {
			n++
			r.Check(pfx+".pipeline", "writer:Evaluator."+listField+":"+fa.Fn.Name(), prog.pos(fa.Instr.Pos()), prog.ctorHelper(a, fa.Fn, 0), "Evaluator."+listField+" is written outside CreateEvaluator: creation-time options would no longer govern every Evaluate")
		}
	}
	r.Check(pfx+".pipeline", "writers:Evaluator."+listField, pos, n == 1, fmt.Sprintf("%d writers of Evaluator.%s", n, listField))
}

func checkEvaluatorPipeline(r *Run, prog *Program, a *Anchors, pfx string) {
	evT := prog.Bexpr.Types.Scope().Lookup("Evaluator")
	fas := prog.FieldAccesses(prog.ModuleFuncs())
	// creation: Evaluator.<evalField> = getOpts(opts...).<field>, written only in CreateEvaluator
	psC := NewPathSim(prog)
	psC.Inline = func(c *ssa.Function) bool { return bexprHelper(prog, a, c) && !recursive(prog, c) } // constructor helpers
	var creations []creation
	var created *Sym
	var optsSym *Sym
	var pOpts = paramSym(a.CreateEv.Params[1])
	for _, sm := range psC.Run(a.CreateEv) {
		if sm.Ret == nil || len(sm.Results) != 2 || !definitelyNonNil(sm.Results[0]) {
			continue
		}
		lf := collectLookup(sm)
		if lf.getOpts != nil && len(lf.getOpts.Args) == 1 && lf.getOpts.Args[0].Key() == pOpts.Key() {
			optsSym = lf.getOpts.Res
		}
		if al, path, ok := localPath(sm.Results[0]); ok {
			if v, ok := loadLocal(sm.St, al, path, nil); ok {
				created = v
				creations = append(creations, creation{sm, v})
			}
		}
	}
	// does Evaluate hand over a list kept in a field of the Evaluator (built once, at creation)?
	listField := ""
	{
		pR := paramSym(a.EvaluateM.Params[0])
		psL := NewPathSim(prog)
		psL.Inline = func(c *ssa.Function) bool {
			return prog.InModule(c) && c != a.Dispatch && c.Signature.Recv() != nil && namedIs(c.Signature.Recv().Type(), modPath, "Evaluator")
		}
		for _, sm := range psL.Run(a.EvaluateM) {
			for _, ev := range sm.callsTo(a.Dispatch) {
				if l := ev.Args[len(ev.Args)-1]; l.K == sLoad && l.A.K == sFieldAddr && l.A.A.Key() == pR.Key() {
					listField = l.A.Str
				}
			}
		}
	}
	if listField != "" && optsSym != nil && len(creations) > 0 {
		checkReissueAtCreation(r, prog, a, pfx, listField, optsSym, creations, fas, evT)
		return
	}
	if created == nil || optsSym == nil {
		r.Fail("undecided", pfx+".pipeline", "CreateEvaluator", prog.pos(a.CreateEv.Pos()), "cannot reconstruct the Evaluator literal / the getOpts call of CreateEvaluator")
		return
	}
	r.Floor(pfx+".pipeline", 8)
	pipeSpec = pipeRows(prog)
	for i := range pipeSpec {
		if !pipeSpec[i].reissued {
			continue
		}
		want := (&Sym{K: sField, A: optsSym, Str: pipeSpec[i].field}).Key()
		for f, v := range created.F {
			if v.Key() == want {
				pipeSpec[i].evalField = f
			}
		}
		if pipeSpec[i].evalField == "" {
			r.Check(pfx+".pipeline", "create:"+pipeSpec[i].ctor, prog.pos(a.CreateEv.Pos()), false, "CreateEvaluator does not copy the option set by "+pipeSpec[i].ctor+" (unmodified) into any field of the Evaluator: it could not govern later Evaluate calls")
		}
	}
	for _, row := range pipeSpec {
		if row.evalField == "" {
			continue
		}
		got := getPath(created, []string{row.evalField})
		want := (&Sym{K: sField, A: optsSym, Str: row.field}).Key()
		r.Check(pfx+".pipeline", "create:"+row.field+"→Evaluator."+row.evalField, prog.pos(a.CreateEv.Pos()), got != nil && got.Key() == want,
			"CreateEvaluator must copy option "+row.field+" (of getOpts(its own options)) unmodified into Evaluator."+row.evalField+"; got "+shortKey(got))
		// no other writer
		n := 0
		for _, fa := range fas {
			if fa.Struct.Obj() == evT && fa.Field == row.evalField && fa.Kind == "write" {
				n++
				r.Check(pfx+".pipeline", "writer:Evaluator."+row.evalField+":"+fa.Fn.Name(), prog.pos(fa.Instr.Pos()), prog.ctorHelper(a, fa.Fn, 0), "Evaluator."+row.evalField+" is written outside CreateEvaluator: creation-time options would no longer govern every Evaluate")
			}
		}
		r.Check(pfx+".pipeline", "writers:Evaluator."+row.evalField, prog.pos(a.CreateEv.Pos()), n == 1, fmt.Sprintf("%d writers of Evaluator.%s", n, row.evalField))
	}
	// Evaluate re-issues exactly: WithTagName(eval.tagName), WithHookFn(eval.hook), and WithUnknownValue(*eval.unknownVal) iff non-nil
	pRecv := paramSym(a.EvaluateM.Params[0])
	psE := NewPathSim(prog)
	psE.Inline = func(c *ssa.Function) bool {
		return prog.InModule(c) && c != a.Dispatch && c.Signature.Recv() != nil && namedIs(c.Signature.Recv().Type(), modPath, "Evaluator")
	}
	npaths := 0
	for _, sm := range psE.Run(a.EvaluateM) {
		for _, ev := range sm.callsTo(a.Dispatch) {
			npaths++
			if len(ev.Args) < 3 || len(ev.Deref) < 3 {
				r.Fail("unresolved-anchor", pfx+".pipeline", "dispatcher-params", prog.pos(a.Dispatch.Pos()), "the dispatcher does not take (node, datum, options): the option list Evaluate re-issues cannot be identified")
				continue
			}
			optArg, optDeref := ev.Args[2], ev.Deref[2]
			if f, _ := calleeOfSym(optArg); f != nil && f == a.GetOpts {
				// the dispatcher takes the option set: Evaluate folds its literal list first
				for _, e2 := range sm.Events() {
					if e2.Res != nil && e2.Res.Key() == optArg.Key() && len(e2.Args) == 1 {
						optArg, optDeref = e2.Args[0], e2.Deref[0]
					}
				}
			}
			elems, ok := sliceElems(sm.St, optArg, optDeref)
			if !ok {
				r.Check(pfx+".pipeline", "evaluate:options-literal", prog.pos(ev.Instr.Pos()), false, "the options Evaluate hands to the dispatcher are not a literal list of re-issued options: "+shortKey(ev.Args[2]))
				continue
			}
			// what the list does to an options struct, element by element: a constructor applied to one value sets its field
			// to that value; any other function value (a closure written in place, a bound method) is applied symbolically.
			// A conditional element splits the judgement.
			type variant struct {
				st  *pstate
				got map[string]string // constructor name -> the value it is given (for the unknown value: what the pointer stored points to)
			}
			variants := []variant{{sm.St, map[string]string{}}}
			ctorOfField := map[string]string{}
			for _, row := range pipeSpec {
				ctorOfField[row.field] = row.ctor
			}
			okForm := true
			for _, el := range elems {
				callee, _ := calleeOfSym(el)
				args := symArgs(sm.St, el)
				if callee != nil && len(args) == 1 && optField(prog, callee.Name()) != "" {
					for i := range variants {
						variants[i].got[callee.Name()] = args[0].Key()
					}
					continue
				}
				po := &Sym{K: sOpaque, Str: "options-argument"}
				var next []variant
				for _, v := range variants {
					before := len(v.st.events)
					applied := psE.ApplyClosure(v.st, el, []*Sym{po})
					if applied == nil {
						okForm = false
						break
					}
					for _, am := range applied {
						g := map[string]string{}
						for k, x := range v.got {
							g[k] = x
						}
						for _, se := range am.St.events[before:] {
							if !se.Store {
								continue
							}
							addr, val := se.Args[0], se.Args[1]
							if addr.K != sFieldAddr || addr.A.Key() != po.Key() || ctorOfField[addr.Str] == "" {
								okForm = false
								continue
							}
							c := ctorOfField[addr.Str]
							if c == "WithUnknownValue" {
								g[c] = (&Sym{K: sLoad, A: val}).Key() // the value the stored pointer points to
							} else {
								g[c] = val.Key()
							}
						}
						next = append(next, variant{am.St, g})
					}
				}
				if !okForm {
					break
				}
				variants = next
			}
			if !okForm {
				r.Check(pfx+".pipeline", "evaluate:option-form", prog.pos(ev.Instr.Pos()), false, "an option handed to the dispatcher is neither a constructor applied to one value nor a function value whose effect on the options can be followed")
				continue
			}
			unkField := ""
			for _, row := range pipeSpec {
				if row.ctor == "WithUnknownValue" {
					unkField = row.evalField
				}
			}
			unk := loadField(pRecv, unkField)
			// the Evaluator's copy of the presence flag, when the setting is optional by flag
			evalFlag := ""
			if fl := optFlag(prog, "WithUnknownValue"); fl != "" {
				wantFl := (&Sym{K: sField, A: optsSym, Str: fl}).Key()
				for f, v := range created.F {
					if v.Key() == wantFl {
						evalFlag = f
					}
				}
			}
			npaths += len(variants) - 1 // a conditional element judged both ways counts like two paths
			for _, vr := range variants {
				got := vr.got
				unkNil, known := evalEq(vr.st, unk, nilSym())
				if evalFlag != "" {
					given, k2 := evalBool(vr.st, loadField(pRecv, evalFlag))
					unkNil, known = !given, k2
				}
				for _, row := range pipeSpec {
					if !row.reissued {
						if _, has := got[row.ctor]; has {
							r.Check(pfx+".pipeline", "evaluate:"+row.ctor, prog.pos(ev.Instr.Pos()), false, row.ctor+" is re-issued on Evaluate although it only concerns creation")
						}
						continue
					}
					want := loadField(pRecv, row.evalField).Key()
					if row.evalField == "" {
						continue
					}
					if row.ctor == "WithUnknownValue" {
						if !known {
							r.Check(pfx+".pipeline", "evaluate:"+row.ctor, prog.pos(ev.Instr.Pos()), false, "Evaluate does not test whether an unknown value was configured")
							continue
						}
						want = (&Sym{K: sLoad, A: unk}).Key()
						if evalFlag != "" {
							want = unk.Key()
						}
						if unkNil {
							_, has := got[row.ctor]
							r.Check(pfx+".pipeline", "evaluate:"+row.ctor+":unset", prog.pos(ev.Instr.Pos()), !has, "an unknown value is issued although none was configured")
							continue
						}
					}
					g, has := got[row.ctor]
					r.Check(pfx+".pipeline", "evaluate:"+row.ctor, prog.pos(ev.Instr.Pos()), has && g == want,
						fmt.Sprintf("every Evaluate must re-issue %s with the creation-time value (Evaluator.%s); issued: %v (%s)", row.ctor, row.evalField, has, g))
				}
			}
		}
	}
	r.Check(pfx+".pipeline", "evaluate:paths", prog.pos(a.EvaluateM.Pos()), npaths >= 2, fmt.Sprintf("info: %d paths from Evaluate to the dispatcher", npaths))
}

// checkForwarding: every call from a function with an `opt ...Option` parameter to a module function taking
// ...Option passes its own options (the slice itself or a fresh copy extended by appends).
func checkForwarding(r *Run, prog *Program, a *Anchors, pfx string) {
	isOptSlice := func(t types.Type) bool {
		s, ok := t.Underlying().(*types.Slice)
		return ok && namedIs(s.Elem(), modPath, "Option")
	}
	evalAnchor := func(f *ssa.Function) bool {
		return f == a.Dispatch || f == a.MatchEval || f == a.CollEval || f == a.GetValue
	}
	isOptSet := func(t types.Type) bool {
		ot := optRoles(prog).optionsT
		return ot != nil && types.Identical(t, ot)
	}
	r.Floor(pfx+".forwarding", 6)
	n := 0
	for _, fn := range prog.ModuleFuncs() {
		if fnPkg(fn) != prog.Bexpr.Types || len(fn.Params) == 0 {
			continue
		}
		var pOwn *Sym
		if isOptSet(fn.Params[len(fn.Params)-1].Type()) && evalAnchor(fn) {
			// the evaluation functions take the option set the list folds to
			pOwn = paramSym(fn.Params[len(fn.Params)-1])
		} else if isOptSlice(fn.Params[len(fn.Params)-1].Type()) && (fn.Signature.Variadic() || evalAnchor(fn)) {
			// the options list is the last parameter: variadic, or an ordinary slice of one of the evaluation functions
			// (a helper's slice parameter may be anything, e.g. the bindings to add)
			pOwn = paramSym(fn.Params[len(fn.Params)-1])
		} else if rv := fn.Signature.Recv(); rv != nil && a.EvalSet[fn] {
			// a method of a struct that carries the evaluation's options in a field: that field is the caller's list
			t := rv.Type()
			isPtr := false
			if pt, ok := t.Underlying().(*types.Pointer); ok {
				t, isPtr = pt.Elem(), true
			}
			if st, ok := t.Underlying().(*types.Struct); ok {
				for i := 0; i < st.NumFields(); i++ {
					if isOptSlice(st.Field(i).Type()) {
						if isPtr {
							pOwn = loadField(paramSym(fn.Params[0]), st.Field(i).Name())
						} else {
							pOwn = &Sym{K: sField, A: paramSym(fn.Params[0]), Str: st.Field(i).Name()}
						}
					}
				}
			}
		}
		if pOwn == nil {
			continue
		}
		// decided on the paths of fn (unexported helpers interpreted in place): whatever list reaches a sub-evaluation is the
		// caller's own list, or a fresh copy of it extended by appends
		ps := NewPathSim(prog)
		ps.Inline = func(c *ssa.Function) bool {
			if np := c.Signature.Params().Len(); np > 0 && isOptSlice(c.Signature.Params().At(np-1).Type()) && (c.Signature.Variadic() || evalAnchor(c)) {
				return false // a sub-evaluation: its call is what the rule looks at
			}
			if np := c.Signature.Params().Len(); np > 0 && isOptSet(c.Signature.Params().At(np-1).Type()) && evalAnchor(c) {
				return false
			}
			if c.Parent() != nil || (c.Pkg != nil && c.Pkg.Func("WithLocalVariable") == c) {
				return true // local closures and the binding constructor applied in place: part of the caller
			}
			return bexprHelper(prog, a, c) && !recursive(prog, c) && !c.Signature.Variadic()
		}
		type verdict struct {
			ok  bool
			why string
		}
		seen := map[ssa.CallInstruction]*verdict{}
		var order []ssa.CallInstruction
		for _, sm := range ps.Run(fn) {
			for _, ev := range sm.Events() {
				if ev.Instr == nil || ev.Inlined || ev.Callee == nil || !prog.InModule(ev.Callee) || ev.Callee.Signature.Params().Len() == 0 || len(ev.Args) == 0 {
					continue
				}
				last := ev.Args[len(ev.Args)-1]
				lt := ev.Callee.Signature.Params().At(ev.Callee.Signature.Params().Len() - 1).Type()
				var ok2 bool
				var why string
				switch {
				case isOptSet(lt) && evalAnchor(ev.Callee):
					if f, _ := calleeOfSym(last); f != nil && f == a.GetOpts {
						// the caller holds the list and folds it for the callee: getOpts(<its own list>)
						if as := symArgs(sm.St, last); len(as) == 1 {
							ok2, why = derivedFromOptionsSym(sm.St, as[0], pOwn)
						} else {
							ok2, why = false, "the option set handed on is not folded from the caller's list"
						}
					} else {
						ok2, why = derivedOptionSet(prog, sm.St, last, pOwn)
					}
				case isOptSlice(lt) && (ev.Callee.Signature.Variadic() || evalAnchor(ev.Callee)):
					ok2, why = derivedFromOptionsSym(sm.St, last, pOwn)
				default:
					continue
				}
				v := seen[ev.Instr]
				if v == nil {
					v = &verdict{ok: true}
					seen[ev.Instr] = v
					order = append(order, ev.Instr)
				}
				if !ok2 {
					v.ok, v.why = false, why
				}
			}
		}
		for _, ci := range order {
			n++
			v := seen[ci]
			callee := ci.Common().StaticCallee()
			cn := "?"
			if callee != nil {
				cn = callee.Name()
			}
			r.Check(pfx+".forwarding", fn.Name()+"→"+cn, prog.pos(ci.Pos()), v.ok, "call to "+cn+" does not forward the caller's options ("+v.why+"): tag name, hook, unknown value and bindings would be lost for that sub-evaluation")
		}
	}
	_ = n
}

// derivedFromOptionsSym: the list is the options parameter itself, or an append chain whose base is a fresh copy of it
// (append(nil, own...) / make+copy), extended only by appends.
func derivedFromOptionsSym(st *pstate, v, own *Sym) (bool, string) {
	if v.Key() == own.Key() {
		return true, ""
	}
	if v.IsNil() {
		return false, "nil / no options"
	}
	base, parts := appendChain(st, v)
	if base == nil {
		return false, "not built from the caller's options: " + shortKey(v)
	}
	switch {
	case base.Key() == own.Key():
		return false, "appends onto the caller's own list (may write into its backing array)"
	case base.IsNil():
		if len(parts) >= 1 && parts[0].Args[1].Key() == own.Key() {
			return true, ""
		}
		return false, "a new slice that does not start from the caller's options"
	case base.K == sFresh:
		if mk, isMk := base.V.(*ssa.MakeSlice); isMk && len(base.Kids) == 1 && len(parts) >= 1 && parts[0].Args[1].Key() == own.Key() {
			// make([]Option, 0, n) followed by append(…, own...): an empty slice made here, then the caller's options
			_ = mk
			if l := base.Kids[0]; l.K == sConst && l.C != nil && constant.Sign(l.C) == 0 {
				return true, ""
			}
		}
		for _, e2 := range st.events {
			if isBuiltinCall(&e2, "copy") && len(e2.Args) == 2 && e2.Args[0].Key() == base.Key() && e2.Args[1].Key() == own.Key() {
				return true, ""
			}
		}
		return false, "a new slice that does not start from the caller's options"
	case base.K == sSlice:
		return false, "a re-slice of the options (shares the caller's backing array)"
	}
	return false, "not built from the caller's options: " + shortKey(base)
}

// derivedFromOptions: v is the options parameter itself, or an append chain whose base is a fresh copy of it
// (append(nil, own...)), extended only by appends.
func derivedFromOptions(v ssa.Value, own *ssa.Parameter, seen map[ssa.Value]bool) (bool, string) {
	if seen[v] {
		return true, ""
	}
	seen[v] = true
	switch x := v.(type) {
	case *ssa.Parameter:
		if x == own {
			return true, ""
		}
		return false, "another parameter"
	case *ssa.Phi:
		for _, e := range x.Edges {
			if ok, why := derivedFromOptions(e, own, seen); !ok {
				return false, why
			}
		}
		return true, ""
	case *ssa.Call:
		if bi, ok := x.Call.Value.(*ssa.Builtin); ok && bi.Name() == "append" {
			base := x.Call.Args[0]
			if c, isC := base.(*ssa.Const); isC && c.Value == nil {
				// append(nil, own...)
				if x.Call.Args[1] == ssa.Value(own) {
					return true, ""
				}
				return false, "a new slice that does not start from the caller's options"
			}
			return derivedFromOptions(base, own, seen)
		}
		return false, "result of " + callName(x.Common())
	case *ssa.Const:
		return false, "nil / no options"
	case *ssa.Slice:
		return false, "a re-slice of the options (shares the caller's backing array)"
	case *ssa.MakeSlice:
		// make(…) + copy(x, own): a fresh copy
		if refs := x.Referrers(); refs != nil {
			for _, u := range *refs {
				if c, ok := u.(*ssa.Call); ok {
					if bi, ok := c.Call.Value.(*ssa.Builtin); ok && bi.Name() == "copy" && len(c.Call.Args) == 2 && c.Call.Args[0] == ssa.Value(x) && c.Call.Args[1] == ssa.Value(own) {
						return true, ""
					}
				}
			}
		}
		return false, "a new slice that is not filled from the caller's options"
	}
	return false, fmt.Sprintf("%T", v)
}

func init() {
	register("C18", true, func(r *Run, prog *Program) {
		a := FindAnchors(prog)
		if !a.Require(r, "c18.anchors") {
			return
		}
		checkOptionConstructors(r, prog, "c18")
		checkGetOpts(r, prog, a, "c18")
		checkEvaluatorPipeline(r, prog, a, "c18")
		checkForwarding(r, prog, a, "c18")
		checkOptionReadSites(r, prog, a, "c18")
		r.importing = "C05"
		checkValueLookup(r, prog, a, "c05") // consumption: gateway Config and the unknown-value branch
		r.importing = "C11"
		checkBudgetTransport(r, prog, a, prog.GrammarSSA.Func("newParser"), prog.GrammarSSA.Func("MaxExpressions"), "c11")
		r.importing = "C11"
		checkBudget(r, prog, a, "c11") // the budget option does its own job: what it is given is what the parser counts against
		r.importing = "C10"
		checkRecoverDiscipline(r, prog, "c10") // a budget that is exceeded ends the creation with an error: the abort is recovered, by default
		r.importing = ""
		r.Technique = "field-flow analysis per option field (enumerated from the options type): constructor closure shape, symbolic reconstruction of the Evaluator literal and of the option list Evaluate re-issues, variadic-forwarding census over every call that takes ...Option, consumption sites imported from C05/C11"
		r.Explain = "Decides: every option constructor performs exactly one unconditional store, of its own parameter, into its own field and reads no option field (so distinct options commute and the last of repeated options wins — getOpts applies them in slice order over the defaults); every field of the options type has a pipeline; CreateEvaluator copies tag name, hook and unknown value from getOpts(its options) into Evaluator fields that have no other writer; every Evaluate re-issues exactly those (the unknown value iff configured); every call between functions taking ...Option forwards the caller's options (itself or a fresh extended copy); the defaults are the documented neutral values (\"bexpr\", 0, nil, nil); tag name and hook reach pointerstructure's Config at both lookups, the unknown value is consulted only on ErrNotFound, the budget reaches the parser unmodified iff non-zero. NOT decided: what a user hook does with the value it is given."
		r.Assume = append(r.Assume, "pointerstructure applies Config.ValueTransformationHook and Config.TagName as documented")
	})
}

// derivedOptionSet: the option set handed on is the caller's own, or the caller's own with only the list of bindings
// replaced (by a fresh copy of the caller's bindings, extended).
func derivedOptionSet(prog *Program, st *pstate, v, own *Sym) (bool, string) {
	if v.Key() == own.Key() {
		return true, ""
	}
	bf := optField(prog, "WithLocalVariable")
	if v.K != sStruct || v.A == nil || v.A.Key() != own.Key() {
		return false, "an option set that is not the caller's: " + shortKey(v)
	}
	for f := range v.F {
		if f != bf {
			return false, "option " + f + " is replaced on the way to the sub-evaluation"
		}
	}
	bl := v.F[bf]
	if bl == nil {
		return true, ""
	}
	base, parts := appendChain(st, bl)
	want := (&Sym{K: sField, A: own, Str: bf}).Key()
	if base != nil && base.IsNil() && len(parts) >= 1 && parts[0].Args[1].Key() == want {
		return true, ""
	}
	return false, "the bindings handed on are not a fresh copy of the caller's, extended"
}
