package main

// C14 — results do not depend on Go's map iteration order: every source of an
// unordered sequence reachable from the API is in a safe shape.

import (
	"fmt"
	"go/constant"
	"go/token"
	"go/types"
	"sort"
	"strings"

	"golang.org/x/tools/go/ssa"
)

func isSortCall(c *ssa.Call) (string, bool) {
	f := c.Call.StaticCallee()
	if f == nil || f.Pkg == nil {
		return "", false
	}
	switch f.Pkg.Pkg.Path() {
	case "sort":
		switch f.Name() {
		case "Slice", "SliceStable", "Strings", "Ints", "Float64s", "Sort", "Stable":
			return "sort." + f.Name(), true
		}
	case "slices":
		if strings.HasPrefix(f.Name(), "Sort") {
			return "slices." + f.Name(), true
		}
	}
	return "", false
}

// derivesFrom: does v come from src (directly, through MakeInterface / conversions, or as a load of the cell src is stored in)?
func sameSeq(v ssa.Value, src ssa.Value, cell *ssa.Alloc) bool {
	for i := 0; i < 6 && v != nil; i++ {
		if v == src {
			return true
		}
		switch x := v.(type) {
		case *ssa.MakeInterface:
			v = x.X
		case *ssa.ChangeType:
			v = x.X
		case *ssa.Convert:
			v = x.X
		case *ssa.UnOp:
			if x.Op == token.MUL && cell != nil && x.X == ssa.Value(cell) {
				return true
			}
			return false
		default:
			return false
		}
	}
	return false
}

// structurally equal modulo the two index parameters
func sameModuloIndex(a, b ssa.Value, pi, pj *ssa.Parameter, depth int) bool {
	if depth > 8 {
		return false
	}
	if a == ssa.Value(pi) && b == ssa.Value(pj) {
		return true
	}
	switch x := a.(type) {
	case *ssa.Call:
		y, ok := b.(*ssa.Call)
		if !ok || x.Call.StaticCallee() == nil || x.Call.StaticCallee() != y.Call.StaticCallee() || len(x.Call.Args) != len(y.Call.Args) {
			return false
		}
		// only injective accessors of the element: distinct keys must stay distinct (no ties)
		if c := x.Call.StaticCallee(); c.Pkg == nil || c.Pkg.Pkg.Path() != "reflect" || !(c.Name() == "String" || c.Name() == "Int" || c.Name() == "Uint" || c.Name() == "Interface") {
			return false
		}
		for k := range x.Call.Args {
			if !sameModuloIndex(x.Call.Args[k], y.Call.Args[k], pi, pj, depth+1) {
				return false
			}
		}
		return true
	case *ssa.UnOp:
		y, ok := b.(*ssa.UnOp)
		return ok && x.Op == y.Op && sameModuloIndex(x.X, y.X, pi, pj, depth+1)
	case *ssa.IndexAddr:
		y, ok := b.(*ssa.IndexAddr)
		return ok && sameModuloIndex(x.X, y.X, pi, pj, depth+1) && sameModuloIndex(x.Index, y.Index, pi, pj, depth+1)
	case *ssa.FieldAddr:
		y, ok := b.(*ssa.FieldAddr)
		return ok && x.Field == y.Field && sameModuloIndex(x.X, y.X, pi, pj, depth+1)
	case *ssa.Field:
		y, ok := b.(*ssa.Field)
		return ok && x.Field == y.Field && sameModuloIndex(x.X, y.X, pi, pj, depth+1)
	case *ssa.FreeVar:
		return a == b
	case *ssa.Const:
		y, ok := b.(*ssa.Const)
		return ok && x.Value == y.Value
	case *ssa.Parameter:
		// an index parameter on one side stands against the *other* index parameter on the other side (matched above):
		// `x[i] < x[i]` orders nothing
		if x == pi || x == pj || b == ssa.Value(pi) || b == ssa.Value(pj) {
			return false
		}
	}
	return a == b
}

// lessIsOrderOnSorted: the less closure handed to sort.Slice(x, less) compares x[i] with x[j] through the same accessor.
func lessIsOrderOnSorted(call *ssa.Call, cell *ssa.Alloc) (bool, string) {
	mc, ok := call.Call.Args[1].(*ssa.MakeClosure)
	if !ok {
		if _, isFn := call.Call.Args[1].(*ssa.Function); isFn {
			return false, "less is a plain function: cannot relate it to the sorted slice"
		}
		return false, "less is not a function literal"
	}
	fn := mc.Fn.(*ssa.Function)
	if len(fn.Params) != 2 {
		return false, "less does not take two indices"
	}
	// captured variables: exactly the sorted slice's cell
	for k, b := range mc.Bindings {
		if b != ssa.Value(cell) {
			return false, "less captures " + fn.FreeVars[k].Name() + ", which is not the slice being sorted: comparing through a second slice goes stale as soon as sort.Slice swaps elements"
		}
	}
	// every index expression in less indexes the captured slice with one of the two parameters
	var ret *ssa.Return
	nret := 0
	for _, b := range fn.Blocks {
		for _, ins := range b.Instrs {
			switch x := ins.(type) {
			case *ssa.Return:
				ret = x
				nret++
			case *ssa.IndexAddr:
				ld, ok := x.X.(*ssa.UnOp)
				if !ok {
					return false, "less indexes something that is not the captured slice"
				}
				if _, ok := ld.X.(*ssa.FreeVar); !ok {
					return false, "less indexes something that is not the captured slice"
				}
				if _, ok := x.Index.(*ssa.Parameter); !ok {
					return false, "less indexes the slice with something other than its index parameters"
				}
			}
		}
	}
	if nret != 1 || len(ret.Results) != 1 {
		return false, "less has more than one return"
	}
	bo, ok := ret.Results[0].(*ssa.BinOp)
	if !ok || (bo.Op != token.LSS && bo.Op != token.GTR) {
		return false, "less does not return a strict `<`/`>` comparison"
	}
	if !sameModuloIndex(bo.X, bo.Y, fn.Params[0], fn.Params[1], 0) && !sameModuloIndex(bo.X, bo.Y, fn.Params[1], fn.Params[0], 0) {
		return false, "the two sides of the comparison in less are not the same function of element i and element j"
	}
	return true, ""
}

func loopBlocks(header *ssa.BasicBlock) map[*ssa.BasicBlock]bool {
	// natural loop: blocks dominated by header that can reach header
	out := map[*ssa.BasicBlock]bool{header: true}
	fn := header.Parent()
	reach := func(from *ssa.BasicBlock) bool {
		seen := map[*ssa.BasicBlock]bool{}
		var dfs func(b *ssa.BasicBlock) bool
		dfs = func(b *ssa.BasicBlock) bool {
			if b == header {
				return true
			}
			if seen[b] {
				return false
			}
			seen[b] = true
			for _, s := range b.Succs {
				if header.Dominates(s) && dfs(s) {
					return true
				}
			}
			return false
		}
		for _, s := range from.Succs {
			if header.Dominates(s) && dfs(s) {
				return true
			}
		}
		return false
	}
	for _, b := range fn.Blocks {
		if b != header && header.Dominates(b) && reach(b) {
			out[b] = true
		}
	}
	return out
}

func checkUnorderedSources(r *Run, prog *Program, a *Anchors, pfx string) {
	roots := []*ssa.Function{a.EvaluateM, a.ExecuteM, a.CreateEv, a.CreateFi, a.Parse}
	set, _ := prog.Reachable(roots...)
	fns := sortedFuncs(set)
	for _, f := range fns {
		r.Analysed(f.String())
	}
	r.Floor(pfx+".unordered-source", 3)
	n := 0
	for _, fn := range fns {
		for _, b := range fn.Blocks {
			for _, ins := range b.Instrs {
				switch x := ins.(type) {
				case *ssa.Call:
					callee := x.Call.StaticCallee()
					switch {
					case isReflectMethod(callee, "MapKeys"):
						n++
						ok, shape, why := classifyKeySlice(prog, fn, x)
						if !ok {
							// every key collected into a slice that is sorted before use
							for i, kc := range keyCollections(fn) {
								if mk, isC := kc.app.Call.Args[1].(*ssa.Slice); isC && mk != nil {
									if usesCall(kc.app, x) {
										if ok2, shape2, why2 := collectThenSorted(prog, &keyCollections(fn)[i]); ok2 {
											ok, shape, why = true, shape2, ""
										} else {
											why = why2
										}
									}
								}
							}
						}
						r.Check(pfx+".unordered-source", fn.Name()+":MapKeys", prog.pos(x.Pos()), ok, okInfo(ok, shape, why))
					case isReflectMethod(callee, "MapRange"):
						n++
						ok, shape, why := classifyMapIter(prog, fn, x)
						if !ok {
							for i, kc := range keyCollections(fn) {
								if usesCall(kc.app, x) {
									if ok2, shape2, why2 := collectThenSorted(prog, &keyCollections(fn)[i]); ok2 {
										ok, shape, why = true, shape2, ""
									} else {
										why = why2
									}
								}
							}
						}
						r.Check(pfx+".unordered-source", fn.Name()+":MapRange", prog.pos(x.Pos()), ok, okInfo(ok, shape, why))
					case callee != nil && callee.Pkg != nil && callee.Pkg.Pkg.Path() == "maps" && (callee.Name() == "Keys" || callee.Name() == "Values" || callee.Name() == "All"):
						n++
						r.Check(pfx+".unordered-source", fn.Name()+":maps."+callee.Name(), prog.pos(x.Pos()), false, "maps."+callee.Name()+" yields an unordered sequence: no safe shape recognised")
					}
				case *ssa.Range:
					if _, isMap := x.X.Type().Underlying().(*types.Map); isMap {
						n++
						ok, shape, why := classifyMapRange(prog, fn, x)
						r.Check(pfx+".unordered-source", fn.Name()+":range-over-map", prog.pos(x.Pos()), ok, okInfo(ok, shape, why))
					}
				}
			}
		}
	}
	r.Check(pfx+".unordered-source", "census", "", true, fmt.Sprintf("info: %d functions reachable from the API scanned, %d unordered sources", len(fns), n))
}

// fewerThanTwoSkips: cond is len(keys) > 1 in one of its spellings (true exactly when there are at least two keys, or more
// often).
func fewerThanTwoSkips(cond ssa.Value, src *ssa.Call, cell *ssa.Alloc) bool {
	bo, ok := cond.(*ssa.BinOp)
	if !ok {
		return false
	}
	x, y, op := bo.X, bo.Y, bo.Op
	if _, isC := x.(*ssa.Const); isC {
		x, y = y, x
		switch op {
		case token.LSS:
			op = token.GTR
		case token.LEQ:
			op = token.GEQ
		case token.GTR:
			op = token.LSS
		case token.GEQ:
			op = token.LEQ
		}
	}
	lc, ok := x.(*ssa.Call)
	if !ok {
		return false
	}
	if b, isB := lc.Call.Value.(*ssa.Builtin); !isB || b.Name() != "len" || len(lc.Call.Args) != 1 || !sameSeq(lc.Call.Args[0], src, cell) {
		return false
	}
	c, ok := y.(*ssa.Const)
	if !ok || c.Value == nil {
		return false
	}
	n, exact := constant.Int64Val(c.Value)
	if !exact {
		return false
	}
	switch op {
	case token.GTR:
		return n <= 1
	case token.GEQ:
		return n <= 2
	case token.NEQ:
		return n == 0 || n == 1
	}
	return false
}

// onlyOrders: the guarded block does nothing but the sort (and what feeds it).
func onlyOrders(b *ssa.BasicBlock, sc *ssa.Call) bool {
	for _, ins := range b.Instrs {
		switch x := ins.(type) {
		case *ssa.Call:
			if x != sc {
				return false
			}
		case *ssa.Store, *ssa.MapUpdate, *ssa.Go, *ssa.Defer, *ssa.Send, *ssa.Panic, *ssa.Return:
			return false
		}
	}
	return true
}

// classifyKeySlice decides the shape of the use of a MapKeys() result.
func classifyKeySlice(prog *Program, fn *ssa.Function, src *ssa.Call) (bool, string, string) {
	// is the slice stored into a cell?
	var cell *ssa.Alloc
	if refs := src.Referrers(); refs != nil {
		for _, u := range *refs {
			if st, ok := u.(*ssa.Store); ok && st.Val == ssa.Value(src) {
				if al, ok := st.Addr.(*ssa.Alloc); ok {
					cell = al
				}
			}
		}
	}
	// element uses: IndexAddr / Range / Index on the sequence, outside closures
	type use struct {
		ins ssa.Instruction
		blk *ssa.BasicBlock
	}
	var uses []use
	var sorts []*ssa.Call
	for _, b := range fn.Blocks {
		for _, ins := range b.Instrs {
			switch x := ins.(type) {
			case *ssa.IndexAddr:
				if sameSeq(x.X, src, cell) {
					uses = append(uses, use{x, b})
				}
			case *ssa.Index:
				if sameSeq(x.X, src, cell) {
					uses = append(uses, use{x, b})
				}
			case *ssa.Range:
				if sameSeq(x.X, src, cell) {
					uses = append(uses, use{x, b})
				}
			case *ssa.Return:
				// handing the keys to the caller is a use: whoever gets them walks them in the order they have here
				for _, rv := range x.Results {
					if sameSeq(rv, src, cell) {
						uses = append(uses, use{x, b})
					}
				}
			case *ssa.Call:
				if _, ok := isSortCall(x); ok && len(x.Call.Args) > 0 && sameSeq(x.Call.Args[0], src, cell) {
					sorts = append(sorts, x)
				}
			}
		}
	}
	// Shape 0: the slice lives in a variable; it is sorted in place in the very block that stores it, right after the
	// store, and nothing else is ever stored there: every later read sees the sorted slice (or the untouched zero value).
	if cell != nil {
		var st0 *ssa.Store
		otherStores := 0
		if refs := cell.Referrers(); refs != nil {
			for _, u := range *refs {
				if st, ok := u.(*ssa.Store); ok && st.Addr == ssa.Value(cell) {
					if st.Val == ssa.Value(src) {
						st0 = st
					} else if c, isC := st.Val.(*ssa.Const); !isC || c.Value != nil {
						otherStores++
					}
				}
			}
		}
		if st0 != nil && otherStores == 0 {
			blk := st0.Block()
			after := false
			for _, ins := range blk.Instrs {
				if ins == ssa.Instruction(st0) {
					after = true
					continue
				}
				if !after {
					continue
				}
				if c, ok := ins.(*ssa.Call); ok {
					if name, isSort := isSortCall(c); isSort && len(c.Call.Args) > 0 && sameSeq(c.Call.Args[0], src, cell) {
						if name == "sort.Slice" || name == "sort.SliceStable" {
							if ok2, w := lessIsOrderOnSorted(c, cell); !ok2 {
								return false, "stored-then-sorted attempted: ", w
							}
						}
						return true, "stored, then sorted in place in the same block (" + name + ") before any read", ""
					}
				}
				if ia, ok := ins.(*ssa.IndexAddr); ok && sameSeq(ia.X, src, cell) {
					break // read before the sort
				}
				if iff, ok := ins.(*ssa.If); ok && len(blk.Succs) == 2 && fewerThanTwoSkips(iff.Cond, src, cell) {
					// … if len(keys) > 1 { sort } : skipped only for slices that are in order as they are
					then := blk.Succs[0]
					if len(then.Preds) == 1 && len(then.Succs) == 1 && then.Succs[0] == blk.Succs[1] {
						for _, ti := range then.Instrs {
							c, isCall := ti.(*ssa.Call)
							if !isCall {
								continue
							}
							name, isSort := isSortCall(c)
							if !isSort || len(c.Call.Args) == 0 || !sameSeq(c.Call.Args[0], src, cell) || !onlyOrders(then, c) {
								break
							}
							if name == "sort.Slice" || name == "sort.SliceStable" {
								if ok2, w := lessIsOrderOnSorted(c, cell); !ok2 {
									return false, "stored-then-sorted attempted: ", w
								}
							}
							return true, "stored, then sorted in place unless there are fewer than two keys (" + name + ") before any read", ""
						}
					}
				}
			}
		}
	}
	// Shape 1: sorted before use
	for _, sc := range sorts {
		name, _ := isSortCall(sc)
		okAll := true
		why := ""
		// a sort skipped only when there are fewer than two keys orders every slice it is skipped for: the guard's block
		// stands for the sort's block
		scBlk := sc.Block()
		if len(scBlk.Preds) == 1 && len(scBlk.Succs) == 1 {
			g := scBlk.Preds[0]
			if iff, ok := g.Instrs[len(g.Instrs)-1].(*ssa.If); ok && g.Succs[0] == scBlk && g.Succs[1] == scBlk.Succs[0] &&
				fewerThanTwoSkips(iff.Cond, src, cell) && onlyOrders(scBlk, sc) {
				scBlk = g
			}
		}
		for _, u := range uses {
			dom := scBlk.Dominates(u.blk) && scBlk != u.blk
			if sc.Block() == u.blk {
				// same block: the sort must come first
				for _, ins := range u.blk.Instrs {
					if ins == ssa.Instruction(sc) {
						dom = true
						break
					}
					if ins == u.ins {
						break
					}
				}
			}
			if !dom {
				okAll = false
				why = fmt.Sprintf("the element access at %s is not dominated by the %s at %s: on some path the keys are used in Go's random map order", prog.pos(u.ins.Pos()), name, prog.pos(sc.Pos()))
			}
		}
		// the sort itself must follow the MapKeys on every path (same block or dominated)
		if !(src.Block().Dominates(scBlk)) {
			okAll = false
			why = "the sort is not dominated by the MapKeys() whose result it orders"
		}
		if okAll && (name == "sort.Slice" || name == "sort.SliceStable") {
			if cell == nil {
				okAll, why = false, "sort.Slice on a slice that the less function cannot refer to"
			} else if ok, w := lessIsOrderOnSorted(sc, cell); !ok {
				okAll, why = false, w
			}
		}
		if okAll {
			return true, "sorted-before-use (" + name + ")", ""
		}
		if why != "" {
			return false, "sorted-before-use attempted: ", why
		}
	}
	// Shape 2: consuming loop with a single exit class (errors only) and commuting effects
	if len(uses) == 0 {
		return false, "", "the key slice is not consumed by a recognisable loop"
	}
	var header *ssa.BasicBlock
	for _, u := range uses {
		for b := u.blk; b != nil; b = b.Idom() {
			if len(b.Instrs) > 0 {
				if _, isPhi := b.Instrs[0].(*ssa.Phi); isPhi {
					if _, isIf := b.Instrs[len(b.Instrs)-1].(*ssa.If); isIf {
						header = b
						break
					}
				}
			}
		}
	}
	if header == nil {
		return false, "", "the key slice is indexed outside a loop"
	}
	return consumingLoopOK(prog, fn, header, 1)
}

// consumingLoopOK: the loop carries at most maxPhis values (the position), every return inside it is an error return,
// and its only effects are insertions into a map made in this function.
func consumingLoopOK(prog *Program, fn *ssa.Function, header *ssa.BasicBlock, maxPhis int) (bool, string, string) {
	lb := loopBlocks(header)
	// loop-carried state: only the induction variable
	nphi := 0
	for _, ins := range header.Instrs {
		if _, ok := ins.(*ssa.Phi); ok {
			nphi++
		}
	}
	if nphi > maxPhis {
		return false, "", fmt.Sprintf("the loop over the keys carries %d values from one iteration to the next (besides the position): its result may depend on the visiting order", nphi-maxPhis)
	}
	// exits: every return inside the loop is an error return
	ps := NewPathSim(prog)
	ps.Havoc = true
	// a return "inside the loop": its block is dominated by a block of the loop's body (the loop's normal exit leaves from the
	// header and is dominated by no body block)
	early := func(rb *ssa.BasicBlock) bool {
		if lb[rb] && rb != header {
			return true
		}
		for b := range lb {
			if b != header && b.Dominates(rb) {
				return true
			}
		}
		return false
	}
	for _, sm := range ps.Run(fn) {
		if sm.Ret == nil || !early(sm.Ret.Block()) {
			continue
		}
		last := sm.Results[len(sm.Results)-1]
		lastIsErr := isErrorType(fn.Signature.Results().At(fn.Signature.Results().Len() - 1).Type())
		if !lastIsErr || errClass(sm, last) != "nonnil" {
			return false, "", fmt.Sprintf("the loop over the keys can end early at %s with a non-error result: which key decides depends on Go's random map order", prog.pos(sm.Ret.Pos()))
		}
	}
	// effects: only insertion into a map made in this function, under the iteration's own key; what has been
	// accumulated so far is never read inside the loop (an outcome that depends on "how many were kept before this
	// entry" depends on the visiting order)
	for b := range lb {
		for _, ins := range b.Instrs {
			if c, ok := ins.(*ssa.Call); ok {
				callee := c.Call.StaticCallee()
				if callee != nil && callee.Pkg != nil && callee.Pkg.Pkg.Path() == "reflect" && callee.Signature.Recv() != nil && callee.Name() != "SetMapIndex" && len(c.Call.Args) > 0 {
					if mk, ok := c.Call.Args[0].(*ssa.Call); ok && (isReflectFunc(mk.Call.StaticCallee(), "MakeMap") || isReflectFunc(mk.Call.StaticCallee(), "MakeMapWithSize") || isReflectFunc(mk.Call.StaticCallee(), "MakeSlice")) {
						return false, "", "the loop over the keys reads the container it is filling (" + callee.Name() + " at " + prog.pos(c.Pos()) + "): its decisions depend on which entries were visited before"
					}
				}
			}
			switch x := ins.(type) {
			case *ssa.Store:
				if _, isAlloc := x.Addr.(*ssa.Alloc); !isAlloc {
					if ia, ok := x.Addr.(*ssa.IndexAddr); ok {
						if al, ok := ia.X.(*ssa.Alloc); ok && !al.Heap {
							continue // variadic argument array
						}
					}
					return false, "", "the loop over the keys stores to memory (" + prog.pos(x.Pos()) + ")"
				}
			case *ssa.MapUpdate:
				return false, "", "the loop over the keys updates a Go map directly"
			case *ssa.Call:
				callee := x.Call.StaticCallee()
				if callee != nil && callee.Pkg != nil && callee.Pkg.Pkg.Path() == "reflect" {
					switch callee.Name() {
					case "SetMapIndex":
						if mk, ok := x.Call.Args[0].(*ssa.Call); !ok || !(isReflectFunc(mk.Call.StaticCallee(), "MakeMap") || isReflectFunc(mk.Call.StaticCallee(), "MakeMapWithSize")) {
							return false, "", "SetMapIndex into a map not made in this function"
						}
					case "Append", "AppendSlice", "Set", "SetString", "SetInt":
						return false, "", "order-dependent effect reflect." + callee.Name() + " inside the loop over the keys"
					}
				}
				if b, ok := x.Call.Value.(*ssa.Builtin); ok && b.Name() == "append" {
					return false, "", "append inside the loop over the keys: the result order would be Go's random map order"
				}
			}
		}
	}
	return true, "single exit class (errors only), commuting effects (insertion under the entry's own key)", ""
}

// classifyMapIter: `it := v.MapRange(); for it.Next() { … }`
func classifyMapIter(prog *Program, fn *ssa.Function, src *ssa.Call) (bool, string, string) {
	var header *ssa.BasicBlock
	if refs := src.Referrers(); refs != nil {
		for _, u := range *refs {
			if c, ok := u.(*ssa.Call); ok && c.Call.StaticCallee() != nil && c.Call.StaticCallee().Name() == "Next" && len(c.Call.Args) > 0 && c.Call.Args[0] == ssa.Value(src) {
				if _, isIf := c.Block().Instrs[len(c.Block().Instrs)-1].(*ssa.If); isIf {
					header = c.Block()
				}
			}
		}
	}
	if header == nil {
		return false, "", "the map iterator is not consumed by a recognisable `for it.Next()` loop"
	}
	return consumingLoopOK(prog, fn, header, 0)
}

// classifyMapRange: `for k := range m { s = append(s, k) }; sort.X(s)`
func classifyMapRange(prog *Program, fn *ssa.Function, rng *ssa.Range) (bool, string, string) {
	// the loop header holds the Next; find the slice phi fed by an append of the key
	var next *ssa.Next
	if refs := rng.Referrers(); refs != nil {
		for _, u := range *refs {
			if nx, ok := u.(*ssa.Next); ok {
				next = nx
			}
		}
	}
	if next == nil {
		return false, "", "range over a map without a recognisable loop"
	}
	header := next.Block()
	lb := loopBlocks(header)
	var acc *ssa.Phi
	for _, ins := range header.Instrs {
		if phi, ok := ins.(*ssa.Phi); ok {
			if _, isSlice := phi.Type().Underlying().(*types.Slice); isSlice {
				acc = phi
			} else {
				return false, "", "range over a map carries a non-slice value between iterations"
			}
		}
	}
	// body: only append(acc, key)
	for b := range lb {
		for _, ins := range b.Instrs {
			switch x := ins.(type) {
			case *ssa.Return:
				return false, "", "return inside a range over a map: which entry is met first is random"
			case *ssa.Store:
				if ia, ok := x.Addr.(*ssa.IndexAddr); ok {
					if al, ok := ia.X.(*ssa.Alloc); ok {
						_ = al
						continue
					}
				}
				if _, ok := x.Addr.(*ssa.Alloc); ok {
					continue
				}
				return false, "", "store inside a range over a map"
			case *ssa.MapUpdate:
				// deleting / inserting under the entry's own key commutes
				continue
			case *ssa.Call:
				if bi, ok := x.Call.Value.(*ssa.Builtin); ok {
					if bi.Name() == "append" && acc != nil && x.Call.Args[0] == ssa.Value(acc) {
						continue
					}
					if bi.Name() == "delete" || bi.Name() == "len" {
						continue
					}
				}
				return false, "", "call inside a range over a map other than collecting the key (" + callName(x.Common()) + ")"
			}
		}
	}
	if acc == nil {
		return true, "membership/commuting updates only (nothing collected)", ""
	}
	// after the loop: the collected slice is sorted before any other use
	var sortCall *ssa.Call
	var others []ssa.Instruction
	if refs := acc.Referrers(); refs != nil {
		for _, u := range *refs {
			if lb[u.Block()] {
				continue
			}
			if c, ok := u.(*ssa.Call); ok {
				if _, isSort := isSortCall(c); isSort {
					sortCall = c
					continue
				}
			}
			if _, ok := u.(*ssa.DebugRef); ok {
				continue
			}
			others = append(others, u)
		}
	}
	if sortCall == nil {
		return false, "", "the keys collected from a map are used without being sorted"
	}
	for _, o := range others {
		dom := sortCall.Block().Dominates(o.Block())
		if sortCall.Block() == o.Block() {
			dom = false
			for _, ins := range o.Block().Instrs {
				if ins == ssa.Instruction(sortCall) {
					dom = true
					break
				}
				if ins == o {
					break
				}
			}
		}
		if !dom {
			return false, "", "a use of the collected keys at " + prog.pos(o.Pos()) + " is not preceded by the sort"
		}
	}
	name, _ := isSortCall(sortCall)
	return true, "collected, then sorted (" + name + ") before use", ""
}

func okInfo(ok bool, shape, why string) string {
	if ok {
		return "info: " + shape
	}
	return shape + why
}

func init() {
	register("C14", true, func(r *Run, prog *Program) {
		a := FindAnchors(prog)
		if !a.Require(r, "c14.anchors") {
			return
		}
		checkUnorderedSources(r, prog, a, "c14")
		r.importing = "C06"
		checkMapKeyGuard(r, prog, a, "c06") // ordering the keys by their String() is a total order only for keys that are strings
		r.importing = "C17"
		checkFilter(r, prog, a, "c17") // an element error ends Execute with (nil, err): no partially filled map in visiting order
		// the order of a map's entries can also leak through memory that outlives one step (a pooled buffer, a memo): the
		// evaluation writes only what it allocates
		r.importing = "C13"
		checkEffects(r, prog, a, "c13", true)
		r.importing = "C18"
		checkGetOpts(r, prog, a, "c18") // … and starts from options of its own: defaults that are built, not a shared value with a list inside
		r.importing = ""
		r.Technique = "census of unordered-sequence sources (MapKeys, MapRange, range over map, maps.Keys/Values) in all module functions reachable from the API; per source a shape decision: sorted-before-use by dominance (with a check that sort.Slice's less orders the very slice being sorted), single-exit-class consuming loop with commuting effects (path analysis of in-loop returns), or collect-then-sort"
		r.Explain = "Each place where Go's random map order can enter is one rule instance and must be in a safe shape: the key slice is sorted by a call that dominates every element access, and for sort.Slice the less function captures only the sorted slice and compares the same function of elements i and j with a strict order; or the consuming loop carries no value besides the position, every return inside it is an error return, and its only effects are insertions into a map made in the same function under the entry's own key; or keys are only collected and sorted before any use. The property then follows because no result depends on which entry is visited first. NOT decided: order dependence inside pointerstructure (read, trusted); which of several element errors is reported by Filter over a map (the statement asks for the error-or-not outcome)."
		r.Assume = append(r.Assume, "sort.Slice with a strict total order yields a unique order for distinct keys")
		sort.Strings(r.Assume)
	})
}

// usesCall: the element appended by app is derived from the call src (the MapKeys / MapRange whose entries it collects).
func usesCall(app *ssa.Call, src *ssa.Call) bool {
	elem := singleVariadic(app.Call.Args[1])
	for i := 0; i < 6 && elem != nil; i++ {
		if elem == ssa.Value(src) {
			return true
		}
		switch x := elem.(type) {
		case *ssa.Call:
			if len(x.Call.Args) == 0 {
				return false
			}
			elem = x.Call.Args[0]
		case *ssa.UnOp:
			elem = x.X
		case *ssa.IndexAddr:
			elem = x.X
		default:
			return false
		}
	}
	return false
}
