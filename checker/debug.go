package main

import (
	"fmt"
	"os"
	"strings"

	"golang.org/x/tools/go/ssa"
)

// verifcheck DEBUG quick <func> [inline]: dump the path summaries of a function of package bexpr.
func init() {
	register("DEBUG", true, func(r *Run, prog *Program) {
		name := os.Getenv("VERIF_DEBUG_FN")
		if strings.HasPrefix(name, "INEDGES:") {
			parts := strings.SplitN(strings.TrimPrefix(name, "INEDGES:"), ".", 2)
			fn := prog.Method(prog.BexprSSA, parts[0], parts[1], true)
			if fn == nil {
				fmt.Println("not found")
				return
			}
			n := prog.CG.Nodes[fn]
			fmt.Println("node", n != nil)
			if n != nil {
				for _, e := range n.In {
					fmt.Printf("inedge from %s site=%v\n", e.Caller.Func, e.Site)
				}
			}
			return
		}
		if name == "GLOBALS" {
			gm := prog.Globals()
			for g, v := range gm.st.gcells {
				if strings.HasPrefix(g.Name(), "g") && len(g.Name()) == 1 {
					fmt.Printf("global %s immut=%v shallow=%v\n", g.Name(), gm.immut[g], gm.shallow[g])
					continue
				}
				k := v.Key()
				if len(k) > 300 {
					k = k[:300]
				}
				fmt.Printf("global %s immut=%v = %s\n", g.Name(), gm.immut[g], k)
			}
			for m, e := range gm.st.maps {
				fmt.Printf("map %s: %d entries\n", m.Name(), len(e))
			}
			return
		}
		fn := prog.BexprSSA.Func(name)
		if fn == nil {
			fn = prog.GrammarSSA.Func(name)
		}
		if fn == nil && strings.Contains(name, ".") {
			parts := strings.SplitN(name, ".", 2)
			fn = prog.Method(prog.BexprSSA, parts[0], parts[1], true)
			if fn == nil {
				fn = prog.Method(prog.GrammarSSA, parts[0], parts[1], true)
			}
		}
		if fn == nil {
			fmt.Println("no such function", name)
			return
		}
		ps := NewPathSim(prog)
		if os.Getenv("VERIF_DEBUG_INLINE") != "" {
			ps.Inline = func(c *ssa.Function) bool {
				return prog.InModule(c) && strings.Contains(os.Getenv("VERIF_DEBUG_INLINE"), c.Name())
			}
		}
		for i, sm := range ps.Run(fn) {
			fmt.Printf("--- summary %d: %s\n    trail: %s\n", i, sm.Describe(), strings.Join(sm.St.trail, " "))
			for _, ev := range sm.Events() {
				if ev.Instr != nil {
					var as []string
					for j, a := range ev.Args {
						s := a.Key()
						if ev.Deref[j] != nil {
							s += " -> " + ev.Deref[j].Key()
						}
						as = append(as, s)
					}
					fmt.Printf("    call %s(%s)\n", callName(ev.Instr.Common()), strings.Join(as, " ; "))
				}
			}
		}
		fmt.Println("truncated:", ps.Truncated)
	})
}
