package main

import (
	"encoding/json"
	"fmt"
	"os"
	"path/filepath"
	"sort"
	"strconv"
	"strings"
	"time"
)

// verifHome: where the committed machinery lives (known findings, test data); verifDir: where evidence is written.
func verifHome() string {
	if d := os.Getenv("VERIF_HOME"); d != "" {
		return d
	}
	return "/verif"
}

func verifDir() string {
	if d := os.Getenv("VERIF_DIR"); d != "" {
		return d
	}
	return "/verif"
}

// Obligation is one rule instance examined by a check.
type Obligation struct {
	Rule   string `json:"rule"`
	Key    string `json:"key"` // stable: rule + construct, never a line number
	Pos    string `json:"pos,omitempty"`
	OK     bool   `json:"ok"`
	Detail string `json:"detail,omitempty"`
	Shared string `json:"shared_with,omitempty"` // property whose rule set this obligation is imported from
}

type Violation struct {
	Property string `json:"property"`
	Kind     string `json:"kind"` // rule-violation | unresolved-anchor | undecided | vacuous | load-error | checker-panic
	Rule     string `json:"rule"`
	Key      string `json:"key"`
	Pos      string `json:"pos,omitempty"`
	Detail   string `json:"detail"`
	Replay   string `json:"replay,omitempty"`
}

type KnownFinding struct {
	Property string `json:"property"`
	Rule     string `json:"rule"`
	Key      string `json:"key"`
	What     string `json:"what"`
}

type knownFile struct {
	Known []KnownFinding `json:"known"`
	Fixed []string       `json:"fixed"`
}

// Run collects what one check did.
type Run struct {
	Prop  string
	Tier  string
	Level string
	Start time.Time

	Obls       []Obligation
	Viols      []Violation
	floors     map[string]int
	counts     map[string]int
	Funcs      map[string]bool
	CallSites  int
	Notes      []string
	Assume     []string
	Explain    string
	Technique  string
	Extra      map[string]interface{}
	Configs    []string
	importing  string
	replayKey  string
	knownMatch []string
	dedupe     map[string]bool
}

func NewRun(prop, tier string) *Run {
	return &Run{Prop: prop, Tier: tier, Level: "other", Start: time.Now(), floors: map[string]int{}, counts: map[string]int{},
		Funcs: map[string]bool{}, Extra: map[string]interface{}{}, dedupe: map[string]bool{}}
}

// Floor declares the minimum number of instances of rule that must be found;
// fewer is a vacuous pass and fails the check.
func (r *Run) Floor(rule string, n int) {
	if n > r.floors[rule] {
		r.floors[rule] = n
	}
}

// Check records one obligation.
func (r *Run) Check(rule, key, pos string, ok bool, detail string) bool {
	if r.replayKey != "" && r.replayKey != rule+"|"+key {
		// in replay mode only the named instance is reported
		r.counts[rule]++
		return ok
	}
	r.counts[rule]++
	if ok {
		// the detail texts describe the failure; keep only explicitly informational ones for discharged obligations
		if strings.HasPrefix(detail, "info: ") {
			detail = strings.TrimPrefix(detail, "info: ")
		} else {
			detail = ""
		}
	}
	dk := fmt.Sprintf("%s|%s|%s|%v", rule, key, pos, ok)
	if r.dedupe[dk] {
		return ok
	}
	r.dedupe[dk] = true
	r.Obls = append(r.Obls, Obligation{Rule: rule, Key: key, Pos: pos, OK: ok, Detail: detail, Shared: r.importing})
	if !ok {
		r.Viols = append(r.Viols, Violation{Property: r.Prop, Kind: "rule-violation", Rule: rule, Key: key, Pos: pos, Detail: detail})
	}
	return ok
}

// Fail records a failure of the checker to reach a verdict (unresolved anchor,
// undecided, load error): conservative, counts as a violation.
func (r *Run) Fail(kind, rule, key, pos, detail string) {
	r.Obls = append(r.Obls, Obligation{Rule: rule, Key: key, Pos: pos, OK: false, Detail: kind + ": " + detail, Shared: r.importing})
	r.Viols = append(r.Viols, Violation{Property: r.Prop, Kind: kind, Rule: rule, Key: key, Pos: pos, Detail: detail})
}

func (r *Run) Note(format string, a ...interface{}) {
	s := fmt.Sprintf(format, a...)
	r.Notes = append(r.Notes, s)
	fmt.Println("  note:", s)
}

func (r *Run) Analysed(fn string) { r.Funcs[fn] = true }

func loadKnown() knownFile {
	var k knownFile
	b, err := os.ReadFile(filepath.Join(verifHome(), "known_findings.json"))
	if err != nil {
		return k
	}
	_ = json.Unmarshal(b, &k)
	return k
}

// posLess sorts "file:line" numerically.
func posLess(a, b string) bool {
	fa, la := splitPos(a)
	fb, lb := splitPos(b)
	if fa != fb {
		return fa < fb
	}
	return la < lb
}

func splitPos(p string) (string, int) {
	i := strings.LastIndex(p, ":")
	if i < 0 {
		return p, 0
	}
	n, _ := strconv.Atoi(p[i+1:])
	return p[:i], n
}

// Finish prints the report, writes evidence and violation files, and returns the exit code.
func (r *Run) Finish() int {
	for rule, min := range r.floors {
		if r.counts[rule] < min && r.replayKey == "" {
			r.Viols = append(r.Viols, Violation{Property: r.Prop, Kind: "vacuous", Rule: rule, Key: "instance-floor",
				Detail: fmt.Sprintf("rule %s matched %d instances, fewer than the floor %d confirmed by hand: the rule would pass vacuously", rule, r.counts[rule], min)})
		}
	}
	known := loadKnown()
	var real []Violation
	for _, v := range r.Viols {
		matched := false
		for _, k := range known.Known {
			if k.Property == r.Prop && k.Rule == v.Rule && k.Key == v.Key {
				fmt.Printf("KNOWN-FINDING: property=%s %s\n", r.Prop, k.What)
				r.knownMatch = append(r.knownMatch, k.Rule+"|"+k.Key)
				matched = true
				break
			}
		}
		if !matched {
			real = append(real, v)
		}
	}
	sort.SliceStable(r.Obls, func(i, j int) bool {
		if r.Obls[i].Rule != r.Obls[j].Rule {
			return r.Obls[i].Rule < r.Obls[j].Rule
		}
		return posLess(r.Obls[i].Pos, r.Obls[j].Pos)
	})
	discharged := 0
	for _, o := range r.Obls {
		if o.OK {
			discharged++
		}
	}
	// report
	rules := []string{}
	for k := range r.counts {
		rules = append(rules, k)
	}
	sort.Strings(rules)
	fmt.Printf("== %s (%s): %d obligations, %d discharged, %d rules, %d functions analysed\n", r.Prop, r.Tier, len(r.Obls), discharged, len(rules), len(r.Funcs))
	for _, k := range rules {
		fl := ""
		if f, ok := r.floors[k]; ok {
			fl = fmt.Sprintf(" (floor %d)", f)
		}
		fmt.Printf("  rule %-44s instances=%d%s\n", k, r.counts[k], fl)
	}
	if os.Getenv("VERIF_VERBOSE") != "" {
		for _, o := range r.Obls {
			st := "ok  "
			if !o.OK {
				st = "FAIL"
			}
			fmt.Printf("  %s %-40s %-22s %s %s\n", st, o.Rule, o.Pos, o.Key, o.Detail)
		}
	}
	vdir := filepath.Join(verifDir(), "evidence", "violations")
	if len(real) > 0 {
		os.MkdirAll(vdir, 0o755)
	}
	for i := range real {
		v := &real[i]
		path := filepath.Join(vdir, fmt.Sprintf("%s-%d.json", r.Prop, i+1))
		v.Replay = path
		b, _ := json.MarshalIndent(v, "", " ")
		os.WriteFile(path, b, 0o644)
		fmt.Printf("  FAIL [%s] rule=%s key=%s at %s: %s\n", v.Kind, v.Rule, v.Key, v.Pos, v.Detail)
		fmt.Printf("VIOLATION property=%s replay=%s\n", r.Prop, path)
	}
	if r.replayKey == "" {
		r.writeEvidence(discharged, len(real))
	}
	if len(real) > 0 {
		return 1
	}
	return 0
}

func (r *Run) writeEvidence(discharged, nviol int) {
	samples := []interface{}{}
	// one sample per rule first, then fill up to 60
	seen := map[string]int{}
	for _, o := range r.Obls {
		if seen[o.Rule] < 3 {
			seen[o.Rule]++
			samples = append(samples, o)
		}
	}
	if len(samples) > 80 {
		samples = samples[:80]
	}
	if len(samples) == 0 {
		samples = append(samples, "no obligations were generated")
	}
	funcs := []string{}
	for f := range r.Funcs {
		funcs = append(funcs, f)
	}
	sort.Strings(funcs)
	perRule := map[string]int{}
	for k, v := range r.counts {
		perRule[k] = v
	}
	cov := map[string]interface{}{
		"explanation":            r.Explain,
		"obligations":            len(r.Obls),
		"discharged":             discharged,
		"samples":                samples,
		"rule_instances":         perRule,
		"instance_floors":        r.floors,
		"functions_analysed":     funcs,
		"call_sites":             r.CallSites,
		"configurations":         r.Configs,
		"notes":                  r.Notes,
		"exhaustive":             true,
		"known_findings_matched": r.knownMatch,
		"checker_cmd":            fmt.Sprintf("./check %s %s", r.Prop, r.Tier),
		"trusted_base":           r.Assume,
		"technique":              r.Technique,
	}
	for k, v := range r.Extra {
		cov[k] = v
	}
	seed := 0
	if s := os.Getenv("VERIF_SEED"); s != "" {
		seed, _ = strconv.Atoi(s)
	}
	ev := map[string]interface{}{
		"property_id": r.Prop,
		"tier":        r.Tier,
		"seed":        seed,
		"level":       r.Level,
		"coverage":    cov,
		"assumptions": r.Assume,
		"wall_s":      time.Since(r.Start).Seconds(),
		"violations":  nviol,
	}
	b, _ := json.MarshalIndent(ev, "", " ")
	os.MkdirAll(filepath.Join(verifDir(), "evidence"), 0o755)
	if err := os.WriteFile(filepath.Join(verifDir(), "evidence", r.Prop+".json"), b, 0o644); err != nil {
		fmt.Println("cannot write evidence:", err)
	}
}
