package main

// C07 — the selector actions, decided on the paths of the action functions (not on the spelling of their bodies):
// what is returned, from which parts, in which order, through which calls.

import (
	"fmt"
	"go/constant"
	"go/token"
	"go/types"
	"strings"

	"golang.org/x/tools/go/ssa"

	"verifcheck/peg"
)

// partsOfLabel: s is the list of parts assembled from the label parameters of an action: an optional first element that
// is a label asserted to string, followed by the elements 0..k-1 (in that order, each asserted to string) of ONE label
// asserted to []interface{}. Returns a description of what is wrong, or "".
func partsOfLabel(ps *PathSim, sm *Summary, s *Sym, labels map[string]bool, labelParams []*ssa.Parameter) (why string) {
	base, parts := appendChain(sm.St, s)
	elems := flattenAppended(sm.St, parts, 0)
	var first *Sym
	switch {
	case base == nil:
		return "the parts are not assembled by appending"
	case base.IsNil():
	case base.K == sSlice && base.Str == ":":
		// a slice literal []string{first}: backing array made here
		al, path, ok := localPath(base.A)
		if !ok {
			return "the parts start from " + shortKey(base)
		}
		v, ok := loadLocal(sm.St, al, path, nil)
		if !ok || v.K != sStruct || len(v.F) != 1 {
			return "the parts start from a literal that is not a single first part"
		}
		first = getPath(v, []string{"[const(0)]"})
	case base.K == sFresh:
		// make([]string, 0, n)
		if mk, ok := base.V.(*ssa.MakeSlice); ok {
			if l := ps.sym(sm.St, mk.Len); !(l.K == sConst && l.C != nil && constant.Sign(l.C) == 0) {
				return "the parts start from a slice that is not empty"
			}
		} else {
			return "the parts start from " + shortKey(base)
		}
	default:
		return "the parts start from " + shortKey(base)
	}
	isLabelString := func(x *Sym) (string, bool) {
		if x == nil || x.K != sTAValue || x.A.K != sParam || !types.Identical(x.T, types.Typ[types.String]) {
			return "", false
		}
		return x.A.V.Name(), labels[x.A.V.Name()]
	}
	if first == nil && len(elems) > 0 {
		// the first part appended like the others: append(make([]string, 0, n), first.(string)), then the list
		if _, ok := isLabelString(elems[0]); ok {
			first, elems = elems[0], elems[1:]
		}
	}
	firstName := ""
	if first != nil {
		n, ok := isLabelString(first)
		if !ok {
			return "the first part is not a label's text: " + shortKey(first)
		}
		firstName = n
	}
	list := ""
	defer func() {
		// every label of the action is part of the path: the first part's label and the list's, unless known nil here
		if why != "" {
			return
		}
		for _, p := range labelParams {
			if p.Name() == firstName || p.Referrers() == nil {
				continue
			}
			for _, u := range *p.Referrers() {
				if ta, ok := u.(*ssa.TypeAssert); ok && types.Identical(ta.AssertedType, types.Typ[types.String]) {
					why = "label " + p.Name() + " is read as a string but is not the first part of the path"
				}
			}
		}
	}()
	for i, e := range elems {
		// tav(*(&tav(param(L),[]interface{})[const(i)]), string)
		if e == nil || e.K != sTAValue || !types.Identical(e.T, types.Typ[types.String]) || e.A.K != sLoad || e.A.A.K != sIndexAddr {
			return fmt.Sprintf("part %d is not an element of a label's list taken as it is: %s", i, shortKey(e))
		}
		l, idx := e.A.A.A, e.A.A.B
		if l.K != sTAValue || l.A.K != sParam || !labels[l.A.V.Name()] {
			return fmt.Sprintf("part %d does not come from a label's list", i)
		}
		if list != "" && list != l.A.V.Name() {
			return "parts are taken from more than one list"
		}
		list = l.A.V.Name()
		if b, o := linear(idx); b != "" || o != int64(i) {
			return fmt.Sprintf("part %d of the path is element %s of the list: the parts must be appended in source order", i, shortKey(idx))
		}
	}
	return ""
}

func checkSelectorActionSSA(r *Run, ga *GA, sn *peg.Node, pfx string) {
	prog := ga.prog
	fd := ga.tab.On[strings.TrimPrefix(sn.Run, "call")]
	if fd == nil {
		fd = ga.onOf[sn]
	}
	fn := prog.Method(prog.GrammarSSA, "current", fd.Name.Name, true)
	if fn == nil {
		r.Fail("unresolved-anchor", pfx+".selector-action", fd.Name.Name, prog.pos(fd.Pos()), "SSA of the action not found")
		return
	}
	r.Analysed(fn.String())
	labels := map[string]bool{}
	for _, p := range fn.Params[1:] {
		labels[p.Name()] = true
	}
	constOf := func(name string) constant.Value {
		if c, ok := prog.Grammar.Types.Scope().Lookup(name).(*types.Const); ok {
			return c.Val()
		}
		return nil
	}
	cBexpr, cPtr := constOf("SelectorTypeBexpr"), constOf("SelectorTypeJsonPointer")
	ps := NewPathSim(prog)
	ps.maxVisits = 3
	ps.Inline = func(c *ssa.Function) bool { return prog.actionHelper(c, 0) }
	var probs []string
	add := func(f string, a ...interface{}) { probs = append(probs, fmt.Sprintf(f, a...)) }
	kind := ""
	okPaths, errOnParseErr, parsePaths := 0, false, 0
	for _, sm := range ps.Run(fn) {
		if sm.Ret == nil || len(sm.Results) != 2 {
			add("the action panics or has an unexpected result shape")
			continue
		}
		var parse *Event
		nParse := 0
		for _, ev := range sm.Events() {
			ev := ev
			if ev.Instr != nil && isCallTo(ev.Callee, "github.com/mitchellh/pointerstructure", "Parse") {
				parse = &ev
				nParse++
			}
		}
		ec := errClass(sm, sm.Results[1])
		if ec != "nil" {
			if parse != nil {
				if eq, ok := evalEq(sm.St, &Sym{K: sRes, A: parse.Res, Idx: 1}, nilSym()); ok && !eq && ec == "nonnil" {
					errOnParseErr = true
				}
			}
			continue
		}
		okPaths++
		v := sm.Results[0]
		if v.K == sMkIface {
			v = v.A
		}
		typ, path := getPath(v, []string{"Type"}), getPath(v, []string{"Path"})
		if v.K != sStruct || typ == nil || path == nil {
			add("the action does not return a Selector value whose Type and Path are set here: %s", shortKey(v))
			continue
		}
		tc, _ := constValue(sm.St, typ)
		k := ""
		switch {
		case tc != nil && cBexpr != nil && constant.Compare(tc, token.EQL, cBexpr):
			k = "bexpr"
		case tc != nil && cPtr != nil && constant.Compare(tc, token.EQL, cPtr):
			k = "pointer"
		default:
			add("the Selector's Type is not one of the two selector types: %s", shortKey(typ))
			continue
		}
		if kind != "" && kind != k {
			add("one action returns both selector types")
		}
		kind = k
		if k == "bexpr" {
			if nParse != 0 {
				add("the dotted/bracket selector action must use the parts as they are (no pointerstructure.Parse)")
			}
			if why := partsOfLabel(ps, sm, path, labels, fn.Params[1:]); why != "" {
				add("dotted/bracket selector: %s", why)
			}
			continue
		}
		// JSON pointer: Path is the Parts of the pointer parsed from "/" + segments joined by "/", on a path where Parse succeeded
		if parse == nil || nParse != 1 {
			add("the JSON-Pointer selector can be returned on a path that does not go through pointerstructure.Parse (%d calls): ~1 and ~0 would not denote '/' and '~'", nParse)
			continue
		}
		parsePaths++
		if eq, ok := evalEq(sm.St, &Sym{K: sRes, A: parse.Res, Idx: 1}, nilSym()); !ok || !eq {
			add("the JSON-Pointer selector is returned although pointerstructure.Parse's error is not known to be nil")
		}
		wantParts := loadField(&Sym{K: sRes, A: parse.Res, Idx: 0}, "Parts").Key()
		if path.Key() != wantParts {
			add("the parts unescaped by pointerstructure.Parse do not replace the selector's Path (escapes ~0/~1 stay undecoded): Path is %s", shortKey(path))
		}
		// the argument
		arg := parse.Args[0]
		var joined *Sym
		if f, _ := calleeOfSym(arg); isCallTo(f, "fmt", "Sprintf") {
			as := symArgs(sm.St, arg)
			if len(as) == 2 && as[0].K == sConst && as[0].C != nil && constant.StringVal(as[0].C) == "/%s" {
				for _, ev := range sm.Events() {
					if ev.Res != nil && ev.Res.Key() == arg.Key() && len(ev.Deref) > 1 && ev.Deref[1] != nil && len(ev.Deref[1].F) == 1 {
						if el := getPath(ev.Deref[1], []string{"[const(0)]"}); el != nil && el.K == sMkIface {
							joined = el.A
						}
					}
				}
			}
		} else if arg.K == sBin && arg.Op.String() == "+" && arg.A.K == sConst && arg.A.C != nil && constant.StringVal(arg.A.C) == "/" {
			joined = arg.B
		}
		okJoin := false
		if joined != nil {
			if f, _ := calleeOfSym(joined); isCallTo(f, "strings", "Join") {
				as := symArgs(sm.St, joined)
				if len(as) == 2 && as[1].K == sConst && as[1].C != nil && constant.StringVal(as[1].C) == "/" {
					if why := partsOfLabel(ps, sm, as[0], labels, fn.Params[1:]); why != "" {
						add("JSON-Pointer segments: %s", why)
					} else {
						okJoin = true
					}
				}
			}
		}
		if !okJoin {
			add("pointerstructure.Parse is not given \"/\" + the segments joined by \"/\": %s", shortKey(arg))
		}
	}
	if okPaths == 0 {
		add("no path returns a selector")
	}
	if kind == "pointer" && !errOnParseErr {
		add("an invalid JSON pointer is not reported as an error")
	}
	key := fd.Name.Name
	if kind == "pointer" {
		key += ":json-pointer"
	}
	r.Check(pfx+".selector-action", key, prog.pos(fd.Pos()), len(probs) == 0, strings.Join(uniq(probs), "; "))
}
