package main

// The grammar-level rules read the semantic actions as typed syntax trees. An action may build its node through a small
// helper of package grammar (a node constructor, a negation helper) instead of a composite literal written in place. To
// keep every rule independent of that choice the helper is expanded, on a copy of the action's syntax tree, at each call
// site before the rules look at it:
//
//   - a helper whose body is a single `return <expr>` is substituted as an expression, parameters replaced by the
//     arguments;
//   - a helper with a longer body is expanded where it is the first result of a return statement:
//     `return h(a), nil` becomes `{ p := a; <body of h, each `return x` rewritten to `return x, nil`> }`.
//
// Copies keep the type information of the nodes they were copied from (the maps of types.Info are extended), so the rules
// resolve identifiers, types and constants exactly as in code written in place. Only unexported package-level functions
// of package grammar that are not part of the parser engine (no receiver, not on*/callon*) are expanded.

import (
	"go/ast"
	"go/token"
	"go/types"
	"reflect"
	"strings"

	"golang.org/x/tools/go/packages"
)

type astInliner struct {
	pkg   *packages.Package
	info  *types.Info
	decls map[*types.Func]*ast.FuncDecl
	n     int
	multi bool // helperOf also accepts helpers with several results (only for `return h(args)`)
}

func newASTInliner(pkg *packages.Package) *astInliner {
	in := &astInliner{pkg: pkg, info: pkg.TypesInfo, decls: map[*types.Func]*ast.FuncDecl{}}
	for _, f := range pkg.Syntax {
		for _, d := range f.Decls {
			fd, ok := d.(*ast.FuncDecl)
			if !ok || fd.Body == nil || fd.Name.IsExported() {
				continue
			}
			if fd.Recv != nil {
				// methods of the syntax-tree types only (never the parser engine's)
				rt := types.ExprString(fd.Recv.List[0].Type)
				if strings.Contains(rt, "parser") || strings.Contains(rt, "current") || len(fd.Recv.List[0].Names) != 1 {
					continue
				}
			}
			if strings.HasPrefix(fd.Name.Name, "on") || strings.HasPrefix(fd.Name.Name, "callon") {
				continue
			}
			if obj, ok := in.info.Defs[fd.Name].(*types.Func); ok {
				in.decls[obj] = fd
			}
		}
	}
	return in
}

// helperOf: the declaration of the helper a call expression calls, if it is one.
func (in *astInliner) helperOf(call *ast.CallExpr) *ast.FuncDecl {
	var id *ast.Ident
	switch f := ast.Unparen(call.Fun).(type) {
	case *ast.Ident:
		id = f
	case *ast.SelectorExpr:
		if sel, ok := in.info.Selections[f]; ok && sel.Kind() == types.MethodVal {
			id = f.Sel
		}
	}
	if id == nil {
		return nil
	}
	fn, ok := in.info.Uses[id].(*types.Func)
	if !ok {
		return nil
	}
	fd := in.decls[fn]
	if fd == nil || fd.Type.Results == nil || (fd.Type.Results.NumFields() != 1 && !in.multi) {
		return nil
	}
	sig := fn.Type().(*types.Signature)
	if sig.Variadic() || sig.Params().Len() != len(call.Args) {
		return nil
	}
	// engine helpers (anything mentioning the parser types) are not node constructors
	for i := 0; i < sig.Params().Len(); i++ {
		if strings.Contains(sig.Params().At(i).Type().String(), "parser") || strings.Contains(sig.Params().At(i).Type().String(), "current") {
			return nil
		}
	}
	return fd
}

// callArgs: the argument expressions matching params(fd): the receiver expression first for a method call.
func (in *astInliner) callArgs(fd *ast.FuncDecl, call *ast.CallExpr) []ast.Expr {
	var out []ast.Expr
	if fd.Recv != nil {
		out = append(out, ast.Unparen(call.Fun).(*ast.SelectorExpr).X)
	}
	return append(out, call.Args...)
}

func (in *astInliner) params(fd *ast.FuncDecl) []*ast.Ident {
	var out []*ast.Ident
	if fd.Recv != nil {
		out = append(out, fd.Recv.List[0].Names...)
	}
	for _, f := range fd.Type.Params.List {
		out = append(out, f.Names...)
	}
	return out
}

// clone deep-copies a syntax tree, substituting identifiers that denote the given objects, and extends the type
// information to the copy.
func (in *astInliner) clone(n ast.Node, subst map[types.Object]ast.Expr) ast.Node {
	v := in.cloneValue(reflect.ValueOf(n), subst)
	if !v.IsValid() {
		return nil
	}
	out, _ := v.Interface().(ast.Node)
	return out
}

var (
	objectPtrT = reflect.TypeOf((*ast.Object)(nil))
	scopePtrT  = reflect.TypeOf((*ast.Scope)(nil))
)

func (in *astInliner) cloneValue(v reflect.Value, subst map[types.Object]ast.Expr) reflect.Value {
	if !v.IsValid() {
		return v
	}
	switch v.Kind() {
	case reflect.Interface:
		if v.IsNil() {
			return v
		}
		c := in.cloneValue(v.Elem(), subst)
		out := reflect.New(v.Type()).Elem()
		out.Set(c)
		return out
	case reflect.Ptr:
		if v.IsNil() || v.Type() == objectPtrT || v.Type() == scopePtrT {
			return v
		}
		if v.Elem().Kind() != reflect.Struct {
			return v
		}
		// substitution of a parameter by its argument
		if id, ok := v.Interface().(*ast.Ident); ok && subst != nil {
			if obj := in.info.Uses[id]; obj != nil {
				if arg, ok := subst[obj]; ok {
					return reflect.ValueOf(in.clone(arg, nil))
				}
			}
		}
		nv := reflect.New(v.Elem().Type())
		for i := 0; i < v.Elem().NumField(); i++ {
			f := v.Elem().Field(i)
			if !nv.Elem().Field(i).CanSet() {
				continue
			}
			nv.Elem().Field(i).Set(in.cloneValue(f, subst))
		}
		in.copyInfo(v.Interface(), nv.Interface())
		return nv
	case reflect.Slice:
		if v.IsNil() {
			return v
		}
		ns := reflect.MakeSlice(v.Type(), v.Len(), v.Len())
		for i := 0; i < v.Len(); i++ {
			ns.Index(i).Set(in.cloneValue(v.Index(i), subst))
		}
		return ns
	}
	return v
}

func (in *astInliner) copyInfo(old, nw interface{}) {
	if oe, ok := old.(ast.Expr); ok {
		ne := nw.(ast.Expr)
		if tv, ok := in.info.Types[oe]; ok {
			in.info.Types[ne] = tv
		}
	}
	switch o := old.(type) {
	case *ast.Ident:
		n := nw.(*ast.Ident)
		if obj, ok := in.info.Uses[o]; ok {
			in.info.Uses[n] = obj
		}
		if obj, ok := in.info.Defs[o]; ok {
			in.info.Defs[n] = obj
		}
	case *ast.SelectorExpr:
		if s, ok := in.info.Selections[o]; ok {
			in.info.Selections[nw.(*ast.SelectorExpr)] = s
		}
	case *ast.CompositeLit, *ast.CallExpr:
	}
	if on, ok := old.(ast.Node); ok {
		if s, ok := in.info.Scopes[on]; ok {
			in.info.Scopes[nw.(ast.Node)] = s
		}
		if imp, ok := in.info.Implicits[on]; ok {
			in.info.Implicits[nw.(ast.Node)] = imp
		}
	}
}

// Expand returns a copy of fd in which helper calls are expanded (or fd itself when there is nothing to expand).
func (in *astInliner) Expand(fd *ast.FuncDecl) *ast.FuncDecl {
	if fd == nil || fd.Body == nil {
		return fd
	}
	has := false
	in.multi = true
	ast.Inspect(fd.Body, func(x ast.Node) bool {
		if c, ok := x.(*ast.CallExpr); ok && in.helperOf(c) != nil {
			has = true
		}
		return !has
	})
	in.multi = false
	if !has {
		return fd
	}
	cp := in.clone(fd, nil).(*ast.FuncDecl)
	for round := 0; round < 3; round++ {
		if !in.expandOnce(cp) {
			break
		}
	}
	in.n++
	return cp
}

func (in *astInliner) expandOnce(fd *ast.FuncDecl) bool {
	changed := false
	// statement form first: `return h(args), rest…` with a multi-statement helper
	var visitBlock func(list []ast.Stmt) []ast.Stmt
	visitStmt := func(s ast.Stmt) {}
	visitBlock = func(list []ast.Stmt) []ast.Stmt {
		var out []ast.Stmt
		for _, s := range list {
			// `return h(args)` with a helper that returns several values in one statement: its results, substituted
			if rs, ok := s.(*ast.ReturnStmt); ok && len(rs.Results) == 1 {
				if call, ok := ast.Unparen(rs.Results[0]).(*ast.CallExpr); ok {
					in.multi = true
					h := in.helperOf(call)
					in.multi = false
					if h != nil && h.Type.Results.NumFields() > 1 && len(h.Body.List) == 1 {
						if hr, ok := h.Body.List[0].(*ast.ReturnStmt); ok && len(hr.Results) == h.Type.Results.NumFields() {
							subst := map[types.Object]ast.Expr{}
							args := in.callArgs(h, call)
							for i, p := range in.params(h) {
								if obj := in.info.Defs[p]; obj != nil {
									subst[obj] = args[i]
								}
							}
							var res []ast.Expr
							for _, e := range hr.Results {
								res = append(res, in.clone(e, subst).(ast.Expr))
							}
							rs.Results = res
							changed = true
							out = append(out, rs)
							continue
						}
					}
				}
			}
			// `return h(args)` with a longer helper that returns several values: its body, with its own returns kept
			if rs, ok := s.(*ast.ReturnStmt); ok && len(rs.Results) == 1 {
				if call, ok := ast.Unparen(rs.Results[0]).(*ast.CallExpr); ok {
					in.multi = true
					h := in.helperOf(call)
					in.multi = false
					if h != nil && h.Type.Results.NumFields() > 1 && len(h.Body.List) > 1 {
						out = append(out, in.expandStmt(h, call, nil))
						changed = true
						continue
					}
				}
			}
			if rs, ok := s.(*ast.ReturnStmt); ok && len(rs.Results) >= 1 {
				if call, ok := ast.Unparen(rs.Results[0]).(*ast.CallExpr); ok {
					if h := in.helperOf(call); h != nil && !singleReturn(h) {
						out = append(out, in.expandStmt(h, call, rs.Results[1:]))
						changed = true
						continue
					}
				}
			}
			visitStmt(s)
			out = append(out, s)
		}
		return out
	}
	visitStmt = func(s ast.Stmt) {
		switch x := s.(type) {
		case *ast.BlockStmt:
			x.List = visitBlock(x.List)
		case *ast.IfStmt:
			x.Body.List = visitBlock(x.Body.List)
			if x.Else != nil {
				visitStmt(x.Else)
			}
		case *ast.ForStmt:
			x.Body.List = visitBlock(x.Body.List)
		case *ast.RangeStmt:
			x.Body.List = visitBlock(x.Body.List)
		case *ast.SwitchStmt:
			x.Body.List = visitBlock(x.Body.List)
		case *ast.TypeSwitchStmt:
			x.Body.List = visitBlock(x.Body.List)
		case *ast.CaseClause:
			x.Body = visitBlock(x.Body)
		}
	}
	fd.Body.List = visitBlock(fd.Body.List)
	// expression form
	var rewrite func(v reflect.Value)
	rewrite = func(v reflect.Value) {
		switch v.Kind() {
		case reflect.Interface:
			if v.IsNil() {
				return
			}
			if e, ok := v.Interface().(ast.Expr); ok {
				if call, ok := ast.Unparen(e).(*ast.CallExpr); ok {
					if h := in.helperOf(call); h != nil && singleReturn(h) && v.CanSet() {
						subst := map[types.Object]ast.Expr{}
						args := in.callArgs(h, call)
						for i, p := range in.params(h) {
							if obj := in.info.Defs[p]; obj != nil {
								subst[obj] = args[i]
							}
						}
						body := h.Body.List[0].(*ast.ReturnStmt).Results[0]
						ne := in.clone(body, subst).(ast.Expr)
						par := &ast.ParenExpr{X: ne}
						if tv, ok := in.info.Types[call]; ok {
							in.info.Types[par] = tv
							if _, has := in.info.Types[ne]; !has {
								in.info.Types[ne] = tv
							}
						}
						v.Set(reflect.ValueOf(ast.Expr(par)))
						changed = true
						return
					}
				}
			}
			rewrite(v.Elem())
		case reflect.Ptr:
			if v.IsNil() || v.Type() == objectPtrT || v.Type() == scopePtrT || v.Elem().Kind() != reflect.Struct {
				return
			}
			for i := 0; i < v.Elem().NumField(); i++ {
				rewrite(v.Elem().Field(i))
			}
		case reflect.Slice:
			for i := 0; i < v.Len(); i++ {
				rewrite(v.Index(i))
			}
		}
	}
	rewrite(reflect.ValueOf(fd.Body))
	return changed
}

func singleReturn(h *ast.FuncDecl) bool {
	if len(h.Body.List) != 1 {
		return false
	}
	rs, ok := h.Body.List[0].(*ast.ReturnStmt)
	return ok && len(rs.Results) == 1
}

// expandStmt: { p1 := a1; …; <body with `return x` → `return x, rest…`> }
func (in *astInliner) expandStmt(h *ast.FuncDecl, call *ast.CallExpr, rest []ast.Expr) ast.Stmt {
	blk := &ast.BlockStmt{}
	args := in.callArgs(h, call)
	for i, p := range in.params(h) {
		id := in.clone(p, nil).(*ast.Ident)
		blk.List = append(blk.List, &ast.AssignStmt{Lhs: []ast.Expr{id}, Tok: token.DEFINE, Rhs: []ast.Expr{args[i]}})
	}
	body := in.clone(h.Body, nil).(*ast.BlockStmt)
	ast.Inspect(body, func(x ast.Node) bool {
		if _, isLit := x.(*ast.FuncLit); isLit {
			return false
		}
		if rs, ok := x.(*ast.ReturnStmt); ok && len(rs.Results) == 1 && len(rest) > 0 {
			for _, e := range rest {
				rs.Results = append(rs.Results, in.clone(e, nil).(ast.Expr))
			}
		}
		return true
	})
	blk.List = append(blk.List, body.List...)
	return blk
}
