package main

// Grammar-level rules: C20 (translation validation), C15 (well-formed PEG,
// anchoring, dispatch, action typing), C16 (precedence / grouping / literal
// fidelity facts of the grammar), and the grammar parts of C10.

import (
	"fmt"
	"go/ast"
	"go/token"
	"go/types"
	"golang.org/x/tools/go/ssa"
	"os"
	"sort"
	"strings"

	"verifcheck/peg"
)

func init() {
	register("C20", true, func(r *Run, prog *Program) {
		g := loadGrammars(r, prog)
		if g == nil {
			return
		}
		checkC20(r, prog, g)
		checkTableImmutable(r, prog, "c20")
		// the table is interpreted by the engine that follows it in grammar.go: the invariants of that engine the table's
		// meaning rests on (a reference means the rule of that name, a class means unicode's table of that name, …)
		r.importing = "C15"
		checkEngineInvariants(r, prog, "c15")
		checkPegCombinators(r, prog, "c15")
		checkAnchoring(r, NewGA(prog, g.Tab)) // … starting at the grammar's first rule, whichever way the entry point is chosen
		r.importing = "C10"
		checkRecoverDiscipline(r, prog, "c10")
		if a20 := FindAnchors(prog); len(a20.Missing) == 0 {
			// … and it follows the table as far as the table goes: no budget of the engine's own making cuts a derivation short
			r.importing = "C11"
			checkBudget(r, prog, a20, "c11")
		}
		r.importing = ""
	})
	register("C15", true, func(r *Run, prog *Program) {
		g := loadGrammars(r, prog)
		if g == nil {
			return
		}
		r.importing = "C20"
		checkC20(r, prog, g)
		r.importing = ""
		r.Level = "other"
		r.Extra = map[string]interface{}{}
		ga := NewGA(prog, g.Tab)
		checkWellFormed(r, ga, "c15")
		checkAnchoring(r, ga)
		checkParserOptionCallers(r, prog, "c15")
		checkDispatch(r, prog, ga)
		checkActionTyping(r, ga, "c15")
		checkKeywordBoundary(r, ga, "c15")
		checkEngineInvariants(r, prog, "c15")
		checkPegCombinators(r, prog, "c15")
		checkBinaryActions(r, ga, "c15")
		checkActionsDoNotRewrite(r, prog, "c15")
		checkActionErrors(r, prog, "c15")
		r.importing = "C11"
		checkParseWrappersForward(r, prog, "c11") // ParseReader and ParseFile accept what Parse accepts: they hand on all of the input, the options and the verdict
		checkWrapperResults(r, prog, "c11")
		r.importing = "C01"
		checkBindingModes(r, prog, ga, "c01") // "binding mode and names": each form of `as …` sets exactly the names of its mode
		r.importing = ""
		// (c) the actions build the prescribed nodes: selector path parts, operator constants, literal text
		r.importing = "C07"
		checkSelectorGrammar(r, ga, "c07")
		r.importing = "C04"
		checkOperatorSpellings(r, ga, "c04")
		r.importing = "C16"
		checkLiteralFidelity(r, ga)
		checkDoubleNegation(r, ga)
		checkExposure(r, ga) // "the tree shape": what `not` applies to, and how `and`/`or` group
		r.importing = "C19"
		checkSelectorString(r, prog, "c19") // the text of a bare (selector-shaped) value is the selector's rendering
		if a15 := FindAnchors(prog); len(a15.Missing) == 0 {
			r.importing = "C10"
			checkCreateEvaluator(r, prog, a15, ga, "c10") // CreateEvaluator accepts exactly what the parser accepts: it parses the text it is given, unmodified
			r.importing = "C18"
			checkGetOpts(r, prog, a15, "c18") // … and with no budget unless one is asked for
			r.importing = "C11"
			checkBudget(r, prog, a15, "c11") // … neither in the engine: without the option the parser runs for as long as the derivation takes
		}
		r.importing = "C10"
		checkRecoverDiscipline(r, prog, "c10") // an error recorded during the parse (an action's, an invalid encoding) rejects the input: every return of parse hands out the recorded errors
		r.importing = ""
		r.Technique = "translation validation peg↔table (imported from C20) + PEG well-formedness analyses on the rule table (undefined/duplicate/unreachable rules, left recursion, nullable repetition, label scope), entry anchoring, dispatch exhaustiveness, result-type inference for action type assertions, keyword/identifier boundary via FOLLOW sets"
		r.Explain = "Decides the structural clauses of C15: the table is the grammar (C20's comparison), the table is a well-formed PEG whose recursive-descent interpretation is defined and terminates, both entry alternatives are anchored at end of input and the entry point / invalid-UTF-8 / recover options are never set by module code, every node type of the table is dispatched by parseExpr, every single-value type assertion in an action is satisfied by the inferred dynamic types of the label it reads on error-free runs, and no keyword literal can be directly followed by an identifier character. NOT decided: that pigeon's combinator engine interprets the table as PEG, and accept/reject on concrete strings against an independent recogniser."
		r.Assume = append(r.Assume, "pigeon's generated engine (parseSeqExpr, parseChoiceExpr, matchers) implements ordered-choice PEG semantics", "Engine P's model of pigeon's notation")
	})
	register("C16", true, func(r *Run, prog *Program) {
		g := loadGrammars(r, prog)
		if g == nil {
			return
		}
		ga := NewGA(prog, g.Tab)
		checkExposure(r, ga)
		checkBinaryActions(r, ga, "c15")
		checkDoubleNegation(r, ga)
		checkLiteralFidelity(r, ga)
		checkKeywordBoundary(r, ga, "c16")
		checkWhitespaceRule(r, ga)
		r.importing = "C15"
		checkActionErrors(r, prog, "c15") // what was printed is read back: no action refuses, of its own accord, a construct the grammar produces
		checkAnchoring(r, ga)             // … all of it: every alternative of the entry rule runs to the end of the input
		r.importing = "C11"
		checkParseWrappersForward(r, prog, "c11") // … of any length, through any entry point
		r.importing = ""
		r.importing = "C19"
		checkSelectorString(r, prog, "c19") // a bare value's text is Selector.String(): dotted join of the parts
		r.importing = "C15"
		checkEngineInvariants(r, prog, "c15") // a literal containing U+FFFD is valid; a long chain parses like a short one
		checkPegCombinators(r, prog, "c15")   // precedence and grouping are what the table says only if the engine reads it as PEG
		r.importing = "C07"
		checkSelectorGrammar(r, ga, "c07") // a selector's parts are the text that was written (no numeric or case normalisation)
		r.importing = "C01"
		checkBindingModes(r, prog, ga, "c01") // the tree read back has the names of `as …` where the tree printed had them
		r.importing = "C10"
		checkRecoverDiscipline(r, prog, "c10") // a literal the grammar refuses (a bad escape) is refused, not read back as something else
		if a16 := FindAnchors(prog); len(a16.Missing) == 0 {
			r.importing = "C10"
			checkCreateEvaluator(r, prog, a16, ga, "c10") // what is evaluated is the parse of exactly the text given, every time
			r.importing = "C13"
			checkASTIntegrity(r, prog, a16, "c13") // and the tree evaluated is the tree parsed: literals are not rewritten afterwards
			r.importing = "C18"
			checkGetOpts(r, prog, a16, "c18") // a rendering of any length is read back: no budget unless one is asked for
			r.importing = "C11"
			checkBudget(r, prog, a16, "c11")
			r.importing = "C03"
			checkConnectives(r, prog, a16, "c03") // the grouping that was parsed is the grouping that is evaluated: every node with its own operator
			r.importing = "C02"
			checkEqualityTables(r, prog, a16, "c02") // `X == <quoted s>` is true of X = s: the text compared is the literal's, unmodified
		}
		r.importing = ""
		r.Technique = "grammar analyses on the rule table: operator-exposure stratification, double-negation fold (typed AST of the action), strconv.Unquote of the whole match, choice shadowing by FIRST-set overlap, keyword boundary by FOLLOW sets"
		r.Explain = "Decides the facts the statement asserts about the grammar: which operators each operand position can expose without brackets (not > and > or, right grouping, parentheses and braces reset), the not-action folds a double negation to the inner operand, the string-literal action is strconv.Unquote applied to exactly the matched text spanning both delimiters, no alternative ordered before the string-literal alternative of the value rule can start with a quote character, keywords cannot run into identifiers, and the optional-whitespace rule matches only whitespace. NOT decided: equality of trees after print-then-parse over all trees and renderings (there is no printer in the repository)."
		r.Assume = append(r.Assume, "the table is the grammar (C20)", "pigeon's engine implements PEG semantics (C15, not decided)")
	})
}

// ---------------------------------------------------------------------------

func checkWellFormed(r *Run, ga *GA, pfx string) {
	r.Floor(pfx+".ruleref-defined", 90)
	r.Floor(pfx+".repetition-not-nullable", 8)
	r.Floor(pfx+".rule-reachable", 25)
	// duplicates
	seen := map[string]int{}
	for _, rule := range ga.order {
		seen[rule.Name]++
	}
	for _, rule := range ga.order {
		r.Check(pfx+".rule-unique", "rule:"+rule.Name, ga.prog.pos(ga.tab.RulePos[rule]), seen[rule.Name] == 1,
			fmt.Sprintf("rule %s is defined %d times; buildRulesTable silently keeps the last", rule.Name, seen[rule.Name]))
	}
	reach := ga.reachableRules()
	for _, rule := range ga.order {
		r.Check(pfx+".rule-reachable", "rule:"+rule.Name, ga.prog.pos(ga.tab.RulePos[rule]), reach[rule.Name], "rule "+rule.Name+" is not reachable from the entry rule")
		rule.Walk(func(n *peg.Node, path string) {
			switch n.Kind {
			case peg.RuleRef:
				r.Check(pfx+".ruleref-defined", path, ga.posOf(n), ga.rules[n.Name] != nil, "reference to undefined rule "+n.Name+" (the engine records an error and rejects the input)")
			case peg.Star, peg.Plus:
				r.Check(pfx+".repetition-not-nullable", path, ga.posOf(n), !ga.nullable[n.Kids[0]], "repetition of an expression that can match the empty string never terminates")
			}
		})
	}
	lr := ga.leftRecursive()
	r.Check(pfx+".no-left-recursion", "grammar", "grammar/grammar.go", len(lr) == 0, "left-recursive rules (unbounded recursion without consuming input): "+strings.Join(lr, ", "))
	// label scope: every parameter of an action function is a label in scope
	for n, fd := range ga.onOf {
		if fd == nil {
			r.Fail("unresolved-anchor", pfx+".label-scope", "run:"+n.Run, ga.posOf(n), "no action function for "+n.Run)
			continue
		}
		for _, f := range fd.Type.Params.List {
			for _, nm := range f.Names {
				r.Check(pfx+".label-scope", fd.Name.Name+":"+nm.Name, ga.prog.pos(fd.Pos()), ga.labelNode(n, nm.Name) != nil,
					"action parameter "+nm.Name+" is not a label bound in the action's sequence (it would always be nil)")
			}
		}
	}
}

func isEOFRule(ga *GA, n *peg.Node) bool {
	switch n.Kind {
	case peg.Not:
		return n.Kids[0].Kind == peg.Any
	case peg.RuleRef:
		if rr := ga.rules[n.Name]; rr != nil {
			return isEOFRule(ga, rr.Expr)
		}
	}
	return false
}

func checkAnchoring(r *Run, ga *GA) {
	if len(ga.order) == 0 {
		r.Fail("unresolved-anchor", "c15.entry-anchored", "entry", "", "no rules")
		return
	}
	entry := ga.order[0]
	alts := []*peg.Node{entry.Expr}
	if entry.Expr.Kind == peg.Choice {
		alts = entry.Expr.Kids
	}
	r.Floor("c15.entry-anchored", 1)
	for i, a := range alts {
		x := a
		for x.Kind == peg.Action || x.Kind == peg.Labeled {
			x = x.Kids[0]
		}
		ok := false
		if x.Kind == peg.Seq && len(x.Kids) > 0 {
			ok = isEOFRule(ga, x.Kids[len(x.Kids)-1])
		}
		r.Check("c15.entry-anchored", fmt.Sprintf("%s/alt[%d]", entry.Name, i), ga.posOf(a), ok, "an alternative of the entry rule does not end in the end-of-input predicate: trailing input would be accepted")
	}
	// the engine starts at g.rules[0]: newParser's entrypoint initialiser
	r.Check("c15.entry-is-first-rule", "newParser.entrypoint", "grammar/grammar.go", entrypointIsFirstRule(ga.prog), "newParser does not initialise entrypoint with g.rules[0].name")
	// wherever else the rule table is indexed with a constant (the Entrypoint option's default for the empty name), that
	// constant is 0: "the entry point" is the first rule everywhere
	if ga.prog.SSA != nil && ga.prog.GrammarSSA != nil {
		for _, fn := range ga.prog.ModuleFuncs() {
			if fn.Pkg != ga.prog.GrammarSSA && (fn.Parent() == nil || fn.Parent().Pkg != ga.prog.GrammarSSA) {
				continue
			}
			k := 0
			for _, b := range fn.Blocks {
				for _, ins := range b.Instrs {
					ia, ok := ins.(*ssa.IndexAddr)
					if !ok {
						continue
					}
					c, isC := ia.Index.(*ssa.Const)
					ld, isLd := ia.X.(*ssa.UnOp)
					if !isC || !isLd || c.Value == nil {
						continue
					}
					fa, isFA := ld.X.(*ssa.FieldAddr)
					if !isFA || fieldName(fa.X.Type(), fa.Field) != "rules" {
						continue
					}
					k++
					r.Check("c15.entry-is-first-rule", fmt.Sprintf("%s:rules[const]#%d", fn.Name(), k), ga.prog.pos(ia.Pos()), c.Value.ExactString() == "0",
						fn.Name()+" takes rule number "+c.Value.ExactString()+" of the table by constant: the default entry point is the first rule, g.rules[0]")
					// … and where it stands under a condition (the Entrypoint option: "" means the first rule), the condition is
					// about the name that was asked for, not about what the parser held before
					if cond, why := defaultEntryCondition(fn, ia.Block()); cond {
						r.Check("c15.entry-is-first-rule", fmt.Sprintf("%s:rules[const]#%d:condition", fn.Name(), k), ga.prog.pos(ia.Pos()), why == "",
							fn.Name()+" falls back to the first rule on a condition that is not a test of the name it was given: "+why+" (Entrypoint(\"\") must select the first rule whatever the parser held before)")
					}
				}
			}
		}
	}
}

func entrypointIsFirstRule(prog *Program) bool {
	if entrypointIsFirstRuleSSA(prog) {
		return true
	}
	fd := funcDecl(prog.Grammar, "", "newParser")
	if fd == nil {
		return false
	}
	found := false
	ast.Inspect(fd.Body, func(n ast.Node) bool {
		kv, ok := n.(*ast.KeyValueExpr)
		if !ok {
			return true
		}
		if id, ok := kv.Key.(*ast.Ident); ok && id.Name == "entrypoint" {
			s := strings.Join(strings.Fields(types.ExprString(kv.Value)), "")
			if s == "g.rules[0].name" {
				found = true
			}
		}
		return true
	})
	return found
}

// checkParserOptionCallers: the options that would change the accepted
// language or the panic discipline are never used by module code.
func checkParserOptionCallers(r *Run, prog *Program, pfx string) {
	forbidden := []string{"Entrypoint", "AllowInvalidUTF8", "Recover", "GlobalStore", "Debug", "Memoize", "Statistics", "InitState"}
	scope := prog.Grammar.Types.Scope()
	for _, name := range forbidden {
		obj := scope.Lookup(name)
		if obj == nil {
			continue // option not generated: nothing to call
		}
		var uses []string
		for _, p := range prog.Pkgs {
			for id, o := range p.TypesInfo.Uses {
				if o != obj {
					continue
				}
				// the recursive reference inside the option's own body is not a caller
				if fd := enclosingFunc(p.Syntax, id.Pos()); fd != nil && fd.Name.Name == name && p == prog.Grammar {
					continue
				}
				uses = append(uses, prog.pos(id.Pos()))
			}
		}
		sort.Slice(uses, func(i, j int) bool { return posLess(uses[i], uses[j]) })
		r.Check(pfx+".parser-option-unused", "option:"+name, prog.pos(obj.Pos()), len(uses) == 0, "parser option "+name+" is referenced by module code at "+strings.Join(uses, ", "))
	}
}

func enclosingFunc(files []*ast.File, pos token.Pos) *ast.FuncDecl {
	for _, f := range files {
		if pos < f.Pos() || pos > f.End() {
			continue
		}
		for _, d := range f.Decls {
			if fd, ok := d.(*ast.FuncDecl); ok && pos >= fd.Pos() && pos <= fd.End() {
				return fd
			}
		}
	}
	return nil
}

func checkDispatch(r *Run, prog *Program, ga *GA) {
	fd := funcDecl(prog.Grammar, "parser", "parseExpr")
	if fd == nil {
		r.Fail("unresolved-anchor", "c15.dispatch", "parseExpr", "grammar/grammar.go", "(*parser).parseExpr not found")
		return
	}
	arms := map[string]bool{}
	ast.Inspect(fd.Body, func(n ast.Node) bool {
		ts, ok := n.(*ast.TypeSwitchStmt)
		if !ok {
			return true
		}
		for _, c := range ts.Body.List {
			cc := c.(*ast.CaseClause)
			for _, e := range cc.List {
				t := prog.Grammar.TypesInfo.Types[e].Type
				if p, ok := t.(*types.Pointer); ok {
					if nn, ok := p.Elem().(*types.Named); ok {
						// the arm must not be empty / must call a method
						calls := 0
						for _, s := range cc.Body {
							ast.Inspect(s, func(x ast.Node) bool {
								if _, ok := x.(*ast.CallExpr); ok {
									calls++
								}
								return true
							})
						}
						if calls > 0 {
							arms[nn.Obj().Name()] = true
						}
					}
				}
			}
		}
		return true
	})
	used := map[string]bool{}
	kindToType := map[peg.Kind]string{}
	for tn, k := range tableKinds {
		kindToType[k] = tn
	}
	for _, rule := range ga.order {
		rule.Walk(func(n *peg.Node, _ string) { used[kindToType[n.Kind]] = true })
	}
	r.Floor("c15.dispatch", 10)
	for _, tn := range setKeys(used) {
		okArm := arms[tn]
		if !okArm {
			// not an arm of a type switch: decided on the paths of parseExpr with the node's dynamic type assumed
			okArm = dispatchReaches(prog, tn)
		}
		r.Check("c15.dispatch", "node-type:"+tn, prog.pos(fd.Pos()), okArm, "table nodes of type *"+tn+" have no arm in parseExpr's type switch (a recovered panic would reject valid input)")
	}
	// rules are registered under their name and looked up by the reference's name
	// decided on the SSA of the whole grammar package, wherever the table is built: every store into a map from rule names
	// to rules puts a rule under its own name; the reference parser reads that map under the reference's name
	okBuild, okLookup := false, false
	isRuleMap := func(t types.Type) bool {
		m, ok := t.Underlying().(*types.Map)
		if !ok {
			return false
		}
		pt, ok := m.Elem().Underlying().(*types.Pointer)
		return ok && namedIs(pt.Elem(), grammarPath, "rule") && types.Identical(m.Key().Underlying(), types.Typ[types.String])
	}
	nameOf := func(v ssa.Value) ssa.Value {
		// *(&X.name) → X
		ld, ok := v.(*ssa.UnOp)
		if !ok || ld.Op != token.MUL {
			return nil
		}
		fa, ok := ld.X.(*ssa.FieldAddr)
		if !ok || fieldName(fa.X.Type(), fa.Field) != "name" {
			return nil
		}
		return fa.X
	}
	nUpd, badUpd := 0, 0
	for _, fn := range prog.ModuleFuncs() {
		if fn.Pkg != prog.GrammarSSA {
			continue
		}
		for _, blk := range fn.Blocks {
			for _, ins := range blk.Instrs {
				switch x := ins.(type) {
				case *ssa.MapUpdate:
					if isRuleMap(x.Map.Type()) {
						nUpd++
						if nameOf(x.Key) == nil || nameOf(x.Key) != x.Value {
							badUpd++
						}
					}
				case *ssa.Lookup:
					if isRuleMap(x.X.Type()) && fn.Name() == "parseRuleRefExpr" {
						if base := nameOf(x.Index); base != nil && len(fn.Params) == 2 && base == ssa.Value(fn.Params[1]) {
							okLookup = true
						}
					}
				}
			}
		}
	}
	okBuild = nUpd > 0 && badUpd == 0
	r.Check("c15.rule-table-keyed-by-name", "buildRulesTable", "grammar/grammar.go", okBuild, "buildRulesTable does not register each rule under its own name")
	r.Check("c15.rule-table-keyed-by-name", "parseRuleRefExpr", "grammar/grammar.go", okLookup, "parseRuleRefExpr does not look the rule up by the reference's name")
}

// checkActionTyping: every single-value type assertion on a label (or on an
// element of a label's []any) in an action is satisfied by the inferred types.
func checkActionTyping(r *Run, ga *GA, pfx string) {
	info := ga.prog.Grammar.TypesInfo
	r.Floor(pfx+".action-assertion", 20)
	var nodes []*peg.Node
	for n := range ga.onOf {
		nodes = append(nodes, n)
	}
	sort.Slice(nodes, func(i, j int) bool { return nodes[i].Run < nodes[j].Run })
	for _, n := range nodes {
		fd := ga.onOf[n]
		if fd == nil {
			continue
		}
		params := map[types.Object]string{}
		for _, f := range fd.Type.Params.List {
			for _, nm := range f.Names {
				params[info.Defs[nm]] = nm.Name
			}
		}
		// locals that merely rename a label (the parameter bindings of an expanded helper: `rest := rest`)
		for pass := 0; pass < 3; pass++ {
			ast.Inspect(fd.Body, func(x ast.Node) bool {
				if as, ok := x.(*ast.AssignStmt); ok && as.Tok == token.DEFINE && len(as.Lhs) == len(as.Rhs) {
					for i := range as.Lhs {
						l, okL := as.Lhs[i].(*ast.Ident)
						rr, okR := ast.Unparen(as.Rhs[i]).(*ast.Ident)
						if okL && okR {
							if pn, isLabel := params[info.Uses[rr]]; isLabel && info.Defs[l] != nil {
								params[info.Defs[l]] = pn
							}
						}
					}
				}
				return true
			})
		}
		// range variables over label.([]interface{})
		elemOf := map[types.Object]string{}
		commaOK := map[*ast.TypeAssertExpr]bool{}
		// locals defined once as label.([]interface{}) and never assigned again stand for the label's list
		listOf := map[types.Object]string{}
		reassigned := map[types.Object]bool{}
		ast.Inspect(fd.Body, func(x ast.Node) bool {
			switch s := x.(type) {
			case *ast.AssignStmt:
				for i, l := range s.Lhs {
					id, ok := l.(*ast.Ident)
					if !ok {
						continue
					}
					if s.Tok != token.DEFINE || info.Defs[id] == nil {
						reassigned[info.Uses[id]] = true
						continue
					}
					if len(s.Lhs) == len(s.Rhs) {
						if ta, ok := ast.Unparen(s.Rhs[i]).(*ast.TypeAssertExpr); ok && ta.Type != nil {
							if pid, ok := ast.Unparen(ta.X).(*ast.Ident); ok {
								if pn, ok := params[info.Uses[pid]]; ok {
									listOf[info.Defs[id]] = pn
								}
							}
						}
					}
				}
			case *ast.IncDecStmt:
				if id, ok := s.X.(*ast.Ident); ok {
					reassigned[info.Uses[id]] = true
				}
			case *ast.UnaryExpr:
				if id, ok := ast.Unparen(s.X).(*ast.Ident); ok && s.Op == token.AND {
					reassigned[info.Uses[id]] = true
				}
			}
			return true
		})
		ast.Inspect(fd.Body, func(x ast.Node) bool {
			switch s := x.(type) {
			case *ast.RangeStmt:
				if ta, ok := ast.Unparen(s.X).(*ast.TypeAssertExpr); ok {
					if id, ok := ast.Unparen(ta.X).(*ast.Ident); ok {
						if pn, ok := params[info.Uses[id]]; ok {
							if v, ok := s.Value.(*ast.Ident); ok {
								elemOf[info.Defs[v]] = pn
							}
						}
					}
				}
				if id, ok := ast.Unparen(s.X).(*ast.Ident); ok {
					if pn, ok := listOf[info.Uses[id]]; ok && !reassigned[info.Uses[id]] {
						if v, ok := s.Value.(*ast.Ident); ok {
							elemOf[info.Defs[v]] = pn
						}
					}
				}
			case *ast.AssignStmt:
				if len(s.Lhs) == 2 && len(s.Rhs) == 1 {
					if ta, ok := ast.Unparen(s.Rhs[0]).(*ast.TypeAssertExpr); ok {
						commaOK[ta] = true
					}
				}
			case *ast.ValueSpec:
				if len(s.Names) == 2 && len(s.Values) == 1 {
					if ta, ok := ast.Unparen(s.Values[0]).(*ast.TypeAssertExpr); ok {
						commaOK[ta] = true
					}
				}
			}
			return true
		})
		// locals that are nil by their one definition (`value := nil`, a helper's parameter bound to a nil argument), and
		// the variables an enclosing `if v != nil { … }` has tested
		localNil := map[types.Object]bool{}
		ast.Inspect(fd.Body, func(x ast.Node) bool {
			if as, ok := x.(*ast.AssignStmt); ok && as.Tok == token.DEFINE && len(as.Lhs) == len(as.Rhs) {
				for i, l := range as.Lhs {
					if id, ok := l.(*ast.Ident); ok && info.Defs[id] != nil {
						if rid, ok := ast.Unparen(as.Rhs[i]).(*ast.Ident); ok && rid.Name == "nil" && info.Uses[rid] == types.Universe.Lookup("nil") {
							localNil[info.Defs[id]] = true
						}
					}
				}
			}
			return true
		})
		guarded := map[*ast.TypeAssertExpr]map[types.Object]bool{}
		ast.Inspect(fd.Body, func(x ast.Node) bool {
			is, ok := x.(*ast.IfStmt)
			if !ok {
				return true
			}
			be, ok := ast.Unparen(is.Cond).(*ast.BinaryExpr)
			if !ok || be.Op != token.NEQ {
				return true
			}
			l, rr := ast.Unparen(be.X), ast.Unparen(be.Y)
			if lid, ok := l.(*ast.Ident); ok && lid.Name == "nil" {
				l, rr = rr, l
			}
			vid, ok1 := l.(*ast.Ident)
			nid, ok2 := rr.(*ast.Ident)
			if !ok1 || !ok2 || nid.Name != "nil" || info.Uses[vid] == nil || reassigned[info.Uses[vid]] {
				return true
			}
			ast.Inspect(is.Body, func(y ast.Node) bool {
				if ta, ok := y.(*ast.TypeAssertExpr); ok {
					if guarded[ta] == nil {
						guarded[ta] = map[types.Object]bool{}
					}
					guarded[ta][info.Uses[vid]] = true
				}
				return true
			})
			return true
		})
		idx := 0
		ast.Inspect(fd.Body, func(x ast.Node) bool {
			ta, ok := x.(*ast.TypeAssertExpr)
			if !ok || ta.Type == nil || commaOK[ta] {
				return true
			}
			if id, ok := ast.Unparen(ta.X).(*ast.Ident); ok && info.Uses[id] != nil && localNil[info.Uses[id]] && !reassigned[info.Uses[id]] && guarded[ta][info.Uses[id]] {
				return true // under `if v != nil` with v nil by definition: never executed
			}
			idx++
			key := fmt.Sprintf("%s:assert#%d:%s", fd.Name.Name, idx, types.ExprString(ta))
			target := info.Types[ta.Type].Type
			id, ok := ast.Unparen(ta.X).(*ast.Ident)
			if !ok {
				r.Fail("undecided", pfx+".action-assertion", key, ga.prog.pos(ta.Pos()), "type assertion on an expression that is not a label: cannot infer its dynamic type")
				return true
			}
			var dyn map[string]bool
			if pn, ok := params[info.Uses[id]]; ok {
				dyn = ga.paramTypes(n, pn)
			} else if pn, ok := elemOf[info.Uses[id]]; ok {
				if ln := ga.labelNode(n, pn); ln != nil {
					dyn = ga.elemTypes(ln)
				}
			}
			if dyn == nil {
				r.Fail("undecided", pfx+".action-assertion", key, ga.prog.pos(ta.Pos()), "type assertion on "+id.Name+": not a label nor an element of one")
				return true
			}
			if guarded[ta][info.Uses[id]] && dyn["nil"] {
				// tested against nil just outside
				nd := map[string]bool{}
				for d := range dyn {
					if d != "nil" {
						nd[d] = true
					}
				}
				if len(nd) == 0 {
					return true
				}
				dyn = nd
			}
			var bad []string
			for _, d := range setKeys(dyn) {
				okA, decided := ga.assertable(d, target)
				if !decided {
					bad = append(bad, d+" (undecided)")
				} else if !okA {
					bad = append(bad, d)
				}
			}
			r.Check(pfx+".action-assertion", key, ga.prog.pos(ta.Pos()), len(bad) == 0 && len(dyn) > 0,
				fmt.Sprintf("label %s can hold %v on error-free runs; not assertable to %s: %v (a recovered panic would reject a valid string)", id.Name, setKeys(dyn), ga.typeName(target), bad))
			return true
		})
	}
}

// ---------------------------------------------------------------------------
// C16

type opSite struct {
	action *peg.Node
	fd     *ast.FuncDecl
	typ    string            // BinaryExpression / UnaryExpression
	op     string            // constant name
	fields map[string]string // field -> label
}

// opSites finds actions that build &T{Operator: K, F: label.(Expression), ...}.
func (ga *GA) opSites() []opSite {
	info := ga.prog.Grammar.TypesInfo
	var out []opSite
	for n, fd := range ga.onOf {
		if fd == nil || n.Kind != peg.Action {
			continue
		}
		params := map[types.Object]string{}
		for _, f := range fd.Type.Params.List {
			for _, nm := range f.Names {
				params[info.Defs[nm]] = nm.Name
			}
		}
		// the variable a type switch binds stands for the switch's subject
		tsSubject := map[types.Object]ast.Expr{}
		ast.Inspect(fd.Body, func(x ast.Node) bool {
			ts, ok := x.(*ast.TypeSwitchStmt)
			if !ok {
				return true
			}
			as, ok := ts.Assign.(*ast.AssignStmt)
			if !ok || len(as.Rhs) != 1 {
				return true
			}
			ta, ok := ast.Unparen(as.Rhs[0]).(*ast.TypeAssertExpr)
			if !ok {
				return true
			}
			for _, cc := range ts.Body.List {
				if obj := info.Implicits[cc]; obj != nil {
					tsSubject[obj] = ta.X
				}
			}
			return true
		})
		ast.Inspect(fd.Body, func(x ast.Node) bool {
			cl, ok := x.(*ast.CompositeLit)
			if !ok {
				return true
			}
			tv := info.Types[cl]
			nn, ok := tv.Type.(*types.Named)
			if !ok {
				return true
			}
			site := opSite{action: n, fd: fd, typ: nn.Obj().Name(), fields: map[string]string{}}
			for _, el := range cl.Elts {
				kv, ok := el.(*ast.KeyValueExpr)
				if !ok {
					continue
				}
				fname := kv.Key.(*ast.Ident).Name
				v := ast.Unparen(kv.Value)
				if id, ok := v.(*ast.Ident); ok {
					if c, ok := info.Uses[id].(*types.Const); ok && fname == "Operator" {
						site.op = canonConstName(c)
					}
				}
				// the value, through type assertions and single-assignment locals, down to a label parameter
				for i := 0; i < 4; i++ {
					if ta, ok := v.(*ast.TypeAssertExpr); ok {
						v = ast.Unparen(ta.X)
						continue
					}
					id, ok := v.(*ast.Ident)
					if !ok {
						break
					}
					if pn, ok := params[info.Uses[id]]; ok {
						site.fields[fname] = pn
						break
					}
					if subj, ok := tsSubject[info.Uses[id]]; ok {
						v = ast.Unparen(subj)
						continue
					}
					nv := resolveLocal(info, fd.Body, v)
					if nv == v {
						break
					}
					v = ast.Unparen(nv)
				}
			}
			if site.op != "" && (site.typ == "BinaryExpression" || site.typ == "UnaryExpression") {
				out = append(out, site)
			}
			return true
		})
	}
	sort.Slice(out, func(i, j int) bool { return out[i].fd.Name.Name < out[j].fd.Name.Name })
	return out
}

var closer = map[string]string{"(": ")", "{": "}", "[": "]"}

// exposure computes, per node, the operator constants derivable without
// passing between a matched pair of bracket literals of one sequence.
func (ga *GA) exposure(sites []opSite) (func(n *peg.Node) map[string]bool, map[string]map[string]bool) {
	opOf := map[*peg.Node]string{}
	for _, s := range sites {
		opOf[s.action] = s.op
	}
	rexp := map[string]map[string]bool{}
	for _, r := range ga.order {
		rexp[r.Name] = map[string]bool{}
	}
	var exp func(n *peg.Node) map[string]bool
	exp = func(n *peg.Node) map[string]bool {
		out := map[string]bool{}
		switch n.Kind {
		case peg.Action:
			if op, ok := opOf[n]; ok {
				out[op] = true
			}
			for k := range exp(n.Kids[0]) {
				out[k] = true
			}
		case peg.Seq:
			if ga.neverMatches(n) {
				break
			}
			depth := 0
			var stack []string
			for _, k := range n.Kids {
				x := k
				for x.Kind == peg.Labeled {
					x = x.Kids[0]
				}
				if x.Kind == peg.Lit {
					if c, ok := closer[x.Val]; ok {
						// only counts if the matching closer occurs later in this sequence
						has := false
						seenSelf := false
						for _, k2 := range n.Kids {
							if k2 == k {
								seenSelf = true
								continue
							}
							y := k2
							for y.Kind == peg.Labeled {
								y = y.Kids[0]
							}
							if seenSelf && y.Kind == peg.Lit && y.Val == c {
								has = true
							}
						}
						if has {
							stack = append(stack, c)
							depth++
							continue
						}
					}
					if depth > 0 && x.Val == stack[len(stack)-1] {
						stack = stack[:len(stack)-1]
						depth--
						continue
					}
				}
				if depth == 0 {
					for e := range exp(k) {
						out[e] = true
					}
				}
			}
		case peg.Choice, peg.Labeled, peg.Opt, peg.Star, peg.Plus:
			for _, k := range n.Kids {
				for e := range exp(k) {
					out[e] = true
				}
			}
		case peg.RuleRef:
			for e := range rexp[n.Name] {
				out[e] = true
			}
		}
		return out
	}
	for changed := true; changed; {
		changed = false
		for _, r := range ga.order {
			for e := range exp(r.Expr) {
				if !rexp[r.Name][e] {
					rexp[r.Name][e] = true
					changed = true
				}
			}
		}
	}
	return exp, rexp
}

func checkExposure(r *Run, ga *GA) {
	sites := ga.opSites()
	exp, rexp := ga.exposure(sites)
	r.Floor("c16.exposure", 5)
	find := func(op string) *opSite {
		for i := range sites {
			if sites[i].op == op {
				return &sites[i]
			}
		}
		return nil
	}
	and, or, not := find("BinaryOpAnd"), find("BinaryOpOr"), find("UnaryOpNot")
	for name, s := range map[string]*opSite{"BinaryOpAnd": and, "BinaryOpOr": or, "UnaryOpNot": not} {
		if s == nil {
			r.Fail("unresolved-anchor", "c16.exposure", "site:"+name, "grammar/grammar.go", "no action builds an expression node with Operator: "+name)
		}
	}
	if and == nil || or == nil || not == nil {
		return
	}
	operand := func(s *opSite, field string) (map[string]bool, string) {
		lbl, ok := s.fields[field]
		if !ok {
			return nil, ""
		}
		ln := ga.labelNode(s.action, lbl)
		if ln == nil {
			return nil, ""
		}
		return exp(ln), ga.nodePath(ln)
	}
	type req struct {
		s      *opSite
		field  string
		must   []string
		mustnt []string
		why    string
	}
	reqs := []req{
		{not, "Operand", []string{"UnaryOpNot"}, []string{"BinaryOpAnd", "BinaryOpOr"}, "`not` binds tighter than `and`/`or`; `not not e` is derivable"},
		{and, "Left", []string{"UnaryOpNot"}, []string{"BinaryOpAnd", "BinaryOpOr"}, "left operand of `and` exposes neither `and` (chains group to the right) nor `or`; it does expose `not`"},
		{and, "Right", []string{"BinaryOpAnd", "UnaryOpNot"}, []string{"BinaryOpOr"}, "right operand of `and` continues the chain and never exposes `or`"},
		{or, "Left", []string{"BinaryOpAnd", "UnaryOpNot"}, []string{"BinaryOpOr"}, "left operand of `or` exposes `and` but not `or` (chains group to the right)"},
		{or, "Right", []string{"BinaryOpOr", "BinaryOpAnd", "UnaryOpNot"}, nil, "right operand of `or` continues the chain"},
	}
	for _, q := range reqs {
		e, path := operand(q.s, q.field)
		key := q.s.op + "." + q.field
		if e == nil {
			r.Fail("unresolved-anchor", "c16.exposure", key, ga.prog.pos(q.s.fd.Pos()), "field "+q.field+" of the node built for "+q.s.op+" is not filled from a label")
			continue
		}
		var bad []string
		for _, m := range q.must {
			if !e[m] {
				bad = append(bad, "does not expose "+m)
			}
		}
		for _, m := range q.mustnt {
			if e[m] {
				bad = append(bad, "exposes "+m)
			}
		}
		r.Check("c16.exposure", key, ga.prog.pos(q.s.fd.Pos()), len(bad) == 0,
			fmt.Sprintf("%s: operand %s (%s) exposes %v: %s", q.why, q.field, path, setKeys(e), strings.Join(bad, ", ")))
	}
	// Left/Right wiring follows source order: the Left label precedes the operator literal, the Right label follows it
	for _, s := range []*opSite{and, or} {
		seq := s.action.Kids[0]
		li, ri, oi := -1, -1, -1
		kw := map[string]string{"BinaryOpAnd": "and", "BinaryOpOr": "or"}[s.op]
		if seq.Kind == peg.Seq {
			for i, k := range seq.Kids {
				if k.Kind == peg.Labeled && k.Label == s.fields["Left"] {
					li = i
				}
				if k.Kind == peg.Labeled && k.Label == s.fields["Right"] {
					ri = i
				}
				if k.Kind == peg.Lit && k.Val == kw {
					oi = i
				}
			}
		}
		r.Check("c16.operand-order", s.op, ga.prog.pos(s.fd.Pos()), li >= 0 && oi > li && ri > oi,
			fmt.Sprintf("Left must be the operand before the %q keyword and Right the one after it (positions left=%d keyword=%d right=%d)", kw, li, oi, ri))
	}
	// parentheses override everything: some bracketed reference exposes `or`
	found := false
	var where string
	for _, rule := range ga.order {
		rule.Walk(func(n *peg.Node, path string) {
			if n.Kind != peg.Seq {
				return
			}
			open := -1
			for i, k := range n.Kids {
				if k.Kind == peg.Lit && k.Val == "(" {
					open = i
				}
				if k.Kind == peg.Lit && k.Val == ")" && open >= 0 {
					for _, inner := range n.Kids[open+1 : i] {
						if exp(inner)["BinaryOpOr"] && exp(inner)["BinaryOpAnd"] && exp(inner)["UnaryOpNot"] {
							// and this sequence must itself be reachable as a not-operand
							found = true
							where = path
						}
					}
				}
			}
		})
	}
	r.Check("c16.parentheses-reset", "grouping", "grammar/grammar.go", found, "no parenthesised production whose inside exposes or/and/not: parentheses could not override precedence ("+where+")")
	// and the parenthesised production is exposed to the operand of not (so (a or b) can be negated / and-ed)
	if lbl, ok := not.fields["Operand"]; ok {
		ln := ga.labelNode(not.action, lbl)
		okP := false
		if ln != nil {
			okP = ga.reachesParen(ln, map[string]bool{})
		}
		r.Check("c16.parentheses-reset", "grouping-under-not", ga.prog.pos(not.fd.Pos()), okP, "the operand of `not` cannot derive a parenthesised expression")
	}
	_ = rexp
}

// reachesParen: can n derive (at its left edge) a sequence starting with "("
// that contains a matching ")"?
func (ga *GA) reachesParen(n *peg.Node, seen map[string]bool) bool {
	switch n.Kind {
	case peg.Seq:
		if len(n.Kids) > 0 && n.Kids[0].Kind == peg.Lit && n.Kids[0].Val == "(" {
			for _, k := range n.Kids[1:] {
				if k.Kind == peg.Lit && k.Val == ")" {
					return true
				}
			}
		}
		if len(n.Kids) > 0 {
			return ga.reachesParen(n.Kids[0], seen)
		}
	case peg.Choice:
		for _, k := range n.Kids {
			if ga.reachesParen(k, seen) {
				return true
			}
		}
	case peg.Labeled, peg.Action, peg.Opt, peg.Plus, peg.Star:
		return ga.reachesParen(n.Kids[0], seen)
	case peg.RuleRef:
		if seen[n.Name] {
			return false
		}
		seen[n.Name] = true
		if rr := ga.rules[n.Name]; rr != nil {
			return ga.reachesParen(rr.Expr, seen)
		}
	}
	return false
}

func checkDoubleNegation(r *Run, ga *GA) {
	prog := ga.prog
	var not *opSite
	for _, s := range ga.opSites() {
		if s.op == "UnaryOpNot" {
			s := s
			not = &s
		}
	}
	if not == nil {
		r.Fail("unresolved-anchor", "c16.double-negation", "not-action", "grammar/grammar.go", "no action builds UnaryOpNot")
		return
	}
	if prog.SSA == nil {
		r.Fail("undecided", "c16.double-negation", "not-action", "grammar/grammar.go", "SSA not loaded")
		return
	}
	fn := prog.Method(prog.GrammarSSA, "current", not.fd.Name.Name, true)
	nt := prog.grammarType(not.typ)
	if fn == nil || nt == nil {
		r.Fail("unresolved-anchor", "c16.double-negation", "not-action", prog.pos(not.fd.Pos()), "SSA of the action not found")
		return
	}
	// the parameter bound to the operand label
	var pOperand *Sym
	for _, p := range fn.Params {
		if p.Name() == not.fields["Operand"] {
			pOperand = paramSym(p)
		}
	}
	if pOperand == nil {
		r.Fail("unresolved-anchor", "c16.double-negation", "not-action", prog.pos(not.fd.Pos()), "operand parameter not found")
		return
	}
	ptrT := types.NewPointer(nt)
	c, _ := prog.Grammar.Types.Scope().Lookup("UnaryOpNot").(*types.Const)
	// case 1: the operand is itself a `not` node: the action must return that node's operand
	ps := NewPathSim(prog)
	ps.Inline = func(c *ssa.Function) bool { return prog.actionHelper(c, 0) }
	ps.IfaceAssertIdentity = true
	ps.Seed = func(st *pstate) {
		st.dyn[pOperand.Key()] = ptrT
		if c != nil {
			st.eqc[opSym(pOperand, ptrT, "Operator").Key()] = constKey(c)
		}
	}
	okFold, n := true, 0
	want := (&Sym{K: sMkIface, A: opSym(pOperand, ptrT, "Operand")}).Key()
	want2 := opSym(pOperand, ptrT, "Operand").Key()
	for _, sm := range ps.Run(fn) {
		if sm.Ret == nil || len(sm.Results) != 2 {
			okFold = false
			continue
		}
		n++
		k := sm.Results[0].Key()
		if !(k == want || k == want2) || !sm.Results[1].IsNil() {
			okFold = false
		}
	}
	r.Check("c16.double-negation", "not-action-folds", prog.pos(not.fd.Pos()), okFold && n > 0, "when the operand of `not` is itself a `not` node the action must return that node's operand (`not not e` is `e`)")
	// case 2: any other operand: a new `not` node around it
	for _, other := range ga.implementers(prog.grammarType("Expression").Underlying().(*types.Interface)) {
		if other == "*"+not.typ {
			continue
		}
		ot := prog.grammarType(strings.TrimPrefix(other, "*"))
		if ot == nil {
			continue
		}
		var dyn types.Type = ot
		if strings.HasPrefix(other, "*") {
			dyn = types.NewPointer(ot)
		}
		ps2 := NewPathSim(prog)
		ps2.Inline = func(c *ssa.Function) bool { return prog.actionHelper(c, 0) }
		ps2.IfaceAssertIdentity = true
		ps2.Seed = func(st *pstate) { st.dyn[pOperand.Key()] = dyn }
		okWrap, m := true, 0
		for _, sm := range ps2.Run(fn) {
			if sm.Ret == nil || len(sm.Results) != 2 {
				okWrap = false
				continue
			}
			m++
			res := sm.Results[0]
			if res.K == sMkIface {
				res = res.A
			}
			if res.K != sFresh || !sm.Results[1].IsNil() {
				okWrap = false
			}
		}
		r.Check("c16.double-negation", "wraps:"+other, prog.pos(not.fd.Pos()), okWrap && m > 0, "an operand of type "+other+" must be wrapped in a new `not` node")
	}
}

// resolveLocal follows single-assignment local identifiers.
func resolveLocal(info *types.Info, body *ast.BlockStmt, e ast.Expr) ast.Expr {
	for i := 0; i < 4; i++ {
		id, ok := ast.Unparen(e).(*ast.Ident)
		if !ok {
			return ast.Unparen(e)
		}
		obj := info.Uses[id]
		if obj == nil {
			return e
		}
		var def ast.Expr
		n := 0
		ast.Inspect(body, func(x ast.Node) bool {
			if as, ok := x.(*ast.AssignStmt); ok {
				for j, l := range as.Lhs {
					if lid, ok := l.(*ast.Ident); ok && (info.Defs[lid] == obj || info.Uses[lid] == obj) {
						n++
						if len(as.Lhs) == len(as.Rhs) {
							def = as.Rhs[j]
						}
					}
				}
			}
			return true
		})
		if n != 1 || def == nil {
			return e
		}
		e = def
	}
	return ast.Unparen(e)
}

// isMatchedText: string(c.text) where c is the receiver.
func isMatchedText(info *types.Info, fd *ast.FuncDecl, e ast.Expr) bool {
	call, ok := ast.Unparen(e).(*ast.CallExpr)
	if !ok || len(call.Args) != 1 {
		return false
	}
	tv, ok := info.Types[call.Fun]
	if !ok || !tv.IsType() {
		return false
	}
	if b, ok := tv.Type.Underlying().(*types.Basic); !ok || b.Kind() != types.String {
		return false
	}
	sel, ok := ast.Unparen(call.Args[0]).(*ast.SelectorExpr)
	if !ok || sel.Sel.Name != "text" {
		return false
	}
	id, ok := sel.X.(*ast.Ident)
	if !ok || fd.Recv == nil || len(fd.Recv.List[0].Names) == 0 {
		return false
	}
	return info.Uses[id] == info.Defs[fd.Recv.List[0].Names[0]]
}

func calleeIs(info *types.Info, call *ast.CallExpr, pkg, name string) bool {
	var obj types.Object
	switch f := ast.Unparen(call.Fun).(type) {
	case *ast.SelectorExpr:
		obj = info.Uses[f.Sel]
	case *ast.Ident:
		obj = info.Uses[f]
	}
	fn, ok := obj.(*types.Func)
	return ok && fn.Pkg() != nil && fn.Pkg().Path() == pkg && fn.Name() == name
}

// valueSites: actions building &MatchValue{Raw: X}
type valueSite struct {
	action *peg.Node
	fd     *ast.FuncDecl
	raw    ast.Expr
}

func (ga *GA) valueSites() []valueSite {
	info := ga.prog.Grammar.TypesInfo
	var out []valueSite
	for n, fd := range ga.onOf {
		if fd == nil || n.Kind != peg.Action {
			continue
		}
		ast.Inspect(fd.Body, func(x ast.Node) bool {
			cl, ok := x.(*ast.CompositeLit)
			if !ok {
				return true
			}
			nn, ok := info.Types[cl].Type.(*types.Named)
			if !ok || nn.Obj().Name() != "MatchValue" {
				return true
			}
			for _, el := range cl.Elts {
				if kv, ok := el.(*ast.KeyValueExpr); ok && kv.Key.(*ast.Ident).Name == "Raw" {
					out = append(out, valueSite{n, fd, kv.Value})
				}
			}
			return true
		})
	}
	sort.Slice(out, func(i, j int) bool { return out[i].fd.Name.Name < out[j].fd.Name.Name })
	return out
}

func checkLiteralFidelity(r *Run, ga *GA) {
	info := ga.prog.Grammar.TypesInfo
	// (i) string-literal rules: rules with an action returning strconv.Unquote(...)
	type unq struct {
		rule   *peg.Rule
		action *peg.Node
		fd     *ast.FuncDecl
	}
	var unqs []unq
	for n, fd := range ga.onOf {
		if fd == nil || n.Kind != peg.Action {
			continue
		}
		has := false
		ast.Inspect(fd.Body, func(x ast.Node) bool {
			if call, ok := x.(*ast.CallExpr); ok && calleeIs(info, call, "strconv", "Unquote") {
				has = true
			}
			return true
		})
		if has {
			unqs = append(unqs, unq{ga.ruleOf[n], n, fd})
		}
	}
	r.Floor("c16.string-literal-unquote", 1)
	strRules := map[string]bool{}
	for _, u := range unqs {
		strRules[u.rule.Name] = true
		// every error-free return is `return strconv.Unquote(string(c.text))`
		okAll, nret := true, 0
		why := ""
		ast.Inspect(u.fd.Body, func(x ast.Node) bool {
			rs, ok := x.(*ast.ReturnStmt)
			if !ok {
				return true
			}
			nret++
			if len(rs.Results) != 1 {
				okAll = false
				why = "a return of the string-literal action is not a direct return of strconv.Unquote"
				return true
			}
			call, ok := ast.Unparen(rs.Results[0]).(*ast.CallExpr)
			if !ok || !calleeIs(info, call, "strconv", "Unquote") || len(call.Args) != 1 {
				okAll = false
				why = "a return of the string-literal action is not strconv.Unquote(...)"
				return true
			}
			arg := resolveLocal(info, u.fd.Body, call.Args[0])
			if !isMatchedText(info, u.fd, arg) {
				okAll = false
				why = "strconv.Unquote is not applied to exactly the matched text string(c.text) but to " + types.ExprString(call.Args[0])
			}
			return true
		})
		if !(okAll && nret > 0) && ga.prog.SSA != nil {
			// not written as one return statement: decided on the paths of the compiled action (the pair Unquote returned,
			// handed on through locals)
			if okP, whyP := stringLiteralActionOnPaths(ga.prog, u.fd.Name.Name); okP {
				okAll, nret = true, 1
			} else if whyP != "" {
				why = why + "; on paths: " + whyP
			}
		}
		r.Check("c16.string-literal-unquote", "action:"+u.fd.Name.Name, ga.prog.pos(u.fd.Pos()), okAll && nret > 0, why)
		// the action spans both delimiters: its expression is a choice/sequence that starts and ends with the same quote literal
		spans := true
		var alts []*peg.Node
		x := u.action.Kids[0]
		if x.Kind == peg.Choice {
			alts = x.Kids
		} else {
			alts = []*peg.Node{x}
		}
		for _, a := range alts {
			if a.Kind != peg.Seq || len(a.Kids) < 2 {
				spans = false
				continue
			}
			f, l := a.Kids[0], a.Kids[len(a.Kids)-1]
			if f.Kind != peg.Lit || l.Kind != peg.Lit || f.Val != l.Val || (f.Val != "\"" && f.Val != "`") {
				spans = false
			}
			// the characters in between exclude exactly the delimiter
			for _, mid := range a.Kids[1 : len(a.Kids)-1] {
				inner := mid
				if inner.Kind != peg.Star {
					spans = false // "every string s", the empty one included: zero or more characters between the quotes
				}
				for inner.Kind == peg.Star || inner.Kind == peg.Plus {
					inner = inner.Kids[0]
				}
				cs := ga.charsOf(inner, map[string]bool{})
				want := rsOf([]rune(f.Val)[0]).Complement()
				if cs.String() != want.String() || !ga.singleRune(inner, map[string]bool{}) {
					spans = false
				}
			}
		}
		r.Check("c16.string-literal-span", "action:"+u.fd.Name.Name, ga.posOf(u.action), spans, "the string-literal action does not span a quote, zero or more characters other than that quote, and the same closing quote")
	}
	// (ii) value rule: Raw of the string alternative is the unquoted string itself; nothing ordered before it can start with a quote
	sites := ga.valueSites()
	r.Floor("c16.value-raw", 2)
	var strAlt *peg.Node
	for _, s := range sites {
		raw := ast.Unparen(s.raw)
		desc := types.ExprString(raw)
		ok := false
		why := ""
		var lbl string
		if ta, isTA := raw.(*ast.TypeAssertExpr); isTA {
			if id, isID := ast.Unparen(ta.X).(*ast.Ident); isID {
				lbl = id.Name
			}
		}
		if lbl != "" {
			ln := ga.labelNode(s.action, lbl)
			if ln != nil {
				ts := setKeys(ga.types[ln])
				ok = len(ts) == 1 && ts[0] == "string"
				why = fmt.Sprintf("Raw is label %s whose value has dynamic types %v", lbl, ts)
				x := ln.Kids[0]
				if x.Kind == peg.RuleRef && !strRules[x.Name] && ga.prog.SSA != nil {
					// a literal that is not a quoted string (a number) is its own text: the rule's actions hand out the
					// matched bytes as they stand
					checkMatchedTextActions(r, ga.prog, x.Name)
				}
				if x.Kind == peg.RuleRef && strRules[x.Name] {
					strAlt = s.action
				}
			}
		} else {
			// e.g. selector.(Selector).String(): accepted when it is a call on a label (bare identifiers as values)
			if call, isCall := raw.(*ast.CallExpr); isCall {
				if sel, isSel := call.Fun.(*ast.SelectorExpr); isSel && sel.Sel.Name == "String" {
					ok = true
					why = "Raw is rendered from a selector value"
				}
			}
		}
		r.Check("c16.value-raw", "action:"+s.fd.Name.Name, ga.prog.pos(s.fd.Pos()), ok, "Raw: "+desc+": "+why)
	}
	if strAlt == nil {
		r.Fail("unresolved-anchor", "c16.value-shadowing", "string-alternative", "grammar/grammar.go", "no value alternative takes its Raw from a string-literal rule")
		return
	}
	parent, idx := ga.position(strAlt)
	if parent == nil || parent.Kind != peg.Choice {
		r.Check("c16.value-shadowing", "value-choice", ga.posOf(strAlt), true, "the string literal is the only value alternative")
		return
	}
	strFirst := ga.first[strAlt]
	for i := 0; i < idx; i++ {
		alt := parent.Kids[i]
		ov := ga.first[alt].Intersect(strFirst)
		r.Check("c16.value-shadowing", fmt.Sprintf("%s/alt[%d]-before-string-literal", ga.ruleOf[strAlt].Name, i), ga.posOf(alt), ov.Empty(),
			fmt.Sprintf("alternative %d of the value rule is tried before the string literal and can also start with %s: a quoted literal (e.g. \"/a\") is taken by it and denotes something other than the Go string it spells", i, ov))
	}
	r.Check("c16.value-shadowing", ga.ruleOf[strAlt].Name+"/string-literal-position", ga.posOf(strAlt), true, fmt.Sprintf("string-literal alternative is alternative %d", idx))
}

// charsOf: for a node that consumes exactly one rune (class, any, or the
// `!x .` idiom, through rule references), the set of runes it accepts.
func (ga *GA) charsOf(n *peg.Node, seen map[string]bool) RuneSet {
	switch n.Kind {
	case peg.Class:
		return ga.classSet(n)
	case peg.Any:
		return rsAll()
	case peg.Lit:
		rs := []rune(n.Val)
		if len(rs) == 1 {
			return rsOf(rs[0])
		}
	case peg.RuleRef:
		if seen[n.Name] {
			return RuneSet{}
		}
		seen[n.Name] = true
		if rr := ga.rules[n.Name]; rr != nil {
			return ga.charsOf(rr.Expr, seen)
		}
	case peg.Labeled, peg.Action:
		return ga.charsOf(n.Kids[0], seen)
	case peg.Choice:
		var s RuneSet
		for _, k := range n.Kids {
			s = s.Union(ga.charsOf(k, seen))
		}
		return s
	case peg.Seq:
		// !x y  : y minus x
		if len(n.Kids) == 2 && n.Kids[0].Kind == peg.Not {
			return ga.charsOf(n.Kids[1], seen).Minus(ga.charsOf(n.Kids[0].Kids[0], seen))
		}
	}
	return RuneSet{}
}

// singleRune: the node always consumes exactly one rune when it matches.
func (ga *GA) singleRune(n *peg.Node, seen map[string]bool) bool {
	switch n.Kind {
	case peg.Class, peg.Any:
		return true
	case peg.Lit:
		return len([]rune(n.Val)) == 1
	case peg.RuleRef:
		if seen[n.Name] {
			return false
		}
		seen[n.Name] = true
		if rr := ga.rules[n.Name]; rr != nil {
			return ga.singleRune(rr.Expr, seen)
		}
	case peg.Labeled, peg.Action:
		return ga.singleRune(n.Kids[0], seen)
	case peg.Choice:
		for _, k := range n.Kids {
			if !ga.singleRune(k, seen) {
				return false
			}
		}
		return true
	case peg.Seq:
		cnt := 0
		for _, k := range n.Kids {
			if k.Kind == peg.Not || k.Kind == peg.And {
				continue
			}
			if !ga.singleRune(k, seen) {
				return false
			}
			cnt++
		}
		return cnt == 1
	}
	return false
}

// checkKeywordBoundary: a keyword literal (all letters) can never be directly
// followed by an identifier character, otherwise identifiers that begin with a
// keyword (notes, android, order) would be split.
func checkKeywordBoundary(r *Run, ga *GA, pfx string) {
	identChars := rsRange('a', 'z').Union(rsRange('A', 'Z')).Union(rsRange('0', '9')).Union(rsOf('_'))
	follow := ga.nodeFollow()
	r.Floor(pfx+".keyword-boundary", 10)
	for _, rule := range ga.order {
		rule.Walk(func(n *peg.Node, path string) {
			if n.Kind != peg.Lit || len(n.Val) < 2 {
				return
			}
			for _, c := range n.Val {
				if !(c >= 'a' && c <= 'z' || c >= 'A' && c <= 'Z') {
					return
				}
			}
			f := follow[n]
			ov := f.Intersect(identChars)
			r.Check(pfx+".keyword-boundary", path+":"+n.Val, ga.posOf(n), ov.Empty(),
				fmt.Sprintf("keyword %q can be directly followed by identifier characters %s: an identifier beginning with %q would be read as the keyword plus a shorter identifier", n.Val, ov, n.Val))
		})
	}
}

// nodeFollow: for each node, the runes (or EOF) that can come right after it.
func (ga *GA) nodeFollow() map[*peg.Node]RuneSet {
	out := map[*peg.Node]RuneSet{}
	var walk func(n *peg.Node, fol RuneSet)
	walk = func(n *peg.Node, fol RuneSet) {
		out[n] = out[n].Union(fol)
		switch n.Kind {
		case peg.Choice:
			for _, k := range n.Kids {
				walk(k, fol)
			}
		case peg.Seq:
			for i, k := range n.Kids {
				tail, nul := ga.firstOfTail(n.Kids[i+1:])
				f := tail
				if nul {
					f = f.Union(fol)
				}
				walk(k, f)
			}
		case peg.Labeled, peg.Action, peg.Opt:
			walk(n.Kids[0], fol)
		case peg.Star, peg.Plus:
			walk(n.Kids[0], fol.Union(ga.first[n.Kids[0]]))
		case peg.And, peg.Not:
			walk(n.Kids[0], rsAll().Union(rsEOF()))
		}
	}
	for _, rule := range ga.order {
		walk(rule.Expr, ga.follow[rule.Name])
	}
	return out
}

// checkWhitespaceRule: the rule used as optional layout between tokens matches
// only whitespace characters (so layout cannot swallow token text).
func checkWhitespaceRule(r *Run, ga *GA) {
	// the layout rule: the rule most often referenced under `?`
	cnt := map[string]int{}
	for _, rule := range ga.order {
		rule.Walk(func(n *peg.Node, _ string) {
			if n.Kind == peg.Opt && n.Kids[0].Kind == peg.RuleRef {
				cnt[n.Kids[0].Name]++
			}
		})
	}
	best, bn := "", 0
	for k, v := range cnt {
		if v > bn || v == bn && k < best {
			best, bn = k, v
		}
	}
	if best == "" {
		r.Fail("unresolved-anchor", "c16.layout-rule", "layout", "grammar/grammar.go", "no optional layout rule found")
		return
	}
	rule := ga.rules[best]
	x := rule.Expr
	ok := false
	var cs RuneSet
	if x.Kind == peg.Plus || x.Kind == peg.Star {
		cs = ga.charsOf(x.Kids[0], map[string]bool{})
		ws := rsOf(' ', '\t', '\r', '\n', '\f', '\v')
		ok = !cs.Empty() && cs.Minus(ws).Empty() && cs.Has(' ')
	}
	r.Check("c16.layout-rule", "rule:"+best, ga.prog.pos(ga.tab.RulePos[rule]), ok, fmt.Sprintf("the layout rule %s (used optionally %d times) matches %s, expected a repetition of whitespace characters only", best, bn, cs))
	checkBracketLayout(r, ga, best)
	checkPunctuationLayout(r, ga, best)
	// every other place that tests for "whitespace" uses the same set (a terminator that forgets a whitespace
	// character would make one layout of the same expression parse differently)
	for _, rl := range ga.order {
		rl.Walk(func(n *peg.Node, path string) {
			if n.Kind != peg.Class || n.Inverted {
				return
			}
			set := ga.classSet(n)
			if set.Has(' ') && set.Has('\t') {
				ws := set.Intersect(rsOf(' ', '\t', '\r', '\n', '\f', '\v'))
				r.Check("c16.layout-rule", "whitespace-class:"+path, ga.posOf(n), ws.String() == cs.String(),
					fmt.Sprintf("this character class tests for whitespace %s, the layout rule accepts %s: the two must agree", ws, cs))
			}
		})
	}
}

// checkBracketLayout: wherever a sequence opens a bracket and closes it again, layout is optional on the inside of both:
// `( e )`, `{ e }`, `[ "k" ]` read like `(e)`, `{e}`, `["k"]`.
func checkBracketLayout(r *Run, ga *GA, layout string) {
	closer := map[string]string{"(": ")", "{": "}", "[": "]"}
	isOptLayout := func(n *peg.Node) bool {
		if n == nil {
			return false
		}
		is, opt := ga.layoutKind(n, layout, map[string]bool{})
		return is && opt
	}
	n := 0
	for _, rl := range ga.order {
		rl.Walk(func(sq *peg.Node, path string) {
			if sq.Kind != peg.Seq {
				return
			}
			for i, k := range sq.Kids {
				x := k
				if x.Kind == peg.Labeled && len(x.Kids) == 1 {
					x = x.Kids[0]
				}
				if x.Kind != peg.Lit || closer[x.Val] == "" {
					continue
				}
				for j := len(sq.Kids) - 1; j > i; j-- {
					y := sq.Kids[j]
					if y.Kind != peg.Lit || y.Val != closer[x.Val] {
						continue
					}
					n++
					okO := i+1 < j && isOptLayout(sq.Kids[i+1])
					okC := j-1 > i && isOptLayout(sq.Kids[j-1])
					r.Check("c16.layout-rule", "brackets:"+path+":"+x.Val+y.Val, ga.posOf(sq), okO && okC,
						fmt.Sprintf("layout must be optional after %q and before %q (after: %v, before: %v): the same expression written with blanks inside the brackets would not be read back", x.Val, y.Val, okO, okC))
					break
				}
			}
		})
	}
	r.Check("c16.layout-rule", "brackets:census", "grammar/grammar.go", n >= 3, fmt.Sprintf("info: %d bracketed sequences examined", n))
}

type valuePair struct{ nonNil, nilV bool }

// operatorValuePairing: for each MatchOperator constant the grammar can put in
// a MatchExpression, whether the node is built with a literal (Value != nil)
// and/or without one.
func (ga *GA) operatorValuePairing() map[string]valuePair {
	if ga.prog.SSA != nil && ga.prog.GrammarSSA != nil {
		// decided on the paths of the actions when every one of them can be interpreted; the reading of the actions'
		// syntax below is the fallback
		if out, ok := ga.operatorValuePairingSSA(); ok && len(out) > 0 {
			return out
		}
	}
	info := ga.prog.Grammar.TypesInfo
	out := map[string]valuePair{}
	for n, fd := range ga.onOf {
		if fd == nil || n.Kind != peg.Action {
			continue
		}
		params := map[types.Object]string{}
		for _, f := range fd.Type.Params.List {
			for _, nm := range f.Names {
				params[info.Defs[nm]] = nm.Name
			}
		}
		ast.Inspect(fd.Body, func(x ast.Node) bool {
			cl, ok := x.(*ast.CompositeLit)
			if !ok {
				return true
			}
			nn, ok := info.Types[cl].Type.(*types.Named)
			if !ok || nn.Obj().Name() != "MatchExpression" {
				return true
			}
			var ops []string
			vp := valuePair{nilV: true}
			for _, el := range cl.Elts {
				kv, ok := el.(*ast.KeyValueExpr)
				if !ok {
					continue
				}
				v := ast.Unparen(kv.Value)
				switch kv.Key.(*ast.Ident).Name {
				case "Operator":
					if ta, ok := v.(*ast.TypeAssertExpr); ok {
						v = ast.Unparen(ta.X)
					}
					if id, ok := v.(*ast.Ident); ok {
						if c, ok := info.Uses[id].(*types.Const); ok {
							ops = append(ops, canonConstName(c))
						} else if pn, ok := params[info.Uses[id]]; ok {
							if ln := ga.labelNode(n, pn); ln != nil {
								for c := range ga.consts[ln] {
									ops = append(ops, c) // "" marks a non-constant value
								}
							}
						}
					}
				case "Value":
					vp = valuePair{}
					if id, ok := v.(*ast.Ident); ok && id.Name == "nil" {
						vp.nilV = true
						break
					}
					if ta, ok := v.(*ast.TypeAssertExpr); ok {
						v = ast.Unparen(ta.X)
					}
					if id, ok := v.(*ast.Ident); ok {
						if pn, ok := params[info.Uses[id]]; ok {
							if ln := ga.labelNode(n, pn); ln != nil {
								for t := range ga.types[ln] {
									if t == "nil" || t == "?" {
										vp.nilV = true
									} else {
										vp.nonNil = true
									}
								}
								break
							}
						}
					}
					// anything else: assume both
					if !vp.nilV && !vp.nonNil {
						if u, ok := v.(*ast.UnaryExpr); ok && u.Op == token.AND {
							vp.nonNil = true
						} else {
							vp = valuePair{true, true}
						}
					}
				}
			}
			for _, op := range ops {
				cur := out[op]
				cur.nonNil = cur.nonNil || vp.nonNil
				cur.nilV = cur.nilV || vp.nilV
				out[op] = cur
			}
			return true
		})
	}
	return out
}

// dispatchReaches: with a node of dynamic type *tn, every path of parseExpr that does not stop at the budget hands the
// node to the combinator for that type and returns what it returns.
func dispatchReaches(prog *Program, tn string) bool {
	if prog.SSA == nil {
		return false
	}
	e := newPegEngine(prog)
	comb := e.combinator(tn)
	nt := prog.grammarType(tn)
	if e.parseExpr == nil || comb == nil || nt == nil || len(e.parseExpr.Params) != 2 {
		return false
	}
	ps := NewPathSim(prog)
	ps.NoTables = true
	ps.IfaceAssertIdentity = true
	pNode := paramSym(e.parseExpr.Params[1])
	ps.Seed = func(st *pstate) { st.dyn[pNode.Key()] = types.NewPointer(nt) }
	within := map[*ssa.Function]bool{e.parseExpr: true}
	ps.Inline = func(c *ssa.Function) bool {
		if c == comb || c.Pkg != prog.GrammarSSA || e.combinatorOf(c) {
			return false // (another combinator: the node went to the wrong one)
		}
		if within[c] {
			return true
		}
		if prog.contextOnly(c, func(f *ssa.Function) bool { return within[f] }) || onlyEnteredFrom(prog, c, map[string]bool{e.parseExpr.Name(): true}, 2) {
			within[c] = true
			return true
		}
		return false
	}
	n := 0
	for _, sm := range ps.Run(e.parseExpr) {
		if sm.Ret == nil || len(sm.Results) != 2 {
			continue // the budget panic
		}
		n++
		calls := sm.callsTo(comb)
		if os.Getenv("VERIF_TRACE") != "" {
			fmt.Println("TRACE dispatch", tn, len(calls), sm.St.trail, sm.Describe())
			for _, ev := range sm.Events() {
				if ev.Instr != nil {
					fmt.Println("   ev", ev.Callee, ev.Inlined, ev.Resolved, callName(ev.Instr.Common()))
				}
			}
		}
		if len(calls) != 1 {
			return false
		}
		res := calls[0].Res
		if res == nil || !(sm.Results[0].K == sRes && sm.Results[0].A.Key() == res.Key() && sm.Results[1].K == sRes && sm.Results[1].A.Key() == res.Key()) {
			return false
		}
	}
	return n > 0
}

// entrypointIsFirstRuleSSA: the constructor of the parser (or a part of it) stores (*g.rules[0]).name into the
// parser's entrypoint field.
func entrypointIsFirstRuleSSA(prog *Program) bool {
	if prog.SSA == nil || prog.GrammarSSA == nil {
		return false
	}
	np := prog.GrammarSSA.Func("newParser")
	if np == nil {
		return false
	}
	ok := false
	for _, fa := range prog.FieldAccesses(prog.ModuleFuncs()) {
		if fa.Kind != "write" || fa.Field != "entrypoint" || fa.Struct == nil || fa.Struct.Obj().Name() != "parser" || !ctorPart(prog, np, fa.Fn) {
			continue
		}
		if !isFirstRuleName(prog, fa.Val, 0) {
			return false
		}
		ok = true
	}
	return ok
}

// checkMatchedTextActions: every value action of the named rule returns, whenever it returns without an error, exactly
// string(c.text) — the text that was matched, nothing trimmed, normalised or re-rendered.
func checkMatchedTextActions(r *Run, prog *Program, rule string) {
	n := 0
	for _, fn := range prog.ModuleFuncs() {
		if fn.Pkg != prog.GrammarSSA || !prog.isActionFunc(fn) || fn.Signature.Recv() == nil || !namedIs(fn.Signature.Recv().Type(), grammarPath, "current") {
			continue
		}
		nm := fn.Name()
		if !strings.HasPrefix(nm, "on"+rule) || strings.Trim(nm[len("on"+rule):], "0123456789") != "" || len(nm) == len("on"+rule) {
			continue
		}
		if res := fn.Signature.Results(); res.Len() != 2 || isBool(res.At(0).Type()) {
			continue
		}
		n++
		want := (&Sym{K: sLoad, A: &Sym{K: sFieldAddr, A: paramSym(fn.Params[0]), Str: "text"}}).Key()
		ps := NewPathSim(prog)
		for _, sm := range ps.Run(fn) {
			if sm.Ret == nil || len(sm.Results) != 2 || errClass(sm, sm.Results[1]) == "nonnil" {
				continue
			}
			v := sm.Results[0]
			ok := v.K == sMkIface && v.A != nil && v.A.K == sConvert && v.A.A != nil && v.A.A.Key() == want
			r.Check("c16.value-raw", "matched-text:"+nm, prog.pos(sm.Ret.Pos()), ok, "the literal produced by "+nm+" is not the matched text string(c.text) itself but "+shortKey(v)+": the tree does not hold what was written")
		}
	}
	r.Check("c16.value-raw", "matched-text:"+rule+":census", "grammar/grammar.go", n >= 1, "no value action found for rule "+rule)
}

// stringLiteralActionOnPaths: every return of the named action hands out the two results of one call
// strconv.Unquote(string(c.text)), value and error, unchanged.
func stringLiteralActionOnPaths(prog *Program, name string) (bool, string) {
	var fn *ssa.Function
	for _, f := range prog.ModuleFuncs() {
		if f.Pkg == prog.GrammarSSA && f.Name() == name && f.Signature.Recv() != nil && namedIs(f.Signature.Recv().Type(), grammarPath, "current") {
			fn = f
		}
	}
	if fn == nil || len(fn.Params) == 0 {
		return false, "action not found"
	}
	text := (&Sym{K: sLoad, A: &Sym{K: sFieldAddr, A: paramSym(fn.Params[0]), Str: "text"}}).Key()
	ps := NewPathSim(prog)
	n := 0
	for _, sm := range ps.Run(fn) {
		if sm.Ret == nil || len(sm.Results) != 2 {
			return false, "a path without a (value, error) return"
		}
		n++
		v, e := sm.Results[0], sm.Results[1]
		if e.K != sRes || e.Idx != 1 || e.A == nil {
			return false, "the error returned is " + shortKey(e) + ", not the one strconv.Unquote gave"
		}
		cf, call := calleeOfSym(e.A)
		if call == nil || !isCallTo(cf, "strconv", "Unquote") {
			return false, "the error returned is not strconv.Unquote's"
		}
		args := symArgs(sm.St, e.A)
		if len(args) != 1 || !(args[0].K == sConvert && args[0].A != nil && args[0].A.Key() == text) {
			return false, "strconv.Unquote is not applied to string(c.text)"
		}
		if !(v.K == sMkIface && v.A != nil && v.A.K == sRes && v.A.Idx == 0 && v.A.A != nil && v.A.A.Key() == e.A.Key()) {
			return false, "the value returned is " + shortKey(v) + ", not what strconv.Unquote gave"
		}
	}
	return n > 0, ""
}

// defaultEntryCondition: the block lies under a two-way branch (its nearest strict dominator that ends in an If); the
// branch condition, when it compares something with the empty string (or a length with 0), compares a string the
// function was given (a parameter or a captured variable), not one loaded from a structure.
func defaultEntryCondition(fn *ssa.Function, b *ssa.BasicBlock) (conditional bool, why string) {
	var ifi *ssa.If
	for d := b.Idom(); d != nil; d = d.Idom() {
		if len(d.Instrs) > 0 {
			if x, ok := d.Instrs[len(d.Instrs)-1].(*ssa.If); ok {
				ifi = x
				break
			}
		}
	}
	if ifi == nil {
		return false, ""
	}
	bo, ok := ifi.Cond.(*ssa.BinOp)
	if !ok || (bo.Op != token.EQL && bo.Op != token.NEQ) {
		return true, ""
	}
	var given func(v ssa.Value, depth int) (bool, string)
	given = func(v ssa.Value, depth int) (bool, string) {
		if depth > 6 {
			return false, "too deep"
		}
		switch x := v.(type) {
		case *ssa.Parameter, *ssa.FreeVar:
			return true, ""
		case *ssa.UnOp:
			if x.Op == token.MUL {
				switch a := x.X.(type) {
				case *ssa.FreeVar, *ssa.Alloc:
					_ = a
					return true, "" // a captured variable, or a local (decided where it is assigned)
				case *ssa.FieldAddr:
					return false, "it tests the field " + fieldName(a.X.Type(), a.Field) + " of " + a.X.Name()
				}
			}
		case *ssa.Call:
			if bi, isB := x.Call.Value.(*ssa.Builtin); isB && bi.Name() == "len" && len(x.Call.Args) == 1 {
				return given(x.Call.Args[0], depth+1)
			}
		case *ssa.Phi:
			for _, e := range x.Edges {
				if ok, w := given(e, depth+1); !ok {
					return false, w
				}
			}
			return true, ""
		case *ssa.Field:
			return false, "it tests a field of " + x.X.Name()
		}
		return true, "" // not a shape this rule speaks about
	}
	for _, side := range []ssa.Value{bo.X, bo.Y} {
		if _, isC := side.(*ssa.Const); isC {
			continue
		}
		if !isStringOrInt(side.Type()) {
			continue
		}
		if ok, w := given(side, 0); !ok {
			return true, w
		}
	}
	return true, ""
}

func isStringOrInt(t types.Type) bool {
	b, ok := t.Underlying().(*types.Basic)
	return ok && b.Info()&(types.IsString|types.IsInteger) != 0
}

// isFirstRuleName: the value is g.rules[0].name — *(&(*(&(*(&(*g).rules))[0])).name) — or the result of a function of the
// package, without parameters, every return of which is.
func isFirstRuleName(prog *Program, v ssa.Value, depth int) bool {
	if depth > 3 {
		return false
	}
	if c, isCall := v.(*ssa.Call); isCall {
		callee := c.Call.StaticCallee()
		if callee == nil || callee.Pkg != prog.GrammarSSA || len(callee.Params) != 0 || len(callee.Blocks) == 0 {
			return false
		}
		n := 0
		for _, b := range callee.Blocks {
			for _, ins := range b.Instrs {
				if ret, isRet := ins.(*ssa.Return); isRet {
					if len(ret.Results) != 1 || !isFirstRuleName(prog, ret.Results[0], depth+1) {
						return false
					}
					n++
				}
			}
		}
		return n > 0
	}
	ld, isLd := v.(*ssa.UnOp)
	if !isLd {
		return false
	}
	fn, isFA := ld.X.(*ssa.FieldAddr)
	if !isFA || fieldName(fn.X.Type(), fn.Field) != "name" {
		return false
	}
	el, isEl := fn.X.(*ssa.UnOp)
	if !isEl {
		return false
	}
	ia, isIA := el.X.(*ssa.IndexAddr)
	if !isIA {
		return false
	}
	c, isC := ia.Index.(*ssa.Const)
	if !isC || c.Value == nil || c.Value.ExactString() != "0" {
		return false
	}
	rl, isRl := ia.X.(*ssa.UnOp)
	if !isRl {
		return false
	}
	rf, isRF := rl.X.(*ssa.FieldAddr)
	if !isRF || fieldName(rf.X.Type(), rf.Field) != "rules" {
		return false
	}
	gl, isGl := rf.X.(*ssa.UnOp)
	if !isGl {
		return false
	}
	g, isG := gl.X.(*ssa.Global)
	return isG && g.Pkg == prog.GrammarSSA
}
