package main

// C12 — one Evaluator or Filter can be shared by concurrent goroutines.
// C13 — evaluation is pure and history-independent; Expression() returns the source.
// Both rest on an ownership/effect census: which memory can a call write?

import (
	"fmt"
	"go/types"
	"sort"
	"strings"

	"golang.org/x/tools/go/ssa"
)

// owned-per-call pointer types: objects of these types are created inside the call that uses them.
var ownedParamTypes = map[string]bool{
	modPath + ".options":       true, // the local of getOpts, handed to the option closures
	grammarPath + ".parser":    true, // newParser's allocation, one per Parse
	grammarPath + ".current":   true, // embedded in the parser
	grammarPath + ".errList":   true, // allocated by newParser
	grammarPath + ".Stats":     true, // allocated by newParser
	grammarPath + ".savepoint": true,
}

// packages whose functions do not write through the references they are given and are safe for concurrent use
// (documentation-derived; regexp: "A Regexp is safe for concurrent use by multiple goroutines").
var readOnlyPkgs = map[string]bool{"fmt": true, "errors": true, "strconv": true, "strings": true, "unicode": true, "unicode/utf8": true, "math": true,
	"regexp": true, "encoding/json": true, "github.com/mitchellh/pointerstructure": true, "bytes": true}

// readOnlyPtrMethods: the pointer-receiver methods of the read-only packages that leave their receiver as it is (read in
// the dependency's source); every other pointer-receiver method of those packages counts as a write to the receiver.
var readOnlyPtrMethods = map[string]bool{
	"regexp.Match": true, "regexp.MatchString": true, "regexp.MatchReader": true, "regexp.String": true, "regexp.NumSubexp": true, "regexp.SubexpNames": true,
	"regexp.SubexpIndex": true, "regexp.LiteralPrefix": true, "regexp.Find": true, "regexp.FindIndex": true, "regexp.FindString": true, "regexp.FindStringIndex": true,
	"regexp.FindSubmatch": true, "regexp.FindStringSubmatch": true, "regexp.FindAll": true, "regexp.FindAllString": true, "regexp.ReplaceAll": true, "regexp.ReplaceAllString": true,
	"github.com/mitchellh/pointerstructure.Get": true, "github.com/mitchellh/pointerstructure.Parent": true, "github.com/mitchellh/pointerstructure.String": true,
	"github.com/mitchellh/pointerstructure.IsRoot": true,
	"strings.String": true, "strings.Len": true, "strings.Cap": true, "bytes.String": true, "bytes.Len": true, "bytes.Bytes": true, "bytes.Cap": true,
	"errors.Error": true, "fmt.Error": true, "fmt.Unwrap": true, "strconv.Error": true, "strconv.Unwrap": true, "encoding/json.Error": true,
}

// argMutators: package-level functions of the read-only packages that write through one of their arguments (its index).
var argMutators = map[string]int{
	"github.com/mitchellh/pointerstructure.Set": 0, "encoding/json.Unmarshal": 1, "fmt.Fprintf": 0, "fmt.Fprint": 0, "fmt.Fprintln": 0,
	"fmt.Sscan": 1, "fmt.Sscanf": 2, "fmt.Fscan": 1,
}

var reflectMutators = map[string]bool{"Set": true, "SetBool": true, "SetInt": true, "SetUint": true, "SetFloat": true, "SetString": true, "SetBytes": true, "SetLen": true,
	"SetCap": true, "Recv": true, "TryRecv": true, "Send": true, "TrySend": true, "Close": true, "SetMapIndex": true, "SetIterKey": true, "SetIterValue": true, "SetComplex": true, "SetPointer": true, "SetZero": true, "Grow": true, "Clear": true}

type rootClass struct {
	class string // fresh | owned-param | shared | global | unknown
	desc  string
}

func ownedType(t types.Type) bool {
	if p, ok := t.Underlying().(*types.Pointer); ok {
		t = p.Elem()
	}
	if n, ok := t.(*types.Named); ok && n.Obj().Pkg() != nil {
		return ownedParamTypes[n.Obj().Pkg().Path()+"."+n.Obj().Name()]
	}
	return false
}

// classifyRoot decides who owns the memory an address (or slice/map value) refers to.
func classifyRoot(prog *Program, v ssa.Value, seen map[ssa.Value]bool) rootClass {
	if seen[v] {
		return rootClass{"fresh", "cycle"}
	}
	seen[v] = true
	root, chain := rootOf(v)
	switch x := root.(type) {
	case *ssa.Alloc:
		// the local itself is memory of this call; what a slice, pointer or map *loaded from it* refers to is whatever
		// was put there (a by-value parameter spilled to a local still shares the backing arrays of its slices)
		loaded := false
		for _, c := range chain {
			if c == "*" {
				loaded = true
			}
		}
		if loaded {
			if refs := x.Referrers(); refs != nil {
				for _, u := range *refs {
					var stored ssa.Value
					switch y := u.(type) {
					case *ssa.Store:
						if y.Addr == ssa.Value(x) {
							stored = y.Val
						}
					case *ssa.FieldAddr, *ssa.IndexAddr:
						if fr := y.(ssa.Value).Referrers(); fr != nil {
							for _, fu := range *fr {
								if st, ok := fu.(*ssa.Store); ok && st.Addr == y.(ssa.Value) {
									if c := classifyRoot(prog, st.Val, seen); c.class != "fresh" && c.class != "owned-param" {
										return rootClass{c.class, "held in local " + x.Comment + ": " + c.desc}
									}
								}
							}
						}
					}
					if stored != nil {
						if _, isConst := stored.(*ssa.Const); isConst {
							continue
						}
						if c := classifyRoot(prog, stored, seen); c.class != "fresh" && c.class != "owned-param" {
							return rootClass{c.class, "held in local " + x.Comment + ": " + c.desc}
						}
					}
				}
			}
		}
		return rootClass{"fresh", "local " + x.Comment}
	case *ssa.MakeSlice, *ssa.MakeMap, *ssa.MakeChan, *ssa.MakeClosure:
		return rootClass{"fresh", "made here"}
	case *ssa.Const:
		return rootClass{"fresh", "constant/nil"}
	case *ssa.Global:
		return rootClass{"global", "package variable " + x.Name()}
	case *ssa.Parameter:
		if ownedType(x.Type()) {
			return rootClass{"owned-param", "parameter " + x.Name() + " of per-call type"}
		}
		// an unexported helper: the parameter is as fresh as what every caller passes
		if fn := x.Parent(); fn != nil && prog.InModule(fn) && (fn.Object() == nil || !fn.Object().Exported()) && len(seen) < 12 {
			idx := -1
			for i, p := range fn.Params {
				if p == x {
					idx = i
				}
			}
			if n := prog.CG.Nodes[fn]; n != nil && idx >= 0 && len(n.In) > 0 {
				all := true
				for _, e := range n.In {
					if e.Site == nil || e.Site.Common().StaticCallee() != fn || idx >= len(e.Site.Common().Args) {
						all = false
						break
					}
					c := classifyRoot(prog, e.Site.Common().Args[idx], seen)
					if c.class != "fresh" && c.class != "owned-param" {
						all = false
						break
					}
				}
				if all {
					return rootClass{"fresh", "parameter " + x.Name() + ": fresh at every call site"}
				}
			}
		}
		return rootClass{"shared", "parameter " + x.Name() + " (" + x.Type().String() + ")"}
	case *ssa.FreeVar:
		// a variable captured from the enclosing function: owned if it is a local of that function (or a per-call pointer)
		fn := x.Parent()
		if fn != nil && fn.Parent() != nil {
			for i, fv := range fn.FreeVars {
				if fv != x {
					continue
				}
				// find the MakeClosure bindings in the parent
				for _, b := range fn.Parent().Blocks {
					for _, ins := range b.Instrs {
						if mc, ok := ins.(*ssa.MakeClosure); ok && mc.Fn == ssa.Value(fn) && i < len(mc.Bindings) {
							return classifyRoot(prog, mc.Bindings[i], seen)
						}
					}
				}
			}
		}
		return rootClass{"unknown", "captured " + x.Name()}
	case *ssa.Phi:
		worst := rootClass{"fresh", "phi"}
		for _, e := range x.Edges {
			c := classifyRoot(prog, e, seen)
			if c.class != "fresh" && c.class != "owned-param" {
				return c
			}
			if c.class == "owned-param" {
				worst = c
			}
		}
		return worst
	case *ssa.Call:
		// builtin append: the base decides (a nil base allocates)
		if bi, ok := x.Call.Value.(*ssa.Builtin); ok {
			if bi.Name() == "append" {
				return classifyRoot(prog, x.Call.Args[0], seen)
			}
			return rootClass{"fresh", "builtin " + bi.Name()}
		}
		callee := x.Call.StaticCallee()
		if callee != nil && callee.Pkg != nil && callee.Pkg.Pkg.Path() == "reflect" {
			switch callee.Name() {
			case "MakeSlice", "MakeMap", "Append", "New", "MakeMapWithSize", "MapKeys":
				return rootClass{"fresh", "reflect." + callee.Name()}
			}
			// an element, a field or a sub-slice of a reflect value shares the memory of the value it is taken from:
			// the receiver decides (the slot k of a container made here is memory made here)
			switch callee.Name() {
			case "Index", "Elem", "Field", "Slice", "Slice3", "Addr", "FieldByIndex":
				if callee.Signature.Recv() != nil && len(x.Call.Args) > 0 {
					return classifyRoot(prog, x.Call.Args[0], seen)
				}
			}
			return rootClass{"shared", "reflect value derived from the input"}
		}
		if callee != nil && prog.InModule(callee) && returnsFresh(callee) {
			return rootClass{"fresh", "result of " + callee.Name()}
		}
		if callee != nil && prog.InModule(callee) && (callee.Object() == nil || !callee.Object().Exported()) && callee.Signature.Results().Len() == 1 && len(callee.Blocks) > 0 && len(seen) < 24 {
			// an unexported helper that hands back one of its parameters, possibly extended (append(p, x)): what it returns
			// is as fresh as what it was given at this call
			worst := rootClass{"fresh", "result of " + callee.Name()}
			okAll := true
			for _, b := range callee.Blocks {
				for _, ins := range b.Instrs {
					ret, isRet := ins.(*ssa.Return)
					if !isRet || len(ret.Results) != 1 {
						continue
					}
					rroot, _ := rootOf(ret.Results[0])
					// through append chains inside the helper
					for d := 0; d < 6; d++ {
						c2, isCall := rroot.(*ssa.Call)
						if !isCall {
							break
						}
						bi, isB := c2.Call.Value.(*ssa.Builtin)
						if !isB || bi.Name() != "append" {
							break
						}
						rroot, _ = rootOf(c2.Call.Args[0])
					}
					var c rootClass
					if par, isPar := rroot.(*ssa.Parameter); isPar && par.Parent() == callee {
						idx := -1
						for i, q := range callee.Params {
							if q == par {
								idx = i
							}
						}
						if idx < 0 || idx >= len(x.Call.Args) {
							okAll = false
							continue
						}
						c = classifyRoot(prog, x.Call.Args[idx], seen)
					} else {
						c = classifyRoot(prog, ret.Results[0], seen)
					}
					if c.class != "fresh" && c.class != "owned-param" {
						return rootClass{c.class, "result of " + callee.Name() + ": " + c.desc}
					}
					if c.class == "owned-param" {
						worst = c
					}
				}
			}
			if okAll {
				return worst
			}
		}
		return rootClass{"unknown", "result of " + callName(x.Common())}
	case *ssa.Extract:
		if c, ok := x.Tuple.(*ssa.Call); ok {
			return classifyRoot(prog, c, seen)
		}
	}
	return rootClass{"unknown", fmt.Sprintf("%T", root)}
}

// returnsFresh: every return of fn returns a local allocation (a constructor).
func returnsFresh(fn *ssa.Function) bool {
	n := 0
	for _, b := range fn.Blocks {
		for _, ins := range b.Instrs {
			if ret, ok := ins.(*ssa.Return); ok && len(ret.Results) >= 1 {
				n++
				root, _ := rootOf(ret.Results[0])
				if _, ok := root.(*ssa.Alloc); !ok {
					return false
				}
			}
		}
	}
	return n > 0
}

type writeSite struct {
	fn   *ssa.Function
	ins  ssa.Instruction
	what string
	cls  rootClass
}

// collectWrites enumerates every instruction of fns that writes memory (or hands a mutable reference to foreign code).
func collectWrites(prog *Program, fns []*ssa.Function) (writes []writeSite, boundary map[string]int) {
	boundary = map[string]int{}
	for _, fn := range fns {
		for _, b := range fn.Blocks {
			for _, ins := range b.Instrs {
				switch x := ins.(type) {
				case *ssa.Store:
					writes = append(writes, writeSite{fn, ins, "store", classifyRoot(prog, x.Addr, map[ssa.Value]bool{})})
				case *ssa.MapUpdate:
					writes = append(writes, writeSite{fn, ins, "map update", classifyRoot(prog, x.Map, map[ssa.Value]bool{})})
				case *ssa.Send:
					writes = append(writes, writeSite{fn, ins, "channel send", rootClass{"shared", "channel"}})
				case *ssa.Go:
					writes = append(writes, writeSite{fn, ins, "go statement", rootClass{"shared", "starts a goroutine"}})
				case *ssa.Call:
					if bi, ok := x.Call.Value.(*ssa.Builtin); ok {
						switch bi.Name() {
						case "append":
							// may write into the spare capacity of the base's backing array
							c := classifyRoot(prog, x.Call.Args[0], map[ssa.Value]bool{})
							writes = append(writes, writeSite{fn, ins, "append", c})
						case "copy", "delete", "clear":
							writes = append(writes, writeSite{fn, ins, bi.Name(), classifyRoot(prog, x.Call.Args[0], map[ssa.Value]bool{})})
						}
						continue
					}
					callee := x.Call.StaticCallee()
					if callee == nil || prog.InModule(callee) || callee.Pkg == nil {
						continue
					}
					pp := callee.Pkg.Pkg.Path()
					name := callee.Name()
					if pp == "reflect" {
						if callee.Signature.Recv() != nil && reflectMutators[name] {
							writes = append(writes, writeSite{fn, ins, "reflect." + name, classifyRoot(prog, x.Call.Args[0], map[ssa.Value]bool{})})
						}
						continue
					}
					if pp == "sort" || pp == "slices" {
						if len(x.Call.Args) > 0 {
							writes = append(writes, writeSite{fn, ins, pp + "." + name + " (in place)", classifyRoot(prog, x.Call.Args[0], map[ssa.Value]bool{})})
						}
						continue
					}
					boundary[pp]++
					if readOnlyPkgs[pp] {
						// a package that only reads what it is given — except through the methods that are there to change
						// their receiver ((*Regexp).Longest, (*Pointer).Set, a Builder's writes) and the functions that fill
						// in an argument: those write to the object they are applied to
						if rv := callee.Signature.Recv(); rv != nil && len(x.Call.Args) > 0 {
							if _, isPtr := rv.Type().Underlying().(*types.Pointer); isPtr && !readOnlyPtrMethods[pp+"."+name] {
								writes = append(writes, writeSite{fn, ins, "call to " + callee.String() + " (changes its receiver)", classifyRoot(prog, x.Call.Args[0], map[ssa.Value]bool{})})
							}
						} else if k, isMut := argMutators[pp+"."+name]; isMut && k < len(x.Call.Args) {
							writes = append(writes, writeSite{fn, ins, "call to " + callee.String() + " (fills in its argument)", classifyRoot(prog, x.Call.Args[k], map[ssa.Value]bool{})})
						}
					}
					if !readOnlyPkgs[pp] {
						writes = append(writes, writeSite{fn, ins, "call to " + callee.String(), rootClass{"unknown", "external effect not on the read-only list"}})
					}
				}
			}
		}
	}
	return
}

func checkEffects(r *Run, prog *Program, a *Anchors, pfx string, evalOnly bool) {
	evalSet := map[*ssa.Function]bool{}
	for f := range a.EvalSet {
		evalSet[f] = true
	}
	for f := range a.ExecSet {
		evalSet[f] = true
	}
	createSet, _ := prog.Reachable(a.CreateEv, a.CreateFi, a.Parse)
	r.Floor(pfx+".write-site", 40)
	report := func(set map[*ssa.Function]bool, phase string) {
		fns := sortedFuncs(set)
		for _, f := range fns {
			r.Analysed(f.String())
		}
		writes, boundary := collectWrites(prog, fns)
		ord := map[string]int{}
		for _, w := range writes {
			base := fmt.Sprintf("%s:%s:%s", phase, w.fn.Name(), w.what)
			ord[base]++
			key := fmt.Sprintf("%s#%d", base, ord[base])
			ok := w.cls.class == "fresh" || w.cls.class == "owned-param"
			why := w.what + " into memory that is not owned by this call: " + w.cls.desc + " (" + w.cls.class + ")"
			if !ok && phase == "create" {
				// the syntax tree under construction: written by the parser's actions and by the one admitted memo idiom
				if prog.isActionFunc(w.fn) {
					ok = true
				} else if st, isSt := w.ins.(*ssa.Store); isSt {
					if fa, isFA := st.Addr.(*ssa.FieldAddr); isFA {
						if isRegexpMemo(FieldAccess{Val: st.Val}) && !evalSet[w.fn] && fieldName(fa.X.Type(), fa.Field) == "Converted" {
							ok = true
						}
					}
				}
			}
			r.Check(pfx+".write-site", key, prog.pos(w.ins.Pos()), ok, why)
		}
		var bs []string
		for k, v := range boundary {
			bs = append(bs, fmt.Sprintf("%s×%d", k, v))
		}
		sort.Strings(bs)
		r.Note("%s path: %d functions, %d write sites, boundary packages: %s", phase, len(fns), len(writes), strings.Join(bs, " "))
	}
	report(evalSet, "evaluate")
	if !evalOnly {
		onlyCreate := map[*ssa.Function]bool{}
		for f := range createSet {
			if !evalSet[f] {
				onlyCreate[f] = true
			}
		}
		report(onlyCreate, "create")
	}
	// per-call types are really allocated per call: parser only in newParser, options only as getOpts' local
	for _, fn := range prog.ModuleFuncs() {
		for _, b := range fn.Blocks {
			for _, ins := range b.Instrs {
				al, ok := ins.(*ssa.Alloc)
				if !ok {
					continue
				}
				st := structOf(al.Type())
				if st == nil || st.Obj().Pkg() == nil {
					continue
				}
				q := st.Obj().Pkg().Path() + "." + st.Obj().Name()
				switch q {
				case grammarPath + ".parser":
					okP := fn.Name() == "newParser"
					if np := prog.GrammarSSA.Func("newParser"); !okP && np != nil && ctorPart(prog, np, fn) {
						okP = true // a part of the constructor
					}
					r.Check(pfx+".per-call-allocation", "parser@"+fn.Name(), prog.pos(al.Pos()), okP, "a parser is allocated outside newParser")
				case modPath + ".options":
					// value copies in locals are not shared; only an escaping allocation can be handed to option closures
					if al.Heap {
						okAl := fn == optRoles(prog).getOpts || fn == optRoles(prog).getDefault
						if !okAl && fn == a.CollEval && notKept(al) {
							okAl = true // the option set of one fold step: a local that option functions are applied to, never stored
						}
						r.Check(pfx+".per-call-allocation", "options@"+fn.Name(), prog.pos(al.Pos()), okAl, "an escaping options struct is allocated outside getOpts/getDefaultOptions")
					}
				}
			}
		}
	}
	// no package-level parser/evaluator state: globals of pointer/map/slice type written after init
	for _, fn := range prog.ModuleFuncs() {
		if fn.Name() == "init" {
			continue
		}
		for _, b := range fn.Blocks {
			for _, ins := range b.Instrs {
				if st, ok := ins.(*ssa.Store); ok {
					if g, ok := st.Addr.(*ssa.Global); ok {
						r.Check(pfx+".global-write", fn.Name()+":"+g.Name(), prog.pos(st.Pos()), false, "package variable "+g.Name()+" is assigned outside package initialisation")
					}
				}
			}
		}
	}
	r.Check(pfx+".global-write", "census", "", true, "info: no package variable is assigned outside init")
}

// checkExpressionAccessor: Expression() returns the creation string byte for byte.
func checkExpressionAccessor(r *Run, prog *Program, a *Anchors, pfx string) {
	evT := prog.Bexpr.Types.Scope().Lookup("Evaluator")
	exprM := prog.Method(prog.BexprSSA, "Evaluator", "Expression", true)
	if exprM == nil {
		r.Fail("unresolved-anchor", pfx+".expression", "(*Evaluator).Expression", "bexpr.go", "method not found")
		return
	}
	// the field returned
	field := ""
	okRet := false
	for _, b := range exprM.Blocks {
		for _, ins := range b.Instrs {
			if ret, ok := ins.(*ssa.Return); ok && len(ret.Results) == 1 {
				if ld, ok := ret.Results[0].(*ssa.UnOp); ok {
					if fa, ok := ld.X.(*ssa.FieldAddr); ok && fa.X == ssa.Value(exprM.Params[0]) {
						field = fieldName(fa.X.Type(), fa.Field)
						okRet = true
					}
				}
			}
		}
	}
	r.Check(pfx+".expression", "Expression:returns-field", prog.pos(exprM.Pos()), okRet, "Expression() must return a field of the evaluator unmodified")
	n := 0
	for _, fa := range prog.FieldAccesses(prog.ModuleFuncs()) {
		if fa.Struct.Obj() == evT && fa.Field == field && fa.Kind == "write" {
			n++
			ok := prog.ctorHelper(a, fa.Fn, 0) && isCtorExpression(prog, a, fa.Val, 0)
			r.Check(pfx+".expression", "writer:"+fa.Fn.Name(), prog.pos(fa.Instr.Pos()), ok, "Evaluator."+field+" must be set once, by CreateEvaluator, to its expression parameter itself (byte for byte); stored: "+describeRoot(prog, fa.Val))
		}
	}
	r.Check(pfx+".expression", "writers", prog.pos(a.CreateEv.Pos()), n == 1, fmt.Sprintf("%d writers of Evaluator.%s", n, field))
	// the string handed to the parser is the same parameter (so what is evaluated is what Expression() reports)
	nParse := 0
	for _, pf := range prog.ModuleFuncs() {
		if !prog.ctorHelper(a, pf, 0) || pf == a.CreateFi {
			continue
		}
		for _, b := range pf.Blocks {
			for _, ins := range b.Instrs {
				if c, ok := ins.(*ssa.Call); ok && c.Call.StaticCallee() == a.Parse {
					nParse++
					cv, isConv := c.Call.Args[1].(*ssa.Convert)
					r.Check(pfx+".expression", "parsed-string-is-parameter", prog.pos(c.Pos()), isConv && isCtorExpression(prog, a, cv.X, 0), "the bytes parsed are not the expression parameter itself")
				}
			}
		}
	}
	r.Check(pfx+".expression", "parse-call", prog.pos(a.CreateEv.Pos()), nParse >= 1, "no call to grammar.Parse found in CreateEvaluator or its helpers")
	// no Evaluator / Filter field is written outside the constructors
	for _, fa := range prog.FieldAccesses(prog.ModuleFuncs()) {
		nm := fa.Struct.Obj().Name()
		if fa.Struct.Obj().Pkg() != nil && fa.Struct.Obj().Pkg().Path() == modPath && (nm == "Evaluator" || nm == "Filter") && fa.Kind == "write" {
			ok := prog.ctorHelper(a, fa.Fn, 0)
			r.Check(pfx+".no-carried-state", nm+"."+fa.Field+"@"+fa.Fn.Name(), prog.pos(fa.Instr.Pos()), ok, nm+"."+fa.Field+" is written outside its constructor: the evaluator would carry state between calls")
		}
	}
}

func init() {
	register("C12", true, func(r *Run, prog *Program) {
		a := FindAnchors(prog)
		if !a.Require(r, "c12.anchors") {
			return
		}
		checkEffects(r, prog, a, "c12", false)
		checkASTIntegrity(r, prog, a, "c12")
		r.importing = "C06"
		checkWithLocalVariable(r, prog, "c06")
		r.importing = "C18"
		checkForwarding(r, prog, a, "c18")
		checkOptionConstructors(r, prog, "c18") // every way of handing state to an evaluator is one of the known options
		r.importing = ""
		r.Technique = "ownership/effect census over the VTA call graph: every Store, map update, append, copy, in-place sort, reflect mutator, goroutine start and foreign call in the functions reachable from Evaluate/Execute (and from the constructors) is classified by the provenance of the memory it can write (local allocation / per-call object / shared parameter / package variable)"
		r.Explain = "The library starts no goroutines and uses no synchronisation, so it is race-free iff no call writes memory another call can reach. Decides: on the evaluation path every write goes to a local allocation, to memory made in the same function, or through a pointer to a per-call object (the options struct of getOpts), and every append extends a slice that is nil-based or rooted at a fresh copy — never the shared evaluator, filter, syntax tree, datum or a package variable; on the creation path writes go to the parser object allocated by newParser, to the tree under construction (parser actions, plus the regexp memo written before the tree is published) and to locals; parser and options objects are allocated only per call; no package variable is assigned outside init; foreign callees are on the documented read-only / concurrency-safe list; the syntax tree is never modified after creation. Results equal the sequential ones because no state is carried (C13). NOT decided: races inside dependencies or user hooks; a caller mutating the datum concurrently."
		r.Assume = append(r.Assume, "regexp.Regexp is safe for concurrent use; pointerstructure.Get, fmt, strconv, strings, errors, encoding/json.Number do not write through their arguments")
	})
	register("C13", true, func(r *Run, prog *Program) {
		a := FindAnchors(prog)
		if !a.Require(r, "c13.anchors") {
			return
		}
		checkEffects(r, prog, a, "c13", true)
		checkASTIntegrity(r, prog, a, "c13")
		checkExpressionAccessor(r, prog, a, "c13")
		r.importing = "C08"
		checkSingleGateway(r, prog, a, "c08") // the datum is reached through Pointer.Get only (never Pointer.Set / other writers)
		r.importing = ""
		r.importing = "C17"
		checkFilter(r, prog, a, "c17")
		// "the same result on every call" also fails if the result depends on the order Go hands out a map's entries
		r.importing = "C14"
		checkUnorderedSources(r, prog, a, "c14")
		r.importing = ""
		r.Technique = "the effect census of C12 restricted to the evaluation path (the datum is only read; reflect mutators only on containers made by MakeSlice/MakeMap), syntax-tree integrity census, field-write census for Evaluator/Filter, def-use check of Expression()"
		r.Explain = "Decides: Evaluate and Execute write only memory they allocate (so neither the datum nor anything reachable from it, nor the evaluator, filter or tree, is modified and nothing is carried to the next call — hence the next call returns what a fresh evaluator returns); reflect mutators are applied only to values rooted at reflect.MakeSlice/MakeMap/Append results of the same function; Filter returns Interface() of such a fresh container (C17 shape rule imported); no field of Evaluator or Filter has a writer outside its constructor; the syntax tree is written only by the parser's actions and by the idempotent regexp memo before publication; Expression() returns a field whose only writer stores CreateEvaluator's expression parameter itself, which is also the string parsed. NOT decided: mutation performed by a user hook."
		r.Assume = append(r.Assume, "pointerstructure.Get and reflect's readers do not modify the value they inspect")
	})
}

// notKept: the address of the local is used to read and write it and is handed to calls and closures, but never stored
// into memory or wrapped in an interface: it does not outlive the call.
func notKept(al *ssa.Alloc) bool {
	refs := al.Referrers()
	if refs == nil {
		return true
	}
	for _, u := range *refs {
		switch x := u.(type) {
		case *ssa.FieldAddr, *ssa.UnOp, *ssa.DebugRef, *ssa.MakeClosure:
		case *ssa.Store:
			if x.Val == ssa.Value(al) {
				return false
			}
		case ssa.CallInstruction:
			if _, isGo := x.(*ssa.Go); isGo {
				return false
			}
		default:
			return false
		}
	}
	return true
}

// isCtorExpression: v is the expression text a constructor was given: the string parameter of CreateEvaluator or
// CreateFilter itself, or the parameter of a helper of the constructors that receives it at every call site.
func isCtorExpression(prog *Program, a *Anchors, v ssa.Value, depth int) bool {
	par, ok := v.(*ssa.Parameter)
	if !ok || depth > 3 || !types.Identical(par.Type().Underlying(), types.Typ[types.String]) {
		return false
	}
	fn := par.Parent()
	if fn == a.CreateEv || fn == a.CreateFi {
		return len(fn.Params) > 0 && par == fn.Params[0]
	}
	if !prog.ctorHelper(a, fn, 0) {
		return false
	}
	idx := -1
	for i, q := range fn.Params {
		if q == par {
			idx = i
		}
	}
	n := prog.CG.Nodes[fn]
	if n == nil || idx < 0 || len(n.In) == 0 {
		return false
	}
	for _, e := range n.In {
		if e.Site == nil || isSynthetic(e.Caller.Func) {
			continue
		}
		args := e.Site.Common().Args
		if idx >= len(args) || !isCtorExpression(prog, a, args[idx], depth+1) {
			return false
		}
	}
	return true
}
