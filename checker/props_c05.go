package main

// C05 — absent map keys follow the documented table; the unknown value
// substitutes exactly. Rules on the value lookup (getValue + the map-parent
// test it calls), the quantifier's absent case, and the gateway configuration.

import (
	"fmt"
	"go/constant"
	"go/token"
	"go/types"
	"strings"

	"golang.org/x/tools/go/ssa"
)

func isPSGet(fn *ssa.Function) bool {
	return fn != nil && fn.Pkg != nil && fn.Pkg.Pkg.Path() == "github.com/mitchellh/pointerstructure" && fn.Name() == "Get" && fn.Signature.Recv() != nil
}

func isCallTo(fn *ssa.Function, pkg, name string) bool {
	return fn != nil && fn.Pkg != nil && fn.Pkg.Pkg.Path() == pkg && fn.Name() == name
}

type lookupFacts struct {
	gets      []Event
	isNF      *Event
	getOpts   *Event
	kindCalls []Event
	valueOfs  []Event
}

var optGetOpts *ssa.Function // set by FindAnchors

func collectLookup(sm *Summary) lookupFacts {
	var lf lookupFacts
	evs := sm.Events()
	for i := range evs {
		ev := evs[i]
		if ev.Instr == nil {
			continue
		}
		switch {
		case isPSGet(ev.Callee):
			lf.gets = append(lf.gets, ev)
		case isCallTo(ev.Callee, "errors", "Is"):
			if len(ev.Args) == 2 && ev.Args[1].K == sLoad && ev.Args[1].A.K == sGlobal {
				if g, ok := ev.Args[1].A.V.(*ssa.Global); ok && g.Name() == "ErrNotFound" && g.Pkg.Pkg.Path() == "github.com/mitchellh/pointerstructure" {
					e := ev
					lf.isNF = &e
				}
			}
		case ev.Callee != nil && optGetOpts != nil && ev.Callee == optGetOpts:
			e := ev
			lf.getOpts = &e
		case isCallTo(ev.Callee, "reflect", "ValueOf"):
			lf.valueOfs = append(lf.valueOfs, ev)
		case ev.Callee != nil && ev.Callee.Name() == "Kind" && ev.Callee.Pkg != nil && ev.Callee.Pkg.Pkg.Path() == "reflect":
			lf.kindCalls = append(lf.kindCalls, ev)
		}
	}
	return lf
}

func nilSym() *Sym { return &Sym{K: sConst, C: nil} }

// receiverPointer: the pointerstructure.Pointer a Get is applied to, as a struct value: a tracked local of the lookup, or
// the result of Pointer.Parent() on one (documented: the same Config, all parts but the last).
func receiverPointer(sm *Summary, ev Event) *Sym {
	if len(ev.Deref) > 0 && ev.Deref[0] != nil {
		return ev.Deref[0]
	}
	if len(ev.Args) == 0 {
		return nil
	}
	fn, _ := calleeOfSym(ev.Args[0])
	if !isCallTo(fn, "github.com/mitchellh/pointerstructure", "Parent") {
		return nil
	}
	for _, pe := range sm.Events() {
		if pe.Res != nil && pe.Res.Key() == ev.Args[0].Key() && len(pe.Deref) > 0 && pe.Deref[0] != nil {
			d0 := pe.Deref[0]
			p0 := getPath(d0, []string{"Parts"})
			if p0 == nil {
				return nil
			}
			parts := &Sym{K: sSlice, A: p0, Str: "const(0):bin(-,len(" + p0.Key() + "),const(1))"}
			return &Sym{K: sStruct, A: nil, F: map[string]*Sym{"Parts": parts, "Config": getPath(d0, []string{"Config"})}}
		}
	}
	return nil
}

func checkValueLookup(r *Run, prog *Program, a *Anchors, pfx string) {
	fn := a.GetValue
	r.Analysed(fn.String())
	if len(fn.Params) < 3 {
		r.Fail("unresolved-anchor", pfx+".lookup", "params", prog.pos(fn.Pos()), "value lookup does not have (datum, path, options) parameters")
		return
	}
	dP, _, oP, optsResolved := a.lookupParams(prog)
	if dP == nil || oP == nil {
		r.Fail("unresolved-anchor", pfx+".lookup", "params", prog.pos(fn.Pos()), "value lookup does not have (datum, path, options) parameters")
		return
	}
	pDatum := paramSym(dP)
	pOpt := paramSym(oP)
	ps := NewPathSim(prog)
	ps.Inline = func(c *ssa.Function) bool {
		// the helper that decides "is the parent a map" and any other unexported helper the lookup is split into
		if prog.InModule(c) && c != a.GetOpts && c.Signature.Results().Len() == 1 && isBool(c.Signature.Results().At(0).Type()) {
			return true
		}
		return bexprHelper(prog, a, c)
	}
	ps.MaxDepth = 6
	ps.Recursion = 3 // a helper written recursively (one binding per call) is followed three bindings deep
	sums := ps.Run(fn)
	if len(sums) == 0 {
		r.Fail("undecided", pfx+".lookup", "paths", prog.pos(fn.Pos()), "no path summaries")
		return
	}
	r.Floor(pfx+".lookup", 8)
	seenClasses := map[string]int{}
	for _, sm := range sums {
		val, present, err, okShape := lookupResults(fn.Signature, sm.Results)
		if sm.Panic != nil || !okShape || val == nil || present == nil {
			r.Check(pfx+".lookup", "panic-or-shape", prog.pos(fn.Pos()), false, "explicit panic or unexpected result shape in the value lookup")
			continue
		}
		pos := prog.pos(sm.Ret.Pos())
		lf := collectLookup(sm)
		pv, pconst := present.BoolConst()
		ec := errClass(sm, err)
		trail := " [path " + strings.Join(sm.St.trail, " ") + "]"
		if !pconst {
			r.Check(pfx+".lookup", "present-not-constant", pos, false, "the present flag is not a constant on this path: "+present.Key()+trail)
			continue
		}
		if len(lf.gets) == 0 {
			// resolved (or rejected) by a local variable before any lookup in the datum
			seenClasses["local"]++
			ok := (pv && ec == "nil" && isFieldOfValue(val, bindingField(prog, "value"))) || (!pv && ec == "nonnil")
			if ok && pv {
				// … of a key/index binding: the binding's alias path is known to be empty on this path (an element alias
				// that also carries a value must still be resolved in the datum, where the tag name and the hook apply)
				ok = bindingPathEmpty(prog, sm, val)
			}
			r.Check(pfx+".lookup", "local-variable-return", pos, ok, "a return before the datum lookup must be (the bound value of a key/index binding, true, nil) or (·, false, error) — anything else resolves a selector without pointerstructure's tag name / hook; got ("+shortKey(val)+", "+present.Key()+", "+ec+")"+trail)
			continue
		}
		g1 := lf.gets[0]
		errG := &Sym{K: sRes, A: g1.Res, Idx: 1}
		valG := &Sym{K: sRes, A: g1.Res, Idx: 0}
		// gateway configuration of the first lookup
		var optsSym *Sym
		if optsResolved {
			optsSym = pOpt // the caller folded its option list already: the parameter is the option set
		} else {
			if lf.getOpts == nil || len(lf.getOpts.Args) == 0 || lf.getOpts.Args[0].Key() != pOpt.Key() {
				r.Check(pfx+".gateway-config", "options-source", pos, false, "the options used by the lookup are not getOpts(<own option parameter>)"+trail)
				continue
			}
			optsSym = lf.getOpts.Res
		}
		cfgOK := func(ev Event) (bool, string) {
			d := receiverPointer(sm, ev)
			if d == nil {
				return false, "receiver of the lookup is not a tracked local"
			}
			tn := getPath(d, []string{"Config", "TagName"})
			hk := getPath(d, []string{"Config", "ValueTransformationHook"})
			wantTN := (&Sym{K: sField, A: optsSym, Str: optField(prog, "WithTagName")}).Key()
			wantHK := (&Sym{K: sField, A: optsSym, Str: optField(prog, "WithHookFn")}).Key()
			if tn == nil || tn.Key() != wantTN {
				return false, "Config.TagName is " + tn.Key() + ", expected the evaluator's tag name option"
			}
			if hk == nil || hk.Key() != wantHK {
				return false, "Config.ValueTransformationHook is " + hk.Key() + ", expected the evaluator's hook option"
			}
			if len(ev.Args) < 2 || ev.Args[1].Key() != pDatum.Key() {
				return false, "the lookup is not made in the datum parameter"
			}
			return true, ""
		}
		okc, why := cfgOK(g1)
		r.Check(pfx+".gateway-config", "lookup#1", prog.pos(g1.Instr.Pos()), okc, why+trail)

		errNil, errKnown := evalEq(sm.St, errG, nilSym())
		if !errKnown {
			r.Check(pfx+".lookup", "lookup-error-untested", pos, false, "a return is reached without testing the lookup's error"+trail)
			continue
		}
		switch {
		case errNil:
			seenClasses["found"]++
			ok := pv && ec == "nil" && val.Key() == valG.Key() && len(lf.gets) == 1
			r.Check(pfx+".lookup", "found", pos, ok, "a successful lookup must return (its value, true, nil); got ("+val.Key()+", "+present.Key()+", "+ec+")"+trail)
		default:
			if lf.isNF == nil {
				r.Check(pfx+".lookup", "error-unclassified", pos, ec == "nonnil" && !pv, "a lookup error that is never compared with ErrNotFound must be returned as an error"+trail)
				continue
			}
			if lf.isNF.Args[0].Key() != errG.Key() {
				r.Check(pfx+".lookup", "classifies-other-error", pos, false, "errors.Is(…, ErrNotFound) is applied to "+lf.isNF.Args[0].Key()+", not to the error of the lookup on the final path"+trail)
				continue
			}
			nf, nfKnown := evalBool(sm.St, lf.isNF.Res)
			if !nfKnown {
				r.Check(pfx+".lookup", "notfound-untested", pos, false, "ErrNotFound classification computed but not branched on"+trail)
				continue
			}
			if !nf {
				seenClasses["other-error"]++
				r.Check(pfx+".lookup", "other-error", pos, ec == "nonnil" && !pv && len(lf.gets) == 1, "an error other than ErrNotFound (out of range, step into a scalar) must be returned as an error, without consulting the unknown value or the parent"+trail)
				continue
			}
			unkGiven, unkKnown := optionGiven(prog, sm.St, optsSym, "WithUnknownValue")
			unkNil := !unkGiven
			if !unkKnown {
				r.Check(pfx+".lookup", "unknown-untested", pos, false, "on ErrNotFound the configured unknown value is not consulted before deciding"+trail)
				continue
			}
			if !unkNil {
				seenClasses["unknown-substituted"]++
				want := optionValueKey(prog, optsSym, "WithUnknownValue")
				ok := pv && ec == "nil" && val.Key() == want && len(lf.gets) == 1
				r.Check(pfx+".lookup", "unknown-substituted", pos, ok, "with an unknown value configured, an absent key/field must resolve to exactly that value (and the map-parent test must not run first); got ("+val.Key()+", "+present.Key()+", "+ec+"), lookups="+fmt.Sprint(len(lf.gets))+trail)
				continue
			}
			// no unknown value: the parent decides
			if len(lf.gets) == 1 {
				seenClasses["too-short"]++
				// must be the path-too-short case: fact len(parts) < 2
				short := false
				for k, v := range sm.St.facts {
					if v && strings.HasPrefix(k, "cmp(<,len(") && strings.HasSuffix(k, ",const(2))") {
						short = true
					}
				}
				if d1 := g1.Deref[0]; d1 != nil {
					if p1 := getPath(d1, []string{"Parts"}); p1 != nil {
						if v, ok := evalBool(sm.St, &Sym{K: sCmp, Op: token.LSS, A: &Sym{K: sLen, A: p1}, B: &Sym{K: sConst, C: constant.MakeInt64(2)}}); ok && v {
							short = true
						}
					}
				}
				r.Check(pfx+".lookup", "single-part-absent", pos, short && ec == "nonnil" && !pv, "without a parent lookup the only admissible reason is a selector of fewer than two parts, and the result must be an error"+trail)
				continue
			}
			g2 := lf.gets[1]
			okc2, why2 := cfgOK(g2)
			// same Config as lookup 1, Parts = all but the last
			d1, d2 := receiverPointer(sm, g1), receiverPointer(sm, g2)
			if okc2 && d1 != nil && d2 != nil {
				p1 := getPath(d1, []string{"Parts"})
				p2 := getPath(d2, []string{"Parts"})
				wantParts := "slice(" + p1.Key() + ",const(0):bin(-,len(" + p1.Key() + "),const(1)))"
				if strings.Replace(p2.Key(), "slice("+p1.Key()+",:", "slice("+p1.Key()+",const(0):", 1) != wantParts {
					okc2, why2 = false, "the parent lookup uses Parts "+p2.Key()+", expected the final path without its last part"
				}
				// depth guard: cmp(<, len(parts), 2) must be false on this path
				guard := false
				if v, ok := evalBool(sm.St, &Sym{K: sCmp, Op: token.LSS, A: &Sym{K: sLen, A: p1}, B: &Sym{K: sConst, C: constant.MakeInt64(2)}}); ok && !v {
					guard = true
				}
				if !guard {
					okc2, why2 = false, "the parent lookup is not guarded by `fewer than two parts ⇒ not a map-key absence`"
				}
			}
			r.Check(pfx+".gateway-config", "lookup#2(parent)", prog.pos(g2.Instr.Pos()), okc2, why2+trail)
			// the decision: Kind(ValueOf(parent)) == Map
			var mapFact *bool
			for _, kc := range lf.kindCalls {
				for _, vo := range lf.valueOfs {
					if kc.Args[0].Key() == vo.Res.Key() && vo.Args[0].Key() == (&Sym{K: sRes, A: g2.Res, Idx: 0}).Key() {
						c := &Sym{K: sCmp, Op: token.EQL, A: kc.Res, B: &Sym{K: sConst, C: constant.MakeInt64(21)}}
						if v, ok := evalBool(sm.St, c); ok {
							vv := v
							mapFact = &vv
						}
					}
				}
			}
			if mapFact == nil {
				r.Check(pfx+".lookup", "parent-kind-test", pos, false, "after the parent lookup no test `kind of the parent == Map` decides the outcome"+trail)
				continue
			}
			if *mapFact {
				seenClasses["absent-map-key"]++
				r.Check(pfx+".lookup", "absent-map-key", pos, !pv && ec == "nil", "an absent key of a map parent must be reported as not-present with a nil error"+trail)
			} else {
				seenClasses["absent-non-map"]++
				r.Check(pfx+".lookup", "absent-non-map", pos, ec == "nonnil" && !pv, "an absent struct field / non-map parent must be an error"+trail)
			}
		}
		// not-present only ever on the absent-map-key class
		if !pv && ec == "nil" {
			okNP := false
			if len(lf.gets) == 2 {
				okNP = true
			}
			r.Check(pfx+".not-present-only-for-map-keys", "return", pos, okNP, "present=false with a nil error is returned on a path that is not {ErrNotFound, no unknown value, parent is a map}"+trail)
		}
	}
	for _, cl := range []string{"found", "other-error", "unknown-substituted", "too-short", "absent-map-key", "absent-non-map"} {
		r.Check(pfx+".lookup-classes", cl, prog.pos(fn.Pos()), seenClasses[cl] > 0, "no path of the value lookup realises the case "+cl)
	}
	if ps.Truncated > 0 {
		r.Note("value lookup: %d paths cut by the loop bound", ps.Truncated)
	}
	// the unknown value is read nowhere else on the evaluation path
	partOfLookup := map[*ssa.Function]bool{fn: true}
	for _, sm := range sums {
		for _, ev := range sm.Events() {
			if ev.Inlined && ev.Callee != nil {
				partOfLookup[ev.Callee] = true // judged above, as part of the lookup's paths
			}
		}
	}
	for _, fa := range prog.FieldAccesses(prog.ModuleFuncs()) {
		if fa.Struct == optRoles(prog).optionsT && fa.Field == optField(prog, "WithUnknownValue") && fa.Kind == "read" {
			okR := partOfLookup[fa.Fn] || !a.EvalSet[fa.Fn]
			r.Check(pfx+".unknown-read-sites", fa.Fn.Name()+":read:withUnknown", prog.pos(fa.Instr.Pos()), okR, "the unknown value is read outside the ErrNotFound branch of the value lookup (and outside CreateEvaluator's copy)")
		}
	}
}

// checkQuantifierAbsent: absent collection => (Op == ALL, nil) without evaluating the body; lookup error => (false, err).
func checkQuantifierAbsent(r *Run, prog *Program, a *Anchors, pfx string) {
	fn := a.CollEval
	r.Analysed(fn.String())
	pExpr := paramSym(fn.Params[0])
	for _, sc := range []string{"absent", "lookup-error"} {
		sc := sc
		ps := NewPathSim(prog)
		var gerr *Sym
		ps.Inline = func(c *ssa.Function) bool { return bexprHelper(prog, a, c) && !isBoolErr(c.Signature) }
		ps.Model = func(ev *Event) *Sym {
			if ev.Callee == a.GetValue {
				var e *Sym = nilSym()
				if sc == "lookup-error" {
					e = &Sym{K: sNewErr, V: ev.Instr.Value(), Str: "lookup"}
					gerr = e
				}
				return a.lookupModel(&Sym{K: sOpaque, V: ev.Instr.Value(), Str: "value"}, &Sym{K: sConst, C: constant.MakeBool(false)}, e)
			}
			return nil
		}
		sums := ps.Run(fn)
		for _, sm := range sums {
			if sm.Panic != nil || len(sm.Results) != 2 {
				r.Check(pfx+".quantifier-absent", sc, prog.pos(fn.Pos()), false, "panic or unexpected result shape")
				continue
			}
			b, e := sm.Results[0], sm.Results[1]
			bodyCalls := len(sm.callsTo(a.Dispatch))
			ok, why := false, ""
			if sc == "absent" {
				// b must be cmp(==, load(expr.Op), const "ALL")
				allC := prog.Grammar.Types.Scope().Lookup("CollectionOpAll")
				want := ""
				if c, okc := allC.(interface{ Val() constant.Value }); okc {
					want = (&Sym{K: sCmp, Op: token.EQL, A: loadField(pExpr, "Op"), B: &Sym{K: sConst, C: c.Val()}}).Key()
				}
				ok = b.Key() == want && e.IsNil() && bodyCalls == 0
				if bv, isC := b.BoolConst(); isC && !ok && e.IsNil() && bodyCalls == 0 {
					// the same value computed by cases: the constant returned is the truth of Op == ALL on this path
					if c, okc := allC.(interface{ Val() constant.Value }); okc {
						if v, known := evalBool(sm.St, &Sym{K: sCmp, Op: token.EQL, A: loadField(pExpr, "Op"), B: &Sym{K: sConst, C: c.Val()}}); known && v == bv {
							ok = true
						}
					}
				}
				if !ok && e.IsNil() && bodyCalls == 0 {
					// written another way (`!(Op == ANY)`, a table, …): the operator has two values (operator-has-spec), the
					// result is judged for each of them
					ok = true
					for _, oc := range prog.enumConsts(prog.grammarType("CollectionOperator")) {
						ps2 := NewPathSim(prog)
						ps2.Inline = ps.Inline
						ps2.Model = ps.Model
						oc := oc
						ps2.Seed = func(st *pstate) { st.eqc[loadField(pExpr, "Op").Key()] = constKey(oc) }
						n2 := 0
						for _, sm2 := range ps2.Run(fn) {
							if sm2.Panic != nil || len(sm2.Results) != 2 {
								ok = false
								continue
							}
							n2++
							bv, known := sm2.Results[0].BoolConst()
							if !known {
								bv, known = evalBool(sm2.St, sm2.Results[0])
							}
							if !known || bv != (oc.Name() == "CollectionOpAll") || !sm2.Results[1].IsNil() || len(sm2.callsTo(a.Dispatch)) != 0 {
								ok = false
							}
						}
						if n2 == 0 {
							ok = false
						}
					}
				}
				why = "an absent collection must give (Op == ALL, nil) — all true, any false — without evaluating the body; got (" + b.Key() + ", " + e.Key() + "), body evaluations=" + fmt.Sprint(bodyCalls)
			} else {
				bv, okc := b.BoolConst()
				ok = okc && !bv && gerr != nil && e.Key() == gerr.Key() && bodyCalls == 0
				why = "a lookup error must be returned as (false, that error)"
			}
			r.Check(pfx+".quantifier-absent", sc, prog.pos(sm.Ret.Pos()), ok, why)
		}
		if len(sums) == 0 {
			r.Check(pfx+".quantifier-absent", sc, prog.pos(fn.Pos()), false, "no feasible path")
		}
	}
	// the selector path handed to the lookup is this expression's, with the caller's datum and options
	checkLookupArgs(r, prog, a, fn, pfx)
	checkLookupArgs(r, prog, a, a.MatchEval, pfx)
}

func checkLookupArgs(r *Run, prog *Program, a *Anchors, fn *ssa.Function, pfx string) {
	pExpr := paramSym(fn.Params[0])
	if nP, _, _ := evalParams(fn); nP != nil {
		pExpr = paramSym(nP)
	}
	wantPath := loadField(pExpr, "Selector", "Path").Key()
	ps := NewPathSim(prog)
	ps.Inline = func(c *ssa.Function) bool { return bexprHelper(prog, a, c) }
	n, paths := 0, 0
	seen := map[ssa.CallInstruction]bool{}
	for _, sm := range ps.Run(fn) {
		if sm.Ret == nil {
			continue
		}
		paths++
		var lookups []Event
		first := true
		firstIsLookup := false
		var folded *Event
		for _, ev := range sm.Events() {
			ev := ev
			if ev.Instr == nil || ev.Inlined {
				continue
			}
			if ev.Callee == a.GetOpts && first && folded == nil {
				folded = &ev // the caller folds its option list for the lookup: not yet "anything else"
				continue
			}
			if ev.Callee == a.GetValue {
				lookups = append(lookups, ev)
				if first {
					firstIsLookup = true
				}
			}
			first = false
		}
		if len(lookups) != 1 || !firstIsLookup {
			r.Check(pfx+".lookup-args", fn.Name()+":count", prog.pos(sm.Ret.Pos()), false, fmt.Sprintf("%d value lookups on a path through %s (expected one, before anything else) [path %s]", len(lookups), fn.Name(), strings.Join(sm.St.trail, " ")))
			continue
		}
		ev := lookups[0]
		if !seen[ev.Instr] {
			seen[ev.Instr] = true
			n++
		}
		args := ev.Args
		okA := len(args) == len(a.GetValue.Params)
		dP, pP, oP, resolved := a.lookupParams(prog)
		if okA && dP != nil && pP != nil && oP != nil {
			for i, q := range a.GetValue.Params {
				switch q {
				case dP:
					dOwn := paramSym(fn.Params[1])
					if _, d2, _ := evalParams(fn); d2 != nil {
						dOwn = paramSym(d2)
					}
					okA = okA && args[i].Key() == dOwn.Key()
				case pP:
					if namedIs(pP.Type(), grammarPath, "Selector") {
						okA = okA && args[i].Key() == loadField(pExpr, "Selector").Key()
					} else {
						okA = okA && args[i].Key() == wantPath
					}
				case oP:
					own := paramSym(fn.Params[len(fn.Params)-1])
					if resolved && !types.Identical(fn.Params[len(fn.Params)-1].Type(), oP.Type()) {
						// the lookup takes the folded option set: getOpts(<the caller's own list>)
						okA = okA && folded != nil && folded.Res != nil && args[i].Key() == folded.Res.Key() && len(folded.Args) == 1 && folded.Args[0].Key() == own.Key()
					} else {
						okA = okA && args[i].Key() == own.Key()
					}
				}
			}
		} else {
			okA = false
		}
		r.Check(pfx+".lookup-args", fn.Name(), prog.pos(ev.Instr.Pos()), okA, "the value lookup must be given the caller's datum, this expression's Selector.Path and the caller's options")
	}
	r.Check(pfx+".lookup-args", fn.Name()+":count", prog.pos(fn.Pos()), n >= 1 && paths > 0, fmt.Sprintf("%d value lookups in %s (expected one, before anything else)", n, fn.Name()))
}

func init() {
	register("C05", true, func(r *Run, prog *Program) {
		a := FindAnchors(prog)
		if !a.Require(r, "c05.anchors") {
			return
		}
		checkDispositionTable(r, prog, "c05", false, true)
		checkValueLookup(r, prog, a, "c05")
		checkQuantifierAbsent(r, prog, a, "c05")
		r.importing = "C03"
		checkConnectives(r, prog, a, "c03") // "… is an error": and stays one on its way up through not/and/or
		if g5 := loadGrammars(r, prog); g5 != nil {
			r.importing = "C07"
			checkSelectorGrammar(r, NewGA(prog, g5.Tab), "c07") // "resolves" is said of the path that was written: `~1` in a pointer is the `/` of the key
			r.importing = "C01"
			checkBindingModes(r, prog, NewGA(prog, g5.Tab), "c01") // "through quantifier-bound aliases": the name written after `as` is the name bound, in each of the three forms
		}
		r.importing = "C06"
		checkQuantifier(r, prog, a, "c06") // a selector below a bound name is the selector of that element: the table applies to `x.absent` inside any/all as outside
		checkScan(r, prog, a, "c06")       // … at every depth of nesting: an inner alias resolves through the outer ones
		r.importing = "C04"
		checkMatchDispatch(r, prog, a, "c04")
		r.importing = "C18"
		checkOptionConstructors(r, prog, "c18")   // the unknown value set is the value given: WithUnknownValue stores its argument unconditionally
		checkEvaluatorPipeline(r, prog, a, "c18") // … and it is carried from creation to every evaluation (not through memory the caller still owns)
		checkForwarding(r, prog, a, "c18")
		checkGetOpts(r, prog, a, "c18") // … whatever else stands in the option list: a nil entry is skipped, it does not end the fold
		r.importing = ""
		r.Technique = "constant-table extraction (disposition switch) against the documented table; path-sensitive symbolic execution of the value lookup with the map-parent helper inlined and a struct-field memory model (gateway Config provenance); abstract execution of both consumers under {absent, lookup error}"
		r.Explain = "Decides: the disposition table equals the documented one and is exhaustive; in the value lookup, not-present is returned only with a nil error and only on {lookup error is ErrNotFound (tested on the error of the final path), no unknown value, ≥2 parts, parent looked up with the same tag name/hook and all but the last part, parent kind is Map}; with an unknown value configured an ErrNotFound resolves to exactly that value before the parent is consulted; any other error is returned as an error; the unknown value is read nowhere else; both consumers return the disposition (match) / Op==ALL (quantifier) with a nil error and without consulting matcher or body. NOT decided: which lookups pointerstructure classifies as ErrNotFound."
		r.Assume = append(r.Assume, "pointerstructure.Pointer.Get wraps ErrNotFound exactly for absent map keys and absent struct fields (read, trusted)")
	})
}

// bindingPathEmpty: val is the value field of a binding record whose path field is known to have length 0 on the path.
func bindingPathEmpty(prog *Program, sm *Summary, val *Sym) bool {
	pathField := ""
	if st := bindingRecordType(prog); st != nil {
		for i := 0; i < st.NumFields(); i++ {
			if isStringSlice(st.Field(i).Type()) {
				pathField = st.Field(i).Name()
			}
		}
	}
	if pathField == "" {
		return false
	}
	// the record's path field, in either spelling (a field of the loaded record, a load of the field's address)
	var cands []*Sym
	switch {
	case val.K == sField && val.A != nil:
		cands = append(cands, &Sym{K: sField, A: val.A, Str: pathField})
		if val.A.K == sLoad && val.A.A != nil {
			cands = append(cands, &Sym{K: sLoad, A: &Sym{K: sFieldAddr, A: val.A.A, Str: pathField}})
		}
	case val.K == sLoad && val.A != nil && val.A.K == sFieldAddr && val.A.A != nil:
		cands = append(cands, &Sym{K: sLoad, A: &Sym{K: sFieldAddr, A: val.A.A, Str: pathField}})
		cands = append(cands, &Sym{K: sField, A: &Sym{K: sLoad, A: val.A.A}, Str: pathField})
	default:
		return false
	}
	for _, pathSym := range cands {
		if bindingPathEmptyAs(sm, pathSym) {
			return true
		}
	}
	return false
}

func bindingPathEmptyAs(sm *Summary, pathSym *Sym) bool {
	l := &Sym{K: sLen, A: pathSym}
	if eq, known := evalEq(sm.St, l, &Sym{K: sConst, C: constant.MakeInt64(0)}); known && eq {
		return true
	}
	if c, ok := sm.St.eqc[l.Key()]; ok && c == "const(0)" {
		return true
	}
	// `len(path) != 0` false, `len(path) > 0` false …
	if v, known := evalBool(sm.St, &Sym{K: sCmp, Op: token.NEQ, A: l, B: &Sym{K: sConst, C: constant.MakeInt64(0)}}); known && !v {
		return true
	}
	if v, known := evalBool(sm.St, &Sym{K: sCmp, Op: token.GTR, A: l, B: &Sym{K: sConst, C: constant.MakeInt64(0)}}); known && !v {
		return true
	}
	return false
}

// bindingRecordType: the record a binding is kept in — the element type of the options' list of bindings (whatever it is
// called), falling back to the type named localVariable.
func bindingRecordType(prog *Program) *types.Struct {
	if ot := optRoles(prog).optionsT; ot != nil {
		if os, ok := ot.Underlying().(*types.Struct); ok {
			bf := optField(prog, "WithLocalVariable")
			for i := 0; i < os.NumFields(); i++ {
				if os.Field(i).Name() == bf {
					if sl, ok := os.Field(i).Type().Underlying().(*types.Slice); ok {
						if st, ok := sl.Elem().Underlying().(*types.Struct); ok {
							return st
						}
					}
				}
			}
		}
	}
	if lt := prog.Bexpr.Types.Scope().Lookup("localVariable"); lt != nil {
		if st, ok := lt.Type().Underlying().(*types.Struct); ok {
			return st
		}
	}
	return nil
}

// bindingField: the name of the binding record's field in the given role — "name" (the one string), "path" (the one list
// of strings), "value" (the one empty interface) — whatever the fields are called.
func bindingField(prog *Program, role string) string {
	st := bindingRecordType(prog)
	if st == nil {
		return role
	}
	for i := 0; i < st.NumFields(); i++ {
		f := st.Field(i)
		switch {
		case role == "name" && types.Identical(f.Type(), types.Typ[types.String]):
			return f.Name()
		case role == "path" && isStringSlice(f.Type()):
			return f.Name()
		case role == "value" && isEmptyIface(f.Type()):
			return f.Name()
		}
	}
	return role
}
