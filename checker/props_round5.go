package main

// Rules added after the fifth round of independently seeded changes.

import (
	"fmt"
	"go/types"
	"strings"

	"golang.org/x/tools/go/ssa"
)

// checkInOnString: `in` / `contains` on a string value is exactly strings.Contains(value.String(), literal): no other
// search (by byte, by rune, case-folded) answers on a path where the value's kind is String.
func checkInOnString(r *Run, prog *Program, a *Anchors, pfx string) {
	n := 0
	for _, m := range a.Matchers {
		_, pv := matcherOperands(m)
		if pv == nil {
			continue
		}
		ps := NewPathSim(prog)
		ps.Inline = func(c *ssa.Function) bool { return bexprHelper(prog, a, c) && !recursive(prog, c) }
		ke := &kindEnv{prog: prog}
		for _, sm := range ps.Run(m) {
			if sm.Ret == nil || len(sm.Results) != 2 || errClass(sm, sm.Results[1]) != "nil" {
				continue
			}
			// only the paths of the `in` matcher that decided on a String value: the result stems from a strings.* search
			var search *Event
			for _, ev := range sm.Events() {
				ev := ev
				if ev.Instr != nil && ev.Callee != nil && ev.Callee.Pkg != nil && ev.Callee.Pkg.Pkg.Path() == "strings" && (strings.HasPrefix(ev.Callee.Name(), "Contains") || strings.HasPrefix(ev.Callee.Name(), "Index") || ev.Callee.Name() == "EqualFold") {
					search = &ev
				}
			}
			if search == nil || !ke.kinds(sm.St, pv).SubsetOf(ks(kString)) {
				continue
			}
			n++
			ok := search.Callee.Name() == "Contains" && len(search.Args) == 2 && sm.Results[0].Key() == search.Res.Key()
			why := "the result is " + shortKey(sm.Results[0]) + " (search: strings." + search.Callee.Name() + ")"
			if ok {
				hay, needle := search.Args[0], search.Args[1]
				if f, _ := calleeOfSym(hay); !isReflectMethod(f, "String") || len(symArgs(sm.St, hay)) != 1 || symArgs(sm.St, hay)[0].Key() != pv.Key() {
					ok, why = false, "the text searched is not value.String(): "+shortKey(hay)
				}
				x := needle
				if x.K == sTAValue {
					x = x.A
				}
				if !(x.K == sRes && x.Idx == 0) {
					ok, why = false, "what is searched for is not the literal as coerced for a string: "+shortKey(needle)
				} else if f, _ := calleeOfSym(x.A); f != a.CoerceTab {
					ok, why = false, "what is searched for does not come from the coercion table: "+shortKey(needle)
				}
			}
			r.Check(pfx+".in-on-string", m.Name()+":"+prog.pos(sm.Ret.Pos()), prog.pos(sm.Ret.Pos()), ok, "`in` on a string must be strings.Contains(value.String(), literal): "+why+" [path "+strings.Join(sm.St.trail, " ")+"]")
		}
	}
	r.Check(pfx+".in-on-string", "sites", "", n >= 1, "no string search found in the matchers")
}

// checkRegexpSource: every regular expression that matches / not matches use is compiled from the literal's Raw text as it
// is (no flags or anchors added), wherever it is compiled, and the compile-ahead pass treats the two operators alike.
func checkRegexpSource(r *Run, prog *Program, a *Anchors, pfx string) {
	n := 0
	var fns []*ssa.Function
	for _, fn := range prog.ModuleFuncs() {
		if fnPkg(fn) == prog.Bexpr.Types {
			fns = append(fns, fn)
		}
	}
	for _, fn := range fns {
		has := false
		for _, b := range fn.Blocks {
			for _, ins := range b.Instrs {
				if c, ok := ins.(*ssa.Call); ok {
					if f := c.Call.StaticCallee(); f != nil && f.Pkg != nil && f.Pkg.Pkg.Path() == "regexp" && strings.Contains(f.Name(), "Compile") {
						has = true
					}
				}
			}
		}
		if !has {
			continue
		}
		ps := NewPathSim(prog)
		// per compile site: the operators under which it is reached (from the facts of the path)
		type siteInfo struct {
			pos     string
			ops     map[string]bool
			anyOp   bool
			okArg   bool
			argDesc string
		}
		sites := map[ssa.CallInstruction]*siteInfo{}
		for _, sm := range ps.Run(fn) {
			for _, ev := range sm.Events() {
				if ev.Instr == nil || ev.Callee == nil || ev.Callee.Pkg == nil || ev.Callee.Pkg.Pkg.Path() != "regexp" || !strings.Contains(ev.Callee.Name(), "Compile") {
					continue
				}
				si := sites[ev.Instr]
				if si == nil {
					si = &siteInfo{pos: prog.pos(ev.Instr.Pos()), ops: map[string]bool{}, okArg: true}
					sites[ev.Instr] = si
				}
				if ev.Callee.Name() != "Compile" {
					// CompilePOSIX (leftmost-longest, no Perl classes), MustCompile (panics) … are other languages or other
					// failure modes than the one the statement names
					si.okArg = false
					si.argDesc = "regexp." + ev.Callee.Name() + "(…): another matching semantics than regexp.Compile's"
				}
				arg := ev.Args[0]
				// *(&(*(&X.Value)).Raw): the Raw text of some match expression's value
				isRaw := arg.K == sLoad && arg.A.K == sFieldAddr && arg.A.Str == "Raw" && arg.A.A != nil && arg.A.A.K == sLoad && arg.A.A.A.K == sFieldAddr && arg.A.A.A.Str == "Value"
				if !isRaw && arg.K == sLoad && arg.A.K == sFieldAddr && arg.A.Str == "Raw" {
					// the Raw field of a match value that reached a helper as a parameter
					if fa, ok := arg.A.V.(*ssa.FieldAddr); ok {
						if pt, ok := fa.X.Type().Underlying().(*types.Pointer); ok && namedIs(pt.Elem(), grammarPath, "MatchValue") {
							isRaw = true
						}
					}
				}
				if !isRaw {
					si.okArg = false
					si.argDesc = shortKey(arg)
				} else if !si.okArg && si.argDesc == "" {
					si.argDesc = shortKey(arg)
				}
				// which operators is this path restricted to?
				restricted := false
				for k, v := range sm.St.eqc {
					if strings.HasSuffix(k, ".Operator)") && v != "" {
						si.ops[v] = true
						restricted = true
					}
				}
				if !restricted {
					si.anyOp = true
				}
			}
		}
		for _, si := range sites {
			n++
			r.Check(pfx+".regexp-source", fn.Name()+":pattern@"+si.pos, si.pos, si.okArg, "a regular expression is compiled from "+si.argDesc+", not from the literal's Raw text as it is: matches and not matches must use the pattern that was written")
			if !si.anyOp {
				// reached only under specific operators: then under both regular-expression operators or neither
				mm := prog.enumConsts(prog.grammarType("MatchOperator"))
				want := map[string]bool{}
				for _, c := range mm {
					if c.Name() == "MatchMatches" || c.Name() == "MatchNotMatches" {
						want[constKey(c)] = true
					}
				}
				both := true
				for k := range want {
					if !si.ops[k] {
						both = false
					}
				}
				r.Check(pfx+".regexp-source", fn.Name()+":operators@"+si.pos, si.pos, both, "a regular expression is prepared for one of matches / not matches only: the two would use differently prepared patterns")
			}
		}
	}
	r.Check(pfx+".regexp-source", "sites", "", n >= 2, fmt.Sprintf("%d compile sites found (expected the compile-ahead pass and the fallback)", n))
}

// checkErrorRecording: every error handed to the parser's addErrAt is recorded: on every path the errList's add is reached
// with a parserError that wraps the very error given (an error filtered out there could be the budget error).
func checkErrorRecording(r *Run, prog *Program, pfx string) {
	fn := prog.Method(prog.GrammarSSA, "parser", "addErrAt", true)
	add := prog.Method(prog.GrammarSSA, "errList", "add", true)
	if fn == nil || add == nil {
		r.Fail("unresolved-anchor", pfx+".engine", "addErrAt", "grammar/grammar.go", "(*parser).addErrAt / (*errList).add not found")
		return
	}
	ps := NewPathSim(prog)
	ps.maxVisits = 2
	perr := paramSym(fn.Params[1])
	ok, n := true, 0
	where := ""
	for _, sm := range ps.Run(fn) {
		if sm.Ret == nil {
			continue
		}
		n++
		recorded := false
		for _, ev := range sm.callsTo(add) {
			if len(ev.Args) == 2 {
				// the *parserError built here wraps the parameter
				var pe *Sym
				if ev.Deref[1] != nil {
					pe = ev.Deref[1]
				} else {
					x := ev.Args[1]
					if x.K == sMkIface {
						x = x.A // the *parserError handed over as an error
					}
					if al, path, isLocal := localPath(x); isLocal {
						if v, has := loadLocal(sm.St, al, path, nil); has {
							pe = v
						}
					}
				}
				if pe != nil {
					if in := getPath(pe, []string{"Inner"}); in != nil && in.Key() == perr.Key() {
						recorded = true
					}
				}
			}
		}
		if !recorded {
			ok = false
			where = strings.Join(sm.St.trail, " ")
		}
	}
	r.Check(pfx+".engine", "addErrAt-records-every-error", prog.pos(fn.Pos()), ok && n > 0, "(*parser).addErrAt returns on some path without recording the error it was given (an error dropped here may be the budget error) [path "+where+"]")
	// errList.add appends unconditionally
	okAdd := len(add.Blocks) == 1
	r.Check(pfx+".engine", "errList.add-unconditional", prog.pos(add.Pos()), okAdd, "(*errList).add branches: an error may not be appended")
	// … every entry is looked at: a loop of the error list's methods over its entries is left only when the list is
	// exhausted (skipping a duplicate is `continue`; a `break` there cuts off what follows — the budget error comes last)
	for _, mn := range []string{"dedupe", "Error", "err"} {
		em := prog.Method(prog.GrammarSSA, "errList", mn, false)
		if em == nil {
			em = prog.Method(prog.GrammarSSA, "errList", mn, true)
		}
		if em == nil || len(em.Blocks) == 0 {
			continue
		}
		for _, h := range em.Blocks {
			isHeader := false
			for _, p := range h.Preds {
				if h.Dominates(p) {
					isHeader = true
				}
			}
			if !isHeader {
				continue
			}
			lb := loopBlocks(h)
			okLoopExit := true
			for b := range lb {
				if b == h {
					continue
				}
				for _, sx := range b.Succs {
					if !lb[sx] {
						okLoopExit = false
					}
				}
			}
			r.Check(pfx+".engine", fmt.Sprintf("errList.%s-loop-runs-out:b%d", mn, h.Index), prog.pos(em.Pos()), okLoopExit, "a loop of errList."+mn+" over the recorded errors is left from inside its body: entries after that point are never looked at")
		}
	}
	// … and what is on the list is what the list says: the text of one entry alone stands for the whole list only when the
	// list has that one entry (the budget error is appended last: a rendering that stops early hides it)
	if em := prog.Method(prog.GrammarSSA, "errList", "Error", false); em != nil && len(em.Params) == 1 {
		pe := paramSym(em.Params[0])
		lenKey := (&Sym{K: sLen, A: pe}).Key()
		psE := NewPathSim(prog)
		psE.maxVisits = 2
		okE, whyE := true, ""
		for _, sm := range psE.Run(em) {
			if sm.Ret == nil || len(sm.Results) != 1 {
				continue
			}
			res := sm.Results[0]
			fnE, call := calleeOfSym(res)
			if call == nil || fnE == nil && !call.Common().IsInvoke() {
				continue
			}
			if call.Common().IsInvoke() && call.Common().Method.Name() != "Error" {
				continue
			}
			args := symArgs(sm.St, res)
			if len(args) != 1 || !(args[0].K == sLoad && args[0].A != nil && args[0].A.K == sIndexAddr && args[0].A.A != nil && args[0].A.A.Key() == pe.Key()) {
				continue
			}
			// a single entry's own text is the whole answer on this path
			if c, has := sm.St.eqc[lenKey]; !(has && c == "const(1)") {
				okE = false
				whyE = "the text of one entry is returned for a list whose length is " + c + " [path " + strings.Join(sm.St.trail, " ") + "]"
			}
		}
		r.Check(pfx+".engine", "errList.Error-renders-every-entry", prog.pos(em.Pos()), okE, "errList.Error answers with a single entry's text for a list that has more than that entry: "+whyE)
	}
}

// checkRuleRefAndClasses: two engine helpers the rule table relies on: a rule reference is resolved through the rule table
// and parseRule for every name alike (no built-in shortcut for a name), and rangeTable(name) is the table unicode has
// under that very name.
func checkRuleRefAndClasses(r *Run, prog *Program, pfx string) {
	ref := prog.Method(prog.GrammarSSA, "parser", "parseRuleRefExpr", true)
	pr := prog.Method(prog.GrammarSSA, "parser", "parseRule", true)
	if ref == nil || pr == nil {
		r.Fail("unresolved-anchor", pfx+".engine", "parseRuleRefExpr", "grammar/grammar.go", "engine methods not found")
	} else {
		ps := NewPathSim(prog)
		ok, n := true, 0
		why := ""
		for _, sm := range ps.Run(ref) {
			if sm.Ret == nil || len(sm.Results) != 2 {
				continue
			}
			n++
			calls := sm.callsTo(pr)
			// either the rule is missing (an error is recorded, false) or the result is parseRule(p.rules[ref.name])
			bv, isC := sm.Results[1].BoolConst()
			if len(calls) == 0 {
				if !(isC && !bv) {
					ok, why = false, "a reference succeeds without parsing the rule it names"
				}
				for _, ev := range sm.Events() {
					if ev.Instr != nil && ev.Callee != nil && prog.InModule(ev.Callee) && strings.HasPrefix(ev.Callee.Name(), "parse") {
						ok, why = false, "a reference is parsed by "+ev.Callee.Name()+" instead of the rule it names"
					}
				}
				continue
			}
			res := calls[0].Res
			if len(calls) != 1 || !(sm.Results[0].K == sRes && sm.Results[0].A.Key() == res.Key() && sm.Results[1].K == sRes && sm.Results[1].A.Key() == res.Key()) {
				ok, why = false, "the result of a reference is not exactly what parseRule returns for the rule"
			}
			// the rule parsed is the table's entry for ref.name
			arg := calls[0].Args[1]
			okArg := false
			if arg.K == sOpaque || arg.K == sRes {
				okArg = true // a map lookup result (p.rules[name]); the key is checked below by the absence of any name test
			}
			if !okArg {
				ok, why = false, "the rule parsed is not looked up in the rule table: "+shortKey(arg)
			}
			// no path may depend on what the name is, other than being empty / missing
			for k := range sm.St.facts {
				if strings.Contains(k, ".name)") && strings.Contains(k, "const(\"") && !strings.Contains(k, "const(\"\")") {
					ok, why = false, "the reference is treated specially for one rule name ("+k+")"
				}
			}
			for k, v := range sm.St.eqc {
				if strings.Contains(k, ".name)") && v != "const(\"\")" {
					ok, why = false, "the reference is treated specially for one rule name ("+v+")"
				}
			}
			for k, m := range sm.St.neqc {
				if strings.Contains(k, ".name)") {
					for v := range m {
						if v != "const(\"\")" {
							ok, why = false, "the reference is treated specially for one rule name ("+v+")"
						}
					}
				}
			}
		}
		r.Check(pfx+".engine", "rule-reference-through-the-table", prog.pos(ref.Pos()), ok && n > 0, "(*parser).parseRuleRefExpr must resolve every reference through p.rules and parseRule: "+why)
	}
	rt := prog.Func(prog.GrammarSSA, "rangeTable")
	if rt == nil {
		r.Fail("unresolved-anchor", pfx+".engine", "rangeTable", "grammar/grammar.go", "rangeTable not found")
		return
	}
	ps := NewPathSim(prog)
	pc := paramSym(rt.Params[0])
	ok, n := true, 0
	why := ""
	for _, sm := range ps.Run(rt) {
		if sm.Ret == nil || len(sm.Results) != 1 {
			continue
		}
		n++
		res := sm.Results[0]
		// tuple component 0 of a lookup `unicode.<Table>[class]`
		lk, isLk := res.V.(*ssa.Extract)
		okR := false
		if isLk {
			if l, isL := lk.Tuple.(*ssa.Lookup); isL && lk.Index == 0 {
				if u, isU := l.X.(*ssa.UnOp); isU {
					if g, isG := u.X.(*ssa.Global); isG && g.Pkg != nil && g.Pkg.Pkg.Path() == "unicode" && l.Index == ssa.Value(rt.Params[0]) {
						okR = true
					}
				}
			}
		}
		if !okR {
			ok, why = false, "a class is resolved to "+shortKey(res)
		}
		for k := range sm.St.facts {
			if strings.Contains(k, pc.Key()) && strings.Contains(k, "const(\"") {
				ok, why = false, "a class name is treated specially ("+k+")"
			}
		}
		for k, v := range sm.St.eqc {
			if k == pc.Key() {
				ok, why = false, "a class name is treated specially ("+v+")"
			}
		}
	}
	r.Check(pfx+".engine", "rangeTable-is-unicode's-table", prog.pos(rt.Pos()), ok && n > 0, "rangeTable(name) must be the table package unicode has under that very name (Categories, Properties or Scripts): "+why)
	_ = types.Typ
}

// checkOptionReadSites: each option takes effect in one place: the tag name and the hook where the lookup's gateway is
// configured, the unknown value and the bindings in the lookup, the budget in CreateEvaluator. A read anywhere else on the
// evaluation path lets one option change an aspect that is not its own.
func checkOptionReadSites(r *Run, prog *Program, a *Anchors, pfx string) {
	ot := optRoles(prog).optionsT
	if ot == nil {
		return
	}
	// the functions the lookup is made of
	lookup := map[*ssa.Function]bool{a.GetValue: true}
	ps := NewPathSim(prog)
	ps.Inline = func(c *ssa.Function) bool { return bexprHelper(prog, a, c) && !recursive(prog, c) }
	ps.MaxDepth = 4
	for _, sm := range ps.Run(a.GetValue) {
		for _, ev := range sm.Events() {
			if ev.Inlined && ev.Callee != nil {
				lookup[ev.Callee] = true
			}
		}
	}
	fieldCtor := map[string]string{}
	for ctor, f := range optRoles(prog).field {
		fieldCtor[f] = ctor
	}
	for ctor, f := range optRoles(prog).flag {
		fieldCtor[f] = ctor
	}
	n := 0
	applied := map[string]map[*ssa.Function]bool{}
	for _, fa := range prog.FieldAccesses(prog.ModuleFuncs()) {
		if fa.Struct != ot || fa.Kind != "read" {
			continue
		}
		ctor := fieldCtor[fa.Field]
		if ctor == "" {
			continue
		}
		n++
		okR := false
		switch ctor {
		case "WithMaxExpressions":
			okR = prog.ctorHelper(a, fa.Fn, 0)
		default:
			okR = lookup[fa.Fn] || prog.ctorHelper(a, fa.Fn, 0) || !a.EvalSet[fa.Fn] && !a.ExecSet[fa.Fn]
			// the option's own closure / setting method may read its field (the bindings are appended to)
			if strings.HasPrefix(fa.Fn.Name(), "With") || (fa.Fn.Parent() != nil && strings.HasPrefix(fa.Fn.Parent().Name(), "With")) {
				okR = true
			}
			if !okR && ctor == "WithLocalVariable" && fa.Fn == a.CollEval && len(a.CollEval.Params) > 0 && types.Identical(a.CollEval.Params[len(a.CollEval.Params)-1].Type(), ot) {
				okR = true // the fold copies the enclosing bindings into the option set of the body (what it does with them: c06.fold)
			}
			if !okR {
				// … whatever form it has: a function that runs while the option is applied
				if applied[ctor] == nil {
					applied[ctor] = map[*ssa.Function]bool{}
					if cf := prog.BexprSSA.Func(ctor); cf != nil {
						for _, op := range optionEffect(prog, cf) {
							if op.opaque {
								continue
							}
							for _, ev := range op.sm.Events() {
								if ev.In != nil && ev.In != cf {
									applied[ctor][ev.In] = true
								}
							}
						}
					}
				}
				okR = applied[ctor][fa.Fn]
			}
		}
		r.Check(pfx+".option-read-sites", fa.Fn.Name()+":read:"+fa.Field, prog.pos(fa.Instr.Pos()), okR, "the option set by "+ctor+" is read in "+fa.Fn.Name()+": it must take effect only where the lookup is configured (tag name, hook, unknown value, bindings) or where the evaluator is created (budget)")
	}
	r.Check(pfx+".option-read-sites", "census", "", n >= 5, fmt.Sprintf("info: %d reads of option fields", n))
}

// checkMatcherOperatorBlind: the negated form of an operator is the negation, made by the dispatcher, of what the one
// matcher of the pair answers. A matcher (or a function only matchers run) that reads the expression's Operator can answer
// differently for the two members of a pair, and the two forms are no longer complements.
func checkMatcherOperatorBlind(r *Run, prog *Program, a *Anchors, pfx string) {
	part := map[*ssa.Function]bool{}
	for _, m := range a.Matchers {
		part[m] = true
	}
	for i := 0; i < 3; i++ {
		for _, f := range prog.ModuleFuncs() {
			if !part[f] && fnPkg(f) == prog.Bexpr.Types && bexprHelper(prog, a, f) && prog.contextOnly(f, func(c *ssa.Function) bool { return part[c] }) {
				part[f] = true
			}
		}
	}
	n := 0
	for _, fa := range prog.FieldAccesses(prog.ModuleFuncs()) {
		fn := fa.Fn
		for fn.Parent() != nil {
			fn = fn.Parent()
		}
		if !part[fn] {
			continue
		}
		n++
		if fa.Struct.Obj().Name() == "MatchExpression" && fa.Struct.Obj().Pkg().Path() == grammarPath && fa.Field == "Operator" && fa.Kind != "write" {
			if v, isV := fa.Instr.(ssa.Value); isV && fa.Kind == "read" && onlyFormatted(v, 0) {
				continue // named in an error message only: the answer does not depend on it
			}
			r.Check(pfx+".matcher-operator-blind", fn.Name()+":reads-Operator", prog.pos(fa.Instr.Pos()), false, "matcher "+fn.Name()+" reads the expression's Operator: what it answers may differ between an operator and its negated form, which the dispatcher negates again")
		}
	}
	r.Check(pfx+".matcher-operator-blind", "census", "", len(a.Matchers) > 0 && n > 0, fmt.Sprintf("info: %d field accesses in %d matcher functions examined", n, len(part)))
}

// checkActionsDoNotRewrite: a semantic action builds its node from the values of its labels; it does not write through
// them. A value produced by a sub-rule (a literal's MatchValue, a selector) that one action rewrites is no longer what its
// own rule said it is — and two spellings that share the sub-rule (`v in S` / `S contains v`) stop meaning the same.
func checkActionsDoNotRewrite(r *Run, prog *Program, pfx string) {
	n := 0
	for _, fn := range prog.ModuleFuncs() {
		if fn.Pkg != prog.GrammarSSA || !prog.isActionFunc(fn) || fn.Signature.Recv() == nil || !namedIs(fn.Signature.Recv().Type(), grammarPath, "current") {
			continue
		}
		n++
		for _, b := range fn.Blocks {
			for _, ins := range b.Instrs {
				var addr ssa.Value
				switch x := ins.(type) {
				case *ssa.Store:
					addr = x.Addr
				case *ssa.MapUpdate:
					addr = x.Map
				}
				if addr == nil {
					continue
				}
				root, chain := rootOf(addr)
				par, ok := root.(*ssa.Parameter)
				if !ok || len(fn.Params) == 0 || par == fn.Params[0] || len(chain) == 0 {
					continue
				}
				r.Check(pfx+".action-reads-labels", fn.Name()+":"+par.Name(), prog.pos(ins.Pos()), false, "action "+fn.Name()+" writes through its label "+par.Name()+": the value another rule produced is changed after the fact")
			}
		}
	}
	r.Check(pfx+".action-reads-labels", "census", "grammar/grammar.go", n >= 20, fmt.Sprintf("info: %d actions examined", n))
}

// onlyFormatted: the value is used for nothing but text — wrapped in an interface and handed to fmt/errors formatting, or
// turned into its name by a String method whose result is used the same way.
func onlyFormatted(v ssa.Value, depth int) bool {
	if depth > 5 {
		return false
	}
	refs := v.Referrers()
	if refs == nil {
		return true
	}
	for _, u := range *refs {
		switch x := u.(type) {
		case *ssa.DebugRef:
		case *ssa.MakeInterface:
			if !onlyFormatted(x, depth+1) {
				return false
			}
		case *ssa.Store:
			// into a slot of the argument list of a variadic call
			ia, ok := x.Addr.(*ssa.IndexAddr)
			if !ok || x.Val != v {
				return false
			}
			al, ok := ia.X.(*ssa.Alloc)
			if !ok || !strings.Contains(al.Comment, "varargs") {
				return false
			}
			if ar := al.Referrers(); ar != nil {
				for _, au := range *ar {
					if sl, ok := au.(*ssa.Slice); ok {
						if !onlyFormatted(sl, depth+1) {
							return false
						}
					}
				}
			}
		case *ssa.Call:
			callee := x.Call.StaticCallee()
			if callee == nil || callee.Pkg == nil {
				return false
			}
			switch callee.Pkg.Pkg.Path() {
			case "fmt", "errors":
				// formatting: the text is all that depends on it
			default:
				// its own String method
				if callee.Name() == "String" && len(x.Call.Args) == 1 && x.Call.Args[0] == v && callee.Signature.Results().Len() == 1 {
					if !onlyFormatted(x, depth+1) {
						return false
					}
					continue
				}
				return false
			}
		default:
			return false
		}
	}
	return true
}

// checkActionErrors: a value action fails only because a decoding routine of a library failed on the text it was given
// (strconv.Unquote, pointerstructure.Parse). The generated parser keeps the errors its actions return even when the
// alternative that ran the action is abandoned afterwards, so an action that refuses something *of its own accord*
// makes every expression fail in which that something is merely tried first — `"" in X` is tried as a selector before it
// is read as a value.
func checkActionErrors(r *Run, prog *Program, pfx string) {
	n := 0
	for _, fn := range prog.ModuleFuncs() {
		if fn.Pkg != prog.GrammarSSA || !prog.isActionFunc(fn) || fn.Signature.Recv() == nil || !namedIs(fn.Signature.Recv().Type(), grammarPath, "current") {
			continue
		}
		res := fn.Signature.Results()
		if res.Len() != 2 || isBool(res.At(0).Type()) {
			continue // predicates (`&{…}` / `!{…}` code) answer (bool, error): the error productions are made of them
		}
		n++
		ps := NewPathSim(prog)
		ps.maxVisits = 2
		ps.Inline = func(c *ssa.Function) bool { return prog.InModule(c) && !recursive(prog, c) } // node constructors the action is split into
		for _, sm := range ps.Run(fn) {
			if sm.Ret == nil || len(sm.Results) != 2 {
				continue
			}
			e := sm.Results[1]
			if errClass(sm, e) == "nil" {
				continue
			}
			justified := false
			for _, ev := range sm.Events() {
				if ev.Instr == nil || ev.Callee == nil || prog.InModule(ev.Callee) || ev.Res == nil {
					continue
				}
				rs := ev.Callee.Signature.Results()
				if rs.Len() == 0 || !isErrorType(rs.At(rs.Len()-1).Type()) || isErrorCtor(ev.Callee) {
					continue
				}
				var le *Sym = ev.Res
				if rs.Len() > 1 {
					le = &Sym{K: sRes, A: ev.Res, Idx: rs.Len() - 1}
				}
				if eq, known := evalEq(sm.St, le, nilSym()); known && !eq {
					justified = true
				}
				if le.Key() == e.Key() {
					justified = true // the library's own verdict, handed on as it is
				}
			}
			r.Check(pfx+".action-errors", fn.Name(), prog.pos(sm.Ret.Pos()), justified,
				"action "+fn.Name()+" returns an error of its own making ("+shortKey(e)+"): the parser keeps it even if this alternative is abandoned, so every expression in which the construct is only tried first is rejected [path "+strings.Join(sm.St.trail, " ")+"]")
		}
	}
	r.Check(pfx+".action-errors", "census", "grammar/grammar.go", n >= 20, fmt.Sprintf("info: %d value actions examined", n))
}
