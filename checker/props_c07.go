package main

// C07 — dotted, bracket and JSON-Pointer spellings are interchangeable.
// C08 — hidden and unexported fields never influence a result.

import (
	"fmt"
	"go/ast"
	"go/constant"
	"go/token"
	"go/types"
	"sort"
	"strings"

	"golang.org/x/tools/go/packages"
	"golang.org/x/tools/go/ssa"
	"golang.org/x/tools/go/ssa/ssautil"

	"verifcheck/peg"
)

var normalisingFuncs = map[string]bool{
	"strings.ToLower": true, "strings.ToUpper": true, "strings.Title": true, "strings.ToTitle": true, "strings.EqualFold": true,
	"strings.TrimSpace": true, "strings.Trim": true, "strings.TrimLeft": true, "strings.TrimRight": true, "strings.TrimPrefix": true, "strings.TrimSuffix": true, "strings.TrimFunc": true,
	"strings.Replace": true, "strings.ReplaceAll": true, "strings.Map": true, "strings.Fields": true,
	"unicode.ToLower": true, "unicode.ToUpper": true, "unicode.ToTitle": true, "bytes.ToLower": true, "bytes.ToUpper": true, "bytes.TrimSpace": true,
	"strconv.Atoi": true, "strconv.Itoa": true, "strconv.ParseInt": true,
}

// selectorSites: actions building a Selector value (composite literal of type Selector).
func (ga *GA) selectorActions() []*peg.Node {
	info := ga.prog.Grammar.TypesInfo
	var out []*peg.Node
	for n, fd := range ga.onOf {
		if fd == nil || n.Kind != peg.Action {
			continue
		}
		found := false
		isSel := func(t types.Type) bool {
			nn, ok := t.(*types.Named)
			return ok && nn.Obj().Name() == "Selector" && nn.Obj().Pkg() == ga.prog.Grammar.Types
		}
		ast.Inspect(fd.Body, func(x ast.Node) bool {
			if cl, ok := x.(*ast.CompositeLit); ok && isSel(info.Types[cl].Type) {
				found = true
			}
			// or the action returns a Selector value that a constructor built
			if rs, ok := x.(*ast.ReturnStmt); ok && len(rs.Results) >= 1 {
				if tv, ok := info.Types[rs.Results[0]]; ok && tv.Type != nil && isSel(tv.Type) {
					found = true
				}
			}
			return true
		})
		if found {
			out = append(out, n)
		}
	}
	sort.Slice(out, func(i, j int) bool { return out[i].Run < out[j].Run })
	return out
}

// partProducers: the action nodes whose value can become a path part of the label's node (through rule
// references, choices, repetitions and pass-through actions).
func (ga *GA) partProducers(n *peg.Node, seen map[*peg.Node]bool, out *[]*peg.Node) {
	if n == nil || seen[n] {
		return
	}
	seen[n] = true
	switch n.Kind {
	case peg.Labeled, peg.Star, peg.Plus, peg.Opt:
		ga.partProducers(n.Kids[0], seen, out)
	case peg.Choice:
		for _, k := range n.Kids {
			if !ga.neverMatches(k) {
				ga.partProducers(k, seen, out)
			}
		}
	case peg.RuleRef:
		if rr := ga.rules[n.Name]; rr != nil {
			ga.partProducers(rr.Expr, seen, out)
		}
	case peg.Action:
		*out = append(*out, n)
		// pass-through actions (`return label, nil`) forward the label's producers
		fd := ga.onOf[n]
		if fd != nil {
			info := ga.prog.Grammar.TypesInfo
			ast.Inspect(fd.Body, func(x ast.Node) bool {
				rs, ok := x.(*ast.ReturnStmt)
				if !ok || len(rs.Results) != 2 {
					return true
				}
				if id, ok := ast.Unparen(rs.Results[0]).(*ast.Ident); ok {
					for _, f := range fd.Type.Params.List {
						for _, nm := range f.Names {
							if info.Defs[nm] == info.Uses[id] {
								if ln := ga.labelNode(n, nm.Name); ln != nil {
									ga.partProducers(ln, seen, out)
								}
							}
						}
					}
				}
				return true
			})
		}
	}
}

// firstLiteralLen: byte length of the literal that starts the action's sequence ("" -> 0, no literal -> -1).
func firstLiteralLen(n *peg.Node) int {
	x := n.Kids[0]
	if x.Kind == peg.Seq && len(x.Kids) > 0 {
		x = x.Kids[0]
	}
	if x.Kind == peg.Lit {
		return len(x.Val)
	}
	return -1
}

func checkSelectorGrammar(r *Run, ga *GA, pfx string) {
	info := ga.prog.Grammar.TypesInfo
	sels := ga.selectorActions()
	r.Check(pfx+".selector-actions", "count", "grammar/grammar.go", len(sels) >= 2, fmt.Sprintf("info: %d actions build a Selector", len(sels)))
	r.Floor(pfx+".path-part", 4)
	for _, sn := range sels {
		fd := ga.onOf[sn]
		// which labels feed Path: labels whose values are appended to / placed into Path
		var labels []string
		for _, f := range fd.Type.Params.List {
			for _, nm := range f.Names {
				labels = append(labels, nm.Name)
			}
		}
		var prods []*peg.Node
		seen := map[*peg.Node]bool{}
		for _, l := range labels {
			if ln := ga.labelNode(sn, l); ln != nil {
				ga.partProducers(ln, seen, &prods)
			}
		}
		for _, pn := range prods {
			pfd := ga.onOf[pn]
			if pfd == nil {
				continue
			}
			key := pfd.Name.Name
			ok, why := true, ""
			nret := 0
			ast.Inspect(pfd.Body, func(x ast.Node) bool {
				rs, isR := x.(*ast.ReturnStmt)
				if !isR {
					return true
				}
				nret++
				if len(rs.Results) == 1 {
					// strconv.Unquote(string(c.text)) : the bracket form's string literal (C16 checks the action itself)
					if call, isC := ast.Unparen(rs.Results[0]).(*ast.CallExpr); isC && calleeIs(info, call, "strconv", "Unquote") && len(call.Args) == 1 && isMatchedText(info, pfd, resolveLocal(info, pfd.Body, call.Args[0])) {
						return true
					}
					ok, why = false, "returns "+types.ExprString(rs.Results[0])
					return true
				}
				e := ast.Unparen(rs.Results[0])
				if id, isID := ast.Unparen(rs.Results[1]).(*ast.Ident); !isID || id.Name != "nil" {
					return true // error production
				}
				switch v := e.(type) {
				case *ast.Ident:
					// pass-through of a label
					return true
				case *ast.CallExpr:
					// string(c.text[k:]) — the same bytes as string(c.text)[k:]
					if tvf, isConv := info.Types[v.Fun]; isConv && tvf.IsType() && len(v.Args) == 1 {
						if bt, isB := tvf.Type.Underlying().(*types.Basic); isB && bt.Kind() == types.String {
							if sl, isSl := ast.Unparen(v.Args[0]).(*ast.SliceExpr); isSl && sl.High == nil && sl.Max == nil && sl.Low != nil {
								whole := &ast.CallExpr{Fun: v.Fun, Args: []ast.Expr{sl.X}}
								if tvl := info.Types[sl.Low]; tvl.Value != nil && isMatchedText(info, pfd, whole) {
									k, _ := constant.Int64Val(tvl.Value)
									want := firstLiteralLen(pn)
									if int(k) != want {
										ok, why = false, fmt.Sprintf("the part drops %d bytes of the matched text but the production's leading literal is %d bytes long", k, want)
									}
									return true
								}
							}
						}
					}
					if isMatchedText(info, pfd, v) {
						// the part is the matched text itself: the production must not start with a separator literal
						if l := firstLiteralLen(pn); l > 0 {
							ok, why = false, fmt.Sprintf("the part is the whole matched text although the production starts with a %d-byte literal", l)
						}
						return true
					}
				case *ast.SliceExpr:
					if isMatchedText(info, pfd, v.X) && v.High == nil && v.Max == nil && v.Low != nil {
						tv := info.Types[v.Low]
						if tv.Value != nil {
							k, _ := constant.Int64Val(tv.Value)
							want := firstLiteralLen(pn)
							if int(k) != want {
								ok, why = false, fmt.Sprintf("the part drops %d bytes of the matched text but the production's leading literal is %d bytes long", k, want)
							}
							return true
						}
					}
				}
				ok, why = false, "a path part is computed as "+types.ExprString(e)+": parts must be the matched text (minus the one-byte separator that starts the production), unmodified — no trimming, case folding or number normalisation"
				return true
			})
			// no normalising call anywhere in a part-producing action
			ast.Inspect(pfd.Body, func(x ast.Node) bool {
				if call, isC := x.(*ast.CallExpr); isC {
					for q := range normalisingFuncs {
						i := strings.LastIndex(q, ".")
						if calleeIs(info, call, q[:i], q[i+1:]) {
							ok, why = false, "calls "+q+" on a path part"
						}
					}
				}
				return true
			})
			r.Check(pfx+".path-part", key, ga.prog.pos(pfd.Pos()), ok && nret > 0, why)
		}
		// the Selector action itself: Path made of the parts in order; JSON pointer goes through pointerstructure.Parse
		if ga.prog.SSA != nil {
			checkSelectorActionSSA(r, ga, sn, pfx)
		} else {
			checkSelectorAction(r, ga, sn, pfx)
		}
	}
	// one Selector production everywhere: every label asserted to Selector is bound to a reference to one and the same rule
	rulesUsed := map[string]bool{}
	for n, fd := range ga.onOf {
		if fd == nil {
			continue
		}
		ast.Inspect(fd.Body, func(x ast.Node) bool {
			ta, ok := x.(*ast.TypeAssertExpr)
			if !ok || ta.Type == nil {
				return true
			}
			if nn, ok := info.Types[ta.Type].Type.(*types.Named); !ok || nn.Obj().Name() != "Selector" {
				return true
			}
			if id, ok := ast.Unparen(ta.X).(*ast.Ident); ok {
				if ln := ga.labelNode(n, id.Name); ln != nil && ln.Kids[0].Kind == peg.RuleRef {
					rulesUsed[ln.Kids[0].Name] = true
				} else {
					rulesUsed["<not a rule reference>"] = true
				}
			}
			return true
		})
	}
	r.Check(pfx+".one-selector-rule", "selector-labels", "grammar/grammar.go", len(rulesUsed) == 1, fmt.Sprintf("selectors of match expressions, values and quantified collections must all come from one rule; rules used: %v", setKeys(rulesUsed)))
}

func checkSelectorAction(r *Run, ga *GA, sn *peg.Node, pfx string) {
	info := ga.prog.Grammar.TypesInfo
	fd := ga.onOf[sn]
	// selector type constant
	typ := ""
	ast.Inspect(fd.Body, func(x ast.Node) bool {
		if kv, ok := x.(*ast.KeyValueExpr); ok {
			if id, ok := kv.Key.(*ast.Ident); ok && id.Name == "Type" {
				if vid, ok := ast.Unparen(kv.Value).(*ast.Ident); ok {
					typ = vid.Name
				}
			}
		}
		return true
	})
	isPtr := typ == "SelectorTypeJsonPointer"
	// the parts are assembled in source order: Path starts with the first part (if any) and every later part is appended at the end
	orderOK, nApp := true, 0
	bodies := []*ast.BlockStmt{fd.Body}
	// helpers of package grammar called by the action take part (e.g. a shared "append the parts" function)
	ast.Inspect(fd.Body, func(x ast.Node) bool {
		if call, ok := x.(*ast.CallExpr); ok {
			if id, ok := call.Fun.(*ast.Ident); ok {
				if f, ok := info.Uses[id].(*types.Func); ok && f.Pkg() == ga.prog.Grammar.Types {
					if hd := funcDecl(ga.prog.Grammar, "", f.Name()); hd != nil && hd.Body != nil {
						bodies = append(bodies, hd.Body)
					}
				}
			}
		}
		return true
	})
	for _, body := range bodies {
		ast.Inspect(body, func(x ast.Node) bool {
			switch v := x.(type) {
			case *ast.AssignStmt:
				if len(v.Lhs) == 1 && len(v.Rhs) == 1 {
					if call, ok := ast.Unparen(v.Rhs[0]).(*ast.CallExpr); ok {
						if id, ok := call.Fun.(*ast.Ident); ok && id.Name == "append" && info.Uses[id] == types.Universe.Lookup("append") {
							nApp++
							// appended at the end of the very slice being built: x = append(x, part)
							if types.ExprString(ast.Unparen(call.Args[0])) != types.ExprString(v.Lhs[0]) || len(call.Args) != 2 || call.Ellipsis.IsValid() {
								orderOK = false
							}
						}
					}
				}
			case *ast.RangeStmt:
				// ascending range over the label's []interface{}; no index arithmetic
				if v.Key != nil {
					if id, ok := v.Key.(*ast.Ident); !ok || id.Name != "_" {
						orderOK = false
					}
				}
			case *ast.ForStmt:
				orderOK = false
			}
			return true
		})
	}
	r.Check(pfx+".selector-action", fd.Name.Name+":parts-in-order", ga.prog.pos(fd.Pos()), orderOK && nApp >= 1, "the selector's Path must be built by appending each part at the end, in source order (ranging the parts ascending)")
	var parseCall *ast.CallExpr
	ast.Inspect(fd.Body, func(x ast.Node) bool {
		if call, ok := x.(*ast.CallExpr); ok && calleeIs(info, call, "github.com/mitchellh/pointerstructure", "Parse") {
			parseCall = call
		}
		return true
	})
	if !isPtr {
		r.Check(pfx+".selector-action", fd.Name.Name, ga.prog.pos(fd.Pos()), parseCall == nil && typ == "SelectorTypeBexpr", "the dotted/bracket selector action must set SelectorTypeBexpr and use the parts as they are")
		return
	}
	var probs []string
	if parseCall == nil {
		probs = append(probs, "the JSON-Pointer selector is not validated and unescaped by pointerstructure.Parse (~1 and ~0 would not denote '/' and '~')")
	} else {
		// argument: "/" + strings.Join(<sel>.Path, "/")  (Sprintf("/%s", …) accepted)
		arg := resolveLocal(info, fd.Body, parseCall.Args[0])
		joined := false
		ast.Inspect(arg, func(x ast.Node) bool {
			if call, ok := x.(*ast.CallExpr); ok && calleeIs(info, call, "strings", "Join") && len(call.Args) == 2 {
				if tv := info.Types[call.Args[1]]; tv.Value != nil && constant.StringVal(tv.Value) == "/" {
					if sel, ok := ast.Unparen(call.Args[0]).(*ast.SelectorExpr); ok && sel.Sel.Name == "Path" {
						joined = true
					}
				}
			}
			return true
		})
		prefix := false
		switch v := ast.Unparen(arg).(type) {
		case *ast.CallExpr:
			if calleeIs(info, v, "fmt", "Sprintf") && len(v.Args) == 2 {
				if tv := info.Types[v.Args[0]]; tv.Value != nil && constant.StringVal(tv.Value) == "/%s" {
					prefix = true
				}
			}
		case *ast.BinaryExpr:
			if v.Op == token.ADD {
				if tv := info.Types[v.X]; tv.Value != nil && constant.StringVal(tv.Value) == "/" {
					prefix = true
				}
			}
		}
		if !joined || !prefix {
			probs = append(probs, "pointerstructure.Parse is not given \"/\" + the segments joined by \"/\"")
		}
		// the result's Parts replace Path; the error is returned
		var resObj, errObj types.Object
		ast.Inspect(fd.Body, func(x ast.Node) bool {
			if as, ok := x.(*ast.AssignStmt); ok && len(as.Rhs) == 1 && ast.Unparen(as.Rhs[0]) == ast.Expr(parseCall) && len(as.Lhs) == 2 {
				if id, ok := as.Lhs[0].(*ast.Ident); ok {
					resObj = info.Defs[id]
					if resObj == nil {
						resObj = info.Uses[id]
					}
				}
				if id, ok := as.Lhs[1].(*ast.Ident); ok {
					errObj = info.Defs[id]
					if errObj == nil {
						errObj = info.Uses[id]
					}
				}
			}
			return true
		})
		usesParts, returnsErr := false, false
		ast.Inspect(fd.Body, func(x ast.Node) bool {
			switch v := x.(type) {
			case *ast.AssignStmt:
				if len(v.Lhs) == 1 && len(v.Rhs) == 1 {
					if l, ok := v.Lhs[0].(*ast.SelectorExpr); ok && l.Sel.Name == "Path" {
						if rsel, ok := ast.Unparen(v.Rhs[0]).(*ast.SelectorExpr); ok && rsel.Sel.Name == "Parts" {
							if id, ok := rsel.X.(*ast.Ident); ok && resObj != nil && info.Uses[id] == resObj {
								usesParts = true
							}
						}
					}
				}
			case *ast.IfStmt:
				if b, ok := ast.Unparen(v.Cond).(*ast.BinaryExpr); ok && b.Op == token.NEQ {
					if id, ok := ast.Unparen(b.X).(*ast.Ident); ok && errObj != nil && info.Uses[id] == errObj {
						for _, st := range v.Body.List {
							if rs, ok := st.(*ast.ReturnStmt); ok && len(rs.Results) == 2 {
								if id2, ok := ast.Unparen(rs.Results[1]).(*ast.Ident); !ok || id2.Name != "nil" {
									returnsErr = true
								}
							}
						}
					}
				}
			}
			return true
		})
		if !usesParts {
			probs = append(probs, "the parts unescaped by pointerstructure.Parse do not replace the selector's Path (escapes ~0/~1 stay undecoded)")
		}
		// unconditionally: the parse and the replacement are top-level statements of the action and the only error-free
		// return is the action's last statement (no path around the unescaping)
		topParse, topParts := false, false
		for _, st := range fd.Body.List {
			if as, ok := st.(*ast.AssignStmt); ok && len(as.Rhs) == 1 {
				if ast.Unparen(as.Rhs[0]) == ast.Expr(parseCall) {
					topParse = true
				}
				if len(as.Lhs) == 1 {
					if l, ok := as.Lhs[0].(*ast.SelectorExpr); ok && l.Sel.Name == "Path" {
						if rsel, ok := ast.Unparen(as.Rhs[0]).(*ast.SelectorExpr); ok && rsel.Sel.Name == "Parts" {
							topParts = true
						}
					}
				}
			}
		}
		okReturns := 0
		var lastOK ast.Stmt
		ast.Inspect(fd.Body, func(x ast.Node) bool {
			if rs, ok := x.(*ast.ReturnStmt); ok && len(rs.Results) == 2 {
				if id, ok := ast.Unparen(rs.Results[1]).(*ast.Ident); ok && id.Name == "nil" {
					okReturns++
					lastOK = rs
				}
			}
			return true
		})
		if !topParse || !topParts || okReturns != 1 || len(fd.Body.List) == 0 || fd.Body.List[len(fd.Body.List)-1] != lastOK {
			probs = append(probs, "the JSON-Pointer selector can be returned on a path that does not go through pointerstructure.Parse and the replacement of Path by its Parts")
		}
		if !returnsErr {
			probs = append(probs, "an invalid JSON pointer is not reported as an error")
		}
	}
	r.Check(pfx+".selector-action", fd.Name.Name+":json-pointer", ga.prog.pos(fd.Pos()), len(probs) == 0, strings.Join(probs, "; "))
}

// checkSpellingBlind: package bexpr never looks at Selector.Type, and Selector.String()/whole selectors only feed error messages.
func checkSpellingBlind(r *Run, prog *Program, a *Anchors, pfx string) {
	selT := prog.grammarType("Selector")
	for _, fa := range prog.FieldAccesses(prog.ModuleFuncs()) {
		if fa.Struct == selT && fa.Field == "Type" && fa.Kind == "read" && fnPkg(fa.Fn) == prog.Bexpr.Types {
			r.Check(pfx+".spelling-blind", fa.Fn.Name()+":read:Selector.Type", prog.pos(fa.Instr.Pos()), false, "evaluation code reads Selector.Type: the outcome could depend on how a path was spelled")
		}
	}
	strM := prog.Method(prog.GrammarSSA, "Selector", "String", false)
	n := 0
	for _, fn := range prog.ModuleFuncs() {
		if fnPkg(fn) != prog.Bexpr.Types {
			continue
		}
		for _, b := range fn.Blocks {
			for _, ins := range b.Instrs {
				var v ssa.Value
				switch x := ins.(type) {
				case *ssa.Call:
					if strM != nil && x.Call.StaticCallee() == strM {
						v = x
					}
				case *ssa.MakeInterface:
					if st := structOf(x.X.Type()); st != nil && st == selT {
						v = x
					}
				}
				if v == nil {
					continue
				}
				n++
				ok := onlyFeedsErrors(v, 0)
				r.Check(pfx+".spelling-blind", fn.Name()+":selector-text", prog.pos(ins.Pos()), ok, "the textual form of a selector is used for something other than an error message")
			}
		}
	}
	r.Check(pfx+".spelling-blind", "census", "", true, fmt.Sprintf("info: %d uses of a selector's textual form in package bexpr, all in error messages", n))
	// no normalisation of path parts on the way to the lookup
	for fn := range a.EvalSet {
		for _, b := range fn.Blocks {
			for _, ins := range b.Instrs {
				if c, ok := ins.(*ssa.Call); ok {
					if callee := c.Call.StaticCallee(); callee != nil && callee.Pkg != nil {
						q := callee.Pkg.Pkg.Path() + "." + callee.Name()
						if normalisingFuncs[q] && q != "strconv.Itoa" {
							// string arguments derived from a path?
							for _, arg := range c.Call.Args {
								if root, _ := rootOf(arg); root != nil {
									if p, isP := root.(*ssa.Parameter); isP && p.Name() == "path" {
										r.Check(pfx+".no-normalisation", fn.Name()+":"+q, prog.pos(c.Pos()), false, q+" is applied to a path part: parts must match keys and field names exactly")
									}
								}
							}
						}
					}
				}
			}
		}
	}
	r.Check(pfx+".no-normalisation", "census", "", true, "info: no case-folding/trimming call reaches a path part on the evaluation path")
}

// onlyFeedsErrors: v flows only into the variadic arguments of fmt.Errorf / errors.New.
func onlyFeedsErrors(v ssa.Value, depth int) bool {
	if depth > 5 {
		return false
	}
	refs := v.Referrers()
	if refs == nil {
		return true
	}
	for _, u := range *refs {
		switch x := u.(type) {
		case *ssa.DebugRef:
		case *ssa.MakeInterface:
			if !onlyFeedsErrors(x, depth+1) {
				return false
			}
		case *ssa.Store:
			// into a varargs array that is passed to fmt.Errorf
			ia, ok := x.Addr.(*ssa.IndexAddr)
			if !ok {
				return false
			}
			al, ok := ia.X.(*ssa.Alloc)
			if !ok {
				return false
			}
			okUse := false
			for _, u2 := range *al.Referrers() {
				if sl, ok := u2.(*ssa.Slice); ok {
					for _, u3 := range *sl.Referrers() {
						if c, ok := u3.(*ssa.Call); ok && isErrorCtor(c.Call.StaticCallee()) {
							okUse = true
						} else if _, isD := u3.(*ssa.DebugRef); !isD {
							return false
						}
					}
				}
			}
			if !okUse {
				return false
			}
		case *ssa.Call:
			if !isErrorCtor(x.Call.StaticCallee()) {
				return false
			}
		default:
			return false
		}
	}
	return true
}

func init() {
	register("C07", true, func(r *Run, prog *Program) {
		a := FindAnchors(prog)
		if !a.Require(r, "c07.anchors") {
			return
		}
		g := loadGrammars(r, prog)
		if g == nil {
			return
		}
		ga := NewGA(prog, g.Tab)
		checkSelectorGrammar(r, ga, "c07")
		checkSpellingBlind(r, prog, a, "c07")
		r.importing = "C05"
		checkLookupArgs(r, prog, a, a.MatchEval, "c05")
		checkLookupArgs(r, prog, a, a.CollEval, "c05")
		checkValueLookup(r, prog, a, "c05") // one lookup, with the path parts as they are (no retry under another spelling of the parts)
		// a part written in brackets is a string literal, a JSON-Pointer segment is drawn from character classes: the
		// spellings name the same part only if the literal is decoded by the documented rules and the classes are Unicode's
		r.importing = "C16"
		checkLiteralFidelity(r, ga)
		r.importing = "C16"
		checkKeywordBoundary(r, ga, "c16") // a dotted selector that begins like a keyword (`notes.b`) is the selector its other spellings are
		r.importing = "C15"
		checkEngineInvariants(r, prog, "c15") // a part written in brackets holds whatever characters it holds (U+FFFD is one)
		checkRuleRefAndClasses(r, prog, "c15")
		checkPegCombinators(r, prog, "c15") // … every class the segment rule names is consulted (\pL, \pN, …): a digit segment of a pointer is a segment
		// the parts looked up are the parts of this expression's text: the tree evaluated is the parse of exactly that text
		r.importing = "C18"
		checkGetOpts(r, prog, a, "c18") // no spelling costs more than another can afford: no budget unless one is asked for
		r.importing = "C03"
		checkASTIntegrity(r, prog, a, "c03")
		checkTreeHandedOver(r, prog, a, "c03")
		r.importing = ""
		r.Technique = "typed-AST analysis of the grammar actions that produce path parts (offset rule: bytes dropped = length of the production's leading literal; pass-through and whole-match forms only), of the JSON-pointer action (pointerstructure.Parse wiring), rule-reference identity for every selector label; field-read / call census in package bexpr (spelling-blindness, no normalisation)"
		r.Explain = "Decides: evaluation consumes Selector.Path only (no read of Selector.Type in package bexpr; a selector's text feeds error messages only; both consumers pass exactly Selector.Path to the lookup); every action whose value can become a path part returns the matched text, the matched text minus exactly the one-byte separator that starts its production, a passed-through label, or the unquoted string literal of the bracket form — no trimming, case folding or numeric normalisation; the JSON-pointer action joins its segments with '/', prefixes '/', hands that to pointerstructure.Parse, replaces Path by the parsed Parts and returns a parse error; all selector labels reference one and the same rule (so quantified collections and bodies use the same production). NOT decided: pointerstructure.Parse's RFC 6901 unescaping and pointerstructure's exact matching of parts against keys/fields (read, trusted)."
		r.Assume = append(r.Assume, "pointerstructure.Parse decodes ~1 and ~0 per RFC 6901; getMap/getStruct match parts exactly")
	})
	register("C08", true, func(r *Run, prog *Program) {
		a := FindAnchors(prog)
		if !a.Require(r, "c08.anchors") {
			return
		}
		checkNoStructBypass(r, prog, a, "c08")
		r.importing = "C18"
		checkOptionConstructors(r, prog, "c18") // the tag name that hides a field is the tag name that was given, as given
		r.importing = ""
		r.importing = "C05"
		checkValueLookup(r, prog, a, "c05")
		r.importing = "C18"
		checkEvaluatorPipeline(r, prog, a, "c18")
		checkForwarding(r, prog, a, "c18")
		checkGetOpts(r, prog, a, "c18") // the default tag name is `bexpr`
		r.importing = "C17"
		checkFilter(r, prog, a, "c17") // "identical Filter selections": an element is kept or dropped by its Evaluate verdict alone, never by whether it can be found again under its key
		r.importing = ""
		r.Technique = "who-may-call census over everything reachable from Evaluate/Execute (forbidden: struct-field reflection, whole-value comparison, interface equality on datum values), with a living positive-control package; single-gateway census of calls into pointerstructure; gateway Config provenance and tag-name pipeline imported from C05/C18; kind-table row for Struct"
		r.Explain = "Decides: no module code reachable from Evaluate or Execute can observe a struct field except through pointerstructure.Pointer.Get: zero calls to reflect's Field*/NumField/FieldBy*/VisibleFields/IsZero/Equal/DeepEqual/Comparable and no ==/!= between empty-interface operands (the same rule flags every forbidden construct of a positive-control package on every run); the only entries into pointerstructure are Pointer.Get, Pointer.String and Parse; both Get sites carry the evaluator's tag name and hook (C05 gateway rule), the tag name travels creation → Evaluator → every Evaluate → every sub-evaluation (C18 pipeline and forwarding); structs are never operands (no comparator, no is-empty/in/quantifier arm for Struct — C09's kind obligations make those error branches). NOT decided: pointerstructure.getStruct's own handling of '-', unexported and renamed fields (read: skips PkgPath != \"\", honours '-', matches a tagged field only by its tag)."
		r.Assume = append(r.Assume, "pointerstructure.getStruct filters hidden/unexported fields as read in v1.2.1")
	})
}

var forbiddenReflect = map[string]bool{"Field": true, "FieldByName": true, "FieldByIndex": true, "FieldByNameFunc": true, "FieldByIndexErr": true, "NumField": true,
	"IsZero": true, "Equal": true, "Comparable": true, "SetZero": true, "VisibleFields": true, "DeepEqual": true}

// scanStructBypass returns the forbidden constructs found in fns.
func scanStructBypass(fns []*ssa.Function) []string {
	var out []string
	for _, fn := range fns {
		for _, b := range fn.Blocks {
			for _, ins := range b.Instrs {
				switch x := ins.(type) {
				case ssa.CallInstruction:
					com := x.Common()
					name, pkg := "", ""
					if com.IsInvoke() {
						if isReflectType(com.Value.Type()) {
							name, pkg = com.Method.Name(), "reflect"
						}
					} else if callee := com.StaticCallee(); callee != nil && callee.Pkg != nil {
						name, pkg = callee.Name(), callee.Pkg.Pkg.Path()
					}
					if pkg == "reflect" && forbiddenReflect[name] {
						out = append(out, fmt.Sprintf("%s: reflect %s", fn.Name(), name))
					}
				case *ssa.BinOp:
					if x.Op == token.EQL || x.Op == token.NEQ {
						if isEmptyIface(x.X.Type()) && isEmptyIface(x.Y.Type()) {
							_, cx := x.X.(*ssa.Const)
							_, cy := x.Y.(*ssa.Const)
							if !cx && !cy {
								out = append(out, fmt.Sprintf("%s: == on interface{} values", fn.Name()))
							}
						}
					}
				}
			}
		}
	}
	sort.Strings(out)
	return out
}

// scanDatumInspection: constructs that look inside an interface{} value without going through the gateway: a type
// assertion / type switch on an interface{} *parameter*, a map lookup or range on such a value, and rendering a
// reflected value with fmt.Sprint*/Fprint*/Append* (which prints every field of a struct, hidden ones included).
func scanDatumInspection(prog *Program, fns []*ssa.Function, cmp map[*ssa.Function]bool) []string {
	var out []string
	for _, fn := range fns {
		if cmp[fn] {
			continue // comparators assert the *literal*, not the datum
		}
		for _, b := range fn.Blocks {
			for _, ins := range b.Instrs {
				switch x := ins.(type) {
				case *ssa.TypeAssert:
					if ifc, ok := x.AssertedType.Underlying().(*types.Interface); ok && ifc.NumMethods() > 0 && isEmptyIface(x.X.Type()) {
						out = append(out, fmt.Sprintf("%s: a value is asserted to interface %s: its methods are foreign code that sees every field of the datum", fn.Name(), x.AssertedType))
					}
					if root, _ := rootOf(x.X); root != nil {
						if p, ok := root.(*ssa.Parameter); ok && isEmptyIface(p.Type()) && isEmptyIface(x.X.Type()) {
							// asserting a scalar-like type (json.Number, string, …) looks at no field; containers and pointers do
							switch x.AssertedType.Underlying().(type) {
							case *types.Map, *types.Struct, *types.Slice, *types.Array, *types.Pointer, *types.Interface:
								out = append(out, fmt.Sprintf("%s: type assertion of interface{} parameter %s to %s", fn.Name(), p.Name(), x.AssertedType))
							}
						}
					}
				case *ssa.Call:
					callee := x.Call.StaticCallee()
					if callee == nil || callee.Pkg == nil || callee.Pkg.Pkg.Path() != "fmt" {
						continue
					}
					switch callee.Name() {
					case "Sprint", "Sprintf", "Sprintln", "Fprint", "Fprintf", "Fprintln", "Append", "Appendf", "Appendln", "Errorf":
					default:
						continue
					}
					// variadic arguments: values stored into the argument array
					for _, arg := range x.Call.Args {
						sl, ok := arg.(*ssa.Slice)
						if !ok {
							continue
						}
						al, ok := sl.X.(*ssa.Alloc)
						if !ok || al.Referrers() == nil {
							continue
						}
						for _, u := range *al.Referrers() {
							ia, ok := u.(*ssa.IndexAddr)
							if !ok || ia.Referrers() == nil {
								continue
							}
							for _, u2 := range *ia.Referrers() {
								st, ok := u2.(*ssa.Store)
								if !ok {
									continue
								}
								v := st.Val
								if mi, ok := v.(*ssa.MakeInterface); ok {
									v = mi.X
								}
								root, _ := rootOf(v)
								if c, ok := root.(*ssa.Call); ok && isReflectMethod(c.Call.StaticCallee(), "Interface") {
									out = append(out, fmt.Sprintf("%s: fmt.%s renders a reflected datum value", fn.Name(), callee.Name()))
								}
								if isReflectValue(v.Type()) {
									out = append(out, fmt.Sprintf("%s: fmt.%s renders a reflect.Value", fn.Name(), callee.Name()))
								}
							}
						}
					}
				}
			}
		}
	}
	sort.Strings(out)
	return out
}

func checkNoStructBypass(r *Run, prog *Program, a *Anchors, pfx string) {
	set := map[*ssa.Function]bool{}
	for f := range a.EvalSet {
		set[f] = true
	}
	for f := range a.ExecSet {
		set[f] = true
	}
	fns := sortedFuncs(set)
	for _, f := range fns {
		r.Analysed(f.String())
	}
	hits := scanStructBypass(fns)
	r.Check(pfx+".no-struct-bypass", "reachable-from-Evaluate/Execute", "", len(hits) == 0, fmt.Sprintf("struct contents can be observed without pointerstructure's field filtering: %v", hits))
	cmp := map[*ssa.Function]bool{}
	for _, f := range buildKindTables(prog, a).eq {
		if f != nil {
			cmp[f] = true
		}
	}
	insp := scanDatumInspection(prog, fns, cmp)
	r.Check(pfx+".no-struct-bypass", "datum-inspected-outside-gateway", "", len(insp) == 0, fmt.Sprintf("a datum value is inspected or rendered without going through pointerstructure.Pointer.Get: %v", insp))
	r.Check(pfx+".no-struct-bypass", "census", "", len(fns) >= 30, fmt.Sprintf("info: %d module functions reachable from Evaluate/Execute scanned", len(fns)))
	// positive control: the same scan must flag every construct of the control package
	ctl := loadControl(prog, "c08pos")
	if ctl == nil {
		r.Fail("undecided", pfx+".positive-control", "load", "/verif/checker/testdata/c08pos", "cannot load the positive-control package")
	} else {
		ch := scanStructBypass(ctl)
		r.Check(pfx+".positive-control", "c08pos", "/verif/checker/testdata/c08pos/pos.go", len(ch) >= 6, fmt.Sprintf("the struct-bypass rule matched only %d of the ≥6 forbidden constructs of its positive-control package: %v", len(ch), ch))
		ci := scanDatumInspection(prog, ctl, nil)
		r.Check(pfx+".positive-control", "c08pos:inspection", "/verif/checker/testdata/c08pos/pos.go", len(ci) >= 3, fmt.Sprintf("the datum-inspection rule matched only %d of the ≥3 constructs of its positive-control package: %v", len(ci), ci))
	}
	checkSingleGateway(r, prog, a, pfx)
	// structs are never operands
	kt := buildKindTables(prog, a)
	r.Check(pfx+".struct-not-an-operand", "equality-table", prog.pos(a.EqTable.Pos()), kt.eq[kStruct] == nil, "the equality table has a comparator for Struct")
}

// loadControl loads /verif/checker/testdata/<name> (stdlib only) and returns its functions.
func loadControl(prog *Program, name string) []*ssa.Function {
	dir := verifHome() + "/checker/testdata/" + name
	cfg := &packages.Config{Mode: packages.LoadAllSyntax, Dir: dir, Env: loadEnv("", "")}
	pkgs, err := packages.Load(cfg, ".")
	if err != nil || len(pkgs) != 1 || len(pkgs[0].Errors) > 0 {
		return nil
	}
	sp, spkgs := ssautil.AllPackages(pkgs, 0)
	sp.Build()
	var out []*ssa.Function
	for _, m := range spkgs[0].Members {
		if f, ok := m.(*ssa.Function); ok {
			out = append(out, f)
		}
	}
	return out
}

// checkSingleGateway: the only calls into pointerstructure are Pointer.Get, Pointer.String, Pointer.Parent and Parse.
func checkSingleGateway(r *Run, prog *Program, a *Anchors, pfx string) {
	// single gateway into pointerstructure
	// Parent: the same pointer (same Config) without its last part — it reads nothing from a datum
	allowed := map[string]bool{"Get": true, "String": true, "Parse": true, "Parent": true}
	seen := map[string]bool{}
	for _, fn := range prog.ModuleFuncs() {
		for _, b := range fn.Blocks {
			for _, ins := range b.Instrs {
				c, ok := ins.(ssa.CallInstruction)
				if !ok {
					continue
				}
				callee := c.Common().StaticCallee()
				if callee == nil || callee.Pkg == nil || callee.Pkg.Pkg.Path() != "github.com/mitchellh/pointerstructure" {
					continue
				}
				name := callee.Name()
				if name == "init" && fn.Name() == "init" {
					continue // package initialisation order, not a data path
				}
				isMethod := callee.Signature.Recv() != nil
				okC := allowed[name] && (isMethod || name == "Parse")
				seen[name] = true
				r.Check(pfx+".single-gateway", fn.Name()+"→pointerstructure."+name, prog.pos(ins.Pos()), okC, "module code enters pointerstructure through "+callee.String()+": the only gateways are Pointer.Get (with the evaluator's Config), Pointer.String, Pointer.Parent and Parse")
			}
		}
	}
	r.Check(pfx+".single-gateway", "Get-used", "", seen["Get"], "no call to pointerstructure.Pointer.Get found")
}
