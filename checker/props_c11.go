package main

// C11 — WithMaxExpressions is an exact, monotone budget: a non-interference
// argument whose premises are all censuses.

import (
	"fmt"
	"go/constant"
	"go/token"
	"go/types"
	"sort"
	"strings"

	"golang.org/x/tools/go/ssa"
)

func isFieldOf(fa FieldAccess, pkgPath, typ, field string) bool {
	return fa.Struct.Obj().Name() == typ && fa.Struct.Obj().Pkg() != nil && fa.Struct.Obj().Pkg().Path() == pkgPath && fa.Field == field
}

func checkBudget(r *Run, prog *Program, a *Anchors, pfx string) {
	fas := prog.FieldAccesses(prog.ModuleFuncs())
	parseExpr := prog.Method(prog.GrammarSSA, "parser", "parseExpr", true)
	newParser := prog.GrammarSSA.Func("newParser")
	maxExprOpt := prog.GrammarSSA.Func("MaxExpressions")
	if parseExpr == nil || newParser == nil || maxExprOpt == nil {
		r.Fail("unresolved-anchor", pfx+".budget", "parser anchors", "grammar/grammar.go", "parseExpr / newParser / MaxExpressions not found")
		return
	}
	r.Analysed(parseExpr.String())
	r.Analysed(newParser.String())
	budgetField := budgetFieldOf(prog, maxExprOpt)
	roleField, budgetFns := budgetOptionOf(prog, maxExprOpt)
	// --- 2. one counter, one writer, one test
	var cntWrites, cntReads, maxWrites, maxReads []FieldAccess
	for _, fa := range fas {
		switch {
		case isFieldOf(fa, grammarPath, "Stats", "ExprCnt"):
			switch fa.Kind {
			case "write":
				cntWrites = append(cntWrites, fa)
			case "read":
				cntReads = append(cntReads, fa)
			default:
				r.Check(pfx+".counter-census", fa.Fn.Name()+":ExprCnt:"+fa.Kind, prog.pos(fa.Instr.Pos()), false, "the address of the step counter escapes: it can be modified elsewhere")
			}
		case isFieldOf(fa, grammarPath, "parser", budgetField):
			switch fa.Kind {
			case "write":
				maxWrites = append(maxWrites, fa)
			case "read":
				maxReads = append(maxReads, fa)
			default:
				r.Check(pfx+".counter-census", fa.Fn.Name()+":maxExprCnt:"+fa.Kind, prog.pos(fa.Instr.Pos()), false, "the address of the budget escapes")
			}
		}
	}
	// also: whole-struct stores to *Stats / parser.Stats pointer replacements
	statsPtrWrites := 0
	for _, fa := range fas {
		if isFieldOf(fa, grammarPath, "parser", "Stats") && fa.Kind == "write" {
			statsPtrWrites++
			r.Check(pfx+".counter-census", fa.Fn.Name()+":parser.Stats", prog.pos(fa.Instr.Pos()), ctorPart(prog, newParser, fa.Fn), "parser.Stats (which holds the step counter) is replaced outside newParser")
			// every parse starts counting at zero: the record is a fresh allocation of newParser
			root, _ := rootOf(fa.Val)
			al, isAlloc := root.(*ssa.Alloc)
			fresh := isAlloc && ctorPart(prog, newParser, al.Parent())
			r.Check(pfx+".counter-census", fa.Fn.Name()+":parser.Stats:fresh", prog.pos(fa.Instr.Pos()), fresh, "the record holding the step counter is not a fresh allocation of newParser ("+describeRoot(prog, fa.Val)+"): a parse could start with a count left over from an earlier one")
		}
	}
	r.Check(pfx+".counter-census", "parser.Stats:writers", prog.pos(newParser.Pos()), statsPtrWrites == 1, fmt.Sprintf("%d writers of parser.Stats (expected one, in newParser)", statsPtrWrites))
	// the counting function: parseExpr itself, or a helper parseExpr calls first thing
	counter := parseExpr
	if len(cntWrites) == 1 && cntWrites[0].Fn != parseExpr {
		w := cntWrites[0].Fn
		ncall, okCall := 0, false
		if n := prog.CG.Nodes[w]; n != nil {
			for _, e := range n.In {
				if isSynthetic(e.Caller.Func) {
					continue
				}
				ncall++
				if e.Caller.Func == parseExpr && e.Site != nil && e.Site.Block() == parseExpr.Blocks[0] {
					// nothing but field loads before it
					okCall = true
					for _, ins := range parseExpr.Blocks[0].Instrs {
						if ins == ssa.Instruction(e.Site.(*ssa.Call)) {
							break
						}
						switch ins.(type) {
						case *ssa.Call, *ssa.TypeAssert, *ssa.Store:
							okCall = false
						}
					}
				}
			}
		}
		if ncall == 1 && okCall {
			counter = w
		}
	}
	okW := len(cntWrites) == 1 && cntWrites[0].Fn == counter
	if okW {
		// value = load(ExprCnt) + 1
		bo, ok := cntWrites[0].Val.(*ssa.BinOp)
		okW = ok && bo.Op == token.ADD
		if okW {
			c, isC := bo.Y.(*ssa.Const)
			ld, isLd := bo.X.(*ssa.UnOp)
			okW = isC && isLd
			if okW {
				v, _ := constant.Int64Val(c.Value)
				fa, isFA := ld.X.(*ssa.FieldAddr)
				okW = v == 1 && isFA && fieldName(fa.X.Type(), fa.Field) == "ExprCnt"
			}
		}
	}
	var wdesc []string
	for _, w := range cntWrites {
		wdesc = append(wdesc, w.Fn.Name()+"@"+prog.pos(w.Instr.Pos()))
	}
	r.Check(pfx+".counter-census", "ExprCnt:writers", prog.pos(parseExpr.Pos()), okW, "the step counter must have exactly one writer, `ExprCnt = ExprCnt + 1` in parseExpr; writers: "+strings.Join(wdesc, ", "))
	// reads of the counter: the increment and one comparison, both in parseExpr
	var cmp *ssa.BinOp
	for _, rd := range cntReads {
		ok := rd.Fn == counter
		use := "?"
		if v, isV := rd.Instr.(ssa.Value); isV && v.Referrers() != nil {
			for _, u := range *v.Referrers() {
				if bo, isBO := u.(*ssa.BinOp); isBO {
					switch bo.Op {
					case token.ADD:
						use = "increment"
					case token.GTR, token.GEQ, token.LSS, token.LEQ:
						use = "comparison"
						cmp = bo
					default:
						use = "other:" + bo.Op.String()
						ok = false
					}
				} else if _, isD := u.(*ssa.DebugRef); !isD {
					use = fmt.Sprintf("other:%T", u)
					ok = false
				}
			}
		}
		r.Check(pfx+".counter-census", rd.Fn.Name()+":ExprCnt:read:"+use, prog.pos(rd.Instr.Pos()), ok, "the step counter is read outside its increment and its one comparison in parseExpr: a limited run could then differ from the unlimited one before the limit is hit")
	}
	// reads of the budget: the comparison, the zero test in newParser, the old-value read in the option
	for _, rd := range maxReads {
		ok := false
		where := rd.Fn.Name()
		switch {
		case rd.Fn == counter:
			ok = true
		case ctorPart(prog, newParser, rd.Fn):
			ok = true
		case rd.Fn.Parent() == maxExprOpt || budgetFns[rd.Fn]:
			ok = true
		}
		r.Check(pfx+".counter-census", where+":maxExprCnt:read", prog.pos(rd.Instr.Pos()), ok, "the budget is read outside parseExpr's comparison, newParser's zero test and the option's old-value read")
	}
	for _, w := range maxWrites {
		ok := false
		switch {
		case w.Fn.Parent() == maxExprOpt:
			// the captured parameter, unmodified
			_, ok = w.Val.(*ssa.FreeVar)
			if !ok {
				if ld, isLd := w.Val.(*ssa.UnOp); isLd {
					_, ok = ld.X.(*ssa.FreeVar)
				}
			}
		case budgetFns[w.Fn]:
			// a method of the setting type MaxExpressions returns bound: the effect analysis found it storing the
			// constructor's own parameter
			ok = budgetField != "" && budgetField == roleField
		case ctorPart(prog, newParser, w.Fn):
			if c, isC := w.Val.(*ssa.Const); isC && c.Value != nil {
				if u, exact := constant.Uint64Val(c.Value); exact && u == ^uint64(0) {
					ok = true
				}
			}
			if !ok {
				// not the constant itself: the paths of newParser decide (zero → largest value, anything else unchanged)
				ok = zeroMappingOnPaths(prog, newParser, budgetField) == ""
			}
		}
		r.Check(pfx+".counter-census", w.Fn.Name()+":maxExprCnt:write", prog.pos(w.Instr.Pos()), ok, "the budget is written with something other than the option's own parameter (unmodified) or the `unlimited` constant in newParser")
	}
	// the comparison: counter vs budget, exceeded edge panics with errMaxExprCnt, both dominate the dispatch
	okCmp := false
	if cmp != nil && cmp.Block() == counter.Blocks[0] {
		ldM, isLd := cmp.Y.(*ssa.UnOp)
		cmpOp := cmp.Op
		if ldX, isLdX := cmp.X.(*ssa.UnOp); isLdX {
			// `budget < counter` is `counter > budget`
			if fa, isFA := ldX.X.(*ssa.FieldAddr); isFA && fieldName(fa.X.Type(), fa.Field) == budgetField {
				ldM, isLd = ldX, true
				cmpOp = map[token.Token]token.Token{token.LSS: token.GTR, token.LEQ: token.GEQ, token.GTR: token.LSS, token.GEQ: token.LEQ}[cmp.Op]
			}
		}
		if isLd {
			if fa, isFA := ldM.X.(*ssa.FieldAddr); isFA && fieldName(fa.X.Type(), fa.Field) == budgetField {
				if ifi, isIf := cmp.Block().Instrs[len(cmp.Block().Instrs)-1].(*ssa.If); isIf && ifi.Cond == ssa.Value(cmp) {
					// the edge on which the counter exceeds the budget
					exceeded := -1
					switch cmpOp {
					case token.GTR, token.GEQ:
						exceeded = 0
					case token.LEQ, token.LSS:
						exceeded = 1
					}
					if exceeded >= 0 {
						pb := cmp.Block().Succs[exceeded]
						if pn, isP := pb.Instrs[len(pb.Instrs)-1].(*ssa.Panic); isP {
							root, _ := rootOf(pn.X)
							if g, isG := root.(*ssa.Global); isG && g.Name() == "errMaxExprCnt" {
								okCmp = true
							}
						}
						// the other edge must not panic
						ob := cmp.Block().Succs[1-exceeded]
						if _, isP := ob.Instrs[len(ob.Instrs)-1].(*ssa.Panic); isP {
							okCmp = false
						}
					}
				}
			}
		}
	}
	r.Check(pfx+".budget-test", "parseExpr:compare-and-panic", prog.pos(parseExpr.Pos()), okCmp, "parseExpr's entry block must compare the counter with the budget (`>`/`>=`) and panic with errMaxExprCnt on the exceeded edge")
	// every dispatch arm (type assertions / calls to parse*Expr) is dominated by the not-exceeded edge
	if okCmp && counter != parseExpr {
		// the counting helper is called first thing in parseExpr's entry block (checked above): it precedes the whole dispatch
		r.Check(pfx+".budget-test", "parseExpr:test-dominates-dispatch", prog.pos(parseExpr.Pos()), true, "info: counting helper "+counter.Name()+" is the first call of parseExpr")
	}
	if okCmp && counter == parseExpr {
		cont := parseExpr.Blocks[0].Succs[1]
		bad := 0
		for _, b := range parseExpr.Blocks {
			for _, ins := range b.Instrs {
				switch ins.(type) {
				case *ssa.TypeAssert, *ssa.Call:
					if b != parseExpr.Blocks[0] && !cont.Dominates(b) {
						bad++
					}
					if b == parseExpr.Blocks[0] {
						if _, isCall := ins.(*ssa.Call); isCall {
							bad++
						}
					}
				}
			}
		}
		r.Check(pfx+".budget-test", "parseExpr:test-dominates-dispatch", prog.pos(parseExpr.Pos()), bad == 0, fmt.Sprintf("%d dispatch instructions of parseExpr are not dominated by the budget test", bad))
	}
	// --- 3. every step is counted: engine methods are only entered through parseExpr
	allowedCallers := map[string]map[string]bool{}
	engine := []string{}
	for _, fn := range prog.ModuleFuncs() {
		if fn.Signature.Recv() == nil || !namedIs(fn.Signature.Recv().Type(), grammarPath, "parser") {
			continue
		}
		n := fn.Name()
		// the combinators proper: what parseExpr dispatches to (a helper that wraps a call of parseExpr — push a frame,
		// parse, pop it — is entered from wherever that triple was written out and counts through the parseExpr it calls)
		dispatched := false
		if pn := prog.CG.Nodes[parseExpr]; pn != nil {
			for _, e := range pn.Out {
				if e.Callee.Func == fn {
					dispatched = true
				}
				// dispatch through a one-line method of the node (`expr.(parsable).parseWith(p)`): what such a method —
				// entered from parseExpr only — calls is what parseExpr dispatches to
				mid := e.Callee.Func
				if mid == nil || mid == fn || mid == parseExpr || !prog.InModule(mid) {
					continue
				}
				if rv := mid.Signature.Recv(); rv != nil && namedIs(rv.Type(), grammarPath, "parser") {
					continue
				}
				onlyFromParseExpr := true
				if mn := prog.CG.Nodes[mid]; mn != nil {
					for _, in := range mn.In {
						if in.Caller.Func != parseExpr && !isSynthetic(in.Caller.Func) {
							onlyFromParseExpr = false
						}
					}
					if onlyFromParseExpr {
						for _, e2 := range mn.Out {
							if e2.Callee.Func == fn {
								dispatched = true
							}
						}
					}
				}
			}
		}
		if dispatched && n != "parseExpr" {
			engine = append(engine, n)
			allowedCallers[n] = map[string]bool{"parseExpr": true}
			// … or one of those one-line dispatch methods
			if fnn := prog.CG.Nodes[fn]; fnn != nil {
				for _, in := range fnn.In {
					c := in.Caller.Func
					if c == nil || c == parseExpr || isSynthetic(c) {
						continue
					}
					if rv := c.Signature.Recv(); rv != nil && namedIs(rv.Type(), grammarPath, "parser") {
						continue
					}
					only := true
					if cn := prog.CG.Nodes[c]; cn != nil {
						for _, in2 := range cn.In {
							if in2.Caller.Func != parseExpr && !isSynthetic(in2.Caller.Func) {
								only = false
							}
						}
					}
					if only {
						allowedCallers[n][c.Name()] = true
					}
				}
			}
		}
	}
	allowedCallers["parseRule"] = map[string]bool{"parse": true, "parseRuleRefExpr": true}
	allowedCallers["parseExpr"] = nil // anyone inside the engine may recurse through it
	r.Floor(pfx+".every-step-counted", 12)
	for name, allowed := range allowedCallers {
		if allowed == nil {
			continue
		}
		fn := prog.Method(prog.GrammarSSA, "parser", name, true)
		if fn == nil {
			continue
		}
		var bad []string
		if n := prog.CG.Nodes[fn]; n != nil {
			for _, e := range n.In {
				c := e.Caller.Func
				for c.Parent() != nil {
					c = c.Parent()
				}
				if isSynthetic(c) {
					continue
				}
				if !allowed[c.Name()] && !onlyEnteredFrom(prog, c, allowed, 2) {
					bad = append(bad, c.Name())
				}
			}
		}
		r.Check(pfx+".every-step-counted", "callers:"+name, prog.pos(fn.Pos()), len(bad) == 0, name+" is entered from "+strings.Join(uniq(bad), ", ")+" without passing the counter in parseExpr")
	}
	// --- 1. transport
	checkBudgetTransport(r, prog, a, newParser, maxExprOpt, pfx)
}

// bexprHelper: an unexported, non-anchor function of package bexpr that may be interpreted in place.
func bexprHelper(prog *Program, a *Anchors, c *ssa.Function) bool {
	if fnPkg(c) != prog.Bexpr.Types || c.Parent() != nil || len(c.Blocks) == 0 {
		return false
	}
	switch c {
	case a.GetOpts, a.Dispatch, a.MatchEval, a.CollEval, a.GetValue, a.EqTable, a.CoerceTab, a.CreateEv, a.CreateFi:
		return false
	}
	if c.Object() != nil && c.Object().Exported() {
		return false
	}
	for _, m := range a.Matchers {
		if m == c {
			return false
		}
	}
	return true
}

// isCaptured: v is a captured variable of the enclosing constructor (by value, or a load of it when captured by reference).
func isCaptured(v ssa.Value) bool {
	if _, ok := v.(*ssa.FreeVar); ok {
		return true
	}
	if ld, ok := v.(*ssa.UnOp); ok && ld.Op == token.MUL {
		_, ok := ld.X.(*ssa.FreeVar)
		return ok
	}
	return false
}

func checkBudgetTransport(r *Run, prog *Program, a *Anchors, newParser, maxExprOpt *ssa.Function, pfx string) {
	budgetField := budgetFieldOf(prog, maxExprOpt)
	// WithMaxExpressions stores its parameter into options.withMaxExpressions (C18 checks all constructors; here the one field)
	wme := prog.BexprSSA.Func("WithMaxExpressions")
	okCtor := false
	if wme != nil {
		// decided on the effect of the returned option (a closure or a bound method of a setting type): one path, one store,
		// into the budget field, of the constructor's own parameter
		paths := optionEffect(prog, wme)
		okCtor = len(paths) == 1 && !paths[0].opaque
		n := 0
		for _, op := range paths {
			for _, st := range op.stores {
				if st.field == "" {
					continue
				}
				n++
				if st.field != optField(prog, "WithMaxExpressions") || !ownParameter(op.sm.St, st.val, 0) {
					okCtor = false
				}
			}
		}
		if n != 1 {
			okCtor = false
		}
	}
	r.Check(pfx+".transport", "WithMaxExpressions→options", "options.go", okCtor, "WithMaxExpressions must store its parameter, unmodified, into the budget option")
	// CreateEvaluator: budget option forwarded unmodified iff non-zero; nothing else is passed to the parser
	fn := a.CreateEv
	ps := NewPathSim(prog)
	ps.Inline = func(c *ssa.Function) bool { return bexprHelper(prog, a, c) }
	sums := ps.Run(fn)
	nz, z := 0, 0
	for _, sm := range sums {
		for _, ev := range sm.callsTo(a.Parse) {
			lf := collectLookup(sm)
			if lf.getOpts == nil {
				r.Check(pfx+".transport", "CreateEvaluator:getOpts", prog.pos(ev.Instr.Pos()), false, "CreateEvaluator does not fold its options with getOpts")
				continue
			}
			budget := &Sym{K: sField, A: lf.getOpts.Res, Str: optField(prog, "WithMaxExpressions")}
			if ost := optionsStruct(prog); ost != nil {
				for i := 0; i < ost.NumFields(); i++ {
					if ost.Field(i).Name() == budget.Str {
						budget.T = ost.Field(i).Type()
					}
				}
			}
			isZero, known := evalEq(sm.St, budget, &Sym{K: sConst, C: constant.MakeInt64(0)})
			if !known {
				r.Check(pfx+".transport", "CreateEvaluator:zero-test", prog.pos(ev.Instr.Pos()), false, "grammar.Parse is reached without testing the budget for zero")
				continue
			}
			opts := ev.Args[2]
			elems, okE := sliceElems(sm.St, opts, ev.Deref[2])
			if isZero {
				z++
				r.Check(pfx+".transport", "CreateEvaluator:budget=0", prog.pos(ev.Instr.Pos()), okE && len(elems) == 0, "with a zero budget no parser option must be passed (0 means unlimited); got "+shortKey(opts))
				continue
			}
			nz++
			ok := okE && len(elems) == 1
			why := "the parser options are not exactly [grammar.MaxExpressions(budget)]"
			if ok {
				el := elems[0]
				callee, _ := calleeOfSym(el)
				args := symArgs(sm.St, el)
				ok = callee == maxExprOpt && len(args) == 1 && args[0].Key() == budget.Key()
				if !ok {
					why = "the value given to grammar.MaxExpressions is " + shortKey(el) + ", not the budget option unmodified"
				}
			}
			r.Check(pfx+".transport", "CreateEvaluator:budget≠0", prog.pos(ev.Instr.Pos()), ok, why)
		}
	}
	// the budget decides nothing in CreateEvaluator except whether the parser gets the option: every condition that mentions it
	// is the comparison with zero
	okUse := true
	whyUse := ""
	for _, sm := range sums {
		lf := collectLookup(sm)
		if lf.getOpts == nil {
			continue
		}
		bk := (&Sym{K: sField, A: lf.getOpts.Res, Str: optField(prog, "WithMaxExpressions")}).Key()
		for k := range sm.St.facts {
			if !strings.Contains(k, bk) {
				continue
			}
			if k == "cmp(==,"+bk+",const(0))" || k == "cmp(==,const(0),"+bk+")" || k == "cmp(>,"+bk+",const(0))" || k == "cmp(!=,"+bk+",const(0))" {
				continue // (an unsigned budget: > 0 is ≠ 0)
			}
			okUse, whyUse = false, k
		}
	}
	r.Check(pfx+".transport", "CreateEvaluator:budget-only-tested-for-zero", prog.pos(fn.Pos()), okUse, "CreateEvaluator decides something else on the budget ("+whyUse+"): the budget must act only as the parser's step limit")
	r.Check(pfx+".transport", "CreateEvaluator:paths", prog.pos(fn.Pos()), nz > 0 && z > 0, fmt.Sprintf("info: %d non-zero and %d zero-budget paths to grammar.Parse", nz, z))
	// Parse hands its options to newParser; newParser applies them before mapping zero to unlimited
	okOrder := false
	var setOpt *ssa.Call
	for _, b := range newParser.Blocks {
		for _, ins := range b.Instrs {
			if c, ok := ins.(*ssa.Call); ok && c.Call.StaticCallee() != nil && c.Call.StaticCallee().Name() == "setOptions" {
				setOpt = c
			}
		}
	}
	if setOpt != nil {
		for _, b := range newParser.Blocks {
			ifi, ok := b.Instrs[len(b.Instrs)-1].(*ssa.If)
			if !ok {
				continue
			}
			bo, ok := ifi.Cond.(*ssa.BinOp)
			if !ok || bo.Op != token.EQL {
				continue
			}
			ld, ok := bo.X.(*ssa.UnOp)
			if !ok {
				continue
			}
			fa, ok := ld.X.(*ssa.FieldAddr)
			if !ok || fieldName(fa.X.Type(), fa.Field) != budgetField {
				continue
			}
			// the load comes after setOptions
			after := false
			if setOpt.Block() == b {
				for _, ins := range b.Instrs {
					if ins == ssa.Instruction(setOpt) {
						after = true
					}
					if ins == ssa.Instruction(ld) {
						break
					}
				}
				if !after {
					continue
				}
			} else if !setOpt.Block().Dominates(b) {
				continue
			}
			// true edge stores MaxUint64
			for _, ins := range b.Succs[0].Instrs {
				if st, ok := ins.(*ssa.Store); ok {
					if c, ok := st.Val.(*ssa.Const); ok && c.Value != nil {
						if u, exact := constant.Uint64Val(c.Value); exact && u == ^uint64(0) {
							okOrder = true
						}
					}
				}
			}
		}
	}
	if !okOrder {
		// the same on the paths of newParser, whatever it is split into
		okOrder = zeroMappingOnPaths(prog, newParser, budgetField) == ""
	}
	r.Check(pfx+".transport", "newParser:options-then-zero-mapping", prog.pos(newParser.Pos()), okOrder, "newParser must apply the options first and only then map a zero budget to `unlimited` (so that MaxExpressions(0) means unlimited)")
	// setOptions applies every option to the parser; Parse passes its own options and the table g
	so := prog.Method(prog.GrammarSSA, "parser", "setOptions", true)
	okSO := false
	if so != nil {
		for _, b := range so.Blocks {
			for _, ins := range b.Instrs {
				if c, ok := ins.(*ssa.Call); ok && c.Call.StaticCallee() == nil && !c.Call.IsInvoke() && len(c.Call.Args) == 1 && c.Call.Args[0] == ssa.Value(so.Params[0]) {
					okSO = true
				}
			}
		}
	} else {
		// no such method: the constructor (or a part of it) applies the options itself — a call of an element of its own
		// option list with the parser under construction, in a loop over that list
		optT := prog.Grammar.Types.Scope().Lookup("Option")
		for _, f := range prog.ModuleFuncs() {
			if f.Pkg != prog.GrammarSSA || !ctorPart(prog, newParser, f) || optT == nil {
				continue
			}
			for _, b := range f.Blocks {
				for _, ins := range b.Instrs {
					c, ok := ins.(*ssa.Call)
					if !ok || c.Call.StaticCallee() != nil || c.Call.IsInvoke() || len(c.Call.Args) != 1 || !types.Identical(c.Call.Value.Type(), optT.Type()) {
						continue
					}
					root, _ := rootOf(c.Call.Value)
					for depth := 0; depth < 4; depth++ {
						par, isP := root.(*ssa.Parameter)
						if !isP {
							break
						}
						if par.Parent() == newParser {
							if len(loopBlocksContaining(b)) > 0 {
								okSO = true
							}
							break
						}
						next := prog.originOfParam(root, 4) // one step towards the constructor
						if next == root {
							break
						}
						root, _ = rootOf(next)
					}
				}
			}
		}
	}
	r.Check(pfx+".transport", "setOptions:applies-each", "grammar/grammar.go", okSO, "setOptions must call every option with the parser")
	// directly, or through an unexported helper of the package that is handed both and hands both on
	var forwards func(fn *ssa.Function, bp, op ssa.Value, depth int) bool
	forwards = func(fn *ssa.Function, bp, op ssa.Value, depth int) bool {
		if depth > 3 {
			return false
		}
		for _, b := range fn.Blocks {
			for _, ins := range b.Instrs {
				c, ok := ins.(*ssa.Call)
				if !ok {
					continue
				}
				callee := c.Call.StaticCallee()
				if callee == nil {
					continue
				}
				if callee == newParser {
					if len(c.Call.Args) == 3 && c.Call.Args[2] == op && c.Call.Args[1] == bp {
						return true
					}
					continue
				}
				if callee.Pkg != prog.GrammarSSA || len(callee.Blocks) == 0 || callee == fn || len(callee.Params) != len(c.Call.Args) {
					continue
				}
				bi, oi := -1, -1
				for i, arg := range c.Call.Args {
					if arg == bp {
						bi = i
					}
					if arg == op {
						oi = i
					}
				}
				if bi >= 0 && oi >= 0 && forwards(callee, callee.Params[bi], callee.Params[oi], depth+1) {
					return true
				}
			}
		}
		return false
	}
	okP := len(a.Parse.Params) == 3 && forwards(a.Parse, a.Parse.Params[1], a.Parse.Params[2], 0)
	r.Check(pfx+".transport", "Parse:forwards-options", prog.pos(a.Parse.Pos()), okP, "grammar.Parse must hand its input bytes and its options to newParser unchanged")
	_ = types.Typ
}

func init() {
	register("C11", true, func(r *Run, prog *Program) {
		a := FindAnchors(prog)
		if !a.Require(r, "c11.anchors") {
			return
		}
		checkBudget(r, prog, a, "c11")
		checkParseWrappersForward(r, prog, "c11")
		checkOptionListReadOnly(r, prog, "c11") // the budget of a second parse with the same list is the budget of the first
		checkWrapperResults(r, prog, "c11")
		r.importing = "C18"
		checkGetOpts(r, prog, a, "c18") // the budget reaches CreateEvaluator wherever it stands in the option list
		r.importing = ""
		r.importing = "C10"
		checkCreateEvaluator(r, prog, a, nil, "c10") // every creation parses, once: acceptance is a function of (bytes, budget) only
		checkRecoverDiscipline(r, prog, "c10")
		checkRecordedErrorsNonNil(r, prog, "c10") // the budget error is put on the list as it was raised: a nil entry would make the handler itself panic
		checkResultShape(r, prog, a, a.CreateEv, "c10")
		r.importing = "C15"
		checkErrorRecording(r, prog, "c15") // the budget error, once raised, is the error reported: nothing filters recorded errors
		checkRecoverCensus(r, prog, "c15")  // … and nothing between parseExpr and parse swallows the panic that carries it
		r.importing = ""
		r.Technique = "field read/write census for the step counter and the budget over the whole module; dominance check of the counter test over the dispatch; who-may-call census of the engine methods (VTA call graph); symbolic transport check option→CreateEvaluator→grammar.MaxExpressions→parser field; recover discipline imported from C10"
		r.Explain = "Proof by non-interference: the budget travels unmodified from WithMaxExpressions to parser.maxExprCnt (passed iff non-zero; zero mapped to MaxUint64 after the options are applied); the counter has exactly one writer (+1, in parseExpr's entry block) and is read only by that increment and by one ordered comparison with the budget whose exceeded edge panics with errMaxExprCnt; that test dominates the whole dispatch; every engine method is entered only through parseExpr (parseRule only from parse / parseRuleRefExpr), so every step is counted. Since nothing else reads counter or budget, a limited run executes exactly the instruction sequence of the unlimited run until the test fires: with N the unlimited run's step count, n = 0 or n ≥ N gives the identical result, 0 < n < N panics at step n+1 and never later; the panic is recovered into the error (C10). `>` and `>=` both give a threshold."
		r.Assume = append(r.Assume, "Go executes deterministically; parsing has no other input than the bytes and the options")
	})
}

// budgetOptionOf: the budget's field by its role — the parser field into which the function returned by MaxExpressions (a
// closure, or a bound method of a small setting type) stores MaxExpressions' own parameter, unmodified — and the
// functions that run when that option is applied.
func budgetOptionOf(prog *Program, maxExprOpt *ssa.Function) (string, map[*ssa.Function]bool) {
	fns := map[*ssa.Function]bool{}
	field := ""
	for _, op := range optionEffect(prog, maxExprOpt) {
		if op.opaque {
			continue
		}
		for _, ev := range op.sm.Events() {
			if ev.Store && ev.In != nil && ev.In != maxExprOpt && ev.Args[0].K == sFieldAddr && ev.Args[0].A != nil && ev.Args[0].A.K == sOpaque {
				fns[ev.In] = true
				if ownParameter(op.sm.St, ev.Args[1], 0) {
					field = ev.Args[0].Str
				}
			}
		}
	}
	return field, fns
}

func budgetFieldOf(prog *Program, maxExprOpt *ssa.Function) string {
	if f, _ := budgetOptionOf(prog, maxExprOpt); f != "" {
		return f
	}
	return "maxExprCnt"
}

// onlyEnteredFrom: fn is an unexported function of the module that is itself only entered (statically or through an
// interface) from the allowed functions, or from functions of which the same holds (bounded).
func onlyEnteredFrom(prog *Program, fn *ssa.Function, allowed map[string]bool, depth int) bool {
	if depth == 0 || !prog.InModule(fn) || (fn.Object() != nil && fn.Object().Exported()) {
		return false
	}
	n := prog.CG.Nodes[fn]
	if n == nil || len(n.In) == 0 {
		return true // never entered at all (a method of a node type the grammar does not use)
	}
	for _, e := range n.In {
		c := e.Caller.Func
		for c.Parent() != nil {
			c = c.Parent()
		}
		if isSynthetic(c) {
			cn := prog.CG.Nodes[c]
			if cn == nil || len(cn.In) == 0 {
				continue
			}
			return false
		}
		if c == fn {
			return false
		}
		if !allowed[c.Name()] && !onlyEnteredFrom(prog, c, allowed, depth-1) {
			return false
		}
	}
	return true
}

// checkParseWrappersForward: every exported entry point of package grammar that takes parser options and hands the
// work on (ParseFile → ParseReader → Parse → the parser's constructor) hands its own options on, all of them, as they are: a
// budget given to any entry point is the budget the parser runs with.
func checkParseWrappersForward(r *Run, prog *Program, pfx string) {
	n := 0
	takesOpts := func(f *ssa.Function) int {
		if f == nil || !f.Signature.Variadic() || len(f.Params) == 0 {
			return -1
		}
		last := f.Params[len(f.Params)-1]
		if sl, ok := last.Type().Underlying().(*types.Slice); ok && namedIs(sl.Elem(), grammarPath, "Option") {
			return len(f.Params) - 1
		}
		return -1
	}
	var names []string
	for name := range prog.GrammarSSA.Members {
		names = append(names, name)
	}
	sort.Strings(names)
	for _, name := range names {
		fn, ok := prog.GrammarSSA.Members[name].(*ssa.Function)
		if !ok || fn.Object() == nil || !fn.Object().Exported() || len(fn.Blocks) == 0 {
			continue
		}
		oi := takesOpts(fn)
		if oi < 0 {
			continue
		}
		for _, b := range fn.Blocks {
			for _, ins := range b.Instrs {
				c, ok := ins.(*ssa.Call)
				if !ok {
					continue
				}
				callee := c.Call.StaticCallee()
				ci := takesOpts(callee)
				if ci < 0 || callee.Pkg != prog.GrammarSSA || callee == fn || callee.Object() == nil || ci >= len(c.Call.Args) {
					continue
				}
				n++
				r.Check(pfx+".transport", "wrapper:"+fn.Name()+"→"+callee.Name(), prog.pos(c.Pos()), c.Call.Args[ci] == ssa.Value(fn.Params[oi]),
					fn.Name()+" does not hand its own options, unchanged, to "+callee.Name()+" ("+describeRoot(prog, c.Call.Args[ci])+"): an option given to this entry point — the budget — would not reach the parser")
			}
		}
	}
	r.Check(pfx+".transport", "wrapper:census", "grammar/grammar.go", n >= 1, fmt.Sprintf("info: %d forwarding entry points examined", n))
	// … and all of the input: what an entry point reads, it reads from the reader (the file) it was given, to the end —
	// ReadAll of that very value, not of a wrapper that may cut it short
	for _, name := range names {
		fn, ok := prog.GrammarSSA.Members[name].(*ssa.Function)
		if !ok || fn.Object() == nil || !fn.Object().Exported() || len(fn.Blocks) == 0 || takesOpts(fn) < 0 {
			continue
		}
		k := 0
		for _, b := range fn.Blocks {
			for _, ins := range b.Instrs {
				c, isCall := ins.(*ssa.Call)
				if !isCall {
					continue
				}
				callee := c.Call.StaticCallee()
				if callee == nil || callee.Name() != "ReadAll" || callee.Pkg == nil || (callee.Pkg.Pkg.Path() != "io" && callee.Pkg.Pkg.Path() != "io/ioutil") || len(c.Call.Args) != 1 {
					continue
				}
				k++
				src := c.Call.Args[0]
				if mi, isMI := src.(*ssa.MakeInterface); isMI {
					src = mi.X // a *os.File the function opened itself, handed over as an io.Reader
				}
				okSrc := false
				if p, isP := src.(*ssa.Parameter); isP && p.Parent() == fn {
					okSrc = true
				}
				if ex, isEx := src.(*ssa.Extract); isEx {
					if oc, isOC := ex.Tuple.(*ssa.Call); isOC {
						if g := oc.Call.StaticCallee(); g != nil && g.Pkg != nil && g.Pkg.Pkg.Path() == "os" && g.Name() == "Open" {
							okSrc = true
						}
					}
				}
				r.Check(pfx+".transport", fmt.Sprintf("wrapper-input:%s#%d", fn.Name(), k), prog.pos(c.Pos()), okSrc,
					fn.Name()+" does not read its input from the reader it was given (or the file it opened) but from "+describeRoot(prog, c.Call.Args[0])+": input beyond what that value yields is never parsed")
			}
		}
	}
}

// checkWrapperResults: an entry point that hands the work on (ParseFile → ParseReader → Parse) returns what it got: the
// only thing a deferred clean-up may put in place of the error is an error of its own that it has tested to be non-nil
// (`if closeErr != nil { err = closeErr }`). A store under the opposite test erases the parse error — the budget error
// among them — with nil.
func checkWrapperResults(r *Run, prog *Program, pfx string) {
	n := 0
	var names []string
	for name := range prog.GrammarSSA.Members {
		names = append(names, name)
	}
	sort.Strings(names)
	for _, name := range names {
		fn, ok := prog.GrammarSSA.Members[name].(*ssa.Function)
		if !ok || fn.Object() == nil || !fn.Object().Exported() || len(fn.Blocks) == 0 {
			continue
		}
		rs := fn.Signature.Results()
		if rs.Len() != 2 || !isErrorType(rs.At(1).Type()) {
			continue
		}
		for _, af := range fn.AnonFuncs {
			for _, b := range af.Blocks {
				for _, ins := range b.Instrs {
					st, isSt := ins.(*ssa.Store)
					if !isSt || !isErrorType(deref(st.Addr.Type())) {
						continue
					}
					if _, isFV := st.Addr.(*ssa.FreeVar); !isFV {
						continue
					}
					n++
					// the stored value is tested != nil on the way to the store
					okStore := false
					for d := b; d != nil; d = d.Idom() {
						idom := d.Idom()
						if idom == nil {
							break
						}
						ifi, isIf := idom.Instrs[len(idom.Instrs)-1].(*ssa.If)
						if !isIf {
							continue
						}
						bo, isBO := ifi.Cond.(*ssa.BinOp)
						if !isBO {
							continue
						}
						var other ssa.Value
						if bo.X == st.Val {
							other = bo.Y
						} else if bo.Y == st.Val {
							other = bo.X
						}
						c, isC := other.(*ssa.Const)
						if other == nil || !isC || c.Value != nil {
							continue
						}
						if (bo.Op == token.NEQ && idom.Succs[0] == d) || (bo.Op == token.EQL && idom.Succs[1] == d) {
							okStore = true
						}
					}
					r.Check(pfx+".transport", fmt.Sprintf("wrapper-result:%s#%d", fn.Name(), n), prog.pos(st.Pos()), okStore,
						"a deferred function of "+fn.Name()+" replaces the error it returns with a value it has not tested to be non-nil: a successful clean-up would erase the parse error (the budget error among them)")
				}
			}
		}
	}
}
