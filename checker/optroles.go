package main

// Roles of the (unexported) option plumbing, discovered from the public
// constructors instead of being looked up by their internal names.

import (
	"go/types"

	"golang.org/x/tools/go/ssa"
)

type optRolesT struct {
	optionsT   *types.Named
	field      map[string]string // public constructor -> options field it stores into
	getOpts    *ssa.Function
	getDefault *ssa.Function
}

var optRolesCache = map[*Program]*optRolesT{}

func optRoles(prog *Program) *optRolesT {
	if r, ok := optRolesCache[prog]; ok {
		return r
	}
	r := &optRolesT{field: map[string]string{}}
	optionT, _ := prog.Bexpr.Types.Scope().Lookup("Option").(*types.TypeName)
	if optionT != nil {
		if sig, ok := optionT.Type().Underlying().(*types.Signature); ok && sig.Params().Len() == 1 {
			if p, ok := sig.Params().At(0).Type().(*types.Pointer); ok {
				r.optionsT, _ = p.Elem().(*types.Named)
			}
		}
	}
	if r.optionsT == nil {
		optRolesCache[prog] = r
		return r
	}
	sc := prog.Bexpr.Types.Scope()
	for _, n := range sc.Names() {
		f, ok := sc.Lookup(n).(*types.Func)
		if !ok {
			continue
		}
		sig := f.Type().(*types.Signature)
		sf := prog.BexprSSA.Func(n)
		if sf == nil {
			continue
		}
		switch {
		case sig.Results().Len() == 1 && namedIs(sig.Results().At(0).Type(), modPath, "Option") && len(sf.AnonFuncs) == 1:
			cl := sf.AnonFuncs[0]
			fields := map[string]bool{}
			for _, b := range cl.Blocks {
				for _, ins := range b.Instrs {
					if st, ok := ins.(*ssa.Store); ok {
						if fa, ok := st.Addr.(*ssa.FieldAddr); ok && len(cl.Params) == 1 && fa.X == ssa.Value(cl.Params[0]) {
							fields[fieldName(fa.X.Type(), fa.Field)] = true
						}
					}
				}
			}
			if len(fields) == 1 {
				for k := range fields {
					r.field[n] = k
				}
			}
		case sig.Results().Len() == 1 && types.Identical(sig.Results().At(0).Type(), r.optionsT):
			if sig.Variadic() && sig.Params().Len() == 1 {
				r.getOpts = sf
			} else if sig.Params().Len() == 0 {
				r.getDefault = sf
			}
		}
	}
	optRolesCache[prog] = r
	return r
}

// optField returns the options field written by the public constructor ctor ("" if it cannot be determined).
func optField(prog *Program, ctor string) string { return optRoles(prog).field[ctor] }
