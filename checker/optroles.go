package main

// Roles of the (unexported) option plumbing, discovered from the public
// constructors instead of being looked up by their internal names.

import (
	"go/types"
	"sort"
	"strings"

	"golang.org/x/tools/go/ssa"
)

type optRolesT struct {
	optionsT   *types.Named
	field      map[string]string // public constructor -> options field it stores into
	flag       map[string]string // public constructor -> boolean field it sets to true alongside ("the option was given"), if any
	getOpts    *ssa.Function
	getDefault *ssa.Function
}

var optRolesCache = map[*Program]*optRolesT{}

func optRoles(prog *Program) *optRolesT {
	if r, ok := optRolesCache[prog]; ok {
		return r
	}
	r := &optRolesT{field: map[string]string{}, flag: map[string]string{}}
	optionT, _ := prog.Bexpr.Types.Scope().Lookup("Option").(*types.TypeName)
	if optionT != nil {
		if sig, ok := optionT.Type().Underlying().(*types.Signature); ok && sig.Params().Len() == 1 {
			if p, ok := sig.Params().At(0).Type().(*types.Pointer); ok {
				r.optionsT, _ = p.Elem().(*types.Named)
			}
		}
	}
	if r.optionsT == nil {
		optRolesCache[prog] = r
		return r
	}
	sc := prog.Bexpr.Types.Scope()
	for _, n := range sc.Names() {
		f, ok := sc.Lookup(n).(*types.Func)
		if !ok {
			continue
		}
		sig := f.Type().(*types.Signature)
		sf := prog.BexprSSA.Func(n)
		if sf == nil {
			continue
		}
		switch {
		case sig.Results().Len() == 1 && namedIs(sig.Results().At(0).Type(), modPath, "Option") && f.Exported():
			fields := map[string]bool{}
			flags := map[string]bool{}
			for _, path := range optionEffect(prog, sf) {
				for _, st := range path.stores {
					if st.field == "" {
						continue
					}
					// a boolean field set to the constant true next to the value: the presence flag of an optional setting
					if bv, isC := st.val.BoolConst(); isC && bv {
						flags[st.field] = true
						continue
					}
					fields[st.field] = true
				}
			}
			if len(fields) == 0 && len(flags) == 1 {
				fields, flags = flags, map[string]bool{} // an option that is just a switch
			}
			if len(fields) == 1 {
				for k := range fields {
					r.field[n] = k
				}
				if len(flags) == 1 {
					for k := range flags {
						r.flag[n] = k
					}
				}
			}
		case sig.Results().Len() == 1 && types.Identical(sig.Results().At(0).Type(), r.optionsT):
			if sig.Params().Len() == 1 && isOptionList(sig.Params().At(0).Type()) {
				r.getOpts = sf // (...Option) or ([]Option)
			} else if sig.Params().Len() == 0 {
				r.getDefault = sf
			}
		}
	}
	optRolesCache[prog] = r
	return r
}

// optField returns the options field written by the public constructor ctor ("" if it cannot be determined).
func optField(prog *Program, ctor string) string { return optRoles(prog).field[ctor] }

// What an option closure does to the options struct it is given, per path: helpers of the module (a method of *options
// that performs the assignment, …) are interpreted in place.
type optStore struct {
	field string // "" = a store somewhere other than a field of the *options argument
	val   *Sym
	addr  *Sym
}

type optPath struct {
	opaque bool // the returned function value could not be applied symbolically
	stores []optStore
	reads  []string // option fields read
	sm     *Summary
}

// optionEffect: what applying the Option returned by constructor ctor does to the options struct, per path, in terms of
// the constructor's parameters. The constructor is interpreted, then the function value it returns (a closure, or a bound
// method of a small setting type) is applied to a symbolic *options in the same path state.
func optionEffect(prog *Program, ctor *ssa.Function) []optPath {
	ps := NewPathSim(prog)
	ps.NoTables = true
	ps.Inline = func(c *ssa.Function) bool { return c != ctor && (prog.InModule(c) || isSynthetic(c)) }
	ps.MaxDepth = 4
	po := &Sym{K: sOpaque, Str: "options-argument"}
	var out []optPath
	for _, sm := range ps.Run(ctor) {
		if sm.Ret == nil || len(sm.Results) != 1 {
			continue
		}
		clo := sm.Results[0]
		if clo.K == sConvert || clo.K == sMkIface {
			clo = clo.A
		}
		before := len(sm.St.events)
		applied := ps.ApplyClosure(sm.St, clo, []*Sym{po})
		if applied == nil {
			out = append(out, optPath{sm: sm, opaque: true})
			continue
		}
		for _, am := range applied {
			op := optPath{sm: am}
			for _, ev := range am.St.events[before:] {
				if ev.Store {
					addr, val := ev.Args[0], ev.Args[1]
					if addr.K == sFieldAddr && addr.A.Key() == po.Key() {
						op.stores = append(op.stores, optStore{field: addr.Str, val: val, addr: addr})
					} else {
						op.stores = append(op.stores, optStore{val: val, addr: addr})
					}
				}
			}
			for k := range am.St.facts {
				_ = k
			}
			op.reads = readsOf(am.St, po, before)
			out = append(out, op)
		}
	}
	return out
}

// readsOf: fields of the options argument that are loaded (recorded by the symbols that mention a load of them).
func readsOf(st *pstate, po *Sym, from int) []string {
	seen := map[string]bool{}
	var out []string
	var visit func(s *Sym, depth int)
	visit = func(s *Sym, depth int) {
		if s == nil || depth > 8 {
			return
		}
		if s.K == sLoad && s.A != nil && s.A.K == sFieldAddr && s.A.A != nil && s.A.A.Key() == po.Key() {
			if !seen[s.A.Str] {
				seen[s.A.Str] = true
				out = append(out, s.A.Str)
			}
		}
		visit(s.A, depth+1)
		visit(s.B, depth+1)
		for _, k := range s.Kids {
			visit(k, depth+1)
		}
		for _, k := range s.F {
			visit(k, depth+1)
		}
	}
	for _, ev := range st.events[from:] {
		for _, a := range ev.Args {
			visit(a, 0)
		}
		for _, d := range ev.Deref {
			visit(d, 0)
		}
	}
	for k := range st.facts {
		if strings.Contains(k, "*(&"+po.Key()+".") {
			i := strings.Index(k, "*(&"+po.Key()+".") + len("*(&"+po.Key()+".")
			j := i
			for j < len(k) && (k[j] == '_' || k[j] >= 'a' && k[j] <= 'z' || k[j] >= 'A' && k[j] <= 'Z' || k[j] >= '0' && k[j] <= '9') {
				j++
			}
			if f := k[i:j]; f != "" && !seen[f] {
				seen[f] = true
				out = append(out, f)
			}
		}
	}
	sort.Strings(out)
	return out
}

// ownParameter: the value is a parameter of the constructor, unmodified: the parameter itself, through conversions between
// types with the same underlying type, a field of a setting struct that holds it, or the address of a copy of it.
func ownParameter(st *pstate, v *Sym, depth int) bool {
	if v == nil || depth > 6 {
		return false
	}
	switch v.K {
	case sParam:
		return true
	case sFree:
		return true
	case sConvert:
		return ownParameter(st, v.A, depth+1)
	case sLoad:
		// a load of a captured variable cell / of a field of a setting
		if v.A.K == sFree {
			return true
		}
		if al, path, ok := localPath(v.A); ok {
			if x, ok := loadLocal(st, al, path, nil); ok {
				return ownParameter(st, x, depth+1)
			}
		}
	case sFieldAddr, sFresh:
		// the address of a copy of the parameter
		if al, path, ok := localPath(v); ok {
			if x, ok := loadLocal(st, al, path, nil); ok {
				return ownParameter(st, x, depth+1)
			}
		}
	case sStruct:
		// a struct value all of whose set fields are parameters (a binding built from the arguments)
		if len(v.F) == 0 {
			return false
		}
		for _, f := range v.F {
			if !ownParameter(st, f, depth+1) {
				return false
			}
		}
		return true
	}
	return false
}

// optFlag returns the presence flag the public constructor ctor sets ("" if the setting has none).
func optFlag(prog *Program, ctor string) string { return optRoles(prog).flag[ctor] }

// optionGiven: was the optional setting of constructor ctor configured in the options value opts, on this path? The
// setting is optional either as a pointer (nil = not given) or as a value with a presence flag.
func optionGiven(prog *Program, st *pstate, opts *Sym, ctor string) (given, known bool) {
	if fl := optFlag(prog, ctor); fl != "" {
		return evalBool(st, &Sym{K: sField, A: opts, Str: fl})
	}
	isNil, known := evalEq(st, &Sym{K: sField, A: opts, Str: optField(prog, ctor)}, nilSym())
	return !isNil, known
}

// optionValueKey: the key of the configured value (the pointee for the pointer form, the field itself for the flag form).
func optionValueKey(prog *Program, opts *Sym, ctor string) string {
	f := &Sym{K: sField, A: opts, Str: optField(prog, ctor)}
	if optFlag(prog, ctor) != "" {
		return f.Key()
	}
	return (&Sym{K: sLoad, A: f}).Key()
}
