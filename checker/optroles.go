package main

// Roles of the (unexported) option plumbing, discovered from the public
// constructors instead of being looked up by their internal names.

import (
	"go/types"

	"golang.org/x/tools/go/ssa"
)

type optRolesT struct {
	optionsT   *types.Named
	field      map[string]string // public constructor -> options field it stores into
	getOpts    *ssa.Function
	getDefault *ssa.Function
}

var optRolesCache = map[*Program]*optRolesT{}

func optRoles(prog *Program) *optRolesT {
	if r, ok := optRolesCache[prog]; ok {
		return r
	}
	r := &optRolesT{field: map[string]string{}}
	optionT, _ := prog.Bexpr.Types.Scope().Lookup("Option").(*types.TypeName)
	if optionT != nil {
		if sig, ok := optionT.Type().Underlying().(*types.Signature); ok && sig.Params().Len() == 1 {
			if p, ok := sig.Params().At(0).Type().(*types.Pointer); ok {
				r.optionsT, _ = p.Elem().(*types.Named)
			}
		}
	}
	if r.optionsT == nil {
		optRolesCache[prog] = r
		return r
	}
	sc := prog.Bexpr.Types.Scope()
	for _, n := range sc.Names() {
		f, ok := sc.Lookup(n).(*types.Func)
		if !ok {
			continue
		}
		sig := f.Type().(*types.Signature)
		sf := prog.BexprSSA.Func(n)
		if sf == nil {
			continue
		}
		switch {
		case sig.Results().Len() == 1 && namedIs(sig.Results().At(0).Type(), modPath, "Option") && len(sf.AnonFuncs) == 1:
			cl := sf.AnonFuncs[0]
			fields := map[string]bool{}
			for _, path := range optionClosureStores(prog, cl) {
				for _, st := range path.stores {
					if st.field != "" {
						fields[st.field] = true
					}
				}
			}
			if len(fields) == 1 {
				for k := range fields {
					r.field[n] = k
				}
			}
		case sig.Results().Len() == 1 && types.Identical(sig.Results().At(0).Type(), r.optionsT):
			if sig.Variadic() && sig.Params().Len() == 1 {
				r.getOpts = sf
			} else if sig.Params().Len() == 0 {
				r.getDefault = sf
			}
		}
	}
	optRolesCache[prog] = r
	return r
}

// optField returns the options field written by the public constructor ctor ("" if it cannot be determined).
func optField(prog *Program, ctor string) string { return optRoles(prog).field[ctor] }

// What an option closure does to the options struct it is given, per path: helpers of the module (a method of *options
// that performs the assignment, …) are interpreted in place.
type optStore struct {
	field string // "" = a store somewhere other than a field of the *options argument
	val   *Sym
	addr  *Sym
}

type optPath struct {
	stores []optStore
	reads  []string // option fields read
	sm     *Summary
}

func optionClosureStores(prog *Program, cl *ssa.Function) []optPath {
	if len(cl.Params) != 1 {
		return nil
	}
	po := paramSym(cl.Params[0])
	ps := NewPathSim(prog)
	ps.NoTables = true
	ps.Inline = func(c *ssa.Function) bool { return prog.InModule(c) && c != cl }
	var cur *optPath
	reads := map[*pstate][]string{}
	ps.OnInstr = func(f *ssa.Function, st *pstate, ins ssa.Instruction) {
		if u, ok := ins.(*ssa.UnOp); ok && u.Op.String() == "*" {
			if a := ps.sym(st, u.X); a.K == sFieldAddr && a.A.Key() == po.Key() {
				st.trail = append(st.trail, "read:"+a.Str)
			}
		}
	}
	_ = cur
	_ = reads
	var out []optPath
	for _, sm := range ps.Run(cl) {
		op := optPath{sm: sm}
		for _, t := range sm.St.trail {
			if len(t) > 5 && t[:5] == "read:" {
				op.reads = append(op.reads, t[5:])
			}
		}
		for _, ev := range sm.Events() {
			if !ev.Store {
				continue
			}
			addr, val := ev.Args[0], ev.Args[1]
			if addr.K == sFieldAddr && addr.A.Key() == po.Key() {
				op.stores = append(op.stores, optStore{field: addr.Str, val: val, addr: addr})
			} else {
				op.stores = append(op.stores, optStore{val: val, addr: addr})
			}
		}
		out = append(out, op)
	}
	return out
}
