package main

// C02 — equality compares in the selected value's own type; bad literals are errors.

import (
	"fmt"
	"go/constant"
	"go/token"
	"go/types"
	"strings"

	"golang.org/x/tools/go/ssa"
)

type coerceSpec struct {
	parse    string  // strconv function
	args     []int64 // constant arguments after the raw string
	dyn      string  // dynamic type of the coerced literal
	accessor string  // reflect.Value accessor of the comparator
}

// transcribed from the statement: "ParseBool spellings; base-prefixed 64-bit integers compared exactly, never via
// floating point; the nearest float of the field's width; the raw string"
func coerceSpecFor(k int) (coerceSpec, bool) {
	switch {
	case k == kBool:
		return coerceSpec{"ParseBool", nil, "bool", "Bool"}, true
	case ksSigned&(1<<uint(k)) != 0:
		return coerceSpec{"ParseInt", []int64{0, 64}, "int64", "Int"}, true
	case ks(kUint, kUint8, kUint16, kUint32, kUint64)&(1<<uint(k)) != 0:
		return coerceSpec{"ParseUint", []int64{0, 64}, "uint64", "Uint"}, true
	case k == kFloat32:
		return coerceSpec{"ParseFloat", []int64{32}, "float32", "Float"}, true
	case k == kFloat64:
		return coerceSpec{"ParseFloat", []int64{64}, "float64", "Float"}, true
	case k == kString:
		return coerceSpec{"", nil, "string", "String"}, true
	}
	return coerceSpec{}, false
}

func checkEqualityTables(r *Run, prog *Program, a *Anchors, pfx string) {
	kt := buildKindTables(prog, a)
	for _, p := range kt.problems {
		r.Fail("undecided", pfx+".kind-tables", "extract", prog.pos(a.EqTable.Pos()), p)
	}
	r.Floor(pfx+".kind-row", 20)
	litSym, kindSym := a.coerceLiteral()
	rawKey := (&Sym{K: sLoad, A: &Sym{K: sFieldAddr, A: litSym, Str: "Raw"}}).Key()
	checkedCoerce := map[*ssa.Function]bool{}
	for k := 0; k < nKinds; k++ {
		spec, scalar := coerceSpecFor(k)
		f := kt.eq[k]
		key := "kind:" + kindNames[k]
		if !scalar {
			// Uintptr is an unsigned integer kind the table may or may not support; everything else non-scalar must have no comparator
			if k == kUintptr {
				// if it is supported at all, then as the unsigned integer kind it is: both tables must say so
				ct := kt.coerceType[k]
				okU := f == nil || (ct != nil && ct.String() == "uint64" && kt.cmpAssert[f] != nil && kt.cmpAssert[f].String() == "uint64")
				r.Check(pfx+".kind-row", key, prog.pos(a.EqTable.Pos()), okU, fmt.Sprintf("Uintptr has comparator %s but its literal is coerced to %v: the two tables disagree", fnName(f), ct))
				continue
			}
			r.Check(pfx+".kind-row", key, prog.pos(a.EqTable.Pos()), f == nil, "kind "+kindNames[k]+" is not a scalar: equality against it must be an error, but the table yields comparator "+fnName(f))
			continue
		}
		var probs []string
		if f == nil {
			probs = append(probs, "no comparator for scalar kind "+kindNames[k])
		} else {
			if at := kt.cmpAssert[f]; at == nil || at.String() != spec.dyn {
				probs = append(probs, fmt.Sprintf("comparator %s asserts %v, the literal of a %s must be compared as %s", f.Name(), at, kindNames[k], spec.dyn))
			}
			acc := strings.Join(kt.cmpAccess[f], ",")
			if acc != spec.accessor {
				probs = append(probs, fmt.Sprintf("comparator %s reads the value with %q, expected %s", f.Name(), acc, spec.accessor))
			}
			probs = append(probs, kt.cmpBody[f]...)
			if spec.dyn != "float32" {
				for _, b := range kt.cmpBody[f] {
					_ = b
				}
			}
		}
		ct := kt.coerceType[k]
		if ct == nil || ct.String() != spec.dyn {
			probs = append(probs, fmt.Sprintf("the literal is coerced to %v, expected %s", ct, spec.dyn))
		}
		// the coercion function
		if spec.parse == "" {
			if !strings.HasPrefix(kt.coerceFn[k], "raw:") || strings.TrimPrefix(kt.coerceFn[k], "raw:") != rawKey {
				probs = append(probs, "a string is not compared with the raw literal text but with "+kt.coerceFn[k])
			}
		} else {
			cf := prog.BexprSSA.Func(kt.coerceFn[k])
			if cf == nil {
				probs = append(probs, "coercion "+kt.coerceFn[k]+" not found")
			} else {
				probs = append(probs, coercionBody(prog, cf, spec)...)
				checkedCoerce[cf] = true
			}
			// the coercion is applied to the raw literal text, unmodified
			ps := NewPathSim(prog)
			kk := k
			ps.Seed = func(st *pstate) {
				st.eqc[kindSym.Key()] = kindConst(kk).Key()
				assume(st, &Sym{K: sCmp, Op: token.EQL, A: litSym, B: nilSym()}, false)
			}
			ps.Inline = func(c *ssa.Function) bool { return prog.InModule(c) && !isCoercion(c) }
			for _, sm := range ps.Run(a.CoerceTab) {
				for _, ev := range sm.Events() {
					if ev.Instr != nil && ev.Callee == cf {
						if len(ev.Args) != 1 || ev.Args[0].Key() != rawKey {
							probs = append(probs, "the coercion is not applied to the literal's Raw text unmodified but to "+shortKey(ev.Args[0]))
						}
					}
				}
				if len(sm.Results) == 2 && !(sm.Results[0].K == sRes && sm.Results[1].K == sRes && sm.Results[0].A.Key() == sm.Results[1].A.Key()) {
					probs = append(probs, "the coercion table does not return the coercion's (value, error) pair unchanged")
				}
			}
		}
		pos := prog.pos(a.EqTable.Pos())
		if f != nil {
			pos = prog.pos(f.Pos())
		}
		r.Check(pfx+".kind-row", key, pos, len(probs) == 0, strings.Join(uniq(probs), "; "))
	}
	// both tables have the same scalar domain
	for k := 0; k < nKinds; k++ {
		_, scalar := coerceSpecFor(k)
		if scalar || k == kUintptr {
			continue
		}
		ct := kt.coerceType[k]
		r.Check(pfx+".coercion-default", "kind:"+kindNames[k], prog.pos(a.CoerceTab.Pos()), ct != nil && ct.String() == "string", fmt.Sprintf("for non-scalar kind %s the coercion table must hand back the raw text (string); got %v", kindNames[k], ct))
	}
	// exported coercions of the API (observe_at: bexpr.CoerceInt64/...) that the table does not use are checked as well
	for _, name := range []string{"CoerceInt64", "CoerceUint64", "CoerceFloat32", "CoerceFloat64", "CoerceBool"} {
		cf := prog.BexprSSA.Func(name)
		if cf == nil {
			r.Check(pfx+".coercion-api", name, "", false, "exported coercion "+name+" is gone")
			continue
		}
		r.Check(pfx+".coercion-api", name, prog.pos(cf.Pos()), checkedCoerce[cf], "exported coercion "+name+" is not the one the kind table uses for its kind group")
	}
}

func fnName(f *ssa.Function) string {
	if f == nil {
		return "<none>"
	}
	return f.Name()
}

// comparatorBody: `first.(T) == accessor(second)` without a detour through another numeric type
// (float32 is the one documented narrowing: float32(second.Float())).
func comparatorBody(f *ssa.Function, spec coerceSpec) []string {
	var probs []string
	ncmp := 0
	for _, b := range f.Blocks {
		for _, ins := range b.Instrs {
			switch x := ins.(type) {
			case *ssa.Convert:
				from, to := x.X.Type().Underlying().(*types.Basic), x.Type().Underlying().(*types.Basic)
				if from == nil || to == nil {
					continue
				}
				if spec.dyn == "float32" && from.Kind() == types.Float64 && to.Kind() == types.Float32 {
					continue // the nearest float of the field's width
				}
				probs = append(probs, fmt.Sprintf("comparator %s converts %s to %s before comparing", f.Name(), from, to))
			case *ssa.BinOp:
				if x.Op.String() == "==" {
					ncmp++
				} else {
					probs = append(probs, fmt.Sprintf("comparator %s uses operator %s", f.Name(), x.Op))
				}
			case *ssa.If:
				probs = append(probs, "comparator "+f.Name()+" branches")
			}
		}
	}
	if ncmp != 1 {
		probs = append(probs, fmt.Sprintf("comparator %s performs %d equality comparisons (expected exactly one)", f.Name(), ncmp))
	}
	return probs
}

// coercionBody: on every path exactly one call outside the module, to the expected strconv function with the expected
// constant parameters, on the function's own parameter; the value (through at most a same-class conversion) and the
// error of that call are what is returned. Helpers of the module (a boxing helper, …) are interpreted in place.
func coercionBody(prog *Program, cf *ssa.Function, spec coerceSpec) []string {
	var probs []string
	ps := NewPathSim(prog)
	ps.Inline = func(c *ssa.Function) bool { return prog.InModule(c) }
	sums := ps.Run(cf)
	if len(sums) != 1 {
		probs = append(probs, fmt.Sprintf("%s branches (%d paths): a literal must be valid or invalid by strconv's verdict alone", cf.Name(), len(sums)))
	}
	pv := paramSym(cf.Params[0]).Key()
	for _, sm := range sums {
		var call *Event
		ncall := 0
		for _, ev := range sm.Events() {
			ev := ev
			if ev.Instr == nil || ev.Inlined {
				continue
			}
			ncall++
			callee := ev.Callee
			if callee == nil || callee.Pkg == nil || callee.Pkg.Pkg.Path() != "strconv" || callee.Name() != spec.parse {
				probs = append(probs, fmt.Sprintf("%s calls %s; the literal of this kind must be read by strconv.%s only", cf.Name(), callName(ev.Instr.Common()), spec.parse))
				continue
			}
			call = &ev
			if len(ev.Args) != 1+len(spec.args) || ev.Args[0].Key() != pv {
				probs = append(probs, cf.Name()+" does not hand its parameter unmodified to strconv."+spec.parse)
				continue
			}
			for i, want := range spec.args {
				var got int64 = -1
				c := ev.Args[1+i]
				if c.K == sConst && c.C != nil {
					got, _ = constant.Int64Val(c.C)
				}
				if got != want {
					probs = append(probs, fmt.Sprintf("strconv.%s is called with %s as parameter %d, expected %d (base 0 / 64 bit for integers; the field's width for floats)", spec.parse, c.Key(), i+1, want))
				}
			}
		}
		if ncall != 1 {
			probs = append(probs, fmt.Sprintf("%s makes %d calls (expected exactly one, to strconv.%s)", cf.Name(), ncall, spec.parse))
		}
		if call == nil || sm.Ret == nil || len(sm.Results) != 2 {
			continue
		}
		if e := sm.Results[1]; !(e.K == sRes && e.Idx == 1 && e.A.Key() == call.Res.Key()) {
			probs = append(probs, cf.Name()+" does not return strconv's error unchanged")
		}
		v := sm.Results[0]
		if v.K == sMkIface {
			v = v.A
		}
		for v != nil && v.K == sConvert {
			from, _ := v.A.T.Underlying().(*types.Basic)
			to, _ := v.T.Underlying().(*types.Basic)
			if from != nil && to != nil {
				fi, ti := from.Info(), to.Info()
				if (fi&types.IsInteger != 0) != (ti&types.IsInteger != 0) {
					probs = append(probs, fmt.Sprintf("%s converts between integer and floating point (%s → %s)", cf.Name(), from, to))
				}
			}
			v = v.A
		}
		if v == nil || !(v.K == sRes && v.Idx == 0 && v.A.Key() == call.Res.Key()) {
			probs = append(probs, cf.Name()+" does not return the value strconv parsed")
		}
	}
	return probs
}

// checkCoercionErrors: a literal that is not valid for the value's type is an error, not a silent false; and
// equality against a non-scalar is an error.
func checkCoercionErrors(r *Run, prog *Program, a *Anchors, pfx string) {
	r.Floor(pfx+".coercion-error", 3)
	for _, m := range a.Matchers {
		ps := NewPathSim(prog)
		ps.Havoc = true
		ps.Inline = func(c *ssa.Function) bool {
			return isPureReflectHelper(prog, c) || (bexprHelper(prog, a, c) && !recursive(prog, c)) // the parts a matcher is split into
		}
		n := 0
		for _, sm := range ps.Run(m) {
			if sm.Ret == nil || len(sm.Results) != 2 {
				continue
			}
			for _, ev := range sm.Events() {
				if ev.Instr == nil || ev.Callee != a.CoerceTab || ev.Res == nil {
					continue
				}
				cerr := &Sym{K: sRes, A: ev.Res, Idx: 1}
				eq, known := evalEq(sm.St, cerr, nilSym())
				if !known || eq {
					continue
				}
				n++
				// the coercion failed on this path: the result must be an error, unless the named exception applies
				exception := false
				for _, e2 := range sm.Events() {
					if e2.Instr != nil && isCallTo(e2.Callee, "errors", "Is") && len(e2.Args) == 2 && e2.Args[0].Key() == cerr.Key() {
						if e2.Args[1].K == sLoad && e2.Args[1].A.K == sGlobal && e2.Args[1].A.V.Name() == "ErrSyntax" {
							if v, ok := evalBool(sm.St, e2.Res); ok && v {
								exception = true
							}
						}
					}
				}
				ec := errClass(sm, sm.Results[1])
				bv, okc := sm.Results[0].BoolConst()
				if exception {
					// named exception: heterogeneous []interface{} — a syntax error of the literal for one element's kind skips that element
					inLoop := strings.Contains(strings.Join(sm.St.trail, " "), "widened") || countPrefix(sm.St.trail, m.Name()+".b") > 3
					r.Check(pfx+".coercion-error", m.Name()+":ErrSyntax-exception", prog.pos(ev.Instr.Pos()), inLoop && m.Name() != "doMatchEqual", "info: the only tolerated discard: strconv.ErrSyntax for one element of a heterogeneous interface slice (not on the == path)")
					continue
				}
				r.Check(pfx+".coercion-error", m.Name()+":coercion-failed", prog.pos(sm.Ret.Pos()), ec == "nonnil" && okc && !bv,
					"the literal could not be coerced to the value's type but the matcher returns ("+shortKey(sm.Results[0])+", "+ec+" error): an invalid literal must be reported as an error")
			}
			// the == matcher has no other way to fail: an error is returned only when the literal could not be coerced or
			// the kind has no comparator (a literal that is valid for the type compares false, it is not an error)
			if m.Name() == "doMatchEqual" || strings.HasSuffix(m.Name(), "Equal") {
				if errClass(sm, sm.Results[1]) != "nil" {
					justified := false
					for _, ev := range sm.Events() {
						if ev.Instr == nil || ev.Res == nil {
							continue
						}
						if ev.Callee == a.CoerceTab {
							if eq, known := evalEq(sm.St, &Sym{K: sRes, A: ev.Res, Idx: 1}, nilSym()); known && !eq {
								justified = true
							}
						}
						if ev.Callee == a.EqTable {
							if eq, known := evalEq(sm.St, a.comparatorOf(ev.Res), nilSym()); known && eq {
								justified = true
							}
						}
					}
					r.Check(pfx+".equality-error-sources", m.Name()+":error-return", prog.pos(sm.Ret.Pos()), justified,
						"the equality matcher returns an error on a path where the literal was coerced and a comparator exists: a valid literal that denotes a different value must compare false, not fail [path "+strings.Join(sm.St.trail, " ")+"]")
				}
			}
			// the == matcher asks both tables for the kind of the very value it was given: a value replaced by something
			// computed from it (its text, its length) is compared in another type than its own
			if m.Name() == "doMatchEqual" || strings.HasSuffix(m.Name(), "Equal") {
				var vp *ssa.Parameter
				for _, q := range m.Params {
					if namedIs(q.Type(), "reflect", "Value") {
						vp = q
					}
				}
				if vp != nil {
					want := (&Sym{K: sKind, A: paramSym(vp)}).Key()
					for _, ev := range sm.Events() {
						if ev.Instr == nil || (ev.Callee != a.EqTable && ev.Callee != a.CoerceTab) || ev.Callee == nil {
							continue
						}
						okK := false
						for _, x := range ev.Args {
							if x.K == sKind || (x.T != nil && namedIs(x.T, "reflect", "Kind")) {
								okK = x.Key() == want
							}
						}
						r.Check(pfx+".equality-error-sources", m.Name()+":kind-asked:"+ev.Callee.Name(), prog.pos(ev.Instr.Pos()), okK,
							"the equality matcher consults "+ev.Callee.Name()+" for a kind other than that of the value it was given: the comparison would not be made in the value's own type [path "+strings.Join(sm.St.trail, " ")+"]")
					}
				}
			}
			// equality against a value with no comparator
			for _, ev := range sm.Events() {
				if ev.Instr == nil || ev.Callee != a.EqTable || ev.Res == nil {
					continue
				}
				if eq, known := evalEq(sm.St, a.comparatorOf(ev.Res), nilSym()); known && eq {
					ec := errClass(sm, sm.Results[1])
					r.Check(pfx+".non-scalar-error", m.Name()+":no-comparator", prog.pos(sm.Ret.Pos()), ec == "nonnil", "no comparator exists for the value's kind but the matcher does not return an error")
				}
			}
		}
		_ = n
	}
}

// checkElementTransparency: list elements are looked at through every level of pointer and interface before a
// comparator is chosen: where the equality table is consulted for an element of the list, the element's kind can be
// neither Ptr nor Interface (so "no comparator" errors are raised only for genuinely non-scalar elements).
func checkElementTransparency(r *Run, prog *Program, a *Anchors, pfx string) {
	ke := &kindEnv{prog: prog}
	n := 0
	for _, m := range a.Matchers {
		ps := NewPathSim(prog)
		ps.Inline = func(c *ssa.Function) bool {
			return isPureReflectHelper(prog, c) || (bexprHelper(prog, a, c) && !recursive(prog, c)) // the parts a matcher is split into
		}
		bad := map[ssa.Instruction]string{}
		seen := map[ssa.Instruction]bool{}
		ps.OnEvent = func(st *pstate, ev *Event) {
			if ev.Instr == nil || ev.Callee != a.EqTable || len(ev.Args) != 1 || ev.Args[0].K != sKind {
				return
			}
			x := ev.Args[0].A
			// is x (derived from) an element of a reflected list?
			elem := false
			for y, d := x, 0; y != nil && d < 8; d++ {
				if fn, _ := calleeOfSym(y); isReflectMethod(fn, "Index") {
					elem = true
					break
				}
				fn, _ := calleeOfSym(y)
				if fn == nil {
					break
				}
				as := symArgs(st, y)
				if len(as) == 0 {
					break
				}
				y = as[0]
			}
			if !elem {
				return
			}
			ins := ev.Instr.(ssa.Instruction)
			seen[ins] = true
			if k := ke.kinds(st, x); k&ks(kPtr, kInterface) != 0 {
				bad[ins] = fmt.Sprintf("the element handed to the equality table may still be of kind %s: pointers and interfaces must be looked through at every level first", k&ks(kPtr, kInterface))
			}
		}
		ps.Run(m)
		for ins := range seen {
			n++
			why, isBad := bad[ins]
			r.Check(pfx+".element-transparency", m.Name()+":equality-table-for-element", prog.pos(ins.Pos()), !isBad, why)
		}
	}
	r.Check(pfx+".element-transparency", "sites", "", n >= 1, fmt.Sprintf("info: %d element comparisons examined", n))
}

func int64Failed(sm *Summary, i64 *Event) bool {
	eq, known := evalEq(sm.St, &Sym{K: sRes, A: i64.Res, Idx: 1}, nilSym())
	return known && !eq
}

func countPrefix(xs []string, p string) int {
	n := 0
	for _, x := range xs {
		if strings.HasPrefix(x, p) {
			n++
		}
	}
	return n
}

// checkJSONNumber: narrowing tries Int64 first, Float64 second, errors otherwise; it precedes the dispatch; the value
// handed to the matchers is Indirect(ValueOf(val)).
func checkJSONNumber(r *Run, prog *Program, a *Anchors, pfx string) {
	fn := a.MatchEval
	ps := NewPathSim(prog)
	ps.Inline = func(c *ssa.Function) bool {
		if !prog.InModule(c) || c == a.GetValue || c == a.EqTable || c == a.CoerceTab || c == a.GetOpts {
			return false
		}
		for _, m := range a.Matchers {
			if m == c {
				return false
			}
		}
		return true
	}
	lookedUp := map[string]bool{}
	ps.Model = func(ev *Event) *Sym {
		if ev.Callee == a.GetValue {
			v := &Sym{K: sOpaque, V: ev.Instr.Value(), Str: "value"}
			lookedUp[v.Key()] = true
			return a.lookupModel(v, &Sym{K: sConst, C: constant.MakeBool(true)}, nilSym())
		}
		return nil
	}
	seen := map[string]int{}
	for _, sm := range ps.Run(fn) {
		if sm.Ret == nil {
			continue
		}
		var i64, f64, matcher, valueOf, indirect *Event
		evs := sm.Events()
		order := []string{}
		for i := range evs {
			ev := &evs[i]
			if ev.Instr == nil || ev.Callee == nil {
				continue
			}
			switch {
			case ev.Callee.Name() == "Int64" && ev.Callee.Pkg != nil && ev.Callee.Pkg.Pkg.Path() == "encoding/json":
				i64 = ev
				order = append(order, "Int64")
			case ev.Callee.Name() == "Float64" && ev.Callee.Pkg != nil && ev.Callee.Pkg.Pkg.Path() == "encoding/json":
				f64 = ev
				order = append(order, "Float64")
			case isMatcherCall(a, ev):
				if matcher == nil {
					matcher = ev
					order = append(order, "matcher")
				}
			case isReflectFunc(ev.Callee, "ValueOf"):
				valueOf = ev
			case isReflectFunc(ev.Callee, "Indirect"):
				indirect = ev
			}
		}
		pos := prog.pos(sm.Ret.Pos())
		if matcher != nil {
			// transparency: matcher gets Indirect(ValueOf(val))
			ok := indirect != nil && valueOf != nil && matcherValueKey(sm.St, matcher) == indirect.Res.Key() && indirect.Args[0].Key() == valueOf.Res.Key()
			if !ok && valueOf != nil {
				// reflect.Indirect spelled out: Elem() of a pointer, the value itself otherwise
				if _, mv := matcherCallOperands(sm.St, matcher); mv != nil {
					if inner, isInd := indirectOf(sm.St, mv); isInd && inner.Key() == valueOf.Res.Key() {
						ok = true
					}
				}
			}
			r.Check(pfx+".value-handed-over", "Indirect(ValueOf(val))", prog.pos(matcher.Instr.Pos()), ok, "the matcher must be given reflect.Indirect(reflect.ValueOf(value)) so that pointers and interfaces are transparent and named types are compared by kind")
			if i64 == nil && valueOf != nil {
				// not a json.Number: what is compared is the looked-up value itself, not something computed from it
				r.Check(pfx+".value-handed-over", "the-value-itself", prog.pos(matcher.Instr.Pos()), lookedUp[valueOf.Args[0].Key()],
					"the value handed to the matcher is "+shortKey(valueOf.Args[0])+", not the value the selector denotes (only a json.Number is replaced, by the number it spells)")
			}
			if i64 != nil && valueOf != nil {
				cls := "json-int"
				want := (&Sym{K: sMkIface, A: &Sym{K: sRes, A: i64.Res, Idx: 0}}).Key()
				if f64 != nil {
					cls = "json-float"
					want = (&Sym{K: sMkIface, A: &Sym{K: sRes, A: f64.Res, Idx: 0}}).Key()
				}
				seen[cls]++
				okO := strings.Join(order, ",") == "Int64,matcher" || strings.Join(order, ",") == "Int64,Float64,matcher"
				r.Check(pfx+".json-number", cls, pos, valueOf.Args[0].Key() == want && okO,
					"a json.Number must be narrowed to int64 first and to float64 only if that fails, before the operator dispatch; order "+strings.Join(order, ",")+", value "+shortKey(valueOf.Args[0]))
			}
		} else if i64 != nil && f64 != nil {
			seen["json-neither"]++
			r.Check(pfx+".json-number", "json-neither", pos, errClass(sm, sm.Results[1]) == "nonnil", "a json.Number that is neither an int64 nor a float64 must be an error")
		} else if i64 != nil && f64 == nil && int64Failed(sm, i64) {
			// gave up after Int64 alone
			r.Check(pfx+".json-number", "float-not-tried", pos, false, "a json.Number that is not an int64 is rejected without trying float64 (integers beyond the int64 range must still compare as floats)")
		}
	}
	for _, cls := range []string{"json-int", "json-float", "json-neither"} {
		r.Check(pfx+".json-number", "class:"+cls, prog.pos(fn.Pos()), seen[cls] > 0, "no path handles "+cls)
	}
}

func init() {
	register("C02", true, func(r *Run, prog *Program) {
		a := FindAnchors(prog)
		if !a.Require(r, "c02.anchors") {
			return
		}
		checkEqualityTables(r, prog, a, "c02")
		checkCoercionErrors(r, prog, a, "c02")
		checkJSONNumber(r, prog, a, "c02")
		checkElementTransparency(r, prog, a, "c02")
		checkDerefHelpers(r, prog, "c02")
		r.importing = "C06"
		checkQuantifier(r, prog, a, "c06") // … and inside any/all: an element's error ends the fold as an error
		r.importing = "C05"
		checkValueLookup(r, prog, a, "c05") // the value compared is the value the selector denotes, a nil one included (it is not "absent")
		r.importing = "C03"
		checkConnectives(r, prog, a, "c03") // "bad literals are errors" wherever the comparison stands: under `not`, on either side of `and`/`or`
		r.importing = "C09"
		checkComparatorCalls(r, prog, a, a.EvalSet) // what a comparator compares with is the literal read for that very kind, without error
		r.importing = "C19"
		checkSelectorString(r, prog, "c19") // "the raw string": a bare literal's text is the dotted join of its parts
		if g := loadGrammars(r, prog); g != nil {
			r.importing = "C16"
			checkLiteralFidelity(r, NewGA(prog, g.Tab)) // the literal compared is the text the quotes enclose, escapes decoded
			r.importing = "C15"
			checkEngineInvariants(r, prog, "c15") // … whatever characters it holds: a validly encoded U+FFFD is a character like any other
			checkNumberLiteral(r, NewGA(prog, g.Tab), "c02") // a numeral with any digits is a numeral: `F == 1.05` reaches the coercion
			r.importing = "C10"
			checkRecoverDiscipline(r, prog, "c10") // "bad literals are errors": an error the literal's action recorded is the error of the parse
		}
		r.importing = ""
		r.Technique = "sibling-table extraction by abstract execution per reflect.Kind (kind→coercion, kind→comparator) compared with a spec table transcribed from the statement; constant-argument and single-call checks on the strconv wrappers; conversion census (no integer/float detour); path analysis of coercion-error propagation; event-order analysis of the json.Number narrowing"
		r.Explain = "For each of the 27 kinds: scalars have a comparator whose asserted type is the coercion's result type and whose accessor is the one of that group (Int/int64, Uint/uint64, Float/float64, float32(Float())/float32, Bool/bool, String/string), non-scalars have none and equality against them returns an error; each coercion is exactly one strconv call with base 0/64 bits (ints), the field's width (floats) or ParseBool, applied to the literal's Raw text unmodified, returning strconv's error unchanged; no conversion between integer and floating types on either side; a failed coercion makes the matcher return (false, error) except the one named ErrSyntax skip for heterogeneous interface slices; json.Number narrows to int64 then float64 before the dispatch; matchers receive Indirect(ValueOf(value)). NOT decided: strconv's own arithmetic; pointer depth > 1 (Indirect is single-level)."
		r.Assume = append(r.Assume, "strconv.ParseInt/ParseUint/ParseFloat/ParseBool implement Go literal syntax exactly")
	})
}

func matcherValueKey(st *pstate, ev *Event) string {
	_, v := matcherCallOperands(st, ev)
	if v == nil {
		return ""
	}
	return v.Key()
}

// checkDerefHelpers: a helper that looks through pointers (reflect.Type → reflect.Type or reflect.Value → reflect.Value,
// calling Elem on what it was given) looks through *every* level: whatever it returns is not a pointer any more (nor an
// interface, for values). An `if` where the loop was strips one level only, and a **T element finds no comparator.
func checkDerefHelpers(r *Run, prog *Program, pfx string) {
	derefPostcondition(prog) // the same decision, without obligations, is what the kind analysis relies on for calls it cannot interpret in place
	ke := &kindEnv{prog: prog}
	n := 0
	for _, fn := range prog.ModuleFuncs() {
		if fn.Pkg != prog.BexprSSA || len(fn.Blocks) == 0 || len(fn.Params) != 1 || fn.Signature.Results().Len() != 1 {
			continue
		}
		pt, rt := fn.Params[0].Type(), fn.Signature.Results().At(0).Type()
		isT := isReflectType(pt) && isReflectType(rt)
		isV := isReflectValue(pt) && isReflectValue(rt)
		if !isT && !isV {
			continue
		}
		callsElem := false
		for _, b := range fn.Blocks {
			for _, ins := range b.Instrs {
				if c, ok := ins.(ssa.CallInstruction); ok {
					if c.Common().IsInvoke() && c.Common().Method.Name() == "Elem" {
						callsElem = true
					}
					if isReflectMethod(c.Common().StaticCallee(), "Elem") {
						callsElem = true
					}
				}
			}
		}
		if !callsElem {
			continue
		}
		// … under a test for kind Ptr: that is what makes it a pointer-stripping helper (a helper that takes the element
		// type of an array is something else)
		testsPtr := false
		for _, b := range fn.Blocks {
			for _, ins := range b.Instrs {
				if bo, ok := ins.(*ssa.BinOp); ok && (bo.Op == token.EQL || bo.Op == token.NEQ) {
					for _, side := range []ssa.Value{bo.X, bo.Y} {
						if c, isC := side.(*ssa.Const); isC && c.Value != nil && namedIs(c.Type(), "reflect", "Kind") {
							if v, _ := constant.Int64Val(c.Value); v == int64(kPtr) {
								testsPtr = true
							}
						}
					}
				}
			}
		}
		if !testsPtr {
			continue
		}
		n++
		forbidden := ks(kPtr)
		if isV {
			forbidden = ks(kPtr, kInterface)
		}
		ps := NewPathSim(prog)
		ps.maxVisits = 3
		ok, why := true, ""
		for _, sm := range ps.Run(fn) {
			if sm.Ret == nil || len(sm.Results) != 1 {
				continue
			}
			if cf, _ := calleeOfSym(sm.Results[0]); cf == fn {
				continue // the helper written recursively: what the inner call returns is, by induction, already stripped
			}
			k := ke.kinds(sm.St, sm.Results[0])
			if k&forbidden != 0 {
				ok = false
				why = fmt.Sprintf("%s may return something of kind %s (%s) [path %s]", fn.Name(), k&forbidden, shortKey(sm.Results[0]), strings.Join(sm.St.trail, " "))
			}
		}
		if ok {
			derefPost[fn] = forbidden
		}
		r.Check(pfx+".element-transparency", "deref:"+fn.Name(), prog.pos(fn.Pos()), ok, "a helper that looks through pointers must look through every level: "+why)
	}
	r.Check(pfx+".element-transparency", "deref:census", prog.pos(prog.BexprSSA.Func("init").Pos()), n >= 1, "no pointer-stripping helper found")
}

// derefPost: the pointer-stripping helpers whose postcondition has been established (result is never of these kinds).
var derefPost = map[*ssa.Function]KindSet{}
var derefPostDone = map[*Program]bool{}

// derefPostcondition decides, once per program, which helpers of the shape checked by checkDerefHelpers strip every
// level; the kind analysis uses the result for calls to such a helper that is written recursively (and therefore not
// interpreted in place).
func derefPostcondition(prog *Program) {
	if derefPostDone[prog] {
		return
	}
	derefPostDone[prog] = true
	sub := NewRun("C02", "quick")
	checkDerefHelpers(sub, prog, "c02")
}
