package main

import (
	"fmt"
	"go/token"
	"go/types"
	"strings"

	"golang.org/x/tools/go/ssa"
)

// parseReturnsOnPaths decides the two parse-returns rules on the paths of (*parser).parse, with the helpers that only
// parse can call interpreted in place: (1) every normal return hands out errList.err() of the parser's list as the
// error; (2) on every path on which parseRule reported no match, either an error is recorded (addErr / addErrAt reached
// after parseRule) or the list is known to be non-empty, and the value returned is nil.
func parseReturnsOnPaths(prog *Program, parse, errM *ssa.Function) (allErr bool, noMatch bool, detailAll, detail string) {
	parseRule := prog.Method(prog.GrammarSSA, "parser", "parseRule", true)
	addErr := prog.Method(prog.GrammarSSA, "parser", "addErr", true)
	addErrAt := prog.Method(prog.GrammarSSA, "parser", "addErrAt", true)
	if parseRule == nil || (addErr == nil && addErrAt == nil) {
		return false, false, "", "parseRule / addErr not found"
	}
	inl := map[*ssa.Function]bool{parse: true}
	ps := NewPathSim(prog)
	ps.maxVisits = 2
	ps.MaxDepth = 4
	ps.Inline = func(c *ssa.Function) bool {
		if c == parseRule || c == addErr || c == addErrAt || c == errM || c.Pkg != prog.GrammarSSA {
			return false
		}
		if inl[c] {
			return true
		}
		if prog.contextOnly(c, func(f *ssa.Function) bool { return inl[f] }) && !recursive(prog, c) {
			inl[c] = true
			return true
		}
		return false
	}
	ps.QuietDefer = func(d *ssa.Defer) bool {
		var f *ssa.Function
		if mc, ok := d.Call.Value.(*ssa.MakeClosure); ok {
			f, _ = mc.Fn.(*ssa.Function)
		} else {
			f = d.Call.StaticCallee()
		}
		return f != nil && writesOnlyWhenRecovered(f)
	}
	allErr, noMatch = true, true
	nRet, nNo := 0, 0
	for _, sm := range ps.Run(parse) {
		if sm.Ret == nil || len(sm.Results) != 2 {
			continue
		}
		nRet++
		if f, _ := calleeOfSym(sm.Results[1]); f == nil || (f != errM && !(f.Name() == errM.Name() && f.Signature.Recv() != nil && errM.Signature.Recv() != nil && types.Identical(deref(f.Signature.Recv().Type()), deref(errM.Signature.Recv().Type())))) {
			allErr = false
			detailAll = "a return of parse hands out " + shortKey(sm.Results[1]) + " as the error"
		}
		// the no-match paths
		idx := -1
		var pr *Event
		evs := sm.Events()
		for i := range evs {
			if evs[i].Instr != nil && !evs[i].Inlined && evs[i].Callee == parseRule {
				idx, pr = i, &evs[i]
			}
		}
		if pr != nil && pr.Res == nil {
			continue
		}
		if pr != nil {
			matched, known := evalBool(sm.St, &Sym{K: sRes, A: pr.Res, Idx: 1})
			if !known || matched {
				continue
			}
		} else {
			// a return before the start rule was tried at all is a refusal too: the same obligations (an error on record,
			// no value), counted from the beginning of the path
			idx = -1
		}
		nNo++
		recorded := false
		for _, ev := range evs[idx+1:] {
			if ev.Instr != nil && !ev.Inlined && (ev.Callee == addErr || ev.Callee == addErrAt) {
				recorded = true
			}
		}
		if !recorded {
			// the list is known not to be empty on this path
			nonEmpty := false
			for k, v := range sm.St.facts {
				if strings.HasPrefix(k, "cmp(==,len(") && strings.HasSuffix(k, ",const(0))") && strings.Contains(k, "errs") && !v {
					nonEmpty = true
				}
			}
			for k, m := range sm.St.neqc {
				if strings.HasPrefix(k, "len(") && strings.Contains(k, "errs") && m["const(0)"] {
					nonEmpty = true
				}
			}
			if !nonEmpty {
				noMatch = false
				detail = "a path on which nothing was matched returns without recording an error although the list may be empty: (nil, nil) reaches the caller's type assertion" + " [path " + strings.Join(sm.St.trail, " ") + "]"
			}
		}
		if !sm.Results[0].IsNil() {
			noMatch = false
			detail = "a no-match path returns the value " + shortKey(sm.Results[0])
		}
	}
	if nRet < 2 {
		allErr = false
		detailAll = fmt.Sprintf("%d returning paths of parse", nRet)
	}
	if nNo == 0 {
		noMatch = false
		detail = "no path of parse on which parseRule reports no match"
	}
	return allErr, noMatch, detailAll, detail
}

func deref(t types.Type) types.Type {
	if p, ok := t.Underlying().(*types.Pointer); ok {
		return p.Elem()
	}
	return t
}

// writesOnlyWhenRecovered: f calls recover() and every store and every call of f other than recover() itself is dominated
// by the edge on which recover()'s result is not nil: on a normal return of the deferring function f does nothing.
func writesOnlyWhenRecovered(f *ssa.Function) bool {
	var rec *ssa.Call
	for _, b := range f.Blocks {
		for _, ins := range b.Instrs {
			if c, ok := ins.(*ssa.Call); ok {
				if bi, ok := c.Call.Value.(*ssa.Builtin); ok && bi.Name() == "recover" {
					if rec != nil {
						return false
					}
					rec = c
				}
			}
		}
	}
	if rec == nil {
		return false
	}
	// the test: recover() != nil (or == nil) ends the block of the call
	blk := rec.Block()
	iff, ok := blk.Instrs[len(blk.Instrs)-1].(*ssa.If)
	if !ok {
		return false
	}
	bo, ok := iff.Cond.(*ssa.BinOp)
	if !ok {
		return false
	}
	isRec := func(v ssa.Value) bool { return v == ssa.Value(rec) }
	isNil := func(v ssa.Value) bool { c, ok := v.(*ssa.Const); return ok && c.Value == nil }
	if !((isRec(bo.X) && isNil(bo.Y)) || (isRec(bo.Y) && isNil(bo.X))) {
		return false
	}
	var recovered *ssa.BasicBlock
	switch bo.Op {
	case token.NEQ:
		recovered = blk.Succs[0]
	case token.EQL:
		recovered = blk.Succs[1]
	default:
		return false
	}
	if len(recovered.Preds) != 1 {
		return false
	}
	for _, b := range f.Blocks {
		for _, ins := range b.Instrs {
			effect := false
			switch x := ins.(type) {
			case *ssa.Store, *ssa.MapUpdate, *ssa.Send, *ssa.Go, *ssa.Defer, *ssa.Panic:
				effect = true
			case *ssa.Call:
				effect = x != rec
			}
			if effect && !recovered.Dominates(b) {
				return false
			}
		}
	}
	return true
}
