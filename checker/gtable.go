package main

// Engine T: extraction of pigeon's rule table (var g) from the type-checked
// syntax of grammar/grammar.go into the same tree type the PEG front-end
// produces. Node kinds come from the composite literal's *resolved type*,
// constants are read through types.Info, run: fields are resolved to method
// objects.

import (
	"fmt"
	"go/ast"
	"go/constant"
	"go/token"
	"go/types"

	"golang.org/x/tools/go/packages"

	"verifcheck/peg"
)

type Table struct {
	G       *peg.Grammar
	NodePos map[*peg.Node]token.Pos
	RulePos map[*peg.Rule]token.Pos
	// on*/callon* declarations indexed by name
	On     map[string]*ast.FuncDecl
	Callon map[string]*ast.FuncDecl
}

var tableKinds = map[string]peg.Kind{
	"choiceExpr":       peg.Choice,
	"seqExpr":          peg.Seq,
	"labeledExpr":      peg.Labeled,
	"actionExpr":       peg.Action,
	"andExpr":          peg.And,
	"notExpr":          peg.Not,
	"andCodeExpr":      peg.AndCode,
	"notCodeExpr":      peg.NotCode,
	"zeroOrOneExpr":    peg.Opt,
	"zeroOrMoreExpr":   peg.Star,
	"oneOrMoreExpr":    peg.Plus,
	"ruleRefExpr":      peg.RuleRef,
	"litMatcher":       peg.Lit,
	"charClassMatcher": peg.Class,
	"anyMatcher":       peg.Any,
}

func ExtractTable(pkg *packages.Package) (*Table, error) {
	info := pkg.TypesInfo
	t := &Table{G: &peg.Grammar{}, NodePos: map[*peg.Node]token.Pos{}, RulePos: map[*peg.Rule]token.Pos{},
		On: map[string]*ast.FuncDecl{}, Callon: map[string]*ast.FuncDecl{}}

	gobj := pkg.Types.Scope().Lookup("g")
	if gobj == nil {
		return nil, fmt.Errorf("package-level variable g not found in %s", pkg.PkgPath)
	}
	var glit *ast.CompositeLit
	for _, f := range pkg.Syntax {
		for _, d := range f.Decls {
			gd, ok := d.(*ast.GenDecl)
			if !ok || gd.Tok != token.VAR {
				continue
			}
			for _, s := range gd.Specs {
				vs := s.(*ast.ValueSpec)
				for i, n := range vs.Names {
					if info.Defs[n] == gobj && i < len(vs.Values) {
						e := vs.Values[i]
						if u, ok := e.(*ast.UnaryExpr); ok && u.Op == token.AND {
							e = u.X
						}
						glit, _ = e.(*ast.CompositeLit)
					}
				}
			}
		}
	}
	if glit == nil {
		return nil, fmt.Errorf("var g is not initialised with a composite literal")
	}
	constStr := func(e ast.Expr) (string, error) {
		tv, ok := info.Types[e]
		if !ok || tv.Value == nil || tv.Value.Kind() != constant.String {
			return "", fmt.Errorf("%s: not a constant string", pkg.Fset.Position(e.Pos()))
		}
		return constant.StringVal(tv.Value), nil
	}
	constBool := func(e ast.Expr) (bool, error) {
		tv, ok := info.Types[e]
		if !ok || tv.Value == nil || tv.Value.Kind() != constant.Bool {
			return false, fmt.Errorf("%s: not a constant bool", pkg.Fset.Position(e.Pos()))
		}
		return constant.BoolVal(tv.Value), nil
	}
	constRunes := func(e ast.Expr) ([]rune, error) {
		cl, ok := e.(*ast.CompositeLit)
		if !ok {
			return nil, fmt.Errorf("%s: not a rune slice literal", pkg.Fset.Position(e.Pos()))
		}
		var out []rune
		for _, el := range cl.Elts {
			tv, ok := info.Types[el]
			if !ok || tv.Value == nil {
				return nil, fmt.Errorf("%s: non-constant rune", pkg.Fset.Position(el.Pos()))
			}
			v, _ := constant.Int64Val(constant.ToInt(tv.Value))
			out = append(out, rune(v))
		}
		return out, nil
	}
	fields := func(cl *ast.CompositeLit) (map[string]ast.Expr, error) {
		m := map[string]ast.Expr{}
		for _, el := range cl.Elts {
			kv, ok := el.(*ast.KeyValueExpr)
			if !ok {
				return nil, fmt.Errorf("%s: positional composite literal in table", pkg.Fset.Position(el.Pos()))
			}
			id, ok := kv.Key.(*ast.Ident)
			if !ok {
				return nil, fmt.Errorf("%s: non-identifier key in table", pkg.Fset.Position(kv.Pos()))
			}
			if _, dup := m[id.Name]; dup {
				return nil, fmt.Errorf("%s: duplicate field %s", pkg.Fset.Position(kv.Pos()), id.Name)
			}
			m[id.Name] = kv.Value
		}
		return m, nil
	}
	named := func(e ast.Expr) string {
		tv, ok := info.Types[e]
		if !ok {
			return ""
		}
		ty := tv.Type
		if p, ok := ty.(*types.Pointer); ok {
			ty = p.Elem()
		}
		if n, ok := ty.(*types.Named); ok && n.Obj().Pkg() == pkg.Types {
			return n.Obj().Name()
		}
		return ""
	}
	var node func(e ast.Expr) (*peg.Node, error)
	node = func(e ast.Expr) (*peg.Node, error) {
		if u, ok := e.(*ast.UnaryExpr); ok && u.Op == token.AND {
			e = u.X
		}
		cl, ok := e.(*ast.CompositeLit)
		if !ok {
			return nil, fmt.Errorf("%s: table node is not a composite literal", pkg.Fset.Position(e.Pos()))
		}
		tn := named(cl)
		k, ok := tableKinds[tn]
		if !ok {
			return nil, fmt.Errorf("%s: table node of unsupported type %q", pkg.Fset.Position(e.Pos()), tn)
		}
		n := &peg.Node{Kind: k}
		t.NodePos[n] = cl.Pos()
		if k == peg.Any {
			// anyMatcher is `type anyMatcher position`: the literal holds line/col/offset
			return n, nil
		}
		fs, err := fields(cl)
		if err != nil {
			return nil, err
		}
		if pe, ok := fs["pos"]; ok {
			if pcl, ok := pe.(*ast.CompositeLit); ok {
				if pf, err := fields(pcl); err == nil {
					geti := func(name string) int {
						if x, ok := pf[name]; ok {
							if tv, ok := info.Types[x]; ok && tv.Value != nil {
								v, _ := constant.Int64Val(constant.ToInt(tv.Value))
								return int(v)
							}
						}
						return 0
					}
					n.Pos = peg.Pos{Line: geti("line"), Col: geti("col"), Offset: geti("offset")}
				}
			}
		}
		allowed := map[string]bool{"pos": true}
		kid := func(name string) error {
			allowed[name] = true
			x, ok := fs[name]
			if !ok {
				return fmt.Errorf("%s: %s without %s field", pkg.Fset.Position(cl.Pos()), tn, name)
			}
			c, err := node(x)
			if err != nil {
				return err
			}
			n.Kids = append(n.Kids, c)
			return nil
		}
		kids := func(name string) error {
			allowed[name] = true
			x, ok := fs[name]
			if !ok {
				return fmt.Errorf("%s: %s without %s field", pkg.Fset.Position(cl.Pos()), tn, name)
			}
			l, ok := x.(*ast.CompositeLit)
			if !ok {
				return fmt.Errorf("%s: %s.%s is not a slice literal", pkg.Fset.Position(x.Pos()), tn, name)
			}
			for _, el := range l.Elts {
				c, err := node(el)
				if err != nil {
					return err
				}
				n.Kids = append(n.Kids, c)
			}
			return nil
		}
		run := func() error {
			allowed["run"] = true
			x, ok := fs["run"]
			if !ok {
				return fmt.Errorf("%s: %s without run field", pkg.Fset.Position(cl.Pos()), tn)
			}
			// (*parser).callonX : a method expression
			var sel *ast.SelectorExpr
			switch v := x.(type) {
			case *ast.SelectorExpr:
				sel = v
			}
			if sel == nil {
				return fmt.Errorf("%s: run is not a method expression", pkg.Fset.Position(x.Pos()))
			}
			s := info.Selections[sel]
			if s == nil || s.Kind() != types.MethodExpr {
				return fmt.Errorf("%s: run does not resolve to a method expression", pkg.Fset.Position(x.Pos()))
			}
			recv := s.Recv()
			if p, ok := recv.(*types.Pointer); ok {
				recv = p.Elem()
			}
			if nn, ok := recv.(*types.Named); !ok || nn.Obj().Name() != "parser" {
				return fmt.Errorf("%s: run is a method of %s, not of parser", pkg.Fset.Position(x.Pos()), recv)
			}
			n.Run = s.Obj().Name()
			return nil
		}
		switch k {
		case peg.Choice:
			err = kids("alternatives")
		case peg.Seq:
			err = kids("exprs")
		case peg.Labeled:
			allowed["label"] = true
			if x, ok := fs["label"]; ok {
				n.Label, err = constStr(x)
			} else {
				err = fmt.Errorf("%s: labeledExpr without label", pkg.Fset.Position(cl.Pos()))
			}
			if err == nil {
				err = kid("expr")
			}
		case peg.Action:
			if err = run(); err == nil {
				err = kid("expr")
			}
		case peg.AndCode, peg.NotCode:
			err = run()
		case peg.And, peg.Not, peg.Opt, peg.Star, peg.Plus:
			err = kid("expr")
		case peg.RuleRef:
			allowed["name"] = true
			if x, ok := fs["name"]; ok {
				n.Name, err = constStr(x)
			} else {
				err = fmt.Errorf("%s: ruleRefExpr without name", pkg.Fset.Position(cl.Pos()))
			}
		case peg.Lit:
			for _, f := range []string{"val", "ignoreCase", "want"} {
				allowed[f] = true
			}
			if x, ok := fs["val"]; ok {
				if n.Val, err = constStr(x); err != nil {
					return nil, err
				}
			}
			if x, ok := fs["ignoreCase"]; ok {
				if n.IgnoreCase, err = constBool(x); err != nil {
					return nil, err
				}
			}
			if x, ok := fs["want"]; ok {
				if n.Want, err = constStr(x); err != nil {
					return nil, err
				}
			}
		case peg.Class:
			for _, f := range []string{"val", "chars", "ranges", "classes", "ignoreCase", "inverted", "basicLatinChars"} {
				allowed[f] = true
			}
			if x, ok := fs["val"]; ok {
				if n.Val, err = constStr(x); err != nil {
					return nil, err
				}
			}
			if x, ok := fs["chars"]; ok {
				if n.Chars, err = constRunes(x); err != nil {
					return nil, err
				}
			}
			if x, ok := fs["ranges"]; ok {
				if n.Ranges, err = constRunes(x); err != nil {
					return nil, err
				}
			}
			if x, ok := fs["ignoreCase"]; ok {
				if n.IgnoreCase, err = constBool(x); err != nil {
					return nil, err
				}
			}
			if x, ok := fs["inverted"]; ok {
				if n.Inverted, err = constBool(x); err != nil {
					return nil, err
				}
			}
			if x, ok := fs["classes"]; ok {
				l, ok := x.(*ast.CompositeLit)
				if !ok {
					return nil, fmt.Errorf("%s: classes is not a slice literal", pkg.Fset.Position(x.Pos()))
				}
				for _, el := range l.Elts {
					call, ok := el.(*ast.CallExpr)
					if !ok || len(call.Args) != 1 {
						return nil, fmt.Errorf("%s: classes element is not rangeTable(\"X\")", pkg.Fset.Position(el.Pos()))
					}
					id, ok := call.Fun.(*ast.Ident)
					if !ok || info.Uses[id] == nil || info.Uses[id].Name() != "rangeTable" || info.Uses[id].Pkg() != pkg.Types {
						return nil, fmt.Errorf("%s: classes element does not call this package's rangeTable", pkg.Fset.Position(el.Pos()))
					}
					s, err := constStr(call.Args[0])
					if err != nil {
						return nil, err
					}
					n.Classes = append(n.Classes, s)
				}
			}
			if _, ok := fs["basicLatinChars"]; ok {
				return nil, fmt.Errorf("%s: charClassMatcher.basicLatinChars present: the table was generated with -optimize-basic-latin, which this extractor does not model", pkg.Fset.Position(cl.Pos()))
			}
		}
		if err != nil {
			return nil, err
		}
		for f := range fs {
			if !allowed[f] {
				return nil, fmt.Errorf("%s: unexpected field %s in %s", pkg.Fset.Position(cl.Pos()), f, tn)
			}
		}
		return n, nil
	}

	gf, err := fields(glit)
	if err != nil {
		return nil, err
	}
	rulesE, ok := gf["rules"]
	if !ok {
		return nil, fmt.Errorf("var g has no rules field")
	}
	rl, ok := rulesE.(*ast.CompositeLit)
	if !ok {
		return nil, fmt.Errorf("g.rules is not a slice literal")
	}
	for _, re := range rl.Elts {
		if u, ok := re.(*ast.UnaryExpr); ok && u.Op == token.AND {
			re = u.X
		}
		rcl, ok := re.(*ast.CompositeLit)
		if !ok {
			return nil, fmt.Errorf("%s: rule is not a composite literal", pkg.Fset.Position(re.Pos()))
		}
		rf, err := fields(rcl)
		if err != nil {
			return nil, err
		}
		r := &peg.Rule{}
		if x, ok := rf["name"]; ok {
			if r.Name, err = constStr(x); err != nil {
				return nil, err
			}
		}
		if x, ok := rf["displayName"]; ok {
			if r.DisplayName, err = constStr(x); err != nil {
				return nil, err
			}
		}
		x, ok := rf["expr"]
		if !ok {
			return nil, fmt.Errorf("rule %s has no expr", r.Name)
		}
		if r.Expr, err = node(x); err != nil {
			return nil, err
		}
		for f := range rf {
			switch f {
			case "name", "displayName", "pos", "expr":
			default:
				return nil, fmt.Errorf("%s: unexpected rule field %s", pkg.Fset.Position(rcl.Pos()), f)
			}
		}
		r.Number()
		t.RulePos[r] = rcl.Pos()
		t.G.Rules = append(t.G.Rules, r)
	}

	// on* / callon* declarations
	for _, f := range pkg.Syntax {
		for _, d := range f.Decls {
			fd, ok := d.(*ast.FuncDecl)
			if !ok || fd.Recv == nil || len(fd.Recv.List) != 1 {
				continue
			}
			rt := fd.Recv.List[0].Type
			if s, ok := rt.(*ast.StarExpr); ok {
				rt = s.X
			}
			id, ok := rt.(*ast.Ident)
			if !ok {
				continue
			}
			name := fd.Name.Name
			switch {
			case id.Name == "current" && len(name) > 2 && name[:2] == "on":
				t.On[name] = fd
			case id.Name == "parser" && len(name) > 6 && name[:6] == "callon":
				t.Callon[name] = fd
			}
		}
	}
	return t, nil
}
