package main

// Rules added after mutant round 16: the numeral rule admits every digit, layout next to punctuation is optional, the
// parser's option list is read, not rewritten, and the empty entry point is the first rule.

import (
	"fmt"
	"go/types"
	"unicode"

	"golang.org/x/tools/go/ssa"

	"verifcheck/peg"
)

// checkNumberLiteral: the rules that spell a number (every rule whose first characters are digits and, possibly, the
// sign) admit every decimal numeral: a numeral may begin with any digit, and wherever digits repeat, every digit may
// stand. A class narrowed to [1-9] under a repetition refuses `1.05` although it is a float like `1.15`.
func checkNumberLiteral(r *Run, ga *GA, pfx string) {
	digits := rsRange('0', '9')
	signed := digits.Union(rsOf('-', '+'))
	nRules, nReps := 0, 0
	for _, rule := range ga.order {
		f := ga.rfirst[rule.Name]
		if f.Empty() || !f.Minus(signed).Empty() || f.Intersect(digits).Empty() {
			continue
		}
		// the rule that hands out the numeral (it has an action); rules it is made of (the digits, the integer part) are
		// visited from it
		hasAction := false
		rule.Walk(func(n *peg.Node, _ string) {
			if n.Kind == peg.Action {
				hasAction = true
			}
		})
		if !hasAction {
			continue
		}
		nRules++
		missing := digits.Minus(f)
		r.Check(pfx+".number-literal", "first-digit:"+rule.Name, ga.prog.pos(ga.tab.RulePos[rule]), missing.Empty(),
			fmt.Sprintf("the number rule %s cannot begin with %s: a numeral beginning with that digit is not read as a number", rule.Name, missing))
		seen := map[string]bool{rule.Name: true}
		var visit func(rl *peg.Rule)
		visit = func(rl *peg.Rule) {
			rl.Walk(func(n *peg.Node, path string) {
				if n.Kind == peg.RuleRef && !seen[n.Name] {
					seen[n.Name] = true
					if sub := ga.rules[n.Name]; sub != nil {
						visit(sub)
					}
					return
				}
				if n.Kind != peg.Star && n.Kind != peg.Plus {
					return
				}
				cs := ga.charsOf(n.Kids[0], map[string]bool{})
				if cs.Empty() || !cs.Minus(digits).Empty() {
					return
				}
				nReps++
				miss := digits.Minus(cs)
				r.Check(pfx+".number-literal", "repeated-digits:"+rl.Name+"/"+path, ga.posOf(n), miss.Empty(),
					fmt.Sprintf("the repeated digits of a numeral exclude %s: a literal such as 1.05 or 100 is refused where 1.15 or 111 is read", miss))
			})
		}
		visit(rule)
	}
	r.Check(pfx+".number-literal", "census", "grammar/grammar.go", nRules >= 1 && nReps >= 2,
		fmt.Sprintf("info: %d number rules, %d digit repetitions examined (at least 1 and 2 expected: integer part and fraction)", nRules, nReps))
}

// checkPunctuationLayout: a reference to the layout rule that stands directly beside a literal made of punctuation only
// (==, !=, a comma, a bracket) is optional: the neighbouring token cannot run into such a literal, so the rendering
// without the blank is a rendering of the same expression and has to be read back. (Beside a word — and, in, not — the
// blank is what separates the tokens and is mandatory.)
func checkPunctuationLayout(r *Run, ga *GA, layout string) {
	punct := func(n *peg.Node) (string, bool) {
		if n.Kind == peg.Labeled && len(n.Kids) == 1 {
			n = n.Kids[0]
		}
		if n.Kind != peg.Lit || n.Val == "" {
			return "", false
		}
		for _, c := range n.Val {
			if unicode.IsLetter(c) || unicode.IsDigit(c) || c == '_' || unicode.IsSpace(c) || c == '"' || c == '`' || c == '\'' {
				return "", false
			}
		}
		return n.Val, true
	}
	isLayout := func(n *peg.Node) (ref, optional bool) { return ga.layoutKind(n, layout, map[string]bool{}) }
	n := 0
	for _, rl := range ga.order {
		rl.Walk(func(sq *peg.Node, path string) {
			if sq.Kind != peg.Seq {
				return
			}
			for i, k := range sq.Kids {
				lit, ok := punct(k)
				if !ok {
					continue
				}
				for _, j := range []int{i - 1, i + 1} {
					if j < 0 || j >= len(sq.Kids) {
						continue
					}
					ref, opt := isLayout(sq.Kids[j])
					if !ref {
						continue
					}
					n++
					side := "after"
					if j < i {
						side = "before"
					}
					r.Check("c16.layout-rule", fmt.Sprintf("punctuation:%s:%s:%s", path, lit, side), ga.posOf(sq), opt,
						fmt.Sprintf("layout %s %q is mandatory: the same expression written without a blank there (the tokens cannot run together) would not be read back", side, lit))
				}
			}
		})
	}
	r.Check("c16.layout-rule", "punctuation:census", "grammar/grammar.go", n >= 4, fmt.Sprintf("info: %d layout positions beside punctuation examined", n))
}

// checkOptionListReadOnly: the engine reads the option list it is given and does not write to it: a caller that keeps
// its list and parses twice gets the same parser twice (an option overwritten by the one that undoes it would lift the
// budget on the second parse).
func checkOptionListReadOnly(r *Run, prog *Program, pfx string) {
	if prog.GrammarSSA == nil {
		r.Fail("unresolved-anchor", pfx+".option-list-read-only", "grammar", "grammar/grammar.go", "grammar package not built")
		return
	}
	n := 0
	for _, fn := range prog.ModuleFuncs() {
		if fn.Pkg != prog.GrammarSSA || len(fn.Blocks) == 0 {
			continue
		}
		for _, p := range fn.Params {
			if !isOptionSliceType(p.Type()) {
				continue
			}
			n++
			// every slice derived from the parameter without reallocation shares its memory
			shared := map[ssa.Value]bool{p: true}
			for changed := true; changed; {
				changed = false
				for _, b := range fn.Blocks {
					for _, ins := range b.Instrs {
						switch x := ins.(type) {
						case *ssa.Slice:
							if shared[x.X] && !shared[x] {
								shared[x], changed = true, true
							}
						case *ssa.Phi:
							for _, e := range x.Edges {
								if shared[e] && !shared[x] {
									shared[x], changed = true, true
								}
							}
						case *ssa.Call:
							// append(list, …) may write into the spare capacity of the list
							if bi, ok := x.Call.Value.(*ssa.Builtin); ok && bi.Name() == "append" && len(x.Call.Args) > 0 && shared[x.Call.Args[0]] && !shared[x] {
								shared[x], changed = true, true
							}
						}
					}
				}
			}
			bad := ""
			for _, b := range fn.Blocks {
				for _, ins := range b.Instrs {
					switch x := ins.(type) {
					case *ssa.Store:
						if ia, ok := x.Addr.(*ssa.IndexAddr); ok && shared[ia.X] {
							bad = prog.pos(x.Pos()) + ": an element of the option list is assigned"
						}
					case *ssa.Call:
						if bi, ok := x.Call.Value.(*ssa.Builtin); ok && len(x.Call.Args) > 0 && shared[x.Call.Args[0]] {
							if bi.Name() == "copy" || bi.Name() == "clear" {
								bad = prog.pos(x.Pos()) + ": the option list is the destination of " + bi.Name()
							}
							if bi.Name() == "append" && len(x.Call.Args) > 1 {
								bad = prog.pos(x.Pos()) + ": append to the caller's option list may write into its spare capacity"
							}
						}
					}
				}
			}
			r.Check(pfx+".option-list-read-only", fn.RelString(prog.GrammarSSA.Pkg)+":"+p.Name(), prog.pos(fn.Pos()), bad == "",
				"the parser's option list belongs to the caller and is written to: "+bad)
		}
	}
	r.Check(pfx+".option-list-read-only", "census", "grammar/grammar.go", n >= 3, fmt.Sprintf("info: %d option-list parameters examined (Parse, newParser, setOptions, … expected)", n))
}

func isOptionSliceType(t types.Type) bool {
	sl, ok := t.Underlying().(*types.Slice)
	return ok && namedIs(sl.Elem(), grammarPath, "Option")
}

// layoutKind: the node is a reference to the layout rule — directly, under `?`/`*`/`+`, under a label, or through a rule
// that is nothing but such a reference (`__ <- _?`) — and whether it may match nothing.
func (ga *GA) layoutKind(n *peg.Node, layout string, seen map[string]bool) (isLayout, optional bool) {
	switch n.Kind {
	case peg.RuleRef:
		if n.Name == layout {
			return true, false
		}
		if seen[n.Name] {
			return false, false
		}
		seen[n.Name] = true
		if rr := ga.rules[n.Name]; rr != nil {
			return ga.layoutKind(rr.Expr, layout, seen)
		}
	case peg.Opt, peg.Star:
		if len(n.Kids) == 1 {
			is, _ := ga.layoutKind(n.Kids[0], layout, seen)
			return is, true
		}
	case peg.Plus, peg.Labeled:
		if len(n.Kids) == 1 {
			return ga.layoutKind(n.Kids[0], layout, seen)
		}
	}
	return false, false
}
