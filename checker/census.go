package main

// Censuses over all module functions: field reads/writes, allocations, calls.

import (
	"fmt"
	"go/types"
	"sort"
	"strings"

	"golang.org/x/tools/go/ssa"
	"golang.org/x/tools/go/ssa/ssautil"
)

// ModuleFuncs: every function (incl. closures) of the two library packages.
func (p *Program) ModuleFuncs() []*ssa.Function {
	if p.moduleFuncs != nil {
		return p.moduleFuncs
	}
	var out []*ssa.Function
	for f := range ssautil.AllFunctions(p.SSA) {
		if p.InModule(f) && len(f.Blocks) > 0 {
			out = append(out, f)
		}
	}
	sort.Slice(out, func(i, j int) bool {
		if out[i].String() != out[j].String() {
			return out[i].String() < out[j].String()
		}
		return out[i].Pos() < out[j].Pos()
	})
	p.moduleFuncs = out // the program does not change once it is loaded; callers only read the slice
	return out
}

type FieldAccess struct {
	Fn     *ssa.Function
	Instr  ssa.Instruction // the Store / load / other user
	Addr   *ssa.FieldAddr  // nil for Field (value) reads
	Struct *types.Named
	Field  string
	Kind   string // "write", "read", "addr" (address escapes to another instruction)
	Val    ssa.Value
}

func structOf(t types.Type) *types.Named {
	if p, ok := t.Underlying().(*types.Pointer); ok {
		t = p.Elem()
	}
	n, _ := t.(*types.Named)
	if n == nil {
		if a, ok := t.(*types.Alias); ok {
			n, _ = types.Unalias(a).(*types.Named)
		}
	}
	if n == nil {
		return nil
	}
	if _, ok := n.Underlying().(*types.Struct); !ok {
		return nil
	}
	return n
}

// FieldAccesses enumerates accesses to fields of named struct types.
func (p *Program) FieldAccesses(fns []*ssa.Function) []FieldAccess {
	var out []FieldAccess
	for _, fn := range fns {
		for _, b := range fn.Blocks {
			for _, ins := range b.Instrs {
				switch x := ins.(type) {
				case *ssa.FieldAddr:
					st := structOf(x.X.Type())
					if st == nil {
						continue
					}
					name := fieldName(x.X.Type(), x.Field)
					refs := x.Referrers()
					if refs == nil {
						continue
					}
					for _, u := range *refs {
						switch y := u.(type) {
						case *ssa.Store:
							if y.Addr == x {
								out = append(out, FieldAccess{fn, y, x, st, name, "write", y.Val})
							} else {
								out = append(out, FieldAccess{fn, y, x, st, name, "addr", nil})
							}
						case *ssa.UnOp:
							out = append(out, FieldAccess{fn, y, x, st, name, "read", y})
						case *ssa.FieldAddr, *ssa.IndexAddr:
							// nested access: recorded under the inner struct / as an element access of an array field
							out = append(out, FieldAccess{fn, u, x, st, name, "nested", nil})
						case *ssa.DebugRef:
						default:
							out = append(out, FieldAccess{fn, u, x, st, name, "addr", nil})
						}
					}
				case *ssa.Field:
					st := structOf(x.X.Type())
					if st == nil {
						continue
					}
					out = append(out, FieldAccess{fn, x, nil, st, fieldName(x.X.Type(), x.Field), "read", x})
				}
			}
		}
	}
	return out
}

// astTypes: the struct types of package grammar that make up the syntax tree:
// the implementers of Expression and every named struct type of the package
// reachable through their fields.
func (p *Program) astTypes() map[*types.Named]bool {
	out := map[*types.Named]bool{}
	exprT := p.grammarType("Expression")
	if exprT == nil {
		return out
	}
	iface := exprT.Underlying().(*types.Interface)
	sc := p.Grammar.Types.Scope()
	var add func(t types.Type)
	add = func(t types.Type) {
		switch u := t.(type) {
		case *types.Pointer:
			add(u.Elem())
		case *types.Slice:
			add(u.Elem())
		case *types.Array:
			add(u.Elem())
		case *types.Named:
			if u.Obj().Pkg() != p.Grammar.Types {
				return
			}
			st, ok := u.Underlying().(*types.Struct)
			if !ok || out[u] {
				return
			}
			out[u] = true
			for i := 0; i < st.NumFields(); i++ {
				add(st.Field(i).Type())
			}
		}
	}
	for _, n := range sc.Names() {
		tn, ok := sc.Lookup(n).(*types.TypeName)
		if !ok {
			continue
		}
		if _, isIface := tn.Type().Underlying().(*types.Interface); isIface {
			continue
		}
		if types.Implements(tn.Type(), iface) || types.Implements(types.NewPointer(tn.Type()), iface) {
			add(tn.Type())
		}
	}
	return out
}

// isActionFunc: methods of grammar's `current` type (the on* semantic actions), and closures inside them.
func (p *Program) isActionFunc(fn *ssa.Function) bool {
	for fn.Parent() != nil {
		fn = fn.Parent()
	}
	if fn.Signature.Recv() == nil || !namedIs(fn.Signature.Recv().Type(), grammarPath, "current") {
		return p.actionHelper(fn, 0)
	}
	return true
}

// actionHelper: an unexported package-level function of package grammar that can only ever run as a static call from a
// semantic action (or from another such helper): a node constructor. What it builds is built while parsing.
func (p *Program) actionHelper(fn *ssa.Function, depth int) bool {
	if depth > 4 || fn.Pkg == nil || fn.Pkg != p.GrammarSSA || len(fn.Blocks) == 0 {
		return false
	}
	if rv := fn.Signature.Recv(); rv != nil && (namedIs(rv.Type(), grammarPath, "parser") || namedIs(rv.Type(), grammarPath, "current")) {
		return false
	}
	if o := fn.Object(); o == nil || o.Exported() {
		return false
	}
	n := p.CG.Nodes[fn]
	if n == nil || len(n.In) == 0 {
		return false
	}
	for _, e := range n.In {
		c := e.Caller.Func
		if isSynthetic(c) || c.Synthetic != "" {
			// the pointer-receiver form of a value method, a bound-method closure: fine if nothing uses it
			if cn := p.CG.Nodes[c]; cn == nil || len(cn.In) == 0 {
				continue
			}
			return false
		}
		if e.Site == nil || e.Site.Common().StaticCallee() != fn || c == fn {
			return false
		}
		isAction := c.Signature.Recv() != nil && namedIs(c.Signature.Recv().Type(), grammarPath, "current")
		if !isAction && !p.actionHelper(c, depth+1) {
			return false
		}
	}
	return true
}

// rootOf follows address/value derivations back to where a value comes from.
// It returns a short description of the root and the chain.
func rootOf(v ssa.Value) (root ssa.Value, chain []string) {
	seen := map[ssa.Value]bool{}
	for v != nil && !seen[v] {
		seen[v] = true
		switch x := v.(type) {
		case *ssa.FieldAddr:
			chain = append(chain, "."+fieldName(x.X.Type(), x.Field))
			v = x.X
		case *ssa.Field:
			chain = append(chain, "."+fieldName(x.X.Type(), x.Field))
			v = x.X
		case *ssa.IndexAddr:
			chain = append(chain, "[i]")
			v = x.X
		case *ssa.Index:
			chain = append(chain, "[i]")
			v = x.X
		case *ssa.Slice:
			chain = append(chain, "[:]")
			v = x.X
		case *ssa.UnOp:
			if x.Op.String() == "*" {
				chain = append(chain, "*")
				v = x.X
				continue
			}
			return v, chain
		case *ssa.ChangeType:
			v = x.X
		case *ssa.ChangeInterface:
			v = x.X
		case *ssa.Convert:
			v = x.X
		case *ssa.MakeInterface:
			v = x.X
		case *ssa.TypeAssert:
			chain = append(chain, ".("+types.TypeString(x.AssertedType, nil)+")")
			v = x.X
		case *ssa.Extract:
			if ta, ok := x.Tuple.(*ssa.TypeAssert); ok && x.Index == 0 {
				chain = append(chain, ".("+types.TypeString(ta.AssertedType, nil)+")")
				v = ta.X
				continue
			}
			return v, chain
		default:
			return v, chain
		}
	}
	return v, chain
}

func describeRoot(p *Program, v ssa.Value) string {
	root, chain := rootOf(v)
	// reverse chain for readability
	for i, j := 0, len(chain)-1; i < j; i, j = i+1, j-1 {
		chain[i], chain[j] = chain[j], chain[i]
	}
	var rs string
	switch x := root.(type) {
	case *ssa.Parameter:
		rs = "parameter " + x.Name()
	case *ssa.FreeVar:
		rs = "captured " + x.Name()
	case *ssa.Global:
		rs = "package variable " + x.Name()
	case *ssa.Alloc:
		rs = "local " + x.Comment
	case *ssa.Call:
		rs = "result of " + callName(x.Common())
	case *ssa.Extract:
		if c, ok := x.Tuple.(*ssa.Call); ok {
			rs = fmt.Sprintf("result #%d of %s", x.Index, callName(c.Common()))
		} else {
			rs = x.Name()
		}
	case *ssa.Phi:
		rs = "phi " + x.Comment
	case nil:
		rs = "?"
	default:
		rs = fmt.Sprintf("%T %s", root, root.Name())
	}
	return rs + strings.Join(chain, "")
}

func callName(c *ssa.CallCommon) string {
	if f := c.StaticCallee(); f != nil {
		return f.String()
	}
	if c.IsInvoke() {
		return "(" + c.Value.Type().String() + ")." + c.Method.Name()
	}
	return "dynamic call via " + c.Value.Name()
}

// derivesFromASTField: does v derive (through loads, slices, index) from a
// load of a field of a syntax-tree type?
func (p *Program) derivesFromASTField(v ssa.Value, ast map[*types.Named]bool) (bool, string) {
	return p.derivesFromAST(v, ast, map[ssa.Value]bool{})
}

func (p *Program) derivesFromAST(v ssa.Value, ast map[*types.Named]bool, seen map[ssa.Value]bool) (bool, string) {
	for v != nil && !seen[v] {
		seen[v] = true
		switch x := v.(type) {
		case *ssa.FieldAddr:
			if st := structOf(x.X.Type()); st != nil && ast[st] {
				if al, ok := x.X.(*ssa.Alloc); ok && !al.Heap {
					// a field of a local copy
					return false, ""
				}
				return true, st.Obj().Name() + "." + fieldName(x.X.Type(), x.Field)
			}
			v = x.X
		case *ssa.Field:
			if st := structOf(x.X.Type()); st != nil && ast[st] {
				return true, st.Obj().Name() + "." + fieldName(x.X.Type(), x.Field)
			}
			v = x.X
		case *ssa.IndexAddr:
			v = x.X
		case *ssa.Index:
			v = x.X
		case *ssa.Slice:
			v = x.X
		case *ssa.UnOp:
			v = x.X
		case *ssa.ChangeType:
			v = x.X
		case *ssa.Convert:
			v = x.X
		case *ssa.Phi:
			for _, e := range x.Edges {
				if ok, w := p.derivesFromAST(e, ast, seen); ok {
					return true, w
				}
			}
			return false, ""
		default:
			return false, ""
		}
	}
	return false, ""
}

// checkASTIntegrity: the syntax tree is built by the parser's actions only and
// is never modified afterwards (one admitted idiom: the regexp memo written
// before the tree is published). Serves C03 (the tree evaluated is the tree
// parsed), C12, C13, C19.
func checkASTIntegrity(r *Run, prog *Program, a *Anchors, pfx string) {
	ast := prog.astTypes()
	if len(ast) < 5 {
		r.Fail("unresolved-anchor", pfx+".ast-integrity", "ast-types", "", fmt.Sprintf("only %d syntax-tree types found", len(ast)))
		return
	}
	fns := prog.ModuleFuncs()
	inEval := func(fn *ssa.Function) bool { return a.EvalSet[fn] || a.ExecSet[fn] }
	nActionWrites, nOther := 0, 0
	for _, fa := range prog.FieldAccesses(fns) {
		if !ast[fa.Struct] || fa.Kind != "write" {
			continue
		}
		if prog.isActionFunc(fa.Fn) {
			nActionWrites++
			continue
		}
		// writes into a non-escaping local copy of a node are not writes to the tree
		if al, ok := fa.Addr.X.(*ssa.Alloc); ok && !al.Heap {
			continue
		}
		nOther++
		key := fmt.Sprintf("%s:store:%s.%s", fa.Fn.Name(), fa.Struct.Obj().Name(), fa.Field)
		ok, why := false, ""
		if !inEval(fa.Fn) && isRegexpMemo(fa) {
			ok = true
			why = "admitted idiom: idempotent memo of regexp.Compile(Raw), written outside the evaluation path before the tree is published"
		} else if inEval(fa.Fn) {
			why = "store into the shared syntax tree on the evaluation path (" + describeRoot(prog, fa.Addr) + ")"
		} else {
			why = "the syntax tree is modified after parsing, outside the parser's actions (" + describeRoot(prog, fa.Addr) + "): the tree evaluated is no longer the tree parsed"
		}
		r.Check(pfx+".ast-integrity", key, prog.pos(fa.Instr.Pos()), ok, why)
	}
	r.Check(pfx+".ast-built-by-actions", "action-writes", "grammar/grammar.go", nActionWrites >= 20, fmt.Sprintf("%d field initialisations of syntax-tree nodes found in parser actions (expected ≥ 20)", nActionWrites))
	// allocations of tree nodes and whole-node overwrites outside the actions
	for _, fn := range fns {
		if prog.isActionFunc(fn) {
			continue
		}
		for _, b := range fn.Blocks {
			for _, ins := range b.Instrs {
				switch x := ins.(type) {
				case *ssa.Alloc:
					st := structOf(x.Type())
					if st != nil && ast[st] && x.Heap {
						r.Check(pfx+".ast-integrity", fmt.Sprintf("%s:alloc:%s", fn.Name(), st.Obj().Name()), prog.pos(x.Pos()), false,
							"a syntax-tree node of type "+st.Obj().Name()+" is created outside the parser's actions")
					}
				case *ssa.Store:
					st := structOf(x.Addr.Type())
					if st == nil || !ast[st] {
						// element stores into slices that belong to the tree
						if ia, ok := x.Addr.(*ssa.IndexAddr); ok {
							if from, w := prog.derivesFromASTField(ia.X, ast); from {
								r.Check(pfx+".ast-integrity", fmt.Sprintf("%s:elem-store:%s", fn.Name(), w), prog.pos(x.Pos()), false, "store into an element of a slice owned by the syntax tree ("+w+")")
							}
						}
						continue
					}
					if al, ok := x.Addr.(*ssa.Alloc); ok && !al.Heap {
						continue // spilled parameter / local copy
					}
					r.Check(pfx+".ast-integrity", fmt.Sprintf("%s:overwrite:%s", fn.Name(), st.Obj().Name()), prog.pos(x.Pos()), false, "a whole syntax-tree node is overwritten outside the parser's actions")
				case *ssa.Call:
					if bi, ok := x.Call.Value.(*ssa.Builtin); ok && (bi.Name() == "append" || bi.Name() == "copy") && len(x.Call.Args) > 0 {
						if from, w := prog.derivesFromASTField(x.Call.Args[0], ast); from {
							r.Check(pfx+".ast-integrity", fmt.Sprintf("%s:%s-onto:%s", fn.Name(), bi.Name(), w), prog.pos(x.Pos()), false,
								bi.Name()+" with a slice owned by the syntax tree as destination ("+w+"): may write into the shared backing array")
						}
					}
					if callee := x.Call.StaticCallee(); callee != nil && callee.Pkg != nil {
						pp := callee.Pkg.Pkg.Path()
						if (pp == "sort" || pp == "slices") && len(x.Call.Args) > 0 {
							if from, w := prog.derivesFromASTField(x.Call.Args[0], ast); from {
								r.Check(pfx+".ast-integrity", fmt.Sprintf("%s:%s.%s:%s", fn.Name(), pp, callee.Name(), w), prog.pos(x.Pos()), false, "in-place "+pp+"."+callee.Name()+" of a slice owned by the syntax tree ("+w+")")
							}
						}
					}
				}
			}
		}
	}
	r.Check(pfx+".ast-integrity", "census", "", true, fmt.Sprintf("%d module functions scanned; %d stores to tree fields in parser actions, %d elsewhere", len(fns), nActionWrites, nOther))
}

// isRegexpMemo: store of a value that is the first result of regexp.Compile /
// MustCompile into a field of interface type.
func isRegexpMemo(fa FieldAccess) bool {
	v := fa.Val
	if mi, ok := v.(*ssa.MakeInterface); ok {
		v = mi.X
	}
	if ex, ok := v.(*ssa.Extract); ok && ex.Index == 0 {
		v = ex.Tuple
	}
	c, ok := v.(*ssa.Call)
	if !ok {
		return false
	}
	f := c.Call.StaticCallee()
	return f != nil && f.Pkg != nil && f.Pkg.Pkg.Path() == "regexp" && (f.Name() == "Compile" || f.Name() == "MustCompile")
}

// rootedAtParse: v is (a type assertion / conversion of) the first result of grammar.Parse, possibly handed through
// an unexported helper of package bexpr all of whose non-nil results are.
func rootedAtParse(prog *Program, a *Anchors, v ssa.Value, depth int) bool {
	if depth > 5 {
		return false
	}
	root, _ := rootOf(v)
	switch x := root.(type) {
	case *ssa.Phi:
		// every way the value can have been produced
		for _, e := range x.Edges {
			if c, isC := e.(*ssa.Const); isC && c.Value == nil {
				continue
			}
			if !rootedAtParse(prog, a, e, depth+1) {
				return false
			}
		}
		return len(x.Edges) > 0
	case *ssa.Parameter:
		// a parameter of a helper that only ever runs as a static call: what every caller passes
		fn := x.Parent()
		if !prog.contextOnly(fn, func(c *ssa.Function) bool { return prog.InModule(c) }) {
			return false
		}
		idx := -1
		for i, p := range fn.Params {
			if p == x {
				idx = i
			}
		}
		n := 0
		for _, e := range prog.CG.Nodes[fn].In {
			if e.Site == nil || isSynthetic(e.Caller.Func) {
				continue
			}
			args := e.Site.Common().Args
			if idx < 0 || idx >= len(args) || !rootedAtParse(prog, a, args[idx], depth+1) {
				return false
			}
			n++
		}
		return n > 0
	}
	ex, ok := root.(*ssa.Extract)
	if !ok || ex.Index != 0 {
		return false
	}
	c, ok := ex.Tuple.(*ssa.Call)
	if !ok {
		return false
	}
	callee := c.Call.StaticCallee()
	if callee == a.Parse {
		return true
	}
	if callee == nil || !bexprHelper(prog, a, callee) {
		return false
	}
	n := 0
	for _, b := range callee.Blocks {
		for _, ins := range b.Instrs {
			ret, ok := ins.(*ssa.Return)
			if !ok || len(ret.Results) == 0 {
				continue
			}
			if cst, isC := ret.Results[0].(*ssa.Const); isC && cst.Value == nil {
				continue
			}
			n++
			if !rootedAtParse(prog, a, ret.Results[0], depth+1) {
				return false
			}
		}
	}
	return n > 0
}

// checkTreeHandedOver: Evaluator.ast is written once, with the parse result,
// and Evaluate hands exactly that field to the dispatcher.
func checkTreeHandedOver(r *Run, prog *Program, a *Anchors, pfx string) {
	evT := prog.Bexpr.Types.Scope().Lookup("Evaluator")
	if evT == nil {
		r.Fail("unresolved-anchor", pfx+".tree-handover", "Evaluator", "", "type Evaluator not found")
		return
	}
	// the field of Evaluator whose type is grammar.Expression
	st := evT.Type().Underlying().(*types.Struct)
	astField := ""
	for i := 0; i < st.NumFields(); i++ {
		if namedIs(st.Field(i).Type(), grammarPath, "Expression") {
			astField = st.Field(i).Name()
		}
	}
	if astField == "" {
		r.Fail("unresolved-anchor", pfx+".tree-handover", "Evaluator.ast", "", "Evaluator has no field of type grammar.Expression")
		return
	}
	writes := 0
	for _, fa := range prog.FieldAccesses(prog.ModuleFuncs()) {
		if fa.Struct.Obj() != evT || fa.Field != astField || fa.Kind != "write" {
			continue
		}
		writes++
		ok := rootedAtParse(prog, a, fa.Val, 0)
		desc := describeRoot(prog, fa.Val)
		inCreate := fa.Fn == a.CreateEv || prog.ctorHelper(a, fa.Fn, 0) // (a helper the two constructors share counts)
		r.Check(pfx+".tree-handover", fa.Fn.Name()+":store:Evaluator."+astField, prog.pos(fa.Instr.Pos()), ok && inCreate,
			"Evaluator."+astField+" must be written only by CreateEvaluator with the (type-asserted) result of grammar.Parse; here: "+desc)
	}
	r.Check(pfx+".tree-handover", "Evaluator."+astField+":writers", prog.pos(a.CreateEv.Pos()), writes == 1, fmt.Sprintf("%d writers of Evaluator.%s (expected exactly one)", writes, astField))
	// Evaluate: first argument of the dispatcher call is a load of recv.ast
	n := 0
	for _, b := range a.EvaluateM.Blocks {
		for _, ins := range b.Instrs {
			c, ok := ins.(*ssa.Call)
			if !ok || c.Call.StaticCallee() != a.Dispatch {
				continue
			}
			n++
			okArg := false
			nodeArg, datumArg := c.Call.Args[0], ssa.Value(nil)
			if len(c.Call.Args) > 1 {
				datumArg = c.Call.Args[1]
			}
			if nP, dP, _ := evalParams(a.Dispatch); nP != nil && dP != nil {
				for i, q := range a.Dispatch.Params {
					if i < len(c.Call.Args) {
						if q == nP {
							nodeArg = c.Call.Args[i]
						}
						if q == dP {
							datumArg = c.Call.Args[i]
						}
					}
				}
			}
			if ld, isLoad := nodeArg.(*ssa.UnOp); isLoad {
				if fa, isFA := ld.X.(*ssa.FieldAddr); isFA && fieldName(fa.X.Type(), fa.Field) == astField {
					if _, isParam := fa.X.(*ssa.Parameter); isParam {
						okArg = true
					}
				}
			}
			okDatum := datumArg != nil && len(a.EvaluateM.Params) > 1 && datumArg == ssa.Value(a.EvaluateM.Params[1])
			r.Check(pfx+".tree-handover", "Evaluate:dispatch-args", prog.pos(c.Pos()), okArg && okDatum,
				"Evaluate must hand the receiver's syntax tree and its own datum parameter to the dispatcher; node argument: "+describeRoot(prog, nodeArg))
		}
	}
	// once on every path (two call sites in the two arms of a branch are one call each time)
	ps := NewPathSim(prog)
	sums := ps.Run(a.EvaluateM)
	perPath := n >= 1
	worst := n
	for _, sm := range sums {
		k := 0
		for _, ev := range sm.Events() {
			if ev.Instr != nil && ev.Callee == a.Dispatch {
				k++
			}
		}
		if k != 1 {
			perPath, worst = false, k
		}
	}
	r.Check(pfx+".tree-handover", "Evaluate:dispatch-calls", prog.pos(a.EvaluateM.Pos()), perPath, fmt.Sprintf("Evaluate calls the dispatcher %d times on some path (expected once on every path)", worst))
	// every return of Evaluate is the dispatcher's pair, unchanged
	for _, sm := range sums {
		if sm.Ret == nil || len(sm.Results) != 2 {
			r.Check(pfx+".tree-handover", "Evaluate:returns", prog.pos(a.EvaluateM.Pos()), false, "Evaluate panics or has an unexpected result shape")
			continue
		}
		b, e := sm.Results[0], sm.Results[1]
		ok := b.K == sRes && e.K == sRes && b.A == e.A && b.Idx == 0 && e.Idx == 1
		if ok {
			callee, _ := calleeOfSym(b.A)
			ok = callee == a.Dispatch
		}
		r.Check(pfx+".tree-handover", "Evaluate:returns", prog.pos(sm.Ret.Pos()), ok, "Evaluate must return the dispatcher's (bool, error) pair unchanged on every path; returns ("+shortKey(b)+", "+shortKey(e)+")")
	}
}

// staticCallers: the functions that call fn (call-graph in-edges), through synthetic wrappers.
func (p *Program) staticCallers(fn *ssa.Function) []*ssa.Function {
	var out []*ssa.Function
	seen := map[*ssa.Function]bool{}
	if n := p.CG.Nodes[fn]; n != nil {
		for _, e := range n.In {
			c := e.Caller.Func
			if !seen[c] {
				seen[c] = true
				out = append(out, c)
			}
		}
	}
	sort.Slice(out, func(i, j int) bool { return out[i].String() < out[j].String() })
	return out
}

// contextOnly: fn can only ever run as a statically resolved call from functions accepted by `within`: it is an
// unexported, non-recursive function of the module that is never used as a value. Such a function may be judged in the
// context of each of its callers instead of on its own.
func (p *Program) contextOnly(fn *ssa.Function, within func(*ssa.Function) bool) bool {
	if !p.InModule(fn) || len(fn.Blocks) == 0 {
		return false
	}
	if o := fn.Object(); o != nil && o.Exported() {
		return false
	}
	n := p.CG.Nodes[fn]
	if n == nil || len(n.In) == 0 {
		return false
	}
	for _, e := range n.In {
		c := e.Caller.Func
		if c == fn {
			return false // recursive
		}
		if isSynthetic(c) {
			// a wrapper (pointer-receiver form of a value method, bound-method closure, method-expression thunk):
			// acceptable if nothing uses it, or — for a thunk — if every use of the thunk is itself acceptable
			cn := p.CG.Nodes[c]
			if cn == nil || len(cn.In) == 0 {
				continue
			}
			if unwrapThunk(c) == fn {
				okAll := true
				for _, e2 := range cn.In {
					c2 := e2.Caller.Func
					if e2.Site == nil || e2.Site.Common().IsInvoke() || !within(c2) || p.SSA == nil {
						okAll = false
						break
					}
					if e2.Site.Common().StaticCallee() == c {
						continue
					}
					if g := tableRoot(e2.Site.Common().Value); g == nil || !p.Globals().immut[g] {
						okAll = false
						break
					}
				}
				if okAll {
					continue
				}
			}
			return false
		}
		if e.Site != nil && e.Site.Common().StaticCallee() == nil && !e.Site.Common().IsInvoke() && within(c) && p.SSA != nil {
			// a call through a function value taken from an initialise-once package-level table: the target is resolved
			// on each path from the table's contents (globals.go), so the call is as good as static
			if g := tableRoot(e.Site.Common().Value); g != nil && p.Globals().immut[g] {
				continue
			}
			return false
		}
		if e.Site == nil || e.Site.Common().StaticCallee() != fn || !within(c) {
			return false
		}
	}
	// never used as a value: every referrer of the function is the callee operand of a call
	if refs := fn.Referrers(); refs != nil {
		for _, r := range *refs {
			c, ok := r.(ssa.CallInstruction)
			if !ok || c.Common().Value != ssa.Value(fn) {
				return false
			}
		}
	}
	return true
}

// ctorHelper: fn is one of the two constructors or an unexported helper that only ever runs as a static call from one
// (directly or through other such helpers): what it does, it does while an evaluator or filter is being created.
func (p *Program) ctorHelper(a *Anchors, fn *ssa.Function, depth int) bool {
	if fn == a.CreateEv || fn == a.CreateFi {
		return true
	}
	if depth > 3 || !bexprHelper(p, a, fn) {
		return false
	}
	return p.contextOnly(fn, func(c *ssa.Function) bool { return p.ctorHelper(a, c, depth+1) })
}

// originOfParam: a parameter of a helper that has exactly one (static) call site is the argument passed there; followed
// transitively. Any other value is returned as it is.
func (p *Program) originOfParam(v ssa.Value, depth int) ssa.Value {
	par, ok := v.(*ssa.Parameter)
	if !ok || depth > 4 {
		return v
	}
	fn := par.Parent()
	if !p.contextOnly(fn, func(c *ssa.Function) bool { return p.InModule(c) }) {
		return v
	}
	idx := -1
	for i, q := range fn.Params {
		if q == par {
			idx = i
		}
	}
	var site ssa.CallInstruction
	for _, e := range p.CG.Nodes[fn].In {
		if e.Site == nil || isSynthetic(e.Caller.Func) {
			continue
		}
		if site != nil {
			return v // more than one call site
		}
		site = e.Site
	}
	if site == nil || idx < 0 || idx >= len(site.Common().Args) {
		return v
	}
	return p.originOfParam(site.Common().Args[idx], depth+1)
}

// tableRoot: the package-level variable a value is read from (through loads, lookups, indexing, field selection).
func tableRoot(v ssa.Value) *ssa.Global {
	for i := 0; i < 12 && v != nil; i++ {
		switch x := v.(type) {
		case *ssa.Global:
			return x
		case *ssa.Extract:
			v = x.Tuple
		case *ssa.Lookup:
			v = x.X
		case *ssa.Index:
			v = x.X
		case *ssa.IndexAddr:
			v = x.X
		case *ssa.Field:
			v = x.X
		case *ssa.FieldAddr:
			v = x.X
		case *ssa.UnOp:
			if x.Op.String() != "*" {
				return nil
			}
			v = x.X
		default:
			return nil
		}
	}
	return nil
}
