package main

import (
	"encoding/json"
	"fmt"
	"os"
	"runtime/debug"
	"strings"
)

type checkFn func(r *Run, prog *Program)

type checkDef struct {
	fn      checkFn
	needSSA bool
}

var checks = map[string]checkDef{}

func register(id string, needSSA bool, fn checkFn) { checks[id] = checkDef{fn, needSSA} }

func usage() {
	fmt.Fprintln(os.Stderr, "usage: verifcheck <Cxx> <quick|thorough> | verifcheck <Cxx> --replay <violation.json>")
	os.Exit(2)
}

func main() {
	if len(os.Args) < 3 {
		usage()
	}
	id := strings.ToUpper(os.Args[1])
	def, ok := checks[id]
	if !ok {
		fmt.Fprintf(os.Stderr, "unknown property %s\n", id)
		os.Exit(2)
	}
	tier := os.Args[2]
	replayKey := ""
	if tier == "--replay" {
		if len(os.Args) < 4 {
			usage()
		}
		b, err := os.ReadFile(os.Args[3])
		if err != nil {
			fmt.Fprintln(os.Stderr, err)
			os.Exit(2)
		}
		var v Violation
		if err := json.Unmarshal(b, &v); err != nil {
			fmt.Fprintln(os.Stderr, err)
			os.Exit(2)
		}
		replayKey = v.Rule + "|" + v.Key
		tier = "quick"
		fmt.Printf("replaying rule=%s key=%s on the current tree\n", v.Rule, v.Key)
	}
	if tier != "quick" && tier != "thorough" {
		usage()
	}
	os.Exit(runCheck(id, def, tier, replayKey))
}

type config struct{ goos, goarch, tags string }

func runCheck(id string, def checkDef, tier, replayKey string) (code int) {
	r := NewRun(id, tier)
	r.replayKey = replayKey
	defer func() {
		if rec := recover(); rec != nil {
			r.Fail("checker-panic", "checker", "panic", "", fmt.Sprintf("%v\n%s", rec, debug.Stack()))
			code = r.Finish()
			if code == 0 {
				code = 1
			}
		}
	}()
	cfgs := []config{{}}
	if tier == "thorough" {
		// cover what other builds cover: a second architecture (32-bit), a
		// second OS, and the verif build tag.
		cfgs = append(cfgs, config{"linux", "386", ""}, config{"windows", "amd64", ""}, config{"", "", "verif"})
	}
	for i, c := range cfgs {
		name := fmt.Sprintf("GOOS=%s GOARCH=%s tags=%s", orDefault(c.goos), orDefault(c.goarch), orDefault(c.tags))
		prog, err := Load(def.needSSA, c.goos, c.goarch, c.tags)
		if err != nil {
			r.Fail("load-error", "load", "load:"+name, "", err.Error())
			continue
		}
		r.Configs = append(r.Configs, fmt.Sprintf("%s: %d packages", name, len(prog.Pkgs)))
		if i == 0 {
			def.fn(r, prog)
		} else {
			// further configurations: run the same rules; obligations are
			// recorded under the same keys, failures are what matters.
			sub := NewRun(id, tier)
			sub.replayKey = replayKey
			def.fn(sub, prog)
			for _, v := range sub.Viols {
				v.Detail = "[" + name + "] " + v.Detail
				r.Viols = append(r.Viols, v)
			}
			r.Note("configuration %s: %d obligations, %d violations", name, len(sub.Obls), len(sub.Viols))
		}
	}
	for _, f := range exhaustedSims {
		r.Fail("undecided", "pathsim.budget", f, "", "the path exploration of "+f+" exceeded its work budget: the rules that depend on it are undecided (a recursion or loop nest much larger than anything on the reference tree)")
	}
	if os.Getenv("VERIF_STEPS") != "" {
		fmt.Fprintf(os.Stderr, "pathsim: largest simulator entered %d blocks, all together %d\n", stepsHigh, stepsTotal)
	}
	return r.Finish()
}

func orDefault(s string) string {
	if s == "" {
		return "default"
	}
	return s
}
