// Package peg is a hand-written front-end for the grammar notation of the
// pigeon PEG parser generator, sufficient for (and validated on every run
// against) hashicorp/go-bexpr's grammar/grammar.peg. It also models the three
// deterministic lowering steps pigeon applies when it emits the rule table:
// character-class decomposition, the literal "want" string, and pre-order node
// numbering (which names the on<Rule><N> action functions).
//
// Constructs this front-end does not model (state blocks #{}, throw %{},
// recovery //{}) are rejected loudly, never skipped.
package peg

import (
	"fmt"
	"strconv"
	"strings"
	"unicode"
	"unicode/utf8"
)

// Kind of a grammar expression node. The same tree type is produced from the
// .peg source (this package) and from the generated Go table (gtable.go).
type Kind string

const (
	Choice  Kind = "choice"
	Seq     Kind = "seq"
	Labeled Kind = "labeled"
	Action  Kind = "action"
	And     Kind = "and"     // &e
	Not     Kind = "not"     // !e
	AndCode Kind = "andcode" // &{...}
	NotCode Kind = "notcode" // !{...}
	Opt     Kind = "opt"     // e?
	Star    Kind = "star"    // e*
	Plus    Kind = "plus"    // e+
	RuleRef Kind = "ruleref"
	Lit     Kind = "lit"
	Class   Kind = "class"
	Any     Kind = "any"
)

type Pos struct{ Line, Col, Offset int }

func (p Pos) String() string { return fmt.Sprintf("%d:%d", p.Line, p.Col) }

type Node struct {
	Kind Kind
	Kids []*Node
	Pos  Pos

	Label string // Labeled
	Name  string // RuleRef

	Val        string // Lit: the unquoted value; Class: the raw source text "[...]"
	IgnoreCase bool   // Lit, Class
	Want       string // Lit (table side: as stored; peg side: modelled)
	Inverted   bool   // Class
	Chars      []rune
	Ranges     []rune
	Classes    []string

	Code string // Action/AndCode/NotCode, peg side: text between the braces
	Run  string // Action/AndCode/NotCode, table side: name of the method in run:
	Idx  int    // pre-order index within the rule (rule's top expression = 1)
}

type Rule struct {
	Name        string
	DisplayName string // as written, including quotes ("" if absent)
	Expr        *Node
	Pos         Pos
}

type Grammar struct {
	Init  string // initializer code block (between the braces), "" if none
	Rules []*Rule
}

// Number assigns pre-order indices (the rule's top expression is 1), the way
// pigeon numbers expressions to name action functions.
func (r *Rule) Number() {
	n := 0
	var walk func(*Node)
	walk = func(x *Node) {
		n++
		x.Idx = n
		for _, k := range x.Kids {
			walk(k)
		}
	}
	walk(r.Expr)
}

// Walk visits nodes in pre-order with a path string.
func (r *Rule) Walk(f func(n *Node, path string)) {
	var walk func(*Node, string)
	walk = func(x *Node, path string) {
		f(x, path)
		for i, k := range x.Kids {
			walk(k, fmt.Sprintf("%s/%s[%d]", path, x.Kind, i))
		}
	}
	walk(r.Expr, r.Name)
}

type parser struct {
	src  string
	off  int
	errs []string
}

type parseError struct{ msg string }

func (p *parser) fail(format string, args ...interface{}) {
	panic(parseError{fmt.Sprintf("%s: %s", p.posAt(p.off), fmt.Sprintf(format, args...))})
}

func (p *parser) posAt(off int) Pos {
	line := strings.Count(p.src[:off], "\n") + 1
	ls := strings.LastIndex(p.src[:off], "\n") + 1
	col := utf8.RuneCountInString(p.src[ls:off]) + 1
	return Pos{line, col, off}
}

// Parse parses a pigeon grammar.
func Parse(src string) (g *Grammar, err error) {
	p := &parser{src: src}
	defer func() {
		if r := recover(); r != nil {
			if pe, ok := r.(parseError); ok {
				g, err = nil, fmt.Errorf("peg: %s", pe.msg)
				return
			}
			panic(r)
		}
	}()
	g = &Grammar{}
	p.ws()
	if p.peek() == '{' {
		g.Init = p.codeBlock()
		p.eos()
	}
	p.ws()
	for p.off < len(p.src) {
		g.Rules = append(g.Rules, p.rule())
		p.ws()
	}
	if len(g.Rules) == 0 {
		p.fail("no rules")
	}
	for _, r := range g.Rules {
		r.Number()
	}
	return g, nil
}

func (p *parser) peek() byte {
	if p.off < len(p.src) {
		return p.src[p.off]
	}
	return 0
}

func (p *parser) hasPrefix(s string) bool { return strings.HasPrefix(p.src[p.off:], s) }

// ws skips whitespace, newlines and comments (pigeon's __).
func (p *parser) ws() {
	for p.off < len(p.src) {
		c := p.src[p.off]
		switch {
		case c == ' ' || c == '\t' || c == '\r' || c == '\n':
			p.off++
		case p.hasPrefix("//{"):
			p.fail("unsupported pigeon construct: recovery expression //{")
		case p.hasPrefix("//"):
			for p.off < len(p.src) && p.src[p.off] != '\n' {
				p.off++
			}
		case p.hasPrefix("/*"):
			end := strings.Index(p.src[p.off+2:], "*/")
			if end < 0 {
				p.fail("unterminated comment")
			}
			p.off += end + 4
		default:
			return
		}
	}
}

// eos: end of a rule / initializer: optional ';'.
func (p *parser) eos() {
	save := p.off
	p.ws()
	if p.peek() == ';' {
		p.off++
		return
	}
	p.off = save
}

func isIdentStart(r rune) bool { return r == '_' || unicode.IsLetter(r) }
func isIdentPart(r rune) bool  { return isIdentStart(r) || unicode.IsDigit(r) }

func (p *parser) ident() (string, bool) {
	r, sz := utf8.DecodeRuneInString(p.src[p.off:])
	if sz == 0 || !isIdentStart(r) {
		return "", false
	}
	start := p.off
	p.off += sz
	for p.off < len(p.src) {
		r, sz = utf8.DecodeRuneInString(p.src[p.off:])
		if !isIdentPart(r) {
			break
		}
		p.off += sz
	}
	return p.src[start:p.off], true
}

func (p *parser) ruleDefOp() bool {
	for _, op := range []string{"<-", "=", "←", "⟵"} {
		if p.hasPrefix(op) {
			p.off += len(op)
			return true
		}
	}
	return false
}

func (p *parser) rule() *Rule {
	pos := p.posAt(p.off)
	name, ok := p.ident()
	if !ok {
		p.fail("expected rule name, found %q", p.rest(12))
	}
	r := &Rule{Name: name, Pos: pos}
	p.ws()
	if c := p.peek(); c == '"' || c == '`' || c == '\'' {
		start := p.off
		p.stringLit()
		r.DisplayName = p.src[start:p.off]
		p.ws()
	}
	if !p.ruleDefOp() {
		p.fail("expected rule definition operator after %q", name)
	}
	p.ws()
	r.Expr = p.choice()
	p.eos()
	return r
}

func (p *parser) rest(n int) string {
	e := p.off + n
	if e > len(p.src) {
		e = len(p.src)
	}
	return p.src[p.off:e]
}

func (p *parser) choice() *Node {
	pos := p.posAt(p.off)
	first := p.action()
	alts := []*Node{first}
	for {
		save := p.off
		p.ws()
		if p.peek() == '/' && !p.hasPrefix("//") && !p.hasPrefix("/*") {
			p.off++
			p.ws()
			alts = append(alts, p.action())
			continue
		}
		p.off = save
		break
	}
	if len(alts) == 1 {
		return first
	}
	return &Node{Kind: Choice, Kids: alts, Pos: pos}
}

func (p *parser) action() *Node {
	pos := p.posAt(p.off)
	seq := p.seq()
	save := p.off
	p.ws()
	if p.peek() == '{' {
		code := p.codeBlock()
		return &Node{Kind: Action, Kids: []*Node{seq}, Code: code, Pos: pos}
	}
	p.off = save
	return seq
}

func (p *parser) seq() *Node {
	pos := p.posAt(p.off)
	first := p.labeled()
	if first == nil {
		p.fail("expected expression, found %q", p.rest(12))
	}
	elems := []*Node{first}
	for {
		save := p.off
		p.ws()
		n := p.labeled()
		if n == nil {
			p.off = save
			break
		}
		elems = append(elems, n)
	}
	if len(elems) == 1 {
		return first
	}
	return &Node{Kind: Seq, Kids: elems, Pos: pos}
}

// labeled returns nil (without consuming) when no expression starts here.
func (p *parser) labeled() *Node {
	pos := p.posAt(p.off)
	save := p.off
	if name, ok := p.ident(); ok {
		p.ws()
		if p.peek() == ':' {
			p.off++
			p.ws()
			e := p.prefixed()
			if e == nil {
				p.fail("expected expression after label %q", name)
			}
			return &Node{Kind: Labeled, Label: name, Kids: []*Node{e}, Pos: pos}
		}
		p.off = save
	}
	if p.hasPrefix("%{") {
		p.fail("unsupported pigeon construct: throw expression %%{")
	}
	return p.prefixed()
}

func (p *parser) prefixed() *Node {
	pos := p.posAt(p.off)
	c := p.peek()
	if c == '&' || c == '!' || c == '#' {
		save := p.off
		p.off++
		p.ws()
		if p.peek() == '{' {
			if c == '#' {
				p.fail("unsupported pigeon construct: state code block #{")
			}
			code := p.codeBlock()
			k := AndCode
			if c == '!' {
				k = NotCode
			}
			return &Node{Kind: k, Code: code, Pos: pos}
		}
		if c == '#' {
			p.off = save
			return nil
		}
		e := p.suffixed()
		if e == nil {
			p.fail("expected expression after %q", string(c))
		}
		k := And
		if c == '!' {
			k = Not
		}
		return &Node{Kind: k, Kids: []*Node{e}, Pos: pos}
	}
	return p.suffixed()
}

func (p *parser) suffixed() *Node {
	pos := p.posAt(p.off)
	e := p.primary()
	if e == nil {
		return nil
	}
	save := p.off
	p.ws()
	switch p.peek() {
	case '?':
		p.off++
		return &Node{Kind: Opt, Kids: []*Node{e}, Pos: pos}
	case '*':
		p.off++
		return &Node{Kind: Star, Kids: []*Node{e}, Pos: pos}
	case '+':
		p.off++
		return &Node{Kind: Plus, Kids: []*Node{e}, Pos: pos}
	}
	p.off = save
	return e
}

func (p *parser) primary() *Node {
	pos := p.posAt(p.off)
	c := p.peek()
	switch {
	case c == '"' || c == '\'' || c == '`':
		val := p.stringLit()
		n := &Node{Kind: Lit, Val: val, Pos: pos}
		if p.peek() == 'i' && !p.identContinuesAt(p.off+1) {
			p.off++
			n.IgnoreCase = true
			n.Val = strings.ToLower(n.Val)
		}
		n.Want = strconv.Quote(n.Val)
		if n.IgnoreCase {
			n.Want += "i"
		}
		return n
	case c == '[':
		return p.charClass()
	case c == '.':
		p.off++
		return &Node{Kind: Any, Pos: pos}
	case c == '(':
		p.off++
		p.ws()
		e := p.choice()
		p.ws()
		if p.peek() != ')' {
			p.fail("expected ')'")
		}
		p.off++
		return e
	}
	// rule reference: identifier not followed by (display name)? ruleDefOp
	save := p.off
	name, ok := p.ident()
	if !ok {
		return nil
	}
	after := p.off
	p.ws()
	if c := p.peek(); c == '"' || c == '`' || c == '\'' {
		// could be a display name of the next rule, or a literal following a ruleref
		s2 := p.off
		func() {
			defer func() {
				if r := recover(); r != nil {
					p.off = s2
				}
			}()
			p.stringLit()
		}()
		p.ws()
	}
	isDef := p.ruleDefOp()
	if isDef {
		p.off = save
		return nil
	}
	p.off = after
	return &Node{Kind: RuleRef, Name: name, Pos: pos}
}

func (p *parser) identContinuesAt(off int) bool {
	if off >= len(p.src) {
		return false
	}
	r, _ := utf8.DecodeRuneInString(p.src[off:])
	return isIdentPart(r)
}

// stringLit parses "..." / '...' / `...` and returns the unquoted value.
func (p *parser) stringLit() string {
	q := p.peek()
	start := p.off
	p.off++
	for p.off < len(p.src) {
		c := p.src[p.off]
		if c == '\\' && q != '`' {
			p.off += 2
			continue
		}
		if c == '\n' && q != '`' {
			p.off = start
			p.fail("newline in string literal")
		}
		if c == q {
			p.off++
			raw := p.src[start:p.off]
			var val string
			var err error
			if q == '\'' {
				// pigeon: single-quoted literal holds one char; unquote as a Go
				// string after switching the delimiters
				inner := raw[1 : len(raw)-1]
				inner = strings.ReplaceAll(inner, `\'`, `'`)
				inner = strings.ReplaceAll(inner, `"`, `\"`)
				val, err = strconv.Unquote(`"` + inner + `"`)
			} else {
				val, err = strconv.Unquote(raw)
			}
			if err != nil {
				p.off = start
				p.fail("bad string literal %s: %v", raw, err)
			}
			return val
		}
		p.off++
	}
	p.off = start
	p.fail("unterminated string literal")
	return ""
}

func (p *parser) charClass() *Node {
	pos := p.posAt(p.off)
	start := p.off
	p.off++ // [
	n := &Node{Kind: Class, Pos: pos}
	if p.peek() == '^' {
		n.Inverted = true
		p.off++
	}
	readChar := func() (rune, bool) { // returns (rune, isUnicodeClass); handles escapes
		c := p.peek()
		if c == '\\' {
			p.off++
			e := p.peek()
			switch e {
			case 'p':
				return 0, true
			case ']', '\\', '-', '^':
				p.off++
				return rune(e), false
			case 'a':
				p.off++
				return '\a', false
			case 'b':
				p.off++
				return '\b', false
			case 'f':
				p.off++
				return '\f', false
			case 'n':
				p.off++
				return '\n', false
			case 'r':
				p.off++
				return '\r', false
			case 't':
				p.off++
				return '\t', false
			case 'v':
				p.off++
				return '\v', false
			case 'x', 'u', 'U':
				w := map[byte]int{'x': 2, 'u': 4, 'U': 8}[e]
				p.off++
				if p.off+w > len(p.src) {
					p.fail("short escape in character class")
				}
				v, err := strconv.ParseUint(p.src[p.off:p.off+w], 16, 32)
				if err != nil {
					p.fail("bad escape in character class")
				}
				p.off += w
				return rune(v), false
			case '0', '1', '2', '3', '4', '5', '6', '7':
				if p.off+3 > len(p.src) {
					p.fail("short octal escape in character class")
				}
				v, err := strconv.ParseUint(p.src[p.off:p.off+3], 8, 32)
				if err != nil {
					p.fail("bad octal escape in character class")
				}
				p.off += 3
				return rune(v), false
			}
			p.fail("unknown escape \\%c in character class", e)
		}
		r, sz := utf8.DecodeRuneInString(p.src[p.off:])
		if sz == 0 || r == '\n' {
			p.fail("unterminated character class")
		}
		p.off += sz
		return r, false
	}
	for {
		if p.off >= len(p.src) {
			p.fail("unterminated character class")
		}
		if p.peek() == ']' {
			p.off++
			break
		}
		r, isClass := readChar()
		if isClass {
			// \pX or \p{Xx}
			p.off++ // p
			if p.peek() == '{' {
				end := strings.IndexByte(p.src[p.off:], '}')
				if end < 0 {
					p.fail("unterminated \\p{")
				}
				n.Classes = append(n.Classes, p.src[p.off+1:p.off+end])
				p.off += end + 1
			} else {
				rr, sz := utf8.DecodeRuneInString(p.src[p.off:])
				n.Classes = append(n.Classes, string(rr))
				p.off += sz
			}
			continue
		}
		// range?
		if p.peek() == '-' && p.off+1 < len(p.src) && p.src[p.off+1] != ']' {
			save := p.off
			p.off++
			hi, isClass2 := readChar()
			if isClass2 {
				// "x-\pL" is not a range: x then '-' then class
				p.off = save
				n.Chars = append(n.Chars, r)
				continue
			}
			n.Ranges = append(n.Ranges, r, hi)
			continue
		}
		n.Chars = append(n.Chars, r)
	}
	if p.peek() == 'i' && !p.identContinuesAt(p.off+1) {
		p.off++
		n.IgnoreCase = true
		for i, c := range n.Chars {
			n.Chars[i] = unicode.ToLower(c)
		}
		for i, c := range n.Ranges {
			n.Ranges[i] = unicode.ToLower(c)
		}
	}
	n.Val = p.src[start:p.off]
	return n
}

// codeBlock parses { ... } honouring Go strings, runes and comments and returns
// the text between the outer braces.
func (p *parser) codeBlock() string {
	if p.peek() != '{' {
		p.fail("expected code block")
	}
	start := p.off
	depth := 0
	for p.off < len(p.src) {
		c := p.src[p.off]
		switch {
		case c == '{':
			depth++
			p.off++
		case c == '}':
			depth--
			p.off++
			if depth == 0 {
				return p.src[start+1 : p.off-1]
			}
		case c == '"' || c == '\'':
			q := c
			p.off++
			for p.off < len(p.src) && p.src[p.off] != q {
				if p.src[p.off] == '\\' {
					p.off++
				}
				if p.off < len(p.src) && p.src[p.off] == '\n' {
					break
				}
				p.off++
			}
			p.off++
		case c == '`':
			end := strings.IndexByte(p.src[p.off+1:], '`')
			if end < 0 {
				p.fail("unterminated raw string in code block")
			}
			p.off += end + 2
		case p.hasPrefix("//"):
			for p.off < len(p.src) && p.src[p.off] != '\n' {
				p.off++
			}
		case p.hasPrefix("/*"):
			end := strings.Index(p.src[p.off+2:], "*/")
			if end < 0 {
				p.fail("unterminated comment in code block")
			}
			p.off += end + 4
		default:
			p.off++
		}
	}
	p.off = start
	p.fail("unterminated code block")
	return ""
}
