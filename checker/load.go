package main

import (
	"fmt"
	"go/ast"
	"go/token"
	"go/types"
	"os"
	"os/exec"
	"path/filepath"
	"sort"
	"strings"

	"golang.org/x/tools/go/callgraph"
	"golang.org/x/tools/go/callgraph/cha"
	"golang.org/x/tools/go/callgraph/vta"
	"golang.org/x/tools/go/packages"
	"golang.org/x/tools/go/ssa"
	"golang.org/x/tools/go/ssa/ssautil"
)

const (
	modPath     = "github.com/hashicorp/go-bexpr"
	grammarPath = modPath + "/grammar"
)

// Program is everything loaded from /repo's current working tree.
type Program struct {
	Repo    string
	Fset    *token.FileSet
	Pkgs    []*packages.Package
	Bexpr   *packages.Package
	Grammar *packages.Package

	SSA        *ssa.Program
	BexprSSA   *ssa.Package
	GrammarSSA *ssa.Package
	CG         *callgraph.Graph

	GOOS, GOARCH string
	Tags         string

	globals *GlobalModel

	moduleFuncs []*ssa.Function // memo of ModuleFuncs
}

func repoDir() string {
	if d := os.Getenv("VERIF_REPO"); d != "" {
		return d
	}
	return "/repo"
}

func loadEnv(goos, goarch string) []string {
	env := []string{}
	for _, e := range os.Environ() {
		if strings.HasPrefix(e, "GOWORK=") || strings.HasPrefix(e, "GOFLAGS=") || strings.HasPrefix(e, "GOOS=") || strings.HasPrefix(e, "GOARCH=") {
			continue
		}
		env = append(env, e)
	}
	env = append(env, "GOFLAGS=-mod=mod", "GOPROXY=off", "GOSUMDB=off", "GOTOOLCHAIN=local", "GOWORK=off", "CGO_ENABLED=0")
	if goos != "" {
		env = append(env, "GOOS="+goos)
	}
	if goarch != "" {
		env = append(env, "GOARCH="+goarch)
	}
	return env
}

// Load type-checks the whole module from source. withSSA additionally builds
// SSA for the whole program and the VTA call graph (seeded with CHA).
func Load(withSSA bool, goos, goarch, tags string) (*Program, error) {
	repo := repoDir()
	mode := packages.NeedName | packages.NeedFiles | packages.NeedCompiledGoFiles | packages.NeedImports |
		packages.NeedTypes | packages.NeedSyntax | packages.NeedTypesInfo | packages.NeedTypesSizes | packages.NeedModule
	if withSSA {
		mode |= packages.NeedDeps
	}
	fset := token.NewFileSet()
	cfg := &packages.Config{Mode: mode, Dir: repo, Fset: fset, Env: loadEnv(goos, goarch), Tests: false}
	if tags != "" {
		cfg.BuildFlags = []string{"-tags=" + tags}
	}
	pkgs, err := packages.Load(cfg, "./...")
	if err != nil {
		return nil, fmt.Errorf("load: %v", err)
	}
	var errs []string
	packages.Visit(pkgs, nil, func(p *packages.Package) {
		for _, e := range p.Errors {
			errs = append(errs, e.Error())
		}
	})
	if len(errs) > 0 {
		return nil, fmt.Errorf("load: %d package errors, first: %s", len(errs), errs[0])
	}
	if len(pkgs) < 2 {
		return nil, fmt.Errorf("load: only %d packages matched ./... in %s", len(pkgs), repo)
	}
	prog := &Program{Repo: repo, Fset: fset, Pkgs: pkgs, GOOS: goos, GOARCH: goarch, Tags: tags}
	for _, p := range pkgs {
		switch p.PkgPath {
		case modPath:
			prog.Bexpr = p
		case grammarPath:
			prog.Grammar = p
		}
	}
	if prog.Bexpr == nil || prog.Grammar == nil {
		return nil, fmt.Errorf("load: packages %s and %s not both found", modPath, grammarPath)
	}
	// every non-test .go file of the two library packages must have been
	// loaded: a build-tagged file invisible to the analysis is refused.
	for _, p := range []*packages.Package{prog.Bexpr, prog.Grammar} {
		dir := filepath.Dir(p.GoFiles[0])
		ents, _ := os.ReadDir(dir)
		loaded := map[string]bool{}
		for _, f := range p.CompiledGoFiles {
			loaded[filepath.Base(f)] = true
		}
		for _, e := range ents {
			n := e.Name()
			if strings.HasSuffix(n, ".go") && !strings.HasSuffix(n, "_test.go") && !loaded[n] {
				if tags == "" && goos == "" {
					return nil, fmt.Errorf("load: %s/%s exists but is excluded from the default build (build constraint?): the analysis would not see it", p.PkgPath, n)
				}
			}
		}
	}
	if withSSA {
		sp, spkgs := ssautil.AllPackages(pkgs, ssa.InstantiateGenerics)
		sp.Build()
		prog.SSA = sp
		for i, p := range pkgs {
			switch p.PkgPath {
			case modPath:
				prog.BexprSSA = spkgs[i]
			case grammarPath:
				prog.GrammarSSA = spkgs[i]
			}
		}
		if prog.BexprSSA == nil || prog.GrammarSSA == nil {
			return nil, fmt.Errorf("load: SSA packages missing")
		}
		prog.CG = vta.CallGraph(ssautil.AllFunctions(sp), cha.CallGraph(sp))
	}
	resolveEngineFields(prog)
	return prog, nil
}

// InModule reports whether fn belongs to the two library packages.
func (p *Program) InModule(fn *ssa.Function) bool {
	pk := fnPkg(fn)
	return pk != nil && (pk.Path() == modPath || pk.Path() == grammarPath)
}

func fnPkg(fn *ssa.Function) *types.Package {
	if fn == nil {
		return nil
	}
	if fn.Pkg != nil {
		return fn.Pkg.Pkg
	}
	if fn.Parent() != nil {
		return fnPkg(fn.Parent())
	}
	if o := fn.Object(); o != nil {
		return o.Pkg()
	}
	return nil
}

// isSynthetic: wrappers, thunks and bound-method closures; they carry no
// package and must be followed through, not treated as a boundary.
func isSynthetic(fn *ssa.Function) bool {
	return fn.Synthetic != "" && fn.Pkg == nil && fn.Parent() == nil
}

// Reachable returns the functions reachable from roots in the VTA graph,
// following module functions and synthetic functions; functions of other
// packages are recorded as boundary callees (not expanded).
func (p *Program) Reachable(roots ...*ssa.Function) (mod map[*ssa.Function]bool, boundary map[*ssa.Function]bool) {
	mod = map[*ssa.Function]bool{}
	boundary = map[*ssa.Function]bool{}
	seen := map[*ssa.Function]bool{}
	var visit func(fn *ssa.Function)
	visit = func(fn *ssa.Function) {
		if fn == nil || seen[fn] {
			return
		}
		seen[fn] = true
		if p.InModule(fn) {
			mod[fn] = true
		} else if !isSynthetic(fn) {
			boundary[fn] = true
			return
		}
		// anonymous functions created here are reachable when created
		for _, an := range fn.AnonFuncs {
			_ = an // only via MakeClosure/calls below
		}
		if n := p.CG.Nodes[fn]; n != nil {
			for _, e := range n.Out {
				visit(e.Callee.Func)
			}
		}
		// closures made in this function (they may be returned and called later by module code)
		for _, b := range fn.Blocks {
			for _, ins := range b.Instrs {
				if mc, ok := ins.(*ssa.MakeClosure); ok {
					if f, ok := mc.Fn.(*ssa.Function); ok {
						visit(f)
					}
				}
				// function values taken (method expressions, plain functions as values)
				for _, op := range ins.Operands(nil) {
					if op == nil || *op == nil {
						continue
					}
					if f, ok := (*op).(*ssa.Function); ok {
						if _, isCall := ins.(ssa.CallInstruction); isCall {
							// static callee or function passed as argument
						}
						visit(f)
					}
				}
			}
		}
	}
	for _, r := range roots {
		visit(r)
	}
	return
}

func sortedFuncs(m map[*ssa.Function]bool) []*ssa.Function {
	var out []*ssa.Function
	for f := range m {
		out = append(out, f)
	}
	sort.Slice(out, func(i, j int) bool { return out[i].String() < out[j].String() })
	return out
}

// Func looks a package-level function up by name.
func (p *Program) Func(pkg *ssa.Package, name string) *ssa.Function {
	return pkg.Func(name)
}

// Method looks a method up on named type T of pkg (pointer receiver if ptr).
func (p *Program) Method(pkg *ssa.Package, typeName, method string, ptr bool) *ssa.Function {
	o := pkg.Pkg.Scope().Lookup(typeName)
	if o == nil {
		return nil
	}
	var t types.Type = o.Type()
	if ptr {
		t = types.NewPointer(t)
	}
	sel := p.SSA.MethodSets.MethodSet(t).Lookup(pkg.Pkg, method)
	if sel == nil {
		return nil
	}
	return p.SSA.MethodValue(sel)
}

func (p *Program) pos(pos token.Pos) string {
	if !pos.IsValid() {
		return "-"
	}
	ps := p.Fset.Position(pos)
	rel, err := filepath.Rel(p.Repo, ps.Filename)
	if err != nil || strings.HasPrefix(rel, "..") {
		rel = ps.Filename
	}
	return fmt.Sprintf("%s:%d", rel, ps.Line)
}

// goList cross-checks the loaded file set with `go list`.
func goListFiles(repo, pkg string) ([]string, error) {
	cmd := exec.Command("go", "list", "-f", `{{join .GoFiles " "}}`, pkg)
	cmd.Dir = repo
	cmd.Env = loadEnv("", "")
	out, err := cmd.Output()
	if err != nil {
		return nil, err
	}
	return strings.Fields(string(out)), nil
}

// fileOf returns the *ast.File of pkg whose base name is name.
func fileOf(p *packages.Package, name string) *ast.File {
	for i, f := range p.CompiledGoFiles {
		if filepath.Base(f) == name {
			return p.Syntax[i]
		}
	}
	return nil
}

// funcDecl finds a top-level function/method declaration by name (and receiver type name, "" for none).
func funcDecl(p *packages.Package, recv, name string) *ast.FuncDecl {
	for _, f := range p.Syntax {
		for _, d := range f.Decls {
			fd, ok := d.(*ast.FuncDecl)
			if !ok || fd.Name.Name != name {
				continue
			}
			r := ""
			if fd.Recv != nil && len(fd.Recv.List) == 1 {
				t := fd.Recv.List[0].Type
				if s, ok := t.(*ast.StarExpr); ok {
					t = s.X
				}
				if id, ok := t.(*ast.Ident); ok {
					r = id.Name
				}
			}
			if r == recv {
				return fd
			}
		}
	}
	return nil
}
