package main

// OutcomeAI: path-sensitive symbolic walk of one SSA function. SSA values are
// mapped to small symbolic terms; branch conditions refine a fact store; phis
// are resolved by the edge taken. The result is one Summary per way of leaving
// the function (return or panic): the facts that hold, the symbolic results,
// and the calls made in order. Loops: every block may be entered at most
// maxVisits times on one path (enough to see zero iterations, an exit in the
// first iteration, a continue, and exhaustion after one iteration); facts about
// values redefined by a second iteration are dropped when they are redefined.

import (
	"fmt"
	"go/constant"
	"go/token"
	"go/types"
	"sort"
	"strings"

	"golang.org/x/tools/go/ssa"
)

type symKind int

const (
	sConst symKind = iota
	sParam
	sFree      // free variable of a closure
	sGlobal    // address of a package-level variable
	sCall      // the (tuple or single) result of a call
	sRes       // component idx of a call's tuple
	sNot       // !A
	sCmp       // A op B
	sFieldAddr // &A.field
	sField     // A.field (struct value)
	sIndexAddr // &A[B]
	sLoad      // *A
	sTypeAssert
	sTAValue // value component of a comma-ok assertion of A to T
	sTAOk    // ok component
	sNewErr  // a freshly constructed, non-nil error (fmt.Errorf / errors.New)
	sMkIface // interface made from a concrete value A
	sFresh   // a fresh allocation (Alloc, MakeSlice, MakeMap, ...)
	sBin     // arithmetic A op B
	sFunc    // a function value
	sClosure // MakeClosure
	sOpaque  // anything else, identified by the SSA value
	sLen     // len(A)
	sSlice   // A[lo:hi]
	sConvert // conversion of A to T
	sTuple   // explicit tuple of Kids (modelled or inlined call results)
	sStruct  // struct value: base A (may be nil = zero value) with overridden fields F
	sKind    // canonical reflect kind of value/type A
	sTypeOf  // canonical reflect.Type of value A
	sRLen    // canonical reflect Len of value A
	sTElem   // A.Elem() of a reflect.Type
	sTKey    // A.Key() of a reflect.Type
	sRCall   // result of a pure reflect method Str applied to A (and B): canonical
)

type Sym struct {
	K    symKind
	V    ssa.Value
	Idx  int
	A, B *Sym
	Op   token.Token
	Str  string
	T    types.Type
	C    constant.Value
	iter int // loop generation for values redefined in a loop
	Kids []*Sym
	F    map[string]*Sym
	Fn   *ssa.Function // sCall: the callee resolved on the path (static, or through a known function value)
	key  string
}

func (s *Sym) Key() string {
	if s == nil {
		return "<nil>"
	}
	if s.key != "" {
		return s.key
	}
	var k string
	switch s.K {
	case sConst:
		if s.C == nil {
			k = "nil"
		} else {
			k = "const(" + s.C.ExactString() + ")"
		}
	case sParam:
		k = "param(" + s.V.Name() + ")"
	case sFree:
		k = "free(" + s.V.Name() + ")"
	case sGlobal:
		k = "global(" + s.V.Name() + ")"
	case sCall:
		k = fmt.Sprintf("call(%s@%d#%d)", s.V.Name(), s.V.Pos(), s.iter)
	case sRes:
		k = fmt.Sprintf("res(%s,%d)", s.A.Key(), s.Idx)
	case sNot:
		k = "not(" + s.A.Key() + ")"
	case sCmp:
		a, b := s.A.Key(), s.B.Key()
		if (s.Op == token.EQL || s.Op == token.NEQ) && a > b {
			a, b = b, a
		}
		k = fmt.Sprintf("cmp(%s,%s,%s)", s.Op, a, b)
	case sFieldAddr:
		k = "&" + s.A.Key() + "." + s.Str
	case sField:
		k = s.A.Key() + "." + s.Str
	case sIndexAddr:
		k = "&" + s.A.Key() + "[" + s.B.Key() + "]"
	case sLoad:
		k = "*(" + s.A.Key() + ")"
	case sTypeAssert:
		k = "assert(" + s.A.Key() + "," + s.T.String() + ")"
	case sTAValue:
		k = "tav(" + s.A.Key() + "," + s.T.String() + ")"
	case sTAOk:
		k = "taok(" + s.A.Key() + "," + s.T.String() + ")"
	case sNewErr:
		k = fmt.Sprintf("newerr(%s@%d)", s.V.Name(), s.V.Pos())
	case sMkIface:
		k = "iface(" + s.A.Key() + ")"
	case sFresh:
		k = fmt.Sprintf("fresh(%s@%d#%d)", s.V.Name(), s.V.Pos(), s.iter)
	case sBin:
		k = fmt.Sprintf("bin(%s,%s,%s)", s.Op, s.A.Key(), s.B.Key())
	case sFunc:
		k = "func(" + s.V.String() + ")"
	case sClosure:
		k = fmt.Sprintf("closure(%s#%d)", s.V.Name(), s.iter)
	case sLen:
		k = "len(" + s.A.Key() + ")"
	case sSlice:
		k = "slice(" + s.A.Key() + "," + s.Str + ")"
	case sConvert:
		k = "conv(" + s.A.Key() + "," + s.T.String() + ")"
	case sKind:
		k = "kindOf(" + s.A.Key() + ")"
	case sTypeOf:
		k = "typeOf(" + s.A.Key() + ")"
	case sRLen:
		k = "rlen(" + s.A.Key() + ")"
	case sTElem:
		k = "telem(" + s.A.Key() + ")"
	case sTKey:
		k = "tkey(" + s.A.Key() + ")"
	case sRCall:
		k = "r." + s.Str + "(" + s.A.Key()
		if s.B != nil {
			k += "," + s.B.Key()
		}
		k += fmt.Sprintf(")#%d", s.iter)
	case sStruct:
		var ks []string
		for f, x := range s.F {
			ks = append(ks, f+"="+x.Key())
		}
		sort.Strings(ks)
		k = "struct(" + s.A.Key() + ";" + strings.Join(ks, ",") + ")"
	case sTuple:
		var ks []string
		for _, x := range s.Kids {
			ks = append(ks, x.Key())
		}
		k = "tuple(" + strings.Join(ks, ",") + ")"
	default:
		if s.V == nil {
			k = fmt.Sprintf("opaque(%s#%d)", s.Str, s.iter)
		} else {
			k = fmt.Sprintf("opaque(%s@%d#%d)", s.V.Name(), s.V.Pos(), s.iter)
		}
	}
	s.key = k
	return k
}

func (s *Sym) String() string { return s.Key() }

// IsNilConst / IsBoolConst helpers
func (s *Sym) IsNil() bool { return s != nil && s.K == sConst && s.C == nil }
func (s *Sym) BoolConst() (bool, bool) {
	if s != nil && s.K == sConst && s.C != nil && s.C.Kind() == constant.Bool {
		return constant.BoolVal(s.C), true
	}
	return false, false
}

// Event: a call executed on the path.
type Event struct {
	Instr    ssa.CallInstruction
	In       *ssa.Function
	Callee   *ssa.Function // static callee, nil for dynamic calls
	FnSym    *Sym          // callee value for dynamic calls
	Args     []*Sym        // including receiver for method calls
	Res      *Sym
	Store    bool           // a store: Args[0]=address, Args[1]=value
	MapUpd   *ssa.MapUpdate // m[k] = v into a map not made on this path: Args = map, key, value
	StoreI   *ssa.Store
	Deref    []*Sym // for pointer arguments to tracked locals: the value pointed to at the time of the call
	Inlined  bool   // the callee was interpreted in place (the event records the call and its arguments only)
	Resolved bool   // Callee was resolved from a function value (table entry, closure, method value), not a static call
	TailLoop bool   // not a call instruction: a loop that carries only the function's parameters going round again (Instr is a representative recursive call)
}

type pstate struct {
	env     map[ssa.Value]*Sym
	cells   map[*ssa.Alloc]*Sym
	facts   map[string]bool         // key of a boolean sym -> truth
	dyn     map[string]types.Type   // key -> known dynamic type (from comma-ok assertions)
	notdyn  map[string][]types.Type // key -> types known not to be the dynamic type
	eqc     map[string]string       // key -> key of the constant it equals
	neqc    map[string]map[string]bool
	events  []Event
	visits  map[*ssa.BasicBlock]int
	iters   map[ssa.Value]int
	trail   []string // branch decisions, for diagnostics
	escaped map[*ssa.Alloc]bool
	symeq   map[string][]symRel // key -> syms it is known (not) equal to
	havoced map[*ssa.BasicBlock]bool
	gcells  map[*ssa.Global]*Sym            // contents of package-level variables (only while interpreting a package initialiser)
	maps    map[ssa.Value]map[string]mapEnt // contents of maps made on this path, by MakeMap, by constant key
}

type mapEnt struct{ k, v *Sym }

type symRel struct {
	other *Sym
	eq    bool
}

func newState() *pstate {
	return &pstate{env: map[ssa.Value]*Sym{}, cells: map[*ssa.Alloc]*Sym{}, facts: map[string]bool{}, dyn: map[string]types.Type{},
		notdyn: map[string][]types.Type{}, eqc: map[string]string{}, neqc: map[string]map[string]bool{}, visits: map[*ssa.BasicBlock]int{}, iters: map[ssa.Value]int{}, escaped: map[*ssa.Alloc]bool{}, symeq: map[string][]symRel{}, havoced: map[*ssa.BasicBlock]bool{}, maps: map[ssa.Value]map[string]mapEnt{}}
}

func (s *pstate) clone() *pstate {
	n := newState()
	for k, v := range s.env {
		n.env[k] = v
	}
	for k, v := range s.cells {
		n.cells[k] = v
	}
	for k, v := range s.facts {
		n.facts[k] = v
	}
	for k, v := range s.dyn {
		n.dyn[k] = v
	}
	for k, v := range s.notdyn {
		n.notdyn[k] = append([]types.Type(nil), v...)
	}
	for k, v := range s.eqc {
		n.eqc[k] = v
	}
	for k, v := range s.neqc {
		m := map[string]bool{}
		for a, b := range v {
			m[a] = b
		}
		n.neqc[k] = m
	}
	n.events = append([]Event(nil), s.events...)
	for k, v := range s.visits {
		n.visits[k] = v
	}
	for k, v := range s.iters {
		n.iters[k] = v
	}
	n.trail = append([]string(nil), s.trail...)
	for k, v := range s.escaped {
		n.escaped[k] = v
	}
	for k, v := range s.symeq {
		n.symeq[k] = append([]symRel(nil), v...)
	}
	for k, v := range s.havoced {
		n.havoced[k] = v
	}
	if s.gcells != nil {
		n.gcells = map[*ssa.Global]*Sym{}
		for k, v := range s.gcells {
			n.gcells[k] = v
		}
	}
	for k, v := range s.maps {
		n.maps[k] = v // entries maps are copied on write
	}
	return n
}

// Summary: one way of leaving the function.
type Summary struct {
	Fn      *ssa.Function
	Ret     *ssa.Return // nil for panics
	Panic   *ssa.Panic
	Results []*Sym
	St      *pstate
}

func (sm *Summary) Events() []Event { return sm.St.events }

// Fact returns (truth, known) of a boolean sym on this path.
func (sm *Summary) Fact(b *Sym) (bool, bool) { return evalBool(sm.St, b) }

type PathSim struct {
	// QuietDefer: deferred calls that are known to have no effect unless the function panics; they are skipped (their
	// arguments do not escape). The caller must have established that property by a rule of its own.
	QuietDefer func(*ssa.Defer) bool
	prog       *Program
	maxVisits  int
	maxPaths   int
	paths      int
	Truncated  int
	// steps: basic blocks entered by all the paths of all the runs of this simulator; beyond MaxSteps the exploration
	// stops and the simulator is marked exhausted (the check that owns it is then undecided, not passed)
	steps     int64
	MaxSteps  int64
	Exhausted bool
	out       []*Summary
	// Model, if set, may supply the symbolic result of a call (nil = default).
	Model func(ev *Event) *Sym
	// Inline, if set, selects static callees that are interpreted in place
	// (bounded depth) instead of being treated as opaque calls.
	Inline   func(callee *ssa.Function) bool
	MaxDepth int
	// Seed, if set, initialises the path state (pre-assumed facts).
	Seed func(st *pstate)
	// OnEvent, if set, is called for every call/assertion event with the state at that moment.
	OnEvent func(st *pstate, ev *Event)
	// Havoc: when the visit bound of a loop header is reached, continue once more
	// with every loop-carried value (phi) replaced by an unconstrained symbol
	// instead of cutting the path: the returns after and inside the loop are then
	// reached for arbitrary loop-carried state (a widening to top).
	Havoc bool
	// OnInstr, if set, is called before each instruction is interpreted.
	OnInstr func(fn *ssa.Function, st *pstate, ins ssa.Instruction)
	// trackGlobals: stores to package-level variables are interpreted (package initialisers only)
	trackGlobals bool
	// Recursion: how many nested activations of one function may be interpreted in place (0 = a function is never
	// interpreted inside itself; its recursive calls are opaque). Paths that would need more are cut, like loop visits.
	Recursion int
	// IfaceAssertIdentity: x.(I) for an interface type I denotes x itself (facts about x's dynamic type carry over)
	IfaceAssertIdentity bool
	// NoTables: do not resolve initialise-once package-level tables (loads stay symbolic)
	NoTables bool
}

func (ps *PathSim) tables() *GlobalModel {
	if ps.NoTables || ps.trackGlobals || ps.prog == nil || ps.prog.SSA == nil {
		return nil
	}
	return ps.prog.Globals()
}

// defaultMaxSteps bounds the work of one simulator (the largest exploration on the unchanged tree enters about 20 thousand
// blocks); exhaustedSims names the functions whose exploration was cut by it — runCheck turns each into an "undecided" failure.
const defaultMaxSteps = 1000000

// totalMaxSteps bounds the work of all simulators of one run together (the most expensive check enters about 70 thousand
// blocks in all on the reference tree).
const totalMaxSteps = 3000000

var (
	stepsHigh      int64
	stepsTotal     int64
	totalExhausted bool
	exhaustedSims  []string
)

func NewPathSim(prog *Program) *PathSim {
	return &PathSim{prog: prog, maxVisits: 2, maxPaths: 200000, MaxDepth: 3, MaxSteps: defaultMaxSteps}
}

func isErrorCtor(fn *ssa.Function) bool {
	if fn == nil || fn.Pkg == nil {
		return false
	}
	p, n := fn.Pkg.Pkg.Path(), fn.Name()
	return (p == "fmt" && n == "Errorf") || (p == "errors" && n == "New")
}

// Run explores fn and returns its summaries.
func (ps *PathSim) Run(fn *ssa.Function) []*Summary {
	ps.out = nil
	ps.paths = 0
	if len(fn.Blocks) == 0 {
		return nil
	}
	st := newState()
	for _, p := range fn.Params {
		st.env[p] = &Sym{K: sParam, V: p, T: p.Type()}
	}
	for _, fv := range fn.FreeVars {
		st.env[fv] = &Sym{K: sFree, V: fv, T: fv.Type()}
	}
	if ps.trackGlobals {
		st.gcells = map[*ssa.Global]*Sym{}
	}
	if ps.Seed != nil {
		ps.Seed(st)
	}
	ps.walk(fn, fn.Blocks[0], 0, nil, st, 0, func(st *pstate, r *ssa.Return, res []*Sym) {
		ps.out = append(ps.out, &Summary{Fn: fn, Ret: r, St: st, Results: res})
	})
	return ps.out
}

func (ps *PathSim) sym(st *pstate, v ssa.Value) *Sym {
	if v == nil {
		return nil
	}
	if s, ok := st.env[v]; ok {
		return s
	}
	switch x := v.(type) {
	case *ssa.Const:
		if x.Value == nil {
			if _, isStruct := x.Type().Underlying().(*types.Struct); isStruct {
				return zeroSym(x.Type()) // T{}: every field is its zero value
			}
		}
		return &Sym{K: sConst, C: x.Value, T: x.Type(), V: x}
	case *ssa.Global:
		return &Sym{K: sGlobal, V: x, T: x.Type()}
	case *ssa.Function:
		return &Sym{K: sFunc, V: x, T: x.Type()}
	case *ssa.Builtin:
		return &Sym{K: sFunc, V: x, T: x.Type()}
	case *ssa.Parameter:
		return &Sym{K: sParam, V: x, T: x.Type()}
	case *ssa.FreeVar:
		return &Sym{K: sFree, V: x, T: x.Type()}
	}
	// value defined in a block not executed on this path (should not happen) or not yet modelled
	return &Sym{K: sOpaque, V: v, T: v.Type()}
}

func fieldName(t types.Type, idx int) string {
	if p, ok := t.Underlying().(*types.Pointer); ok {
		t = p.Elem()
	}
	if st, ok := t.Underlying().(*types.Struct); ok && idx < st.NumFields() {
		return st.Field(idx).Name()
	}
	return fmt.Sprintf("#%d", idx)
}

func (ps *PathSim) define(st *pstate, v ssa.Value, s *Sym) {
	st.env[v] = s
}

// exec interprets one non-control instruction.
func (ps *PathSim) exec(fn *ssa.Function, st *pstate, ins ssa.Instruction) {
	if ps.OnInstr != nil {
		ps.OnInstr(fn, st, ins)
	}
	gen := func(v ssa.Value) int {
		st.iters[v]++
		return st.iters[v]
	}
	switch x := ins.(type) {
	case *ssa.Alloc:
		st.env[x] = &Sym{K: sFresh, V: x, T: x.Type(), iter: gen(x)}
		st.cells[x] = zeroSym(x.Type().Underlying().(*types.Pointer).Elem())
		delete(st.escaped, x)
	case *ssa.MakeSlice, *ssa.MakeMap, *ssa.MakeChan:
		v := ins.(ssa.Value)
		fs := &Sym{K: sFresh, V: v, T: v.Type(), iter: gen(v)}
		if mk, ok := ins.(*ssa.MakeSlice); ok {
			// the length the slice is made with (Kids[0]); the key of a fresh value does not depend on it
			fs.Kids = []*Sym{ps.sym(st, mk.Len)}
		}
		st.env[v] = fs
	case *ssa.MakeClosure:
		s := &Sym{K: sClosure, V: x, T: x.Type(), iter: gen(x)}
		for _, b := range x.Bindings {
			s.Kids = append(s.Kids, ps.sym(st, b))
		}
		st.env[x] = s
	case *ssa.MakeInterface:
		st.env[x] = &Sym{K: sMkIface, A: ps.sym(st, x.X), T: x.Type(), V: x}
	case *ssa.ChangeInterface:
		st.env[x] = ps.sym(st, x.X)
	case *ssa.ChangeType:
		st.env[x] = ps.sym(st, x.X)
	case *ssa.Convert:
		st.env[x] = &Sym{K: sConvert, A: ps.sym(st, x.X), T: x.Type(), V: x}
	case *ssa.FieldAddr:
		st.env[x] = &Sym{K: sFieldAddr, A: ps.sym(st, x.X), Str: fieldName(x.X.Type(), x.Field), T: x.Type(), V: x}
	case *ssa.Field:
		base := ps.sym(st, x.X)
		if base.K == sStruct {
			if v, ok := cellValue(getPath(base, []string{fieldName(x.X.Type(), x.Field)}), x.Type()); ok {
				st.env[x] = v
				return
			}
		}
		fs := mkField(base, fieldName(x.X.Type(), x.Field))
		fs.T, fs.V = x.Type(), x
		st.env[x] = fs
	case *ssa.IndexAddr:
		st.env[x] = &Sym{K: sIndexAddr, A: ps.sym(st, x.X), B: ps.sym(st, x.Index), T: x.Type(), V: x}
	case *ssa.Index:
		base, idx := ps.sym(st, x.X), ps.sym(st, x.Index)
		if base.K == sStruct && idx.K == sConst && idx.C != nil {
			// an element of an array value whose elements are known on this path (a literal ranged over)
			if v, ok := cellValue(getPath(base, []string{"[" + idx.Key() + "]"}), x.Type()); ok && v != nil && !(v.K == sStruct && v.A == nil && len(v.F) == 0) {
				st.env[x] = v
				return
			}
		}
		st.env[x] = &Sym{K: sLoad, A: &Sym{K: sIndexAddr, A: base, B: idx}, T: x.Type(), V: x}
	case *ssa.Slice:
		lo, hi := "", ""
		if x.Low != nil {
			lo = ps.sym(st, x.Low).Key()
		}
		if x.High != nil {
			hi = ps.sym(st, x.High).Key()
		}
		st.env[x] = &Sym{K: sSlice, A: ps.sym(st, x.X), Str: lo + ":" + hi, T: x.Type(), V: x}
	case *ssa.UnOp:
		switch x.Op {
		case token.NOT:
			a := ps.sym(st, x.X)
			if a.K == sNot {
				st.env[x] = a.A
			} else if b, ok := a.BoolConst(); ok {
				st.env[x] = &Sym{K: sConst, C: constant.MakeBool(!b), T: x.Type()}
			} else {
				st.env[x] = &Sym{K: sNot, A: a, T: x.Type(), V: x}
			}
		case token.MUL:
			addr := ps.sym(st, x.X)
			if al, path, ok := localPath(addr); ok {
				if v, ok := loadLocal(st, al, path, x.Type()); ok {
					st.env[x] = v
					return
				}
				if v, ok := ps.tables().initAlloc(al, path, x.Type()); ok {
					st.env[x] = v
					return
				}
			}
			if g, path, ok := globalPath(st, addr); ok {
				if st.gcells != nil {
					if c, ok := st.gcells[g]; ok {
						if v, ok := cellValue(getPath(c, path), x.Type()); ok {
							st.env[x] = v
							return
						}
					}
				} else if v, ok := ps.tables().loadGlobal(g, path, x.Type()); ok {
					st.env[x] = v
					return
				}
			}
			if al, path, ok := ps.tableElem(st, addr); ok {
				if v, ok := ps.tables().initAlloc(al, path, x.Type()); ok {
					st.env[x] = v
					return
				}
			}
			st.env[x] = &Sym{K: sLoad, A: addr, T: x.Type(), V: x}
		default:
			st.env[x] = &Sym{K: sOpaque, V: x, T: x.Type(), iter: gen(x)}
		}
	case *ssa.BinOp:
		a, b := ps.sym(st, x.X), ps.sym(st, x.Y)
		switch x.Op {
		case token.EQL, token.NEQ, token.LSS, token.LEQ, token.GTR, token.GEQ:
			st.env[x] = &Sym{K: sCmp, Op: x.Op, A: a, B: b, T: x.Type(), V: x}
		default:
			if (x.Op == token.ADD || x.Op == token.SUB) && a.K == sConst && b.K == sConst && a.C != nil && b.C != nil && a.C.Kind() == constant.Int && b.C.Kind() == constant.Int {
				st.env[x] = &Sym{K: sConst, C: constant.BinaryOp(a.C, x.Op, b.C), T: x.Type()}
			} else if v, ok := foldBits(st, x, a, b); ok {
				st.env[x] = v
			} else {
				st.env[x] = &Sym{K: sBin, Op: x.Op, A: a, B: b, T: x.Type(), V: x}
			}
		}
	case *ssa.TypeAssert:
		a := ps.sym(st, x.X)
		if x.CommaOk {
			st.env[x] = &Sym{K: sTypeAssert, A: a, T: x.AssertedType, V: x, Idx: 1}
		} else {
			st.env[x] = &Sym{K: sTAValue, A: a, T: x.AssertedType, V: x}
			st.events = append(st.events, Event{In: fn, Args: []*Sym{a}, Res: st.env[x]})
			if a.K == sMkIface && a.A != nil && a.A.T != nil && types.Identical(a.A.T, x.AssertedType) {
				st.env[x] = a.A // the value the interface was made from
			}
			if _, toIface := x.AssertedType.Underlying().(*types.Interface); toIface && ps.IfaceAssertIdentity {
				// an assertion to an interface type changes the static type only: the value (and what is known of its
				// dynamic type) is the operand's
				st.env[x] = a
			}
		}
	case *ssa.Extract:
		t := ps.sym(st, x.Tuple)
		switch t.K {
		case sTuple:
			st.env[x] = t.Kids[x.Index]
		case sTypeAssert:
			if x.Index == 0 {
				st.env[x] = &Sym{K: sTAValue, A: t.A, T: t.T, V: x}
				if t.A.K == sMkIface && t.A.A != nil && t.A.A.T != nil && types.Identical(t.A.A.T, t.T) {
					st.env[x] = t.A.A // the value the interface was made from
				}
			} else {
				st.env[x] = &Sym{K: sTAOk, A: t.A, T: t.T, V: x}
			}
		default:
			st.env[x] = &Sym{K: sRes, A: t, Idx: x.Index, T: x.Type(), V: x}
		}
	case *ssa.Phi:
		// handled at edge time
	case *ssa.Store:
		val := ps.sym(st, x.Val)
		addr := ps.sym(st, x.Addr)
		if al, path, ok := localPath(addr); ok {
			if storeLocal(st, al, path, val) {
				return
			}
		}
		if ps.trackGlobals && st.gcells != nil {
			if g, path, ok := globalPath(st, addr); ok {
				st.gcells[g] = setPath(st.gcells[g], path, val)
				return
			}
		}
		st.events = append(st.events, Event{In: fn, Store: true, StoreI: x, Args: []*Sym{addr, val}})
	case *ssa.Call:
		ps.execCall(fn, st, x, x)
	case *ssa.Defer:
		if ps.QuietDefer != nil && ps.QuietDefer(x) {
			// a deferred call the caller vouches for: it has no effect on a normal return (judged by its own rule)
			return
		}
		ps.execCall(fn, st, x, nil)
	case *ssa.Go:
		ps.execCall(fn, st, x, nil)
	case *ssa.Lookup:
		if _, isMap := x.X.Type().Underlying().(*types.Map); isMap {
			m := ps.sym(st, x.X)
			ents, ok := st.maps[m.V]
			if m.K != sFresh {
				ok = false
			}
			if !ok {
				ents, ok = ps.tables().tableMap(m)
			}
			if ok {
				key := ps.sym(st, x.Index)
				var val *Sym
				found, known := false, false
				if ck, isC := constKeyOf(st, key); isC {
					known = true
					if e, has := ents[ck]; has {
						val, found = e.v, true
					}
				} else {
					// absent when known different from every key
					all := true
					for ck := range ents {
						if !st.neqc[key.Key()][ck] {
							all = false
						}
					}
					known = all
				}
				if known {
					if !found {
						val = zeroSym(x.X.Type().Underlying().(*types.Map).Elem())
					}
					if x.CommaOk {
						st.env[x] = &Sym{K: sTuple, Kids: []*Sym{val, boolSym(found)}, T: x.Type()}
					} else {
						st.env[x] = val
					}
					return
				}
			}
		}
		st.env[x] = &Sym{K: sOpaque, V: x, T: x.Type(), iter: gen(x)}
	case *ssa.MapUpdate:
		m := ps.sym(st, x.Map)
		if m.K != sFresh {
			// a store into a map that was not made on this path: recorded for the rules that care where a value is put
			st.events = append(st.events, Event{In: fn, MapUpd: x, Args: []*Sym{m, ps.sym(st, x.Key), ps.sym(st, x.Value)}})
		}
		if m.K == sFresh {
			if ck, ok := constKeyOf(st, ps.sym(st, x.Key)); ok {
				n := map[string]mapEnt{}
				for k, v := range st.maps[m.V] {
					n[k] = v
				}
				n[ck] = mapEnt{ps.sym(st, x.Key), ps.sym(st, x.Value)}
				st.maps[m.V] = n
			} else {
				delete(st.maps, m.V)
			}
		}
	case *ssa.Range, *ssa.Next, *ssa.Select, *ssa.SliceToArrayPointer, *ssa.MultiConvert:
		v := ins.(ssa.Value)
		st.env[v] = &Sym{K: sOpaque, V: v, T: v.Type(), iter: gen(v)}
	case *ssa.Send, *ssa.RunDefers, *ssa.DebugRef:
	default:
		if v, ok := ins.(ssa.Value); ok {
			st.env[v] = &Sym{K: sOpaque, V: v, T: v.Type(), iter: gen(v)}
		}
	}
}

func zeroSym(t types.Type) *Sym {
	switch u := t.Underlying().(type) {
	case *types.Basic:
		switch {
		case u.Info()&types.IsBoolean != 0:
			return &Sym{K: sConst, C: constant.MakeBool(false), T: t}
		case u.Info()&types.IsString != 0:
			return &Sym{K: sConst, C: constant.MakeString(""), T: t}
		case u.Info()&types.IsNumeric != 0:
			return &Sym{K: sConst, C: constant.MakeInt64(0), T: t}
		}
	case *types.Pointer, *types.Interface, *types.Slice, *types.Map, *types.Chan, *types.Signature:
		return &Sym{K: sConst, C: nil, T: t}
	case *types.Struct, *types.Array:
		return &Sym{K: sStruct, A: nil, F: map[string]*Sym{}, T: t}
	}
	return &Sym{K: sOpaque, T: t, Str: "zero"}
}

// localPath: is addr the address of (a field path inside) a local allocation?
func localPath(addr *Sym) (*ssa.Alloc, []string, bool) {
	var path []string
	for addr != nil && (addr.K == sFieldAddr || (addr.K == sIndexAddr && addr.B != nil && addr.B.K == sConst)) {
		if addr.K == sFieldAddr {
			path = append([]string{addr.Str}, path...)
		} else {
			path = append([]string{"[" + addr.B.Key() + "]"}, path...)
		}
		addr = addr.A
		if addr != nil && addr.K == sSlice && addr.Str == ":" {
			addr = addr.A // arr[:] of a local array: same cells
		}
	}
	if addr == nil || addr.K != sFresh {
		return nil, nil, false
	}
	al, ok := addr.V.(*ssa.Alloc)
	return al, path, ok
}

func getPath(v *Sym, path []string) *Sym {
	for _, f := range path {
		if v == nil {
			return nil
		}
		if v.K == sStruct {
			if x, ok := v.F[f]; ok {
				v = x
				continue
			}
			if v.A == nil {
				if v.T != nil {
					if st, ok := v.T.Underlying().(*types.Struct); ok {
						found := false
						for i := 0; i < st.NumFields(); i++ {
							if st.Field(i).Name() == f {
								v, found = zeroSym(st.Field(i).Type()), true
								break
							}
						}
						if found {
							continue
						}
					}
				}
				// zero field: type unknown here
				return &Sym{K: sStruct, A: nil, F: map[string]*Sym{}, Str: "zero." + f}
			}
			v = mkField(v.A, f)
			continue
		}
		v = mkField(v, f)
	}
	return v
}

// isFieldOfValue: s is field `name` of some struct value (either canonical form).
func isFieldOfValue(s *Sym, name string) bool {
	if s == nil {
		return false
	}
	if s.K == sField && s.Str == name {
		return true
	}
	return s.K == sLoad && s.A != nil && s.A.K == sFieldAddr && s.A.Str == name
}

// mkField: field f of struct value v; a field of a loaded struct is the load of the field's address (one canonical form).
func mkField(v *Sym, f string) *Sym {
	if v != nil && v.K == sLoad {
		return &Sym{K: sLoad, A: &Sym{K: sFieldAddr, A: v.A, Str: f}}
	}
	return &Sym{K: sField, A: v, Str: f}
}

func setPath(v *Sym, path []string, val *Sym) *Sym {
	if len(path) == 0 {
		return val
	}
	var n *Sym
	if v != nil && v.K == sStruct {
		n = &Sym{K: sStruct, A: v.A, F: map[string]*Sym{}, T: v.T}
		for k, x := range v.F {
			n.F[k] = x
		}
	} else {
		n = &Sym{K: sStruct, A: v, F: map[string]*Sym{}}
	}
	n.F[path[0]] = setPath(getPath(v, path[:1]), path[1:], val)
	return n
}

func loadLocal(st *pstate, al *ssa.Alloc, path []string, t types.Type) (*Sym, bool) {
	if st.escaped[al] {
		return nil, false
	}
	c, ok := st.cells[al]
	if !ok {
		return nil, false
	}
	v := getPath(c, path)
	if v == nil {
		return nil, false
	}
	if v.K == sStruct && v.A == nil && len(v.F) == 0 && t != nil {
		if _, isStruct := t.Underlying().(*types.Struct); !isStruct {
			return zeroSym(t), true
		}
	}
	return v, true
}

func storeLocal(st *pstate, al *ssa.Alloc, path []string, val *Sym) bool {
	if st.escaped[al] {
		return false
	}
	st.cells[al] = setPath(st.cells[al], path, val)
	return true
}

// readOnlyCallee: externals known not to write through their pointer arguments.
func readOnlyCallee(fn *ssa.Function) bool {
	if fn == nil || fn.Pkg == nil {
		return false
	}
	switch fn.Pkg.Pkg.Path() {
	case "github.com/mitchellh/pointerstructure":
		return fn.Name() == "Get" || fn.Name() == "String"
	case "fmt", "errors", "strings", "strconv":
		return true
	}
	return false
}

// soleImplementation: for a call through an interface type declared in the analysed module, the one function the call
// graph (VTA) lets it reach; nil when there are several, none, or the interface is not the module's own.
func (ps *PathSim) soleImplementation(fn *ssa.Function, ci ssa.CallInstruction) *ssa.Function {
	if ps.prog == nil || ps.prog.CG == nil {
		return nil
	}
	nt, ok := ci.Common().Value.Type().(*types.Named)
	if !ok || nt.Obj().Pkg() == nil || !(nt.Obj().Pkg().Path() == modPath || nt.Obj().Pkg().Path() == grammarPath) {
		return nil
	}
	n := ps.prog.CG.Nodes[fn]
	if n == nil {
		return nil
	}
	var only *ssa.Function
	for _, e := range n.Out {
		if e.Site != ci {
			continue
		}
		c := e.Callee.Func
		if only != nil && only != c {
			return nil
		}
		only = c
	}
	if only == nil || !ps.prog.InModule(only) {
		return nil
	}
	return only
}

// methodOfDynamicType: for a call through an interface whose receiver has a dynamic type known on this path (established
// by a type test or assertion), the method of that type — for types of the analysed module only.
func (ps *PathSim) methodOfDynamicType(st *pstate, recv *Sym, com *ssa.CallCommon) *ssa.Function {
	if ps.prog == nil || ps.prog.SSA == nil || recv == nil || com.Method == nil {
		return nil
	}
	x := recv
	for i := 0; i < 4 && x != nil && x.K == sTAValue; i++ {
		// an assertion to an interface type keeps the value: look at what was asserted
		if _, isIface := x.T.Underlying().(*types.Interface); !isIface {
			break
		}
		x = x.A
	}
	var dt types.Type
	if x != nil {
		if t, ok := st.dyn[x.Key()]; ok {
			dt = t
		} else if x.K == sMkIface && x.A != nil && x.A.T != nil {
			if _, isIface := x.A.T.Underlying().(*types.Interface); !isIface {
				dt = x.A.T
			}
		}
	}
	if dt == nil {
		return nil
	}
	base := dt
	if p, ok := base.(*types.Pointer); ok {
		base = p.Elem()
	}
	nt, ok := base.(*types.Named)
	if !ok || nt.Obj().Pkg() == nil || !(nt.Obj().Pkg().Path() == modPath || nt.Obj().Pkg().Path() == grammarPath) {
		return nil
	}
	sel := ps.prog.SSA.MethodSets.MethodSet(dt).Lookup(com.Method.Pkg(), com.Method.Name())
	if sel == nil {
		return nil
	}
	f := ps.prog.SSA.MethodValue(sel)
	if f == nil || len(f.Blocks) == 0 {
		return nil
	}
	return f
}

func (ps *PathSim) execCall(fn *ssa.Function, st *pstate, ci ssa.CallInstruction, val *ssa.Call) {
	com := ci.Common()
	ev := Event{Instr: ci, In: fn, Callee: com.StaticCallee()}
	if com.IsInvoke() {
		ev.Args = append(ev.Args, ps.sym(st, com.Value))
		if f := ps.soleImplementation(fn, ci); f != nil {
			ev.Callee = f // a method of an interface of the module that one type implements: the call can only go there
			ev.Resolved = true
		} else if f := ps.methodOfDynamicType(st, ev.Args[0], com); f != nil {
			ev.Callee = f // the receiver's dynamic type is known on this path
			ev.Resolved = true
		}
	} else if ev.Callee == nil {
		ev.FnSym = ps.sym(st, com.Value)
		if f, _ := ps.funcOfSym(ev.FnSym); f != nil {
			ev.Callee = f // a function value whose target is known on this path
			ev.Resolved = true
		}
	}
	for _, a := range com.Args {
		ev.Args = append(ev.Args, ps.sym(st, a))
	}
	ev.Deref = make([]*Sym, len(ev.Args))
	for i, a := range ev.Args {
		if a.K == sSlice && a.Str == ":" {
			// arr[:] of a local array (variadic arguments): remember the elements
			if al, path, ok := localPath(a.A); ok {
				if v, ok := loadLocal(st, al, path, nil); ok {
					ev.Deref[i] = v
				}
			}
			continue
		}
		if al, path, ok := localPath(a); ok {
			if v, ok := loadLocal(st, al, path, nil); ok {
				ev.Deref[i] = v
			}
			if !readOnlyCallee(ev.Callee) {
				// the callee may write through the pointer
				delete(st.cells, al)
				st.escaped[al] = true
			}
		}
	}
	if val != nil {
		st.iters[val]++
		var s *Sym
		if ps.Model != nil {
			s = ps.Model(&ev)
		}
		if s == nil {
			s = reflectModel(st, &ev, val)
		}
		if s != nil {
		} else if isErrorCtor(ev.Callee) {
			s = &Sym{K: sNewErr, V: val, T: val.Type()}
		} else if b, ok := com.Value.(*ssa.Builtin); ok && b.Name() == "len" && len(ev.Args) == 1 {
			s = &Sym{K: sLen, A: ev.Args[0], T: val.Type(), V: val}
			if mk, _ := calleeOfSym(ev.Args[0]); isReflectMethod(mk, "MapKeys") {
				// MapKeys returns one key per entry: its length is the map's Len()
				if ma := symArgs(st, ev.Args[0]); len(ma) == 1 {
					s = &Sym{K: sRLen, A: ma[0], T: val.Type(), V: val}
				}
			}
			if a0 := ev.Args[0]; a0.K == sFresh && len(a0.Kids) == 1 {
				if _, isMk := a0.V.(*ssa.MakeSlice); isMk && a0.Kids[0].K == sConst && a0.Kids[0].C != nil {
					// len(make([]T, k, …)) is k (nothing is ever appended to the made value itself); a symbolic length
					// stays len(x), which is what the facts of the path are about
					s = &Sym{K: sConst, C: a0.Kids[0].C, T: val.Type()}
				}
			}
			if n, ok := appendedLen(st, ev.Args[0]); ok {
				s = &Sym{K: sConst, C: constant.MakeInt64(n), T: val.Type()}
			}
			if n, ok := staticLen(com.Args[0].Type(), ev.Args[0]); ok {
				s = &Sym{K: sConst, C: constant.MakeInt64(n), T: val.Type()}
			}
		} else {
			s = &Sym{K: sCall, V: val, T: val.Type(), iter: st.iters[val], Fn: ev.Callee}
		}
		st.env[val] = s
		ev.Res = s
	}
	st.events = append(st.events, ev)
	if ps.OnEvent != nil {
		ps.OnEvent(st, &st.events[len(st.events)-1])
	}
}

// funcOfSym: the function a function-valued sym denotes on this path (a function constant, a closure with its bindings).
func (ps *PathSim) funcOfSym(s *Sym) (*ssa.Function, []*Sym) {
	if s == nil {
		return nil, nil
	}
	switch s.K {
	case sFunc:
		if f, ok := s.V.(*ssa.Function); ok {
			return unwrapThunk(f), nil
		}
	case sClosure:
		if mc, ok := s.V.(*ssa.MakeClosure); ok {
			if f, ok := mc.Fn.(*ssa.Function); ok {
				return f, s.Kids
			}
		}
	}
	return nil, nil
}

// tableElem: addr = &tbl[i]… where tbl is the slice value of an initialise-once table (backing array made in an initialiser).
func (ps *PathSim) tableElem(st *pstate, addr *Sym) (*ssa.Alloc, []string, bool) {
	var path []string
	for addr != nil && (addr.K == sFieldAddr || addr.K == sIndexAddr) {
		if addr.K == sFieldAddr {
			path = append([]string{addr.Str}, path...)
		} else {
			c, ok := constKeyOf(st, addr.B)
			if !ok {
				return nil, nil, false
			}
			path = append([]string{"[" + c + "]"}, path...)
		}
		addr = addr.A
		if addr != nil && addr.K == sSlice && addr.Str == ":" {
			addr = addr.A
		}
	}
	if addr == nil || addr.K != sFresh {
		return nil, nil, false
	}
	al, ok := addr.V.(*ssa.Alloc)
	return al, path, ok
}

// staticLen: the length of an array value, a pointer to an array, or arr[:] of a local array.
func staticLen(t types.Type, s *Sym) (int64, bool) {
	u := t.Underlying()
	if p, ok := u.(*types.Pointer); ok {
		u = p.Elem().Underlying()
	}
	if a, ok := u.(*types.Array); ok {
		return a.Len(), true
	}
	if s != nil && s.K == sSlice && s.Str == ":" && s.A != nil && s.A.T != nil {
		if p, ok := s.A.T.Underlying().(*types.Pointer); ok {
			if a, ok := p.Elem().Underlying().(*types.Array); ok {
				return a.Len(), true
			}
		}
	}
	return 0, false
}

func isReflectValue(t types.Type) bool { return namedIs(t, "reflect", "Value") }
func isReflectType(t types.Type) bool  { return namedIs(t, "reflect", "Type") }

// reflectModel gives canonical symbols to the pure observers of package
// reflect, so that two v.Kind() calls on one value are the same fact.
func reflectModel(st *pstate, ev *Event, val *ssa.Call) *Sym {
	com := ev.Instr.Common()
	name := ""
	var recvT types.Type
	if com.IsInvoke() {
		name = com.Method.Name()
		recvT = com.Value.Type()
	} else if ev.Callee != nil && ev.Callee.Signature.Recv() != nil && ev.Callee.Pkg != nil && ev.Callee.Pkg.Pkg.Path() == "reflect" {
		name = ev.Callee.Name()
		recvT = ev.Callee.Signature.Recv().Type()
	} else {
		return nil
	}
	if len(ev.Args) == 0 {
		return nil
	}
	a := ev.Args[0]
	if name == "Next" && namedIs(recvT, "reflect", "MapIter") || (name == "Next" && ev.Callee != nil && strings.Contains(ev.Callee.String(), "MapIter")) {
		// the iterator of m.MapRange() yields exactly m.Len() entries: the k-th Next is true iff k-1 < Len()
		if mr, _ := calleeOfSym(a); isReflectMethod(mr, "MapRange") {
			if ma := symArgs(st, a); len(ma) == 1 {
				k := int64(0)
				for _, pe := range st.events {
					if pe.Instr != nil && pe.Callee == ev.Callee && len(pe.Args) > 0 && pe.Args[0].Key() == a.Key() {
						k++
					}
				}
				return &Sym{K: sCmp, Op: token.LSS, A: &Sym{K: sConst, C: constant.MakeInt64(k)}, B: &Sym{K: sRLen, A: ma[0]}, T: val.Type(), V: val}
			}
		}
	}
	switch {
	case isReflectValue(recvT):
		switch name {
		case "Kind":
			return &Sym{K: sKind, A: a, T: val.Type(), V: val}
		case "IsValid":
			return &Sym{K: sCmp, Op: token.NEQ, A: &Sym{K: sKind, A: a}, B: &Sym{K: sConst, C: constant.MakeInt64(0)}, T: val.Type(), V: val}
		case "Type":
			return &Sym{K: sTypeOf, A: a, T: val.Type(), V: val}
		case "Len":
			return &Sym{K: sRLen, A: a, T: val.Type(), V: val}
		}
	case isReflectType(recvT):
		switch name {
		case "Kind":
			if a.K == sTypeOf {
				return &Sym{K: sKind, A: a.A, T: val.Type(), V: val}
			}
			return &Sym{K: sKind, A: a, T: val.Type(), V: val}
		case "Elem":
			return &Sym{K: sTElem, A: a, T: val.Type(), V: val}
		case "Key":
			return &Sym{K: sTKey, A: a, T: val.Type(), V: val}
		}
	}
	return nil
}

// descendingInduction: phi(init, phi-1, …): returns the initial value.
func descendingInduction(phi *ssa.Phi) (ssa.Value, bool) {
	var init ssa.Value
	n := 0
	for _, e := range phi.Edges {
		if bo, ok := e.(*ssa.BinOp); ok && bo.Op == token.SUB && bo.X == ssa.Value(phi) {
			if c, ok := bo.Y.(*ssa.Const); ok {
				if v, _ := constant.Int64Val(c.Value); v == 1 {
					continue
				}
			}
			return nil, false
		}
		init = e
		n++
	}
	return init, n == 1 && init != nil
}

// evalBool: truth of a boolean sym under the path facts.
func evalBool(st *pstate, b *Sym) (bool, bool) {
	if b == nil {
		return false, false
	}
	if v, ok := b.BoolConst(); ok {
		return v, true
	}
	switch b.K {
	case sNot:
		v, ok := evalBool(st, b.A)
		return !v, ok
	case sTAOk:
		k := b.A.Key()
		if t, ok := st.dyn[k]; ok {
			return typeMatches(t, b.T), true
		}
		for _, nt := range st.notdyn[k] {
			if types.Identical(nt, b.T) {
				return false, true
			}
		}
		if b.A.K == sMkIface || b.A.IsNil() {
			// statically known dynamic type
			if b.A.IsNil() {
				return false, true
			}
			if x := b.A.A; x != nil && x.T != nil {
				if _, isIface := x.T.Underlying().(*types.Interface); !isIface {
					return typeMatches(x.T, b.T), true
				}
			}
		}
	case sCmp:
		if b.Op == token.EQL || b.Op == token.NEQ {
			eq, ok := evalEq(st, b.A, b.B)
			if ok {
				if b.Op == token.NEQ {
					return !eq, true
				}
				return eq, true
			}
		}
		// ordered comparisons of constants (through conversions, and of values known equal to a constant)
		if ca, oka := constValue(st, b.A); oka {
			if cb, okb := constValue(st, b.B); okb && b.Op != token.EQL && b.Op != token.NEQ {
				return constant.Compare(ca, b.Op, cb), true
			}
		}
		if v, ok := st.facts[b.Key()]; ok {
			return v, true
		}
		// x ≤ c ≡ x < c+1 and x > c ≡ x ≥ c+1 for integer constants: the same fact under the neighbouring constant
		if b.Op != token.EQL && b.Op != token.NEQ && depthGuard < 2 {
			if cb, ok := b.B.C, b.B.K == sConst && b.B.C != nil && b.B.C.Kind() == constant.Int; ok {
				shift := func(op token.Token, d int64) (bool, bool) {
					depthGuard++
					defer func() { depthGuard-- }()
					nc := constant.BinaryOp(cb, token.ADD, constant.MakeInt64(d))
					return evalBool(st, &Sym{K: sCmp, Op: op, A: b.A, B: &Sym{K: sConst, C: nc, T: b.B.T}})
				}
				var v, known bool
				switch b.Op {
				case token.LSS:
					v, known = shift(token.LEQ, -1)
				case token.LEQ:
					v, known = shift(token.LSS, 1)
				case token.GTR:
					v, known = shift(token.GEQ, 1)
				case token.GEQ:
					v, known = shift(token.GTR, -1)
				}
				if known {
					return v, true
				}
			}
		}
		// c < R for a constant c: false for every c at or above one known not to be below R, true for every c at or below one
		// known to be below R
		if b.Op == token.LSS && b.A.K == sConst && b.A.C != nil && b.A.C.Kind() == constant.Int {
			c, _ := constant.Int64Val(b.A.C)
			suffix := "," + b.B.Key() + ")"
			for k, v := range st.facts {
				if !strings.HasPrefix(k, "cmp(<,const(") || !strings.HasSuffix(k, suffix) {
					continue
				}
				var j int64
				if _, err := fmt.Sscanf(k, "cmp(<,const(%d),", &j); err != nil || k != fmt.Sprintf("cmp(<,const(%d)%s", j, suffix) {
					continue
				}
				if !v && j <= c {
					return false, true
				}
				if v && j >= c {
					return true, true
				}
			}
		}
		// the same ordering fact recorded in another spelling: a<b ≡ !(a>=b) ≡ b>a ≡ !(b<=a), through widening integer conversions
		if b.Op != token.EQL && b.Op != token.NEQ {
			x, y := stripWidening(b.A), stripWidening(b.B)
			for _, alt := range []struct {
				op   token.Token
				a, b *Sym
				neg  bool
			}{{b.Op, x, y, false}, {negOrd(b.Op), x, y, true}, {swapOrd(b.Op), y, x, false}, {negOrd(swapOrd(b.Op)), y, x, true}} {
				for _, aa := range []*Sym{alt.a, b.A, b.B} {
					for _, bb := range []*Sym{alt.b, b.A, b.B} {
						if (aa == b.A || aa == b.B) && aa != alt.a && aa.Key() != alt.a.Key() && stripWidening(aa).Key() != alt.a.Key() {
							continue
						}
						if (bb == b.A || bb == b.B) && bb != alt.b && bb.Key() != alt.b.Key() && stripWidening(bb).Key() != alt.b.Key() {
							continue
						}
						if v, ok := st.facts[(&Sym{K: sCmp, Op: alt.op, A: aa, B: bb}).Key()]; ok {
							return v != alt.neg, true
						}
					}
				}
			}
		}
	}
	if v, ok := st.facts[b.Key()]; ok {
		return v, true
	}
	// a boolean that the path has compared with a boolean constant: `x == true` assumed false means x is false
	bk := b.Key()
	for _, c := range []bool{true, false} {
		ck := "const(" + map[bool]string{true: "true", false: "false"}[c] + ")"
		for _, k := range []string{"cmp(==," + bk + "," + ck + ")", "cmp(==," + ck + "," + bk + ")"} {
			if v, ok := st.facts[k]; ok {
				return v == c, true
			}
		}
		for _, k := range []string{"cmp(!=," + bk + "," + ck + ")", "cmp(!=," + ck + "," + bk + ")"} {
			if v, ok := st.facts[k]; ok {
				return v != c, true
			}
		}
	}
	if c, ok := st.eqc[bk]; ok {
		if c == "const(true)" {
			return true, true
		}
		if c == "const(false)" {
			return false, true
		}
	}
	if m := st.neqc[bk]; m != nil {
		if m["const(true)"] {
			return false, true
		}
		if m["const(false)"] {
			return true, true
		}
	}
	return false, false
}

var depthGuard int

func negOrd(op token.Token) token.Token {
	switch op {
	case token.LSS:
		return token.GEQ
	case token.GEQ:
		return token.LSS
	case token.GTR:
		return token.LEQ
	case token.LEQ:
		return token.GTR
	}
	return op
}

func swapOrd(op token.Token) token.Token {
	switch op {
	case token.LSS:
		return token.GTR
	case token.GTR:
		return token.LSS
	case token.LEQ:
		return token.GEQ
	case token.GEQ:
		return token.LEQ
	}
	return op
}

// stripWidening removes integer conversions that cannot change the value (same signedness, not narrower).
func stripWidening(s *Sym) *Sym {
	for s != nil && s.K == sConvert && s.A != nil && s.T != nil && s.A.T != nil {
		from, ok1 := s.A.T.Underlying().(*types.Basic)
		to, ok2 := s.T.Underlying().(*types.Basic)
		if !ok1 || !ok2 || from.Info()&types.IsInteger == 0 || to.Info()&types.IsInteger == 0 {
			break
		}
		if (from.Info()&types.IsUnsigned != 0) != (to.Info()&types.IsUnsigned != 0) {
			break
		}
		if intBits(to) < intBits(from) {
			break
		}
		s = s.A
	}
	return s
}

func intBits(b *types.Basic) int {
	switch b.Kind() {
	case types.Int8, types.Uint8:
		return 8
	case types.Int16, types.Uint16:
		return 16
	case types.Int32, types.Uint32:
		return 32
	}
	return 64
}

// constValue: the integer constant a sym is (known to be equal to) on this path.
func constValue(st *pstate, s *Sym) (constant.Value, bool) {
	for s != nil && s.K == sConvert {
		s = s.A
	}
	if s == nil {
		return nil, false
	}
	if s.K == sConst && s.C != nil && s.C.Kind() == constant.Int {
		return s.C, true
	}
	if c, ok := st.eqc[s.Key()]; ok && strings.HasPrefix(c, "const(") {
		var v int64
		if _, err := fmt.Sscanf(c, "const(%d)", &v); err == nil && c == fmt.Sprintf("const(%d)", v) {
			return constant.MakeInt64(v), true
		}
	}
	return nil, false
}

func typeMatches(dyn, asserted types.Type) bool {
	if _, ok := asserted.Underlying().(*types.Interface); ok {
		return types.Implements(dyn, asserted.Underlying().(*types.Interface))
	}
	return types.Identical(dyn, asserted)
}

func isBoolSym(s *Sym) bool {
	if _, ok := s.BoolConst(); ok {
		return true
	}
	switch s.K {
	case sNot, sCmp, sTAOk:
		return true
	}
	if s.T != nil {
		if b, ok := s.T.Underlying().(*types.Basic); ok && b.Kind() == types.Bool {
			return true
		}
	}
	return false
}

// evalBoolNoEq: evalBool without descending into a bool==bool comparison of the same pair (no infinite regress)
func evalBoolNoEq(st *pstate, b *Sym) (bool, bool) {
	if b.K == sCmp && (b.Op == token.EQL || b.Op == token.NEQ) && isBoolSym(b.A) && isBoolSym(b.B) {
		if v, ok := st.facts[b.Key()]; ok {
			return v, true
		}
		va, oka := evalBoolNoEq(st, b.A)
		vb, okb := evalBoolNoEq(st, b.B)
		if oka && okb {
			if b.Op == token.EQL {
				return va == vb, true
			}
			return va != vb, true
		}
		return false, false
	}
	return evalBool(st, b)
}

func definitelyNonNil(s *Sym) bool {
	switch s.K {
	case sNewErr, sMkIface, sFresh, sClosure, sFunc, sFieldAddr, sIndexAddr, sGlobal:
		return true
	}
	return false
}

func evalEq(st *pstate, a, b *Sym) (bool, bool) {
	if a.Key() == b.Key() {
		return true, true
	}
	// equality of two booleans: decide through their truth values when both are known
	if isBoolSym(a) && isBoolSym(b) {
		if va, oka := evalBoolNoEq(st, a); oka {
			if vb, okb := evalBoolNoEq(st, b); okb {
				return va == vb, true
			}
		}
	}
	if a.K == sConst && b.K == sConst {
		if a.C == nil || b.C == nil {
			return a.C == nil && b.C == nil, true
		}
		return constant.Compare(a.C, token.EQL, b.C), true
	}
	if b.K != sConst {
		a, b = b, a
	}
	if b.K == sConst {
		if b.C == nil && definitelyNonNil(a) {
			return false, true
		}
		// the first result of a (value, ok) function whose ok tells whether the value is nil
		if b.C == nil && a.K == sRes && a.Idx == 0 && a.A != nil {
			if f, _ := calleeOfSym(a.A); f != nil && commaOkFuncs[f] {
				if v, known := evalBool(st, &Sym{K: sRes, A: a.A, Idx: 1}); known {
					return !v, true
				}
			}
		}
		// an unsigned x: x == 0 is the negation of x > 0
		if b.C != nil && b.C.Kind() == constant.Int && constant.Sign(b.C) == 0 && a.T != nil {
			if bt, ok := a.T.Underlying().(*types.Basic); ok && bt.Info()&types.IsUnsigned != 0 {
				if v, ok := st.facts[(&Sym{K: sCmp, Op: token.GTR, A: a, B: b}).Key()]; ok {
					return !v, true
				}
			}
		}
		// the kind of a value made by reflect.MakeSlice / Append / MakeMap is fixed by the call that made it
		if a.K == sKind && b.C != nil && b.C.Kind() == constant.Int {
			if k, ok := madeKind(a.A); ok {
				want, _ := constant.Int64Val(b.C)
				return want == k, true
			}
		}
		ak, bk := a.Key(), b.Key()
		if c, ok := st.eqc[ak]; ok {
			return c == bk, true
		}
		if st.neqc[ak][bk] {
			return false, true
		}
	}
	k := (&Sym{K: sCmp, Op: token.EQL, A: a, B: b}).Key()
	if v, ok := st.facts[k]; ok {
		return v, true
	}
	return false, false
}

// assume records that boolean sym b has truth value v; returns false if that
// contradicts the facts (infeasible edge).
func assume(st *pstate, b *Sym, v bool) bool {
	if cur, ok := evalBool(st, b); ok {
		return cur == v
	}
	switch b.K {
	case sNot:
		return assume(st, b.A, !v)
	case sTAOk:
		k := b.A.Key()
		if v {
			if _, isIface := b.T.Underlying().(*types.Interface); !isIface {
				st.dyn[k] = b.T
			}
		} else {
			st.notdyn[k] = append(st.notdyn[k], b.T)
		}
		st.facts[b.Key()] = v
		return true
	case sCmp:
		if b.Op == token.EQL || b.Op == token.NEQ {
			eq := v
			if b.Op == token.NEQ {
				eq = !v
			}
			x, c := b.A, b.B
			if c.K != sConst {
				x, c = c, x
			}
			if c.K != sConst {
				st.symeq[b.A.Key()] = append(st.symeq[b.A.Key()], symRel{b.B, eq})
				st.symeq[b.B.Key()] = append(st.symeq[b.B.Key()], symRel{b.A, eq})
			}
			if c.K == sConst {
				if eq {
					st.eqc[x.Key()] = c.Key()
				} else {
					if st.neqc[x.Key()] == nil {
						st.neqc[x.Key()] = map[string]bool{}
					}
					st.neqc[x.Key()][c.Key()] = true
				}
			}
			st.facts[(&Sym{K: sCmp, Op: token.EQL, A: b.A, B: b.B}).Key()] = eq
			return true
		}
	}
	st.facts[b.Key()] = v
	return true
}

type retCont func(st *pstate, r *ssa.Return, results []*Sym)

func (ps *PathSim) walk(fn *ssa.Function, b *ssa.BasicBlock, start int, pred *ssa.BasicBlock, st *pstate, depth int, ret retCont) {
	for {
		if ps.paths > ps.maxPaths {
			ps.Truncated++
			return
		}
		ps.steps++
		stepsTotal++
		if ps.steps > stepsHigh {
			stepsHigh = ps.steps
		}
		if stepsTotal > totalMaxSteps {
			// the whole run is out of proportion (every scenario of a rule hitting its own budget would take minutes): stop
			// exploring; the check is undecided
			if !ps.Exhausted {
				ps.Exhausted = true
				if !totalExhausted {
					totalExhausted = true
					exhaustedSims = append(exhaustedSims, "all simulators together (last: "+fn.String()+")")
				}
			}
			return
		}
		if ps.MaxSteps > 0 && ps.steps > ps.MaxSteps {
			if !ps.Exhausted {
				ps.Exhausted = true
				exhaustedSims = append(exhaustedSims, fn.String())
			}
			return
		}
		havocNow := false
		if start == 0 && pred != nil {
			if args, rep, retI, ok := ps.tailSelfCall(fn, b, pred, st); ok {
				// a loop whose only carried state is the function's own parameters: going round once more is calling the
				// function again with the new values and returning what that call returns
				ev := Event{Instr: rep, In: fn, Callee: fn, Args: args, Deref: make([]*Sym, len(args)), TailLoop: true}
				st.iters[rep]++
				var res *Sym
				if ps.Model != nil {
					res = ps.Model(&ev)
				}
				if res == nil {
					res = &Sym{K: sCall, V: rep, T: rep.Type(), iter: st.iters[rep], Fn: fn}
				}
				ev.Res = res
				st.events = append(st.events, ev)
				if ps.OnEvent != nil {
					ps.OnEvent(st, &st.events[len(st.events)-1])
				}
				var results []*Sym
				n := fn.Signature.Results().Len()
				for i := 0; i < n; i++ {
					if res.K == sTuple && i < len(res.Kids) {
						results = append(results, res.Kids[i])
					} else if n == 1 {
						results = append(results, res)
					} else {
						results = append(results, &Sym{K: sRes, A: res, Idx: i, T: fn.Signature.Results().At(i).Type()})
					}
				}
				st.trail = append(st.trail, fmt.Sprintf("%s.b%d:again", fn.Name(), pred.Index))
				ret(st, retI, results)
				return
			}
		}
		if start == 0 {
			st.visits[b]++
			if st.visits[b] > ps.maxVisits {
				_, hasPhi := b.Instrs[0].(*ssa.Phi)
				if !ps.Havoc || st.havoced[b] || !hasPhi {
					ps.Truncated++
					return
				}
				st.havoced[b] = true
				havocNow = true
				for _, ins := range b.Instrs {
					phi, ok := ins.(*ssa.Phi)
					if !ok {
						break
					}
					st.iters[phi]++
					hs := &Sym{K: sOpaque, V: phi, T: phi.Type(), iter: 1000 + st.iters[phi], Str: "havoc"}
					// monotone induction variables keep their one-sided bound through the widening
					if start, ok := ascendingInduction(phi); ok {
						hs.Str = "havoc-asc"
						hs.C = constant.MakeInt64(start)
					} else if init, ok := descendingInduction(phi); ok {
						hs.Str = "havoc-desc"
						hs.A = ps.sym(st, init)
					}
					st.env[phi] = hs
				}
				st.trail = append(st.trail, fmt.Sprintf("%s.b%d:widened", fn.Name(), b.Index))
			}
			// phis: simultaneous assignment from the edge taken
			if pred != nil && !havocNow {
				idx := -1
				for i, p := range b.Preds {
					if p == pred {
						idx = i
						break
					}
				}
				var phis []*ssa.Phi
				var vals []*Sym
				for _, ins := range b.Instrs {
					phi, ok := ins.(*ssa.Phi)
					if !ok {
						break
					}
					phis = append(phis, phi)
					vals = append(vals, ps.sym(st, phi.Edges[idx]))
				}
				for i, phi := range phis {
					st.env[phi] = vals[i]
				}
			}
		}
		for i := start; i < len(b.Instrs); i++ {
			ins := b.Instrs[i]
			switch x := ins.(type) {
			case *ssa.If:
				c := ps.sym(st, x.Cond)
				if v, ok := evalBool(st, c); ok {
					nb := b.Succs[1]
					tf := "F"
					if v {
						nb = b.Succs[0]
						tf = "T"
					}
					st.trail = append(st.trail, fmt.Sprintf("%s.b%d:%s", fn.Name(), b.Index, tf)) // decided by the facts of the path
					pred, b = b, nb
					goto next
				}
				// fork
				ps.paths++
				st2 := st.clone()
				if assume(st2, c, false) {
					st2.trail = append(st2.trail, fmt.Sprintf("%s.b%d:F", fn.Name(), b.Index))
					ps.walk(fn, b.Succs[1], 0, b, st2, depth, ret)
				}
				if !assume(st, c, true) {
					return
				}
				st.trail = append(st.trail, fmt.Sprintf("%s.b%d:T", fn.Name(), b.Index))
				pred, b = b, b.Succs[0]
				goto next
			case *ssa.Jump:
				pred, b = b, b.Succs[0]
				goto next
			case *ssa.Return:
				var res []*Sym
				for _, r := range x.Results {
					res = append(res, ps.sym(st, r))
				}
				ret(st, x, res)
				return
			case *ssa.Panic:
				ps.out = append(ps.out, &Summary{Fn: fn, Panic: x, St: st, Results: []*Sym{ps.sym(st, x.X)}})
				return
			case *ssa.Lookup:
				// a lookup in an initialise-once table with a key that is not known on this path: one path per entry, one for "absent"
				if _, isMap := x.X.Type().Underlying().(*types.Map); isMap {
					m := ps.sym(st, x.X)
					key := ps.sym(st, x.Index)
					if ents, ok := ps.tables().tableMap(m); ok && len(ents) > 0 && len(ents) <= 64 {
						if _, isC := constKeyOf(st, key); !isC {
							undecided := false
							for ck := range ents {
								if !st.neqc[key.Key()][ck] {
									undecided = true
								}
							}
							if undecided {
								var cks []string
								for ck := range ents {
									cks = append(cks, ck)
								}
								sort.Strings(cks)
								rest := st.clone()
								for _, ck := range cks {
									e := ents[ck]
									eq := &Sym{K: sCmp, Op: token.EQL, A: key, B: &Sym{K: sConst, C: e.k.C, T: e.k.T}}
									st2 := st.clone()
									if assume(st2, eq, true) {
										ps.paths++
										st2.trail = append(st2.trail, fmt.Sprintf("%s.b%d:key=%s", fn.Name(), b.Index, ck))
										ps.walk(fn, b, i, nil, st2, depth, ret)
									}
									if !assume(rest, eq, false) {
										rest = nil
										break
									}
								}
								if rest != nil {
									rest.trail = append(rest.trail, fmt.Sprintf("%s.b%d:key-absent", fn.Name(), b.Index))
									ps.walk(fn, b, i, nil, rest, depth, ret)
								}
								return
							}
						}
					}
				}
				ps.exec(fn, st, ins)
			case *ssa.Call:
				callee := x.Common().StaticCallee()
				var bindings []*Sym
				invoked := false
				if callee == nil && x.Common().IsInvoke() && ps.Inline != nil {
					// a call through an interface whose target is known: the one implementation, or the method of the
					// receiver's dynamic type on this path
					if f := ps.soleImplementation(fn, x); f != nil {
						callee, invoked = f, true
					} else if f := ps.methodOfDynamicType(st, ps.sym(st, x.Common().Value), x.Common()); f != nil {
						callee, invoked = f, true
					}
					if invoked && !ps.Inline(callee) {
						callee, invoked = nil, false // stays a call (execCall resolves it again for the event)
					}
				}
				if callee == nil && !x.Common().IsInvoke() {
					callee, bindings = ps.funcOfSym(ps.sym(st, x.Common().Value))
				} else if _, isMC := x.Common().Value.(*ssa.MakeClosure); isMC {
					// a closure called directly: its captured variables
					_, bindings = ps.funcOfSym(ps.sym(st, x.Common().Value))
					if bindings == nil {
						bindings = []*Sym{}
					}
				}
				localClosure := callee != nil && callee.Parent() == fn && bindings != nil
				active := 0
				if callee != nil && ps.Recursion > 0 {
					for _, t := range st.trail {
						if t == "enter:"+callee.Name() {
							active++
						} else if t == "leave:"+callee.Name() {
							active--
						}
					}
					if callee == fn && depth == 0 {
						active++ // the function being analysed itself
					}
				}
				reentrant := active > 0
				if reentrant && ps.Inline != nil && ps.Inline(callee) && (active >= ps.Recursion || depth >= ps.MaxDepth) {
					ps.Truncated++ // deeper recursion than explored
					return
				}
				if callee != nil && ps.Inline != nil && depth < ps.MaxDepth && len(callee.Blocks) > 0 && (callee != fn || ps.Recursion > 0) && (ps.Inline(callee) || localClosure) {
					com := x.Common()
					iev := Event{Instr: x, In: fn, Callee: callee, Inlined: true}
					// a nested activation of a function that is already being interpreted: its values are saved and restored
					var saved map[ssa.Value]*Sym
					if reentrant {
						saved = map[ssa.Value]*Sym{}
						for _, p := range callee.Params {
							if v, ok := st.env[p]; ok {
								saved[p] = v
							}
						}
						for _, cb := range callee.Blocks {
							for _, ci := range cb.Instrs {
								if v, ok := ci.(ssa.Value); ok {
									if sv, has := st.env[v]; has {
										saved[v] = sv
									}
								}
							}
						}
					}
					var newArgs []*Sym
					callArgs := com.Args
					if invoked {
						callArgs = append([]ssa.Value{com.Value}, com.Args...) // the receiver first
					}
					for k := range callee.Params {
						if k < len(callArgs) {
							newArgs = append(newArgs, ps.sym(st, callArgs[k]))
						}
					}
					for k, p := range callee.Params {
						if k < len(newArgs) {
							st.env[p] = newArgs[k]
							iev.Args = append(iev.Args, st.env[p])
						}
					}
					for k, fv := range callee.FreeVars {
						if k < len(bindings) {
							st.env[fv] = bindings[k]
						}
					}
					iev.Deref = make([]*Sym, len(iev.Args))
					st.events = append(st.events, iev)
					if ps.OnEvent != nil {
						ps.OnEvent(st, &st.events[len(st.events)-1])
					}
					// the visit counts of an activation that is suspended by this (recursive) call belong to it: they are put
					// back when the call returns — otherwise a loop around a recursive call would never reach its bound
					var savedVisits map[*ssa.BasicBlock]int
					if reentrant {
						savedVisits = map[*ssa.BasicBlock]int{}
						for _, cb := range callee.Blocks {
							if n, ok := st.visits[cb]; ok {
								savedVisits[cb] = n
							}
						}
					}
					for _, cb := range callee.Blocks {
						delete(st.visits, cb)
					}
					st.trail = append(st.trail, "enter:"+callee.Name())
					blk, idx := b, i
					ps.walk(callee, callee.Blocks[0], 0, nil, st, depth+1, func(st2 *pstate, r *ssa.Return, res []*Sym) {
						var rs *Sym
						if len(res) == 1 {
							rs = res[0]
						} else {
							rs = &Sym{K: sTuple, Kids: res, T: x.Type()}
						}
						if saved != nil {
							for _, cb := range callee.Blocks {
								for _, ci := range cb.Instrs {
									if v, ok := ci.(ssa.Value); ok {
										delete(st2.env, v)
									}
								}
							}
							for k, v := range saved {
								st2.env[k] = v
							}
						}
						if savedVisits != nil {
							for _, cb := range callee.Blocks {
								delete(st2.visits, cb)
							}
							for cb, n := range savedVisits {
								st2.visits[cb] = n
							}
						}
						st2.env[x] = rs
						st2.trail = append(st2.trail, "leave:"+callee.Name())
						ps.walk(fn, blk, idx+1, nil, st2, depth, ret)
					})
					return
				}
				ps.exec(fn, st, ins)
			default:
				ps.exec(fn, st, ins)
			}
		}
		return
	next:
		start = 0
	}
}

// ---------------------------------------------------------------------------
// helpers for rules

// errClass of a sym under path facts: "nil", "nonnil", "unknown".
func errClass(sm *Summary, e *Sym) string {
	if e.IsNil() {
		return "nil"
	}
	if definitelyNonNil(e) {
		return "nonnil"
	}
	if eq, ok := evalEq(sm.St, e, &Sym{K: sConst, C: nil}); ok {
		if eq {
			return "nil"
		}
		return "nonnil"
	}
	return "unknown"
}

// describe a summary's facts for diagnostics.
func (sm *Summary) Describe() string {
	var fs []string
	for k, v := range sm.St.facts {
		fs = append(fs, fmt.Sprintf("%s=%v", k, v))
	}
	sort.Strings(fs)
	if len(fs) > 6 {
		fs = fs[:6]
	}
	var rs []string
	for _, r := range sm.Results {
		rs = append(rs, r.Key())
	}
	return "returns (" + strings.Join(rs, ", ") + ") under {" + strings.Join(fs, "; ") + "}"
}

// callsTo returns the events on the path that call fn statically.
func (sm *Summary) callsTo(fn *ssa.Function) []Event {
	var out []Event
	for _, e := range sm.St.events {
		if e.Callee == fn && e.Instr != nil {
			out = append(out, e)
		}
	}
	return out
}

// fieldPath: if s is a load of a chain of field addresses rooted at base,
// returns the dotted field path and the root.
func fieldPath(s *Sym) (root *Sym, path string, ok bool) {
	if s.K == sField {
		r, p, ok := fieldPath(s.A)
		if ok {
			return r, joinPath(p, s.Str), true
		}
		return s.A, s.Str, true
	}
	if s.K != sLoad {
		return s, "", true
	}
	var parts []string
	a := s.A
	for a.K == sFieldAddr {
		parts = append([]string{a.Str}, parts...)
		a = a.A
	}
	if len(parts) == 0 {
		return nil, "", false
	}
	// a is a pointer value; it may itself be a loaded field (nested pointers) — stop here
	return a, strings.Join(parts, "."), true
}

func joinPath(a, b string) string {
	if a == "" {
		return b
	}
	return a + "." + b
}

// unwrapThunk: a method-expression thunk (synthetic: it hands its parameters, in order, to one static call and returns
// the result) stands for the method it calls.
func unwrapThunk(f *ssa.Function) *ssa.Function {
	if f == nil || f.Synthetic == "" || !strings.Contains(f.Name(), "$thunk") || len(f.Blocks) != 1 {
		return f
	}
	var call *ssa.Call
	for _, ins := range f.Blocks[0].Instrs {
		switch x := ins.(type) {
		case *ssa.Call:
			if call != nil {
				return f
			}
			call = x
		case *ssa.Return, *ssa.Extract, *ssa.DebugRef:
		default:
			return f
		}
	}
	if call == nil || call.Call.StaticCallee() == nil || len(call.Call.Args) != len(f.Params) {
		return f
	}
	for i, a := range call.Call.Args {
		if a != ssa.Value(f.Params[i]) {
			return f
		}
	}
	return call.Call.StaticCallee()
}

// tailSelfCall: b is the header of a loop of fn that (1) is entered directly from a bare entry block, (2) carries nothing
// but new values for fn's own parameters (every phi merges a parameter on the entry edge), and pred is a back edge.
// Returns the arguments of the equivalent recursive call, a representative recursive call instruction and a return.
func (ps *PathSim) tailSelfCall(fn *ssa.Function, b, pred *ssa.BasicBlock, st *pstate) ([]*Sym, *ssa.Call, *ssa.Return, bool) {
	if len(fn.Blocks) < 2 || fn.Blocks[0] == pred || b != fn.Blocks[1] || len(fn.Blocks[0].Succs) != 1 || fn.Blocks[0].Succs[0] != b {
		return nil, nil, nil, false
	}
	for _, ins := range fn.Blocks[0].Instrs {
		switch ins.(type) {
		case *ssa.Jump, *ssa.DebugRef:
		default:
			return nil, nil, nil, false
		}
	}
	entryIdx, predIdx := -1, -1
	for i, p := range b.Preds {
		if p == fn.Blocks[0] {
			entryIdx = i
		}
		if p == pred {
			predIdx = i
		}
	}
	if entryIdx < 0 || predIdx < 0 {
		return nil, nil, nil, false
	}
	newVal := map[*ssa.Parameter]*Sym{}
	nphi := 0
	for _, ins := range b.Instrs {
		phi, ok := ins.(*ssa.Phi)
		if !ok {
			break
		}
		nphi++
		p, ok := phi.Edges[entryIdx].(*ssa.Parameter)
		if !ok || p.Parent() != fn || newVal[p] != nil {
			return nil, nil, nil, false
		}
		newVal[p] = ps.sym(st, phi.Edges[predIdx])
	}
	if nphi == 0 {
		return nil, nil, nil, false
	}
	var rep *ssa.Call
	var retI *ssa.Return
	for _, blk := range fn.Blocks {
		for _, ins := range blk.Instrs {
			if c, ok := ins.(*ssa.Call); ok && rep == nil && c.Call.StaticCallee() == fn {
				rep = c
			}
			if r, ok := ins.(*ssa.Return); ok && retI == nil {
				retI = r
			}
		}
	}
	if rep == nil || retI == nil {
		return nil, nil, nil, false
	}
	var args []*Sym
	for _, p := range fn.Params {
		if v, ok := newVal[p]; ok {
			args = append(args, v)
		} else {
			args = append(args, ps.sym(st, p))
		}
	}
	return args, rep, retI, true
}

// ApplyClosure continues the path of st by calling the function value clo with the given arguments: the function's body is
// interpreted from a copy of st (so what the closure captured — locals of the path that made it — is still known).
func (ps *PathSim) ApplyClosure(st *pstate, clo *Sym, args []*Sym) []*Summary {
	f, bindings := ps.funcOfSym(clo)
	if f == nil || len(f.Blocks) == 0 {
		return nil
	}
	st2 := st.clone()
	for i, p := range f.Params {
		if i < len(args) {
			st2.env[p] = args[i]
		}
	}
	for i, fv := range f.FreeVars {
		if i < len(bindings) {
			st2.env[fv] = bindings[i]
		}
	}
	for _, b := range f.Blocks {
		delete(st2.visits, b)
	}
	var out []*Summary
	saved := ps.out
	ps.walk(f, f.Blocks[0], 0, nil, st2, 0, func(st3 *pstate, r *ssa.Return, res []*Sym) {
		out = append(out, &Summary{Fn: f, Ret: r, St: st3, Results: res})
	})
	ps.out = saved
	return out
}

// madeKind: the reflect.Kind of a value that is the result of a reflect constructor (Slice = 23, Map = 21).
func madeKind(v *Sym) (int64, bool) {
	if v == nil || v.K != sCall {
		return 0, false
	}
	f, _ := calleeOfSym(v)
	switch {
	case isReflectFunc(f, "MakeSlice"), isReflectFunc(f, "Append"), isReflectFunc(f, "AppendSlice"):
		return 23, true
	case isReflectFunc(f, "MakeMap"), isReflectFunc(f, "MakeMapWithSize"):
		return 21, true
	}
	return 0, false
}

// appendedLen: the length of a slice put together on this path by appending single elements (append(s, x)) to nil or to a
// slice made empty: the number of appends.
func appendedLen(st *pstate, s *Sym) (int64, bool) {
	if s == nil {
		return 0, false
	}
	if s.IsNil() {
		if _, isSlice := typeOfSym(s).(*types.Slice); isSlice {
			return 0, true
		}
		return 0, false
	}
	var n int64
	for depth := 0; s != nil && s.K == sCall && depth < 64; depth++ {
		var ev *Event
		for i := len(st.events) - 1; i >= 0; i-- {
			if st.events[i].Res != nil && st.events[i].Res.Key() == s.Key() {
				ev = &st.events[i]
				break
			}
		}
		if ev == nil || !isBuiltinCall(ev, "append") || len(ev.Args) != 2 {
			return 0, false
		}
		// the variadic argument: a local array of known size
		if len(ev.Deref) < 2 || ev.Deref[1] == nil || ev.Deref[1].K != sStruct {
			return 0, false
		}
		n += int64(len(ev.Deref[1].F))
		s = ev.Args[0]
	}
	if s == nil {
		return 0, false
	}
	if s.IsNil() {
		return n, true
	}
	if s.K == sFresh && len(s.Kids) == 1 && s.Kids[0].K == sConst && s.Kids[0].C != nil {
		if v, exact := constant.Int64Val(s.Kids[0].C); exact {
			return n + v, true
		}
	}
	return 0, false
}

func typeOfSym(s *Sym) types.Type {
	if s == nil || s.T == nil {
		return nil
	}
	return s.T.Underlying()
}

// foldBits: |, &, ^, &^, << and >> of two integers that are constants on this path (literally, or by an equality the
// path has established: a kind assumed for a table row) — bit-set membership written with shifts and masks.
func foldBits(st *pstate, x *ssa.BinOp, a, b *Sym) (*Sym, bool) {
	switch x.Op {
	case token.AND, token.OR, token.XOR, token.AND_NOT, token.SHL, token.SHR:
	default:
		return nil, false
	}
	bt, ok := x.Type().Underlying().(*types.Basic)
	if !ok || bt.Info()&types.IsInteger == 0 {
		return nil, false
	}
	cv := func(s *Sym) (constant.Value, bool) {
		if s.K == sConst && s.C != nil && s.C.Kind() == constant.Int {
			return s.C, true
		}
		if c, ok := st.eqc[s.Key()]; ok && strings.HasPrefix(c, "const(") && strings.HasSuffix(c, ")") {
			v := constant.MakeFromLiteral(strings.TrimSuffix(strings.TrimPrefix(c, "const("), ")"), token.INT, 0)
			if v.Kind() == constant.Int {
				return v, true
			}
		}
		return nil, false
	}
	ca, okA := cv(a)
	cb, okB := cv(b)
	if !okA || !okB {
		return nil, false
	}
	var res constant.Value
	if x.Op == token.SHL || x.Op == token.SHR {
		n, exact := constant.Uint64Val(cb)
		if !exact || n > 62 {
			return nil, false
		}
		res = constant.Shift(ca, x.Op, uint(n))
	} else {
		res = constant.BinaryOp(ca, x.Op, cb)
	}
	// stay within what the type can hold without wrapping
	if v, exact := constant.Int64Val(res); !exact || v < 0 || v >= 1<<31 {
		return nil, false
	}
	return &Sym{K: sConst, C: res, T: x.Type()}, true
}

// commaOkFuncs: functions of the module returning (value, ok) for which ok is true exactly when value is not nil (the
// rule that extracts the function's table checks that for every row).
var commaOkFuncs = map[*ssa.Function]bool{}
