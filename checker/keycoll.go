package main

// Key collections: a slice that is filled with exactly one element per entry of a reflected map — every key, or the
// string every key spells — by a loop that visits every entry once:
//
//	ks := make([]string, 0, m.Len())          // or nil
//	for it := m.MapRange(); it.Next(); { ks = append(ks, it.Key().String()) }
//	for _, k := range m.MapKeys()          { ks = append(ks, k.String()) }
//
// Recognised structurally on the SSA form (the accumulator phi, its two edges, the unconditional append, the loop's
// condition). What holds of such a slice once the loop has ended: len(ks) == m.Len(), and its elements are the keys
// of m (in Go's map order until it is sorted).

import (
	"go/constant"
	"go/types"

	"golang.org/x/tools/go/ssa"
)

type keyColl struct {
	phi     *ssa.Phi
	app     *ssa.Call // the append
	m       ssa.Value // the reflect.Value of the map
	strings bool      // elements are key.String(), not the keys themselves
	header  *ssa.BasicBlock
}

var keyCollCache = map[*ssa.Function][]keyColl{}

func keyCollections(fn *ssa.Function) []keyColl {
	if v, ok := keyCollCache[fn]; ok {
		return v
	}
	var out []keyColl
	for _, h := range fn.Blocks {
		for _, ins := range h.Instrs {
			phi, ok := ins.(*ssa.Phi)
			if !ok {
				break
			}
			if _, isSlice := phi.Type().Underlying().(*types.Slice); !isSlice || len(phi.Edges) != 2 {
				continue
			}
			var app *ssa.Call
			var init ssa.Value
			for _, e := range phi.Edges {
				if c, ok := e.(*ssa.Call); ok {
					if b, isB := c.Call.Value.(*ssa.Builtin); isB && b.Name() == "append" && len(c.Call.Args) == 2 && c.Call.Args[0] == ssa.Value(phi) {
						app = c
						continue
					}
				}
				init = e
			}
			if app == nil || init == nil || !emptySliceValue(init) {
				continue
			}
			lb := loopBlocks(h)
			if !lb[app.Block()] {
				continue
			}
			// the append runs on every iteration: its block dominates every back edge
			everyIter := true
			for _, p := range h.Preds {
				if lb[p] && !app.Block().Dominates(p) {
					everyIter = false
				}
			}
			if !everyIter {
				continue
			}
			// the loop is left only through its header (no break or return inside): every entry is visited
			leaves := true
			for blk := range lb {
				if blk == h {
					continue
				}
				for _, sc := range blk.Succs {
					if !lb[sc] {
						leaves = false
					}
				}
				if _, isRet := blk.Instrs[len(blk.Instrs)-1].(*ssa.Return); isRet {
					leaves = false
				}
			}
			if !leaves {
				continue
			}
			// exactly one element appended
			elem := singleVariadic(app.Call.Args[1])
			if elem == nil {
				continue
			}
			kc := keyColl{phi: phi, app: app, header: h}
			key := elem
			if c, ok := elem.(*ssa.Call); ok && isReflectMethod(c.Call.StaticCallee(), "String") && len(c.Call.Args) == 1 {
				kc.strings = true
				key = c.Call.Args[0]
			}
			// the key of this iteration, and the loop that visits every entry once
			switch k := key.(type) {
			case *ssa.Call:
				// it.Key() with it = m.MapRange(), loop condition it.Next()
				if !isIterMethod(k, "Key") {
					continue
				}
				it, ok := k.Call.Args[0].(*ssa.Call)
				if !ok || !isReflectMethod(it.Call.StaticCallee(), "MapRange") {
					continue
				}
				if !loopCondIsNext(h, it) {
					continue
				}
				kc.m = it.Call.Args[0]
			case *ssa.UnOp:
				// *(&MapKeys(m)[i]) in `for i := range MapKeys(m)`
				ia, ok := k.X.(*ssa.IndexAddr)
				if !ok {
					continue
				}
				mk, ok := ia.X.(*ssa.Call)
				if !ok || !isReflectMethod(mk.Call.StaticCallee(), "MapKeys") {
					continue
				}
				if !loopCondIsIndexBelowLen(h, ia.Index, mk) {
					continue
				}
				kc.m = mk.Call.Args[0]
			default:
				continue
			}
			out = append(out, kc)
		}
	}
	keyCollCache[fn] = out
	return out
}

func emptySliceValue(v ssa.Value) bool {
	switch x := v.(type) {
	case *ssa.Const:
		return x.Value == nil
	case *ssa.MakeSlice:
		c, ok := x.Len.(*ssa.Const)
		return ok && c.Value != nil && constant.Sign(c.Value) == 0
	case *ssa.Slice:
		// make([]T, 0, n) with constant n: new [n]T; slice t[:0]
		if x.High != nil {
			if c, ok := x.High.(*ssa.Const); ok && c.Value != nil && constant.Sign(c.Value) == 0 {
				_, isAlloc := x.X.(*ssa.Alloc)
				return isAlloc
			}
		}
	}
	return false
}

// singleVariadic: the one element of the argument list `arr[:]` of a variadic call.
func singleVariadic(v ssa.Value) ssa.Value {
	sl, ok := v.(*ssa.Slice)
	if !ok {
		return nil
	}
	al, ok := sl.X.(*ssa.Alloc)
	if !ok {
		return nil
	}
	arr, ok := al.Type().Underlying().(*types.Pointer).Elem().Underlying().(*types.Array)
	if !ok || arr.Len() != 1 || al.Referrers() == nil {
		return nil
	}
	var elem ssa.Value
	for _, r := range *al.Referrers() {
		if ia, ok := r.(*ssa.IndexAddr); ok && ia.Referrers() != nil {
			for _, u := range *ia.Referrers() {
				if st, ok := u.(*ssa.Store); ok && st.Addr == ssa.Value(ia) {
					if elem != nil {
						return nil
					}
					elem = st.Val
				}
			}
		}
	}
	return elem
}

func isIterMethod(c *ssa.Call, name string) bool {
	f := c.Call.StaticCallee()
	return f != nil && f.Pkg != nil && f.Pkg.Pkg.Path() == "reflect" && f.Name() == name && f.Signature.Recv() != nil && len(c.Call.Args) >= 1
}

func loopCondIsNext(h *ssa.BasicBlock, it *ssa.Call) bool {
	ifi, ok := h.Instrs[len(h.Instrs)-1].(*ssa.If)
	if !ok {
		return false
	}
	c, ok := ifi.Cond.(*ssa.Call)
	return ok && isIterMethod(c, "Next") && c.Call.Args[0] == ssa.Value(it) && loopBlocks(h)[h.Succs[0]]
}

func loopCondIsIndexBelowLen(h *ssa.BasicBlock, idx ssa.Value, mk *ssa.Call) bool {
	// range over a slice: header `i+1 < len(s)` on the incremented induction variable
	ifi, ok := h.Instrs[len(h.Instrs)-1].(*ssa.If)
	if !ok {
		return false
	}
	bo, ok := ifi.Cond.(*ssa.BinOp)
	if !ok || bo.Op.String() != "<" || bo.X != idx {
		return false
	}
	ln, ok := bo.Y.(*ssa.Call)
	if !ok {
		return false
	}
	b, isB := ln.Call.Value.(*ssa.Builtin)
	if !isB || b.Name() != "len" || ln.Call.Args[0] != ssa.Value(mk) {
		return false
	}
	// idx = phi + 1 with phi starting at -1 (the lowering of `range`)
	add, ok := idx.(*ssa.BinOp)
	if !ok || add.Op.String() != "+" {
		return false
	}
	phi, ok := add.X.(*ssa.Phi)
	if !ok {
		return false
	}
	start, asc := ascendingInduction(phi)
	return asc && start == -1
}

// collectedKeys: the key collection a symbolic slice value stems from on this path (the result of the collecting append,
// or the widened accumulator), with the symbol of its map.
func collectedKeys(st *pstate, base *Sym) (*keyColl, *Sym) {
	if base == nil || base.V == nil {
		return nil, nil
	}
	var fn *ssa.Function
	switch x := base.V.(type) {
	case *ssa.Call:
		fn = x.Parent()
	case *ssa.Phi:
		fn = x.Parent()
	default:
		return nil, nil
	}
	for i, kc := range keyCollections(fn) {
		if (base.K == sCall && base.V == ssa.Value(kc.app)) || (base.K == sOpaque && base.V == ssa.Value(kc.phi)) {
			m := st.env[kc.m]
			if m == nil {
				return nil, nil
			}
			return &keyCollections(fn)[i], m
		}
	}
	return nil, nil
}

// collectThenSorted: the collected slice is sorted (in a way that gives one result whatever order the elements were
// collected in) before anything else looks at it; every other use is reached only through the sort.
func collectThenSorted(prog *Program, kc *keyColl) (bool, string, string) {
	lb := loopBlocks(kc.header)
	// nothing else happens in the collecting loop that could depend on the visiting order
	for b := range lb {
		for _, ins := range b.Instrs {
			switch x := ins.(type) {
			case *ssa.Store:
				if ia, ok := x.Addr.(*ssa.IndexAddr); ok {
					if al, ok := ia.X.(*ssa.Alloc); ok && !al.Heap || ok {
						continue // the variadic argument array of the append
					}
				}
				if _, ok := x.Addr.(*ssa.Alloc); ok {
					continue
				}
				return false, "", "the loop collecting the keys stores to memory (" + prog.pos(x.Pos()) + ")"
			case *ssa.MapUpdate:
				return false, "", "the loop collecting the keys updates a Go map"
			case *ssa.Call:
				if x == kc.app {
					continue
				}
				f := x.Call.StaticCallee()
				if f != nil && f.Pkg != nil && f.Pkg.Pkg.Path() == "reflect" && (f.Name() == "Next" || f.Name() == "Key" || f.Name() == "Value" || f.Name() == "String" || f.Name() == "Len") {
					continue
				}
				if b, ok := x.Call.Value.(*ssa.Builtin); ok && b.Name() == "len" {
					continue
				}
				return false, "", "the loop collecting the keys also calls " + callName(x.Common())
			}
		}
	}
	var sortCall *ssa.Call
	var others []ssa.Instruction
	if refs := kc.phi.Referrers(); refs != nil {
		for _, u := range *refs {
			if lb[u.Block()] {
				continue
			}
			if _, ok := u.(*ssa.DebugRef); ok {
				continue
			}
			// sort.Strings(ks) / sort.Slice(any(ks), less) / sort.Sort(sort.StringSlice(ks))
			if c := sortOf(u, kc.phi); c != nil {
				sortCall = c
				continue
			}
			others = append(others, u)
		}
	}
	if sortCall == nil {
		return false, "", "the keys collected from the map are used without being sorted"
	}
	name, _ := isSortCall(sortCall)
	switch {
	case kc.strings && (name == "sort.Strings" || name == "slices.Sort"):
		// plain strings: the sorted sequence of a multiset of strings is unique
	default:
		return false, "", "the collected keys are ordered by " + name + ", which is not known to give one result for every collection order"
	}
	after := func(blk *ssa.BasicBlock, at ssa.Instruction) bool {
		if blk == sortCall.Block() {
			seen := false
			for _, ins := range blk.Instrs {
				if ins == ssa.Instruction(sortCall) {
					seen = true
				}
				if ins == at {
					return seen
				}
			}
			return seen // `at` is the block's end (an outgoing edge)
		}
		return sortCall.Block().Dominates(blk)
	}
	for _, o := range others {
		if phi, ok := o.(*ssa.Phi); ok {
			// the value flows along the edges on which it is the operand: each such edge must come after the sort
			for i, e := range phi.Edges {
				if e == ssa.Value(kc.phi) && !after(phi.Block().Preds[i], nil) {
					return false, "", "the collected keys reach " + prog.pos(phi.Pos()) + " on a path that does not go through the sort"
				}
			}
			continue
		}
		if !after(o.Block(), o) {
			return false, "", "a use of the collected keys at " + prog.pos(o.Pos()) + " is not preceded by the sort"
		}
	}
	return true, "every key collected (one per entry), then sorted (" + name + ") before use", ""
}

// sortOf: u sorts the slice v (directly, or v wrapped in an interface / a sort adapter conversion).
func sortOf(u ssa.Instruction, v ssa.Value) *ssa.Call {
	switch x := u.(type) {
	case *ssa.Call:
		if _, ok := isSortCall(x); ok && len(x.Call.Args) >= 1 && x.Call.Args[0] == v {
			return x
		}
	case *ssa.MakeInterface:
		if refs := x.Referrers(); refs != nil && len(*refs) == 1 {
			if c, ok := (*refs)[0].(*ssa.Call); ok {
				if _, ok := isSortCall(c); ok && c.Call.Args[0] == ssa.Value(x) {
					return c
				}
			}
		}
	case *ssa.ChangeType:
		if refs := x.Referrers(); refs != nil && len(*refs) == 1 {
			if mi, ok := (*refs)[0].(*ssa.MakeInterface); ok {
				return sortOf(mi, x)
			}
		}
	}
	return nil
}
