package main

// The combinators of the parsing engine, judged against what each PEG operator means.
//
// C15/C16/C20 decide that the rule table is the grammar; the table means what the statement says only if the functions
// that interpret its nodes implement ordered choice, sequence with backtracking, the two predicates, the repetitions, the
// option, labels and actions. Each contract below is a statement about the paths of one combinator, with the recursive
// descent (parseExpr) left as an unknown that may succeed or fail: which sub-expressions are tried, in which order, what
// ends the loop, what is returned, and that the input position is put back to the savepoint taken on entry whenever the
// operator fails or must not consume. The contracts are about effects and results on paths, not about the spelling of
// the functions: helpers a combinator alone calls are interpreted in place.

import (
	"fmt"
	"go/constant"
	"go/token"
	"go/types"
	"strings"

	"golang.org/x/tools/go/ssa"
)

type pegEngine struct {
	prog                                                   *Program
	parseExpr, restore, read, pushV, popV, sliceFrom, fail *ssa.Function
	addErr, addErrAt                                       *ssa.Function
}

func newPegEngine(prog *Program) *pegEngine {
	m := func(n string) *ssa.Function { return prog.Method(prog.GrammarSSA, "parser", n, true) }
	return &pegEngine{prog: prog, parseExpr: m("parseExpr"), restore: m("restore"), read: m("read"), pushV: m("pushV"), popV: m("popV"),
		sliceFrom: m("sliceFrom"), fail: m("failAt"), addErr: m("addErr"), addErrAt: m("addErrAt")}
}

// combinator: the method of parser whose node parameter is *<nodeType>.
func (e *pegEngine) combinator(nodeType string) *ssa.Function {
	var found *ssa.Function
	for _, fn := range e.prog.ModuleFuncs() {
		if fn.Pkg != e.prog.GrammarSSA || fn.Signature.Recv() == nil || !namedIs(fn.Signature.Recv().Type(), grammarPath, "parser") || len(fn.Params) != 2 {
			continue
		}
		if !namedIs(fn.Params[1].Type(), grammarPath, nodeType) {
			continue
		}
		rs := fn.Signature.Results()
		if rs.Len() != 2 || !isBool(rs.At(1).Type()) {
			continue
		}
		if found == nil || strings.HasPrefix(fn.Name(), "parse") {
			found = fn
		}
	}
	return found
}

func (e *pegEngine) primitive(f *ssa.Function) bool {
	switch f {
	case e.parseExpr, e.restore, e.read, e.pushV, e.popV, e.sliceFrom, e.fail, e.addErr, e.addErrAt:
		return f != nil
	}
	return false
}

// run: the paths of a combinator; the engine's primitives stay calls, helpers that only this combinator can call are
// interpreted in place.
func (e *pegEngine) run(fn *ssa.Function, visits int) []*Summary {
	ps := NewPathSim(e.prog)
	ps.maxVisits = visits
	ps.MaxDepth = 3
	ps.NoTables = true
	within := map[*ssa.Function]bool{fn: true}
	ps.Inline = func(c *ssa.Function) bool {
		if e.primitive(c) || c.Pkg != e.prog.GrammarSSA || e.combinatorOf(c) || c == fn {
			return false
		}
		if within[c] {
			return true
		}
		// a helper of the engine (a predicate like "at the end of input", the push/parse/pop triple shared by the
		// repetitions, …): unexported, of package grammar, neither a primitive nor a combinator. The descent itself
		// (parseExpr) is a primitive and stays a call, so this cannot run away.
		if o := c.Object(); o != nil && o.Exported() {
			return false
		}
		within[c] = true
		return true
	}
	return ps.Run(fn)
}

type subCall struct {
	ev    *Event
	ok    bool // the outcome assumed on this path
	known bool
	val   *Sym
	okSym *Sym
}

// subCalls: the recursive descents made on the path, in order, with the outcome the path assumes for each.
func (e *pegEngine) subCalls(sm *Summary) []subCall {
	var out []subCall
	evs := sm.Events()
	for i := range evs {
		ev := &evs[i]
		if ev.Instr == nil || ev.Inlined || ev.Callee != e.parseExpr || ev.Res == nil {
			continue
		}
		okS := &Sym{K: sRes, A: ev.Res, Idx: 1}
		v, known := evalBool(sm.St, okS)
		out = append(out, subCall{ev: ev, ok: v, known: known, val: &Sym{K: sRes, A: ev.Res, Idx: 0}, okSym: okS})
	}
	return out
}

func eventIndex(sm *Summary, ev *Event) int {
	evs := sm.Events()
	for i := range evs {
		if &evs[i] == ev {
			return i
		}
	}
	return -1
}

// callsOf: the calls of primitive f on the path (indices into the event list).
func callsOf(sm *Summary, f *ssa.Function) []int {
	var out []int
	for i, ev := range sm.Events() {
		if ev.Instr != nil && !ev.Inlined && ev.Callee == f && f != nil {
			out = append(out, i)
		}
	}
	return out
}

// entrySavepoint: v is the parser's position as loaded on entry: a load of p.pt in the entry block that no call of a
// parser method precedes.
func entrySavepoint(fn *ssa.Function, v ssa.Value) bool {
	ld, ok := v.(*ssa.UnOp)
	if !ok || ld.Op != token.MUL || len(fn.Blocks) == 0 {
		return false
	}
	if al, isLocal := ld.X.(*ssa.Alloc); isLocal {
		// a local copy of the savepoint (`start := p.pt`), assigned once
		if sv := onlyStoreInto(al); sv != nil {
			return entrySavepoint(fn, sv)
		}
		return false
	}
	if ld.Block() != fn.Blocks[0] {
		return false
	}
	fa, ok := ld.X.(*ssa.FieldAddr)
	if !ok || fieldName(fa.X.Type(), fa.Field) != fPT || fa.X != ssa.Value(fn.Params[0]) {
		return false
	}
	for _, ins := range fn.Blocks[0].Instrs {
		if ins == ssa.Instruction(ld) {
			return true
		}
		if c, ok := ins.(ssa.CallInstruction); ok {
			if _, isB := c.Common().Value.(*ssa.Builtin); !isB {
				return false
			}
		}
	}
	return false
}

// restoredToEntry: after event index `after` the path calls restore with the savepoint taken on entry.
func (e *pegEngine) restoredToEntry(fn *ssa.Function, sm *Summary, after int) bool {
	for _, i := range callsOf(sm, e.restore) {
		if i <= after {
			continue
		}
		ev := sm.Events()[i]
		args := ev.Instr.Common().Args
		if len(args) == 2 && entrySavepoint(fn, args[1]) {
			return true
		}
	}
	return false
}

func nodeField(node *ssa.Parameter, f string) *Sym { return loadField(paramSym(node), f) }

func elemKey(list *Sym, i int) string {
	return (&Sym{K: sLoad, A: &Sym{K: sIndexAddr, A: list, B: &Sym{K: sConst, C: constantInt(int64(i))}}}).Key()
}

func trailOf(sm *Summary) string { return " [path " + strings.Join(sm.St.trail, " ") + "]" }

func boolResult(sm *Summary, s *Sym) (bool, bool) {
	if v, ok := s.BoolConst(); ok {
		return v, true
	}
	return evalBool(sm.St, s)
}

// valuesOf: the elements of a slice built on the path by appending single values to nil or to a slice made empty.
func valuesOf(sm *Summary, s *Sym) ([]*Sym, bool) {
	if s == nil {
		return nil, false
	}
	if s.K == sMkIface {
		s = s.A
	}
	if s.IsNil() {
		return nil, true
	}
	if s.K == sFresh && len(s.Kids) == 1 {
		if _, isMk := s.V.(*ssa.MakeSlice); isMk && !(s.Kids[0].K == sConst) {
			// made at its final length and filled slot by slot: vals[i] = v for i = 0, 1, …
			byIdx := map[int64]*Sym{}
			for _, ev := range sm.Events() {
				if ev.Store && ev.Args[0].K == sIndexAddr && ev.Args[0].A != nil && ev.Args[0].A.Key() == s.Key() {
					i := linearKeyValue(ev.Args[0].B.Key())
					if i < 0 {
						return nil, false
					}
					byIdx[i] = ev.Args[1]
				}
			}
			var out []*Sym
			for i := int64(0); i < int64(len(byIdx)); i++ {
				v, ok := byIdx[i]
				if !ok {
					return nil, false
				}
				out = append(out, v)
			}
			return out, true
		}
	}
	base, parts := appendChain(sm.St, s)
	if base == nil {
		return nil, false
	}
	if !base.IsNil() {
		if !(base.K == sFresh && len(base.Kids) == 1 && base.Kids[0].K == sConst && base.Kids[0].C != nil && base.Kids[0].C.ExactString() == "0") {
			return nil, false
		}
	}
	if len(parts) == 0 && base.IsNil() {
		return nil, true
	}
	els := flattenAppended(sm.St, parts, 0)
	for _, x := range els {
		if x == nil {
			return nil, false
		}
	}
	return els, true
}

func sameValue(a, b *Sym) bool {
	if a == nil || b == nil {
		return false
	}
	if a.K == sMkIface {
		a = a.A
	}
	if b.K == sMkIface {
		b = b.A
	}
	return a.Key() == b.Key()
}

func checkPegCombinators(r *Run, prog *Program, pfx string) {
	if prog.SSA == nil || prog.GrammarSSA == nil {
		return
	}
	e := newPegEngine(prog)
	if e.parseExpr == nil || e.restore == nil || e.read == nil || e.sliceFrom == nil {
		r.Fail("unresolved-anchor", pfx+".peg", "engine", "grammar/grammar.go", "parseExpr / restore / read / sliceFrom not found")
		return
	}
	rule := pfx + ".peg"
	r.Floor(rule, 12)
	report := func(name string, fn *ssa.Function, probs []string, n int) {
		pos := "grammar/grammar.go"
		if fn != nil {
			pos = prog.pos(fn.Pos())
		}
		if fn == nil {
			r.Fail("unresolved-anchor", rule, name, pos, "no method of parser interprets nodes of this type")
			return
		}
		r.Analysed(fn.String())
		if n == 0 {
			probs = append(probs, "no path of the combinator could be followed")
		}
		r.Check(rule, name, pos, len(probs) == 0, strings.Join(uniq(probs), "; "))
	}

	// --- sequence: e1 e2 … en — in order, all or nothing
	if fn := e.combinator("seqExpr"); fn != nil {
		var probs []string
		n, full := 0, 0
		list := nodeField(fn.Params[1], "exprs")
		lenKey := (&Sym{K: sLen, A: list}).Key()
		for _, sm := range e.run(fn, 3) {
			if sm.Ret == nil || len(sm.Results) != 2 {
				continue
			}
			n++
			calls := e.subCalls(sm)
			for i, c := range calls {
				if len(c.ev.Args) < 2 || c.ev.Args[1].Key() != elemKey(list, i) {
					probs = append(probs, fmt.Sprintf("the %d. sub-expression parsed is %s, not element %d of the sequence", i+1, shortKey(c.ev.Args[1]), i)+trailOf(sm))
				}
				if i < len(calls)-1 && !(c.known && c.ok) {
					probs = append(probs, "the sequence goes on after an element that did not match"+trailOf(sm))
				}
			}
			okR, okKnown := boolResult(sm, sm.Results[1])
			failed := len(calls) > 0 && calls[len(calls)-1].known && !calls[len(calls)-1].ok
			switch {
			case failed:
				if !okKnown || okR {
					probs = append(probs, "an element failed but the sequence reports a match"+trailOf(sm))
				}
				if !e.restoredToEntry(fn, sm, eventIndex(sm, calls[len(calls)-1].ev)) {
					probs = append(probs, "an element failed but the input position is not put back to where the sequence started (the next alternative would start in the middle)"+trailOf(sm))
				}
				if !sm.Results[0].IsNil() {
					probs = append(probs, "a failed sequence returns a value"+trailOf(sm))
				}
			default:
				if len(calls) > 0 && !(calls[len(calls)-1].known && calls[len(calls)-1].ok) {
					probs = append(probs, "the outcome of the last element is not looked at"+trailOf(sm))
				}
				if !exitFact(sm.St, int64(len(calls)), lenKey) {
					probs = append(probs, fmt.Sprintf("the sequence ends after %d elements without `%d < len(exprs)` being false: elements are skipped", len(calls), len(calls))+trailOf(sm))
				}
				if !okKnown || !okR {
					probs = append(probs, "every element matched but the sequence reports no match"+trailOf(sm))
				}
				vals, okV := valuesOf(sm, sm.Results[0])
				if !okV || len(vals) != len(calls) {
					probs = append(probs, fmt.Sprintf("the value of a sequence must be the list of its elements' values (%d elements, value %s)", len(calls), shortKey(sm.Results[0]))+trailOf(sm))
				} else {
					for i := range vals {
						if !sameValue(vals[i], calls[i].val) {
							probs = append(probs, fmt.Sprintf("value %d of the sequence is not the value of element %d", i, i)+trailOf(sm))
						}
					}
				}
				if len(calls) >= 2 {
					full++
				}
			}
		}
		if full == 0 {
			probs = append(probs, "no path on which two elements in a row match")
		}
		if skip := e.matchNotCollected(fn); skip != "" {
			probs = append(probs, skip)
		}
		report("sequence", fn, probs, n)
	} else {
		report("sequence", nil, nil, 0)
	}

	// --- ordered choice: e1 / e2 / … — the first alternative that matches, in order
	if fn := e.combinator("choiceExpr"); fn != nil {
		var probs []string
		n := 0
		list := nodeField(fn.Params[1], "alternatives")
		lenKey := (&Sym{K: sLen, A: list}).Key()
		for _, sm := range e.run(fn, 3) {
			if sm.Ret == nil || len(sm.Results) != 2 {
				continue
			}
			n++
			calls := e.subCalls(sm)
			for i, c := range calls {
				if len(c.ev.Args) < 2 || c.ev.Args[1].Key() != elemKey(list, i) {
					probs = append(probs, fmt.Sprintf("the %d. alternative tried is %s, not alternative %d", i+1, shortKey(c.ev.Args[1]), i)+trailOf(sm))
				}
				if i < len(calls)-1 && !(c.known && !c.ok) {
					probs = append(probs, "another alternative is tried after one that matched (or whose outcome is not looked at)"+trailOf(sm))
				}
			}
			okR, okKnown := boolResult(sm, sm.Results[1])
			if len(calls) > 0 && calls[len(calls)-1].known && calls[len(calls)-1].ok {
				last := calls[len(calls)-1]
				if !okKnown || !okR || !sameValue(sm.Results[0], last.val) {
					probs = append(probs, "an alternative matched but the choice does not return (its value, true)"+trailOf(sm))
				}
			} else {
				if len(calls) > 0 && !calls[len(calls)-1].known {
					probs = append(probs, "the outcome of an alternative is not looked at"+trailOf(sm))
				}
				if !exitFact(sm.St, int64(len(calls)), lenKey) {
					probs = append(probs, fmt.Sprintf("the choice gives up after %d alternatives without `%d < len(alternatives)` being false", len(calls), len(calls))+trailOf(sm))
				}
				if !okKnown || okR || !sm.Results[0].IsNil() {
					probs = append(probs, "no alternative matched but the choice does not return (nil, false)"+trailOf(sm))
				}
			}
		}
		report("ordered-choice", fn, probs, n)
	} else {
		report("ordered-choice", nil, nil, 0)
	}

	// --- predicates &e and !e: one look ahead, nothing consumed, no value
	for _, pr := range []struct {
		node, name string
		negate     bool
	}{{"andExpr", "and-predicate", false}, {"notExpr", "not-predicate", true}} {
		fn := e.combinator(pr.node)
		if fn == nil {
			report(pr.name, nil, nil, 0)
			continue
		}
		var probs []string
		n := 0
		for _, sm := range e.run(fn, 2) {
			if sm.Ret == nil || len(sm.Results) != 2 {
				continue
			}
			n++
			calls := e.subCalls(sm)
			if len(calls) != 1 || len(calls[0].ev.Args) < 2 || calls[0].ev.Args[1].Key() != nodeField(fn.Params[1], "expr").Key() {
				probs = append(probs, fmt.Sprintf("the predicate must look ahead with its own expression exactly once (%d descents)", len(calls))+trailOf(sm))
				continue
			}
			if !e.restoredToEntry(fn, sm, eventIndex(sm, calls[0].ev)) {
				probs = append(probs, "the predicate does not put the input position back to where it started: it consumes input"+trailOf(sm))
			}
			if !sm.Results[0].IsNil() {
				probs = append(probs, "a predicate yields a value"+trailOf(sm))
			}
			want := calls[0].okSym.Key()
			got := sm.Results[1]
			okShape := false
			if pr.negate {
				okShape = got.K == sNot && got.A != nil && got.A.Key() == want
				if v, known := boolResult(sm, got); known && calls[0].known {
					okShape = v == !calls[0].ok
				}
			} else {
				okShape = got.Key() == want
				if v, known := boolResult(sm, got); known && calls[0].known {
					okShape = v == calls[0].ok
				}
			}
			if !okShape {
				probs = append(probs, "the predicate's outcome is "+shortKey(got)+", not "+map[bool]string{false: "that", true: "the negation"}[pr.negate]+" of its expression's"+trailOf(sm))
			}
			// the value stack frame opened for the look-ahead is closed again
			if len(callsOf(sm, e.pushV)) != len(callsOf(sm, e.popV)) {
				probs = append(probs, "the frame of labels opened for the look-ahead is not closed: labels leak"+trailOf(sm))
			}
		}
		report(pr.name, fn, probs, n)
	}

	// --- repetitions e* and e+, option e?
	for _, rp := range []struct {
		node, name string
		min        int
	}{{"zeroOrMoreExpr", "zero-or-more", 0}, {"oneOrMoreExpr", "one-or-more", 1}} {
		fn := e.combinator(rp.node)
		if fn == nil {
			report(rp.name, nil, nil, 0)
			continue
		}
		var probs []string
		n, many := 0, 0
		for _, sm := range e.run(fn, 3) {
			if sm.Ret == nil || len(sm.Results) != 2 {
				continue
			}
			n++
			calls := e.subCalls(sm)
			if len(calls) == 0 {
				probs = append(probs, "the repetition returns without trying its expression"+trailOf(sm))
				continue
			}
			for i, c := range calls {
				if len(c.ev.Args) < 2 || c.ev.Args[1].Key() != nodeField(fn.Params[1], "expr").Key() {
					probs = append(probs, "the repetition parses something other than its own expression"+trailOf(sm))
				}
				if i < len(calls)-1 && !(c.known && c.ok) {
					probs = append(probs, "the repetition goes on after a failed attempt"+trailOf(sm))
				}
			}
			last := calls[len(calls)-1]
			if !(last.known && !last.ok) {
				probs = append(probs, "the repetition stops although its expression still matches"+trailOf(sm))
				continue
			}
			matches := len(calls) - 1
			okR, okKnown := boolResult(sm, sm.Results[1])
			if matches < rp.min {
				if !okKnown || okR || !sm.Results[0].IsNil() {
					probs = append(probs, "no match at all must give (nil, false)"+trailOf(sm))
				}
				continue
			}
			if !okKnown || !okR {
				probs = append(probs, fmt.Sprintf("%d matches but the repetition reports no match", matches)+trailOf(sm))
			}
			vals, okV := valuesOf(sm, sm.Results[0])
			if !okV || len(vals) != matches {
				probs = append(probs, fmt.Sprintf("the value of a repetition must be the list of the %d matched values; got %s", matches, shortKey(sm.Results[0]))+trailOf(sm))
			} else {
				for i := range vals {
					if !sameValue(vals[i], calls[i].val) {
						probs = append(probs, fmt.Sprintf("value %d of the repetition is not the value of match %d", i, i)+trailOf(sm))
					}
				}
			}
			if matches >= 2 {
				many++
			}
		}
		if many == 0 {
			probs = append(probs, "no path with two matches in a row")
		}
		if skip := e.matchNotCollected(fn); skip != "" {
			probs = append(probs, skip)
		}
		report(rp.name, fn, probs, n)
	}
	if fn := e.combinator("zeroOrOneExpr"); fn != nil {
		var probs []string
		n := 0
		for _, sm := range e.run(fn, 2) {
			if sm.Ret == nil || len(sm.Results) != 2 {
				continue
			}
			n++
			calls := e.subCalls(sm)
			if len(calls) != 1 || calls[0].ev.Args[1].Key() != nodeField(fn.Params[1], "expr").Key() {
				probs = append(probs, "the option must try its own expression exactly once"+trailOf(sm))
				continue
			}
			okR, okKnown := boolResult(sm, sm.Results[1])
			if !okKnown || !okR {
				probs = append(probs, "an option always matches"+trailOf(sm))
			}
			if !sameValue(sm.Results[0], calls[0].val) {
				probs = append(probs, "the value of an option is the value of its expression (nil when it did not match); got "+shortKey(sm.Results[0])+trailOf(sm))
			}
		}
		report("option", fn, probs, n)
	} else {
		report("option", nil, nil, 0)
	}

	// --- label: name:e — the value is stored under the name in the frame of the enclosing sequence, iff e matched
	if fn := e.combinator("labeledExpr"); fn != nil {
		var probs []string
		n, stored := 0, 0
		for _, sm := range e.run(fn, 2) {
			if sm.Ret == nil || len(sm.Results) != 2 {
				continue
			}
			n++
			calls := e.subCalls(sm)
			if len(calls) != 1 || calls[0].ev.Args[1].Key() != nodeField(fn.Params[1], "expr").Key() {
				probs = append(probs, "a labelled expression must parse its own expression exactly once"+trailOf(sm))
				continue
			}
			c := calls[0]
			if !sameValue(sm.Results[0], c.val) || sm.Results[1].Key() != c.okSym.Key() {
				if v, known := boolResult(sm, sm.Results[1]); !(known && c.known && v == c.ok && sameValue(sm.Results[0], c.val)) {
					probs = append(probs, "a labelled expression returns exactly what its expression returns"+trailOf(sm))
				}
			}
			var upd []Event
			ci := eventIndex(sm, c.ev)
			for i, ev := range sm.Events() {
				if ev.MapUpd != nil {
					upd = append(upd, ev)
					// after the frame opened for the expression itself was closed: the enclosing frame
					pops := callsOf(sm, e.popV)
					if len(pops) != len(callsOf(sm, e.pushV)) || (len(pops) > 0 && pops[len(pops)-1] > i) || i < ci {
						probs = append(probs, "the label is stored while the frame opened for its own expression is still on the stack (or before the expression is parsed)"+trailOf(sm))
					}
				}
			}
			labelKey := nodeField(fn.Params[1], "label").Key()
			emptyLabel, knownLabel := evalEq(sm.St, nodeField(fn.Params[1], "label"), &Sym{K: sConst, C: constantString("")})
			switch {
			case c.known && c.ok && knownLabel && !emptyLabel:
				if len(upd) != 1 || upd[0].Args[1].Key() != labelKey || !sameValue(upd[0].Args[2], c.val) {
					probs = append(probs, "a matched, named expression must store its value under its own label, once"+trailOf(sm))
				} else if !topFrame(upd[0].Args[0]) {
					probs = append(probs, "the label is not stored in the innermost open frame (the last element of the value stack): "+shortKey(upd[0].Args[0])+trailOf(sm))
				} else {
					stored++
				}
			default:
				if len(upd) != 0 {
					probs = append(probs, "a label is stored although the expression did not match or has no name"+trailOf(sm))
				}
			}
		}
		if stored == 0 {
			probs = append(probs, "no path stores a label")
		}
		report("label", fn, probs, n)
	} else {
		report("label", nil, nil, 0)
	}

	// --- action: e { code } — the code runs iff e matched, sees the matched text and its start, and supplies the value
	if fn := e.combinator("actionExpr"); fn != nil {
		var probs []string
		n, ran := 0, 0
		for _, sm := range e.run(fn, 2) {
			if sm.Ret == nil || len(sm.Results) != 2 {
				continue
			}
			n++
			calls := e.subCalls(sm)
			if len(calls) != 1 || calls[0].ev.Args[1].Key() != nodeField(fn.Params[1], "expr").Key() {
				probs = append(probs, "an action must parse its own expression exactly once"+trailOf(sm))
				continue
			}
			c := calls[0]
			var runs []int
			for i, ev := range sm.Events() {
				if ev.Instr != nil && !ev.Inlined && ev.Callee == nil && !ev.Instr.Common().IsInvoke() && ev.FnSym != nil && ev.FnSym.Key() == nodeField(fn.Params[1], "run").Key() {
					runs = append(runs, i)
				}
			}
			okR, okKnown := boolResult(sm, sm.Results[1])
			if !(c.known) || !okKnown || okR != c.ok {
				probs = append(probs, "an action matches iff its expression matches"+trailOf(sm))
				continue
			}
			if !c.ok {
				if len(runs) != 0 {
					probs = append(probs, "the action's code runs although its expression did not match"+trailOf(sm))
				}
				continue
			}
			if len(runs) != 1 {
				probs = append(probs, fmt.Sprintf("the action's code must run exactly once after a match (%d runs)", len(runs))+trailOf(sm))
				continue
			}
			ran++
			runEv := sm.Events()[runs[0]]
			if !sameValue(sm.Results[0], &Sym{K: sRes, A: runEv.Res, Idx: 0}) {
				probs = append(probs, "the value of an action is what its code returns; got "+shortKey(sm.Results[0])+trailOf(sm))
			}
			// before the code runs: cur.text = sliceFrom(entry savepoint), cur.pos = its position
			textOK, posOK := false, false
			for i, ev := range sm.Events() {
				if i > runs[0] {
					break
				}
				if ev.Store && ev.Args[0].K == sFieldAddr && ev.Args[0].Str == "text" {
					if f, _ := calleeOfSym(ev.Args[1]); f == e.sliceFrom {
						if se := eventOf(sm.St, ev.Args[1]); se != nil && se.Instr != nil && len(se.Instr.Common().Args) == 2 && fromEntrySavepoint(fn, se.Instr.Common().Args[1]) && eventIndex(sm, se) > eventIndex(sm, c.ev) {
							textOK = true
						}
					}
				}
				if ev.Store && ev.Args[0].K == sFieldAddr && ev.Args[0].Str == "pos" && ev.StoreI != nil {
					if fromEntrySavepoint(fn, ev.StoreI.Val) {
						posOK = true
					}
				}
			}
			if !textOK {
				probs = append(probs, "the code does not see the text matched by its expression (cur.text must be the input from the position on entry to the position after the match)"+trailOf(sm))
			}
			if !posOK {
				probs = append(probs, "the code does not see where its match started (cur.pos)"+trailOf(sm))
			}
			// an error of the code is recorded
			errS := &Sym{K: sRes, A: runEv.Res, Idx: 1}
			if isNil, known := evalEq(sm.St, errS, nilSym()); known && !isNil {
				rec := false
				for _, f := range []*ssa.Function{e.addErr, e.addErrAt} {
					for _, i := range callsOf(sm, f) {
						if i > runs[0] {
							for _, a := range sm.Events()[i].Args {
								if a.Key() == errS.Key() {
									rec = true
								}
							}
						}
					}
				}
				if !rec {
					probs = append(probs, "an error returned by the action's code is not recorded"+trailOf(sm))
				}
			} else if !known {
				probs = append(probs, "the error of the action's code is not looked at"+trailOf(sm))
			}
		}
		if ran == 0 {
			probs = append(probs, "no path runs the code")
		}
		report("action", fn, probs, n)
	} else {
		report("action", nil, nil, 0)
	}

	// --- code predicates &{…} and !{…}
	for _, pr := range []struct {
		node, name string
		negate     bool
	}{{"andCodeExpr", "and-code", false}, {"notCodeExpr", "not-code", true}} {
		fn := e.combinator(pr.node)
		if fn == nil {
			report(pr.name, nil, nil, 0)
			continue
		}
		var probs []string
		n := 0
		for _, sm := range e.run(fn, 2) {
			if sm.Ret == nil || len(sm.Results) != 2 {
				continue
			}
			n++
			var runs []Event
			for _, ev := range sm.Events() {
				if ev.Instr != nil && !ev.Inlined && ev.Callee == nil && !ev.Instr.Common().IsInvoke() && ev.FnSym != nil && ev.FnSym.Key() == nodeField(fn.Params[1], "run").Key() {
					runs = append(runs, ev)
				}
			}
			if len(runs) != 1 {
				probs = append(probs, "a code predicate runs its code exactly once"+trailOf(sm))
				continue
			}
			okS := &Sym{K: sRes, A: runs[0].Res, Idx: 0}
			got := sm.Results[1]
			good := got.Key() == okS.Key()
			if pr.negate {
				good = got.K == sNot && got.A != nil && got.A.Key() == okS.Key()
			}
			if v, known := boolResult(sm, got); known {
				if w, k2 := evalBool(sm.St, okS); k2 {
					good = v == (w != pr.negate)
				}
			}
			if !good || !sm.Results[0].IsNil() {
				probs = append(probs, "a code predicate returns (nil, "+map[bool]string{false: "", true: "not "}[pr.negate]+"what its code answers); got ("+shortKey(sm.Results[0])+", "+shortKey(got)+")"+trailOf(sm))
			}
			if len(callsOf(sm, e.read)) != 0 {
				probs = append(probs, "a code predicate consumes input"+trailOf(sm))
			}
		}
		report(pr.name, fn, probs, n)
	}

	// --- any character: fails only at the end of input, otherwise consumes exactly one character
	if fn := e.combinator("anyMatcher"); fn != nil {
		var probs []string
		n, both := 0, map[bool]bool{}
		for _, sm := range e.run(fn, 2) {
			if sm.Ret == nil || len(sm.Results) != 2 {
				continue
			}
			n++
			okR, okKnown := boolResult(sm, sm.Results[1])
			if !okKnown {
				probs = append(probs, "the outcome is not a constant of the path"+trailOf(sm))
				continue
			}
			both[okR] = true
			reads := callsOf(sm, e.read)
			atEOF, known := atEndOfInput(sm, fn)
			if okR {
				if len(reads) != 1 {
					probs = append(probs, fmt.Sprintf("a match of `.` consumes exactly one character (%d reads)", len(reads))+trailOf(sm))
				}
				if f, _ := calleeOfSym(unwrapIface(sm.Results[0])); f != e.sliceFrom {
					probs = append(probs, "the value of `.` is the text consumed"+trailOf(sm))
				}
				if known && atEOF {
					probs = append(probs, "`.` matches at the end of input"+trailOf(sm))
				}
			} else {
				if len(reads) != 0 || !sm.Results[0].IsNil() {
					probs = append(probs, "a failed `.` consumes input or yields a value"+trailOf(sm))
				}
				if !(known && atEOF) {
					probs = append(probs, "`.` fails although the end of input (rune RuneError of width 0) is not established"+trailOf(sm))
				}
			}
		}
		if !both[true] || !both[false] {
			probs = append(probs, "`.` must have a matching and a failing path")
		}
		report("any-character", fn, probs, n)
	} else {
		report("any-character", nil, nil, 0)
	}

	e.checkLiteral(r, rule, report)
	e.checkCharClass(r, rule, report)
	e.checkPositionPrimitives(r, rule, report)
}

// topFrame: m is p.vstack[len(p.vstack)-1].
func topFrame(m *Sym) bool {
	if m == nil || m.K != sLoad || m.A == nil || m.A.K != sIndexAddr {
		return false
	}
	list, idx := m.A.A, m.A.B
	if list == nil || idx == nil || !strings.HasSuffix(list.Key(), ".vstack)") {
		return false
	}
	return isLenMinusOneOf(idx, list)
}

func isLenMinusOneOf(idx, list *Sym) bool {
	if idx == nil || idx.K != sBin || idx.Op != token.SUB || idx.A == nil || idx.B == nil {
		return false
	}
	if idx.A.K != sLen || idx.A.A == nil || idx.A.A.Key() != list.Key() {
		return false
	}
	return idx.B.K == sConst && idx.B.C != nil && idx.B.C.ExactString() == "1"
}

// fromEntrySavepoint: v is (a field of) the savepoint loaded on entry.
func fromEntrySavepoint(fn *ssa.Function, v ssa.Value) bool {
	for i := 0; i < 4 && v != nil; i++ {
		if entrySavepoint(fn, v) {
			return true
		}
		switch x := v.(type) {
		case *ssa.Field:
			v = x.X
		case *ssa.UnOp:
			// load of a field address of a local copy of the savepoint
			if fa, ok := x.X.(*ssa.FieldAddr); ok {
				if al, ok := fa.X.(*ssa.Alloc); ok {
					v = onlyStoreInto(al)
					continue
				}
			}
			return false
		default:
			return false
		}
	}
	return false
}

func onlyStoreInto(al *ssa.Alloc) ssa.Value {
	var v ssa.Value
	n := 0
	if refs := al.Referrers(); refs != nil {
		for _, u := range *refs {
			if st, ok := u.(*ssa.Store); ok && st.Addr == ssa.Value(al) {
				n++
				v = st.Val
			}
		}
	}
	if n == 1 {
		return v
	}
	return nil
}

// atEndOfInput: on this path the current rune is known to be RuneError with width 0 (true), or one of the two is known
// not to hold (false).
func atEndOfInput(sm *Summary, fn *ssa.Function) (bool, bool) {
	p := paramSym(fn.Params[0])
	rn := loadField(p, fPT, fRN)
	w := loadField(p, fPT, fW)
	isErr, k1 := evalEq(sm.St, rn, &Sym{K: sConst, C: constantInt(0xFFFD)})
	isZero, k2 := evalEq(sm.St, w, &Sym{K: sConst, C: constantInt(0)})
	switch {
	case k1 && k2 && isErr && isZero:
		return true, true
	case (k1 && !isErr) || (k2 && !isZero):
		return false, true
	}
	return false, false
}

func (e *pegEngine) checkLiteral(r *Run, rule string, report func(string, *ssa.Function, []string, int)) {
	fn := e.combinator("litMatcher")
	if fn == nil {
		report("literal", nil, nil, 0)
		return
	}
	var probs []string
	n := 0
	sawOK, sawFail := false, false
	for _, sm := range e.run(fn, 3) {
		if sm.Ret == nil || len(sm.Results) != 2 {
			continue
		}
		n++
		okR, okKnown := boolResult(sm, sm.Results[1])
		if !okKnown {
			probs = append(probs, "the outcome of a literal is not a constant of the path"+trailOf(sm))
			continue
		}
		reads := callsOf(sm, e.read)
		// the comparisons made on the path: each reads the current rune (folded iff ignoreCase) against the next rune of val
		if okR {
			sawOK = true
			if f, _ := calleeOfSym(unwrapIface(sm.Results[0])); f != e.sliceFrom {
				probs = append(probs, "the value of a matched literal is the text consumed"+trailOf(sm))
			} else if se := eventOf(sm.St, unwrapIface(sm.Results[0])); se == nil || se.Instr == nil || !fromEntrySavepoint(fn, se.Instr.Common().Args[1]) {
				probs = append(probs, "the text of a matched literal does not start where the literal started"+trailOf(sm))
			}
			if len(callsOf(sm, e.restore)) != 0 {
				probs = append(probs, "a matched literal moves the input position back"+trailOf(sm))
			}
		} else {
			sawFail = true
			if !sm.Results[0].IsNil() {
				probs = append(probs, "a failed literal yields a value"+trailOf(sm))
			}
			if len(reads) > 0 && !e.restoredToEntry(fn, sm, reads[len(reads)-1]) {
				probs = append(probs, "a literal that fails after its first characters matched does not put the input position back"+trailOf(sm))
			}
		}
	}
	// one comparison per rune of the literal, against the current rune, lower-cased exactly when the literal ignores case
	cmpOK, folds := e.literalComparison(fn)
	if !cmpOK || !folds {
		// the same on the paths (the folding may be chosen once, as a function value, before the loop)
		cmpOK, folds = e.literalComparisonOnPaths(fn)
	}
	if !cmpOK {
		probs = append(probs, "the literal is not compared rune by rune with the current input rune (`cur != want` over the runes of val)")
	}
	if !folds {
		probs = append(probs, "the input rune is not lower-cased exactly when the literal is case-insensitive")
	}
	if !sawOK || !sawFail {
		probs = append(probs, "a literal must have a matching and a failing path")
	}
	report("literal", fn, probs, n)
}

// literalComparison: structurally — the loop ranges over lit.val; the rune compared is a phi of p.pt.rn and
// unicode.ToLower(p.pt.rn) selected by lit.ignoreCase; the comparison is != / == with the ranged rune.
func (e *pegEngine) literalComparison(fn *ssa.Function) (cmpOK, folds bool) {
	for _, b := range fn.Blocks {
		for _, ins := range b.Instrs {
			bo, ok := ins.(*ssa.BinOp)
			if !ok || (bo.Op != token.NEQ && bo.Op != token.EQL) {
				continue
			}
			for _, pair := range [][2]ssa.Value{{bo.X, bo.Y}, {bo.Y, bo.X}} {
				cur, want := pair[0], pair[1]
				ex, ok := want.(*ssa.Extract)
				if !ok || ex.Index != 2 {
					continue
				}
				nx, ok := ex.Tuple.(*ssa.Next)
				if !ok || !nx.IsString {
					continue
				}
				rg, ok := nx.Iter.(*ssa.Range)
				if !ok || !isLoadOfField(rg.X, fn.Params[1], "val") {
					continue
				}
				cmpOK = true
				// cur: phi(p.pt.rn, ToLower(p.pt.rn)) under lit.ignoreCase, or the same written with a select-free if
				if phi, ok := cur.(*ssa.Phi); ok && len(phi.Edges) == 2 {
					plain, lowered := false, false
					for _, ed := range phi.Edges {
						if isCurrentRune(ed, fn.Params[0]) {
							plain = true
						}
						if c, ok := ed.(*ssa.Call); ok {
							if f := c.Call.StaticCallee(); f != nil && f.Pkg != nil && f.Pkg.Pkg.Path() == "unicode" && f.Name() == "ToLower" && len(c.Call.Args) == 1 && isCurrentRune(c.Call.Args[0], fn.Params[0]) {
								lowered = true
							}
						}
					}
					if plain && lowered {
						// the branch that lower-cases is taken on ignoreCase
						for _, pb := range phi.Block().Preds {
							for _, pp := range append([]*ssa.BasicBlock{pb}, pb.Preds...) {
								if iff, ok := pp.Instrs[len(pp.Instrs)-1].(*ssa.If); ok && isLoadOfField(iff.Cond, fn.Params[1], "ignoreCase") {
									// true edge must lead to the ToLower call
									if len(pp.Succs) == 2 && pp.Succs[1] == phi.Block() {
										for _, ins2 := range pp.Succs[0].Instrs {
											if c, ok := ins2.(*ssa.Call); ok {
												if f := c.Call.StaticCallee(); f != nil && f.Name() == "ToLower" {
													folds = true
												}
											}
										}
									}
								}
							}
						}
					}
				}
			}
		}
	}
	return
}

func isLoadOfField(v ssa.Value, base *ssa.Parameter, field string) bool {
	ld, ok := v.(*ssa.UnOp)
	if !ok || ld.Op != token.MUL {
		return false
	}
	fa, ok := ld.X.(*ssa.FieldAddr)
	return ok && fa.X == ssa.Value(base) && fieldName(fa.X.Type(), fa.Field) == field
}

// isCurrentRune: v is a load of p.pt.rn.
func isCurrentRune(v ssa.Value, p *ssa.Parameter) bool {
	ld, ok := v.(*ssa.UnOp)
	if !ok || ld.Op != token.MUL {
		return false
	}
	fa, ok := ld.X.(*ssa.FieldAddr)
	if !ok || fieldName(fa.X.Type(), fa.Field) != fRN {
		return false
	}
	fa2, ok := fa.X.(*ssa.FieldAddr)
	return ok && fieldName(fa2.X.Type(), fa2.Field) == fPT && fa2.X == ssa.Value(p)
}

func (e *pegEngine) checkCharClass(r *Run, rule string, report func(string, *ssa.Function, []string, int)) {
	fn := e.combinator("charClassMatcher")
	if fn == nil {
		report("character-class", nil, nil, 0)
		return
	}
	var probs []string
	n := 0
	node := paramSym(fn.Params[1])
	inv := loadField(node, "inverted")
	seen := map[string]bool{}
	for _, sm := range e.run(fn, 2) {
		if sm.Ret == nil || len(sm.Results) != 2 {
			continue
		}
		n++
		okR, okKnown := boolResult(sm, sm.Results[1])
		if !okKnown {
			probs = append(probs, "the outcome of a character class is not a constant of the path"+trailOf(sm))
			continue
		}
		reads := callsOf(sm, e.read)
		if okR {
			if len(reads) != 1 {
				probs = append(probs, fmt.Sprintf("a matched class consumes exactly one character (%d reads)", len(reads))+trailOf(sm))
			}
			if f, _ := calleeOfSym(unwrapIface(sm.Results[0])); f != e.sliceFrom {
				probs = append(probs, "the value of a matched class is the character consumed"+trailOf(sm))
			}
		} else if len(reads) != 0 || !sm.Results[0].IsNil() {
			probs = append(probs, "a failed class consumes input or yields a value"+trailOf(sm))
		}
		if eof, known := atEndOfInput(sm, fn); known && eof {
			if okR {
				probs = append(probs, "a class matches at the end of input"+trailOf(sm))
			}
			seen["eof"] = true
			continue
		}
		// membership found on this path? (a comparison with a listed rune was true, a range enclosed the rune, or
		// unicode.Is answered true)
		member, decided := e.classMember(sm, fn)
		invV, invKnown := evalBool(sm.St, inv)
		if !decided {
			// a complete path (those cut by the loop bound never get here) that neither found the rune in one of the three
			// lists nor went through all of them: membership was decided by something else
			probs = append(probs, fmt.Sprintf("the class answers (match=%v) without having found the rune in its characters, ranges or Unicode classes and without having searched all three", okR)+trailOf(sm))
			continue
		}
		if !invKnown {
			probs = append(probs, fmt.Sprintf("the class decides (listed=%v → match=%v) without looking at whether it is inverted", member, okR)+trailOf(sm))
			continue
		}
		seen[fmt.Sprintf("member=%v,inverted=%v", member, invV)] = true
		if okR != (member != invV) {
			probs = append(probs, fmt.Sprintf("listed=%v, inverted=%v must give match=%v; the class reports %v", member, invV, member != invV, okR)+trailOf(sm))
		}
	}
	for _, k := range []string{"eof", "member=true,inverted=false", "member=true,inverted=true", "member=false,inverted=false", "member=false,inverted=true"} {
		if !seen[k] {
			probs = append(probs, "no path of the class for the case "+k)
		}
	}
	// the tests themselves: equality with a listed rune; lo <= r && r <= hi over pairs; unicode.Is on the classes; the
	// rune tested is the current rune, lower-cased exactly when the class ignores case
	probs = append(probs, e.classTests(fn)...)
	report("character-class", fn, probs, n)
}

// classMember: the path found the rune in one of the three lists (a membership test was true), or went through all
// three lists without (every loop left by its end test).
func (e *pegEngine) classMember(sm *Summary, fn *ssa.Function) (member, decided bool) {
	node := paramSym(fn.Params[1])
	for k, v := range sm.St.facts {
		if !v {
			continue
		}
		// rune == chars[i]
		if strings.HasPrefix(k, "cmp(==,") && strings.Contains(k, ".chars)") {
			return true, true
		}
	}
	for _, ev := range sm.Events() {
		if ev.Instr != nil && ev.Callee != nil && ev.Callee.Pkg != nil && ev.Callee.Pkg.Pkg.Path() == "unicode" && ev.Callee.Name() == "Is" && ev.Res != nil {
			if v, known := evalBool(sm.St, ev.Res); known && v {
				return true, true
			}
		}
	}
	// a range: both comparisons of one pair true
	lo, hi := false, false
	for k, v := range sm.St.facts {
		if strings.Contains(k, ".ranges)") {
			if (strings.HasPrefix(k, "cmp(>=,") && v) || (strings.HasPrefix(k, "cmp(<,") && !v && !strings.Contains(k, "len(")) {
				lo = true
			}
			if (strings.HasPrefix(k, "cmp(<=,") && v) || (strings.HasPrefix(k, "cmp(>,") && !v) {
				hi = true
			}
		}
	}
	if lo && hi {
		// conservative: decide by the shape of the return instead — a return inside the range loop
		return true, true
	}
	// not found: all three loops exhausted
	all := 0
	for _, f := range []string{"chars", "ranges", "classes"} {
		lenKey := (&Sym{K: sLen, A: loadField(node, f)}).Key()
		for k, v := range sm.St.facts {
			if !v && strings.HasPrefix(k, "cmp(<,") && strings.HasSuffix(k, ","+lenKey+")") {
				all++
				break
			}
		}
	}
	if all == 3 {
		return false, true
	}
	return false, false
}

// classTests: structural obligations on the membership tests.
func (e *pegEngine) classTests(top *ssa.Function) []string {
	var probs []string
	eq, ge, le, is := 0, 0, 0, 0
	step2 := false
	// the combinator and the helpers it calls (a `matches(rune)` the three membership loops were moved into)
	fns := []*ssa.Function{top}
	seenF := map[*ssa.Function]bool{top: true}
	for i := 0; i < len(fns) && i < 8; i++ {
		for _, b := range fns[i].Blocks {
			for _, ins := range b.Instrs {
				if c, ok := ins.(*ssa.Call); ok {
					if g := c.Call.StaticCallee(); g != nil && !seenF[g] && g.Pkg == e.prog.GrammarSSA && !e.primitive(g) && !e.combinatorOf(g) && len(g.Blocks) > 0 {
						seenF[g] = true
						fns = append(fns, g)
					}
				}
			}
		}
	}
	for _, fn := range fns {
		nodeParam := fn.Params[len(fn.Params)-1]
		if fn == top {
			nodeParam = fn.Params[1]
		} else {
			for _, p := range fn.Params {
				if pt, ok := p.Type().Underlying().(*types.Pointer); ok && namedIs(pt.Elem(), grammarPath, "charClassMatcher") {
					nodeParam = p
				}
			}
		}
		for _, b := range fn.Blocks {
			for _, ins := range b.Instrs {
				switch x := ins.(type) {
				case *ssa.BinOp:
					elem := func(v ssa.Value, field string) (*ssa.IndexAddr, bool) {
						ld, ok := v.(*ssa.UnOp)
						if !ok {
							return nil, false
						}
						ia, ok := ld.X.(*ssa.IndexAddr)
						if !ok || !isLoadOfField(ia.X, nodeParam, field) {
							return nil, false
						}
						return ia, true
					}
					switch x.Op {
					case token.EQL:
						if _, ok := elem(x.X, "chars"); ok {
							eq++
						} else if _, ok := elem(x.Y, "chars"); ok {
							eq++
						} else if ex, ok := x.X.(*ssa.Extract); ok && ex.Index == 2 {
							eq++ // ranged over chars
						} else if ex, ok := x.Y.(*ssa.Extract); ok && ex.Index == 2 {
							eq++
						}
					case token.GEQ:
						if ia, ok := elem(x.Y, "ranges"); ok {
							ge++
							if phi, ok := ia.Index.(*ssa.Phi); ok {
								for _, ed := range phi.Edges {
									if add, ok := ed.(*ssa.BinOp); ok && add.Op == token.ADD {
										if c, ok := add.Y.(*ssa.Const); ok && c.Value != nil && c.Value.ExactString() == "2" {
											step2 = true
										}
									}
								}
							}
						}
					case token.LEQ:
						if ia, ok := elem(x.Y, "ranges"); ok {
							if add, ok := ia.Index.(*ssa.BinOp); ok && add.Op == token.ADD {
								if c, ok := add.Y.(*ssa.Const); ok && c.Value != nil && c.Value.ExactString() == "1" {
									le++
								}
							}
						}
					}
				case *ssa.Call:
					if f := x.Call.StaticCallee(); f != nil && f.Pkg != nil && f.Pkg.Pkg.Path() == "unicode" && f.Name() == "Is" {
						is++
					}
				}
			}
		}
	}
	if eq == 0 {
		probs = append(probs, "the listed characters are not tested by equality with the rune")
	}
	if ge != 1 || le != 1 || !step2 {
		probs = append(probs, "the ranges are not tested as `lo <= r && r <= hi` over the pairs (ranges[i], ranges[i+1]), i stepping by 2")
	}
	if is != 1 {
		probs = append(probs, "the Unicode classes are not tested with unicode.Is")
	}
	return probs
}

func (e *pegEngine) checkPositionPrimitives(r *Run, rule string, report func(string, *ssa.Function, []string, int)) {
	prog := e.prog
	// restore(pt): afterwards the position is pt (a no-op only when the offsets are equal)
	{
		fn := e.restore
		var probs []string
		n := 0
		ps := NewPathSim(prog)
		p, pt := paramSym(fn.Params[0]), paramSym(fn.Params[1])
		for _, sm := range ps.Run(fn) {
			if sm.Ret == nil {
				continue
			}
			n++
			stored := false
			for _, ev := range sm.Events() {
				if ev.Store {
					if ev.Args[0].K == sFieldAddr && ev.Args[0].Str == fPT && ev.Args[0].A != nil && ev.Args[0].A.Key() == p.Key() && ev.Args[1].Key() == pt.Key() {
						stored = true
					} else {
						probs = append(probs, "restore writes "+shortKey(ev.Args[0])+trailOf(sm))
					}
				}
			}
			if !stored {
				// allowed only when the offsets are known to be equal
				a := &Sym{K: sField, A: &Sym{K: sField, A: pt, Str: "position"}, Str: "offset"}
				b := loadField(p, fPT, "position", "offset")
				if eq, known := evalEq(sm.St, a, b); !(known && eq) {
					probs = append(probs, "restore leaves the position as it is although it is not known to equal the savepoint's"+trailOf(sm))
				}
			}
		}
		report("restore", fn, probs, n)
	}
	// sliceFrom(start) = data[start.offset : current offset]
	{
		fn := e.sliceFrom
		var probs []string
		n := 0
		ps := NewPathSim(prog)
		p, st := paramSym(fn.Params[0]), paramSym(fn.Params[1])
		for _, sm := range ps.Run(fn) {
			if sm.Ret == nil || len(sm.Results) != 1 {
				continue
			}
			n++
			res := sm.Results[0]
			lo := (&Sym{K: sField, A: &Sym{K: sField, A: st, Str: "position"}, Str: "offset"}).Key()
			if namedIs(fn.Params[1].Type(), grammarPath, "position") {
				lo = (&Sym{K: sField, A: st, Str: "offset"}).Key() // handed the position itself
			}
			hi := loadField(p, fPT, "position", "offset").Key()
			if !(res.K == sSlice && res.A != nil && res.A.Key() == loadField(p, fDATA).Key() && res.Str == lo+":"+hi) {
				probs = append(probs, "sliceFrom must return data[start.offset : current offset]; got "+shortKey(res)+trailOf(sm))
			}
		}
		report("slice-from", fn, probs, n)
	}
	// read: the offset advances by the width of the current rune, the next rune is decoded at the new offset
	{
		fn := e.read
		var probs []string
		n := 0
		ps := NewPathSim(prog)
		ps.NoTables = true
		p := paramSym(fn.Params[0])
		for _, sm := range ps.Run(fn) {
			if sm.Ret == nil {
				continue
			}
			n++
			var offStore, rnStore, wStore *Event
			var dec *Event
			evs := sm.Events()
			for i := range evs {
				ev := &evs[i]
				if ev.Store && ev.Args[0].K == sFieldAddr {
					switch ev.Args[0].Str {
					case "offset":
						if offStore == nil {
							offStore = ev
						}
					case fRN:
						rnStore = ev
					case fW:
						wStore = ev
					}
				}
				if ev.Instr != nil && isCallTo(ev.Callee, "unicode/utf8", "DecodeRune") {
					dec = ev
				}
			}
			off := loadField(p, fPT, "position", "offset")
			w := loadField(p, fPT, fW)
			wantOff := (&Sym{K: sBin, Op: token.ADD, A: off, B: w}).Key()
			if offStore == nil || offStore.Args[1].Key() != wantOff {
				got := "nothing"
				if offStore != nil {
					got = shortKey(offStore.Args[1])
				}
				probs = append(probs, "read must advance the offset by the width of the current rune (offset += w); it stores "+got+trailOf(sm))
			}
			if dec == nil {
				probs = append(probs, "read does not decode the next rune with utf8.DecodeRune"+trailOf(sm))
				continue
			}
			if a := dec.Args[0]; !(a.K == sSlice && a.A != nil && a.A.Key() == loadField(p, fDATA).Key() && strings.HasSuffix(a.Str, ":") && strings.Contains(a.Str, "offset")) {
				probs = append(probs, "the next rune is not decoded from data[offset:]: "+shortKey(a)+trailOf(sm))
			}
			if rnStore == nil || rnStore.Args[1].Key() != (&Sym{K: sRes, A: dec.Res, Idx: 0}).Key() {
				probs = append(probs, "the current rune is not set to the rune decoded"+trailOf(sm))
			}
			if wStore == nil || wStore.Args[1].Key() != (&Sym{K: sRes, A: dec.Res, Idx: 1}).Key() {
				probs = append(probs, "the current width is not set to the width decoded"+trailOf(sm))
			}
		}
		report("read", fn, probs, n)
	}
	// the frames of labels: pushV opens an empty frame on top of the stack, popV removes the top frame
	if fn := e.pushV; fn != nil {
		var probs []string
		n := 0
		ps := NewPathSim(prog)
		p := paramSym(fn.Params[0])
		vs := loadField(p, "vstack")
		for _, sm := range ps.Run(fn) {
			if sm.Ret == nil {
				continue
			}
			n++
			grown, fresh := false, false
			for _, ev := range sm.Events() {
				if !ev.Store {
					continue
				}
				if ev.Args[0].K == sFieldAddr && ev.Args[0].Str == "vstack" {
					v := ev.Args[1]
					switch {
					case v.K == sSlice && v.A != nil && v.A.Key() == vs.Key() && strings.HasPrefix(v.Str, ":bin(+,len("):
						grown = true // vstack[:len+1]
					case v.K == sCall:
						if base, parts := appendChain(sm.St, v); base != nil && base.Key() == vs.Key() && len(parts) == 1 {
							grown = true // append(vstack, nil)
						}
					}
				}
				if ev.Args[0].K == sIndexAddr && ev.Args[1].K == sFresh {
					if _, isMk := ev.Args[1].V.(*ssa.MakeMap); isMk {
						fresh = true // top = make(map…)
					}
				}
			}
			if !grown {
				probs = append(probs, "pushV does not grow the stack of frames by one"+trailOf(sm))
			}
			if !fresh {
				// the frame found there is reused: only when it is known to be an empty, non-nil map
				okReuse := false
				for k, v := range sm.St.facts {
					if strings.HasPrefix(k, "cmp(==,len(") && strings.Contains(k, "vstack") && strings.HasSuffix(k, ",const(0))") && v {
						okReuse = true
					}
				}
				for k, c := range sm.St.eqc {
					if strings.HasPrefix(k, "len(") && strings.Contains(k, "vstack") && c == "const(0)" {
						okReuse = true
					}
				}
				if !okReuse {
					probs = append(probs, "pushV leaves a frame on top that is not known to be empty: labels of an abandoned alternative would be visible"+trailOf(sm))
				}
			}
		}
		report("push-frame", fn, probs, n)
	}
	if fn := e.popV; fn != nil {
		var probs []string
		n := 0
		ps := NewPathSim(prog)
		p := paramSym(fn.Params[0])
		vs := loadField(p, "vstack")
		for _, sm := range ps.Run(fn) {
			if sm.Ret == nil {
				continue
			}
			n++
			shrunk := false
			for _, ev := range sm.Events() {
				if ev.Store && ev.Args[0].K == sFieldAddr && ev.Args[0].Str == "vstack" {
					v := ev.Args[1]
					if v.K == sSlice && v.A != nil && v.A.Key() == vs.Key() && strings.HasPrefix(v.Str, ":bin(-,len(") && strings.HasSuffix(v.Str, ",const(1))") {
						shrunk = true
					}
				}
			}
			if !shrunk {
				probs = append(probs, "popV does not remove exactly the top frame (vstack[:len-1])"+trailOf(sm))
			}
		}
		report("pop-frame", fn, probs, n)
	}
	_ = types.Typ
}

func constantInt(v int64) constant.Value     { return constant.MakeInt64(v) }
func constantString(s string) constant.Value { return constant.MakeString(s) }

func unwrapIface(s *Sym) *Sym {
	if s != nil && s.K == sMkIface && s.A != nil {
		return s.A
	}
	return s
}

// combinatorOf: f interprets table nodes of some type (a method of parser with a node parameter and an (any, bool) result).
func (e *pegEngine) combinatorOf(f *ssa.Function) bool {
	if f.Signature.Recv() == nil || !namedIs(f.Signature.Recv().Type(), grammarPath, "parser") || len(f.Params) != 2 {
		return false
	}
	rs := f.Signature.Results()
	if rs.Len() != 2 || !isBool(rs.At(1).Type()) {
		return false
	}
	pt, ok := f.Params[1].Type().Underlying().(*types.Pointer)
	if !ok {
		return false
	}
	nt, ok := pt.Elem().(*types.Named)
	return ok && nt.Obj().Pkg() == e.prog.Grammar.Types
}

// matchNotCollected: in the loop of a repetition or a sequence every match is added to the list of values — whatever the
// number of matches so far (the paths followed above see three iterations only). Decided on the control-flow graph: from
// the edge taken when the sub-expression matched there is no way back to the next descent that avoids the append.
func (e *pegEngine) matchNotCollected(fn *ssa.Function) string {
	for _, b := range fn.Blocks {
		for _, ins := range b.Instrs {
			c, ok := ins.(*ssa.Call)
			if !ok || c.Call.StaticCallee() != e.parseExpr {
				continue
			}
			callBlk := b
			// the test of its outcome
			var okVal ssa.Value
			if refs := c.Referrers(); refs != nil {
				for _, u := range *refs {
					if ex, isEx := u.(*ssa.Extract); isEx && ex.Index == 1 {
						okVal = ex
					}
				}
			}
			if okVal == nil {
				continue
			}
			var matched *ssa.BasicBlock
			for _, b2 := range fn.Blocks {
				iff, isIf := b2.Instrs[len(b2.Instrs)-1].(*ssa.If)
				if !isIf {
					continue
				}
				switch cond := iff.Cond.(type) {
				case *ssa.Extract:
					if ssa.Value(cond) == okVal {
						matched = b2.Succs[0]
					}
				case *ssa.UnOp:
					if cond.Op == token.NOT && cond.X == okVal {
						matched = b2.Succs[1]
					}
				}
			}
			if matched == nil {
				continue
			}
			hasAppend := func(blk *ssa.BasicBlock) bool {
				for _, i2 := range blk.Instrs {
					if c2, ok := i2.(*ssa.Call); ok {
						if bi, isB := c2.Call.Value.(*ssa.Builtin); isB && bi.Name() == "append" {
							return true
						}
					}
					// or the value is put into its slot of a list made at full length: vals[i] = val
					if st, ok := i2.(*ssa.Store); ok {
						if ia, isIA := st.Addr.(*ssa.IndexAddr); isIA {
							if _, isMk := ia.X.(*ssa.MakeSlice); isMk {
								return true
							}
						}
					}
				}
				return false
			}
			seen := map[*ssa.BasicBlock]bool{}
			var dfs func(blk *ssa.BasicBlock) bool
			dfs = func(blk *ssa.BasicBlock) bool {
				if seen[blk] {
					return false
				}
				seen[blk] = true
				if hasAppend(blk) {
					return false
				}
				if blk == callBlk {
					return true
				}
				for _, sc := range blk.Succs {
					if dfs(sc) {
						return true
					}
				}
				return false
			}
			if dfs(matched) {
				return "after a match the loop can go on to the next attempt without adding the value to the list (a match is dropped depending on how many there were)"
			}
		}
	}
	return ""
}

// literalComparisonOnPaths: every comparison with a rune of the literal's text compares the current input rune — as it is
// on the paths where ignoreCase is false, through unicode.ToLower on the paths where it is true.
func (e *pegEngine) literalComparisonOnPaths(fn *ssa.Function) (cmpOK, folds bool) {
	ps := NewPathSim(e.prog)
	ps.maxVisits = 2
	ps.NoTables = true
	ps.Inline = func(c *ssa.Function) bool {
		return c.Pkg == e.prog.GrammarSSA && !e.primitive(c) && !e.combinatorOf(c) && c != fn
	}
	p := paramSym(fn.Params[0])
	rn := loadField(p, fPT, fRN).Key()
	ic := loadField(paramSym(fn.Params[1]), "ignoreCase")
	plainSeen, lowerSeen, bad := false, false, false
	ps.OnInstr = func(f *ssa.Function, st *pstate, ins ssa.Instruction) {
		bo, ok := ins.(*ssa.BinOp)
		if !ok || (bo.Op != token.NEQ && bo.Op != token.EQL) {
			return
		}
		for _, pair := range [][2]ssa.Value{{bo.X, bo.Y}, {bo.Y, bo.X}} {
			ex, ok := pair[1].(*ssa.Extract)
			if !ok {
				// the ranged rune handed to a small predicate (`lit.accepts(cur, want)`): the parameter stands for it
				if ws := ps.sym(st, pair[1]); ws != nil {
					ex, ok = ws.V.(*ssa.Extract)
				}
			}
			if !ok || ex.Index != 2 {
				continue
			}
			nx, ok := ex.Tuple.(*ssa.Next)
			if !ok || !nx.IsString {
				continue
			}
			cur := ps.sym(st, pair[0])
			icV, icKnown := evalBool(st, ic)
			isPlain := cur.Key() == rn
			isLower := false
			if cf, _ := calleeOfSym(cur); cf != nil && cf.Pkg != nil && cf.Pkg.Pkg.Path() == "unicode" && cf.Name() == "ToLower" {
				if as := symArgs(st, cur); len(as) == 1 && as[0].Key() == rn {
					isLower = true
				}
			}
			switch {
			case icKnown && icV && isLower:
				lowerSeen = true
			case icKnown && !icV && isPlain:
				plainSeen = true
			default:
				bad = true
			}
		}
	}
	ps.Run(fn)
	cmpOK = plainSeen || lowerSeen || bad
	folds = plainSeen && lowerSeen && !bad
	return
}
