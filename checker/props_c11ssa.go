package main

import (
	"go/constant"
	"go/types"
	"strings"

	"golang.org/x/tools/go/ssa"
)

// ctorPart: fn is the constructor itself or an unexported function that can only run as part of it.
func ctorPart(prog *Program, ctor, fn *ssa.Function) bool {
	if fn == ctor {
		return true
	}
	set := map[*ssa.Function]bool{ctor: true}
	for i := 0; i < 3; i++ {
		if prog.contextOnly(fn, func(f *ssa.Function) bool { return set[f] }) {
			return true
		}
		// one more layer: helpers of the constructor become part of the context
		grew := false
		for _, f := range prog.ModuleFuncs() {
			if !set[f] && f.Pkg == ctor.Pkg && prog.contextOnly(f, func(g *ssa.Function) bool { return set[g] }) {
				set[f] = true
				grew = true
			}
		}
		if !grew {
			break
		}
	}
	return false
}

// zeroMappingOnPaths decides on the paths of newParser (its own helpers interpreted in place): the options are applied,
// and afterwards — never before — a budget of zero is replaced by the largest value and any other budget is left as it
// is. Returns a description of what is wrong, or "".
func zeroMappingOnPaths(prog *Program, newParser *ssa.Function, budgetField string) string {
	optT := prog.Grammar.Types.Scope().Lookup("Option")
	if optT == nil {
		return "grammar.Option not found"
	}
	isOpt := func(t types.Type) bool { return types.Identical(t, optT.Type()) }
	isOptSlice := func(t types.Type) bool {
		s, ok := t.Underlying().(*types.Slice)
		return ok && isOpt(s.Elem())
	}
	applies := func(ev *Event) bool {
		if ev.Instr == nil || ev.Inlined {
			return false
		}
		com := ev.Instr.Common()
		if com.IsInvoke() {
			return false
		}
		if isOpt(com.Value.Type()) {
			return true // opt(p)
		}
		if f := com.StaticCallee(); f != nil {
			ps := f.Signature.Params()
			for i := 0; i < ps.Len(); i++ {
				if isOptSlice(ps.At(i).Type()) {
					return true // p.setOptions(opts)
				}
			}
		}
		return false
	}
	ps := NewPathSim(prog)
	ps.maxVisits = 2
	ps.MaxDepth = 4
	ps.Inline = func(c *ssa.Function) bool {
		if c.Pkg != newParser.Pkg || recursive(prog, c) {
			return false
		}
		// the function that applies the options stays a call: it is the point in time the rule is about
		sp := c.Signature.Params()
		for i := 0; i < sp.Len(); i++ {
			if isOptSlice(sp.At(i).Type()) {
				return false
			}
		}
		return ctorPart(prog, newParser, c)
	}
	nZero, nOther, nNone := 0, 0, 0
	why := ""
	for _, sm := range ps.Run(newParser) {
		if sm.Ret == nil {
			continue
		}
		evs := sm.Events()
		last := -1
		for i := range evs {
			if applies(&evs[i]) {
				last = i
			}
		}
		if last < 0 {
			// no option was applied on this path (an empty option list): it says nothing about the order
			nNone++
			continue
		}
		var stores []*Event
		for i := last + 1; i < len(evs); i++ {
			if evs[i].Store && evs[i].Args[0].K == sFieldAddr && evs[i].Args[0].Str == budgetField {
				stores = append(stores, &evs[i])
			}
		}
		zero, nonzero := false, false
		inKey := "." + budgetField + ")"
		for k, v := range sm.St.eqc {
			if strings.Contains(k, inKey) && v == "const(0)" {
				zero = true
			}
		}
		for k, m := range sm.St.neqc {
			if strings.Contains(k, inKey) && m["const(0)"] {
				nonzero = true
			}
		}
		for k, v := range sm.St.facts {
			if strings.HasPrefix(k, "cmp(==,") && strings.Contains(k, inKey) && strings.HasSuffix(k, ",const(0))") {
				if v {
					zero = true
				} else {
					nonzero = true
				}
			}
		}
		isMax := func(s *Sym) bool {
			if s == nil || s.K != sConst || s.C == nil {
				return false
			}
			u, exact := constant.Uint64Val(s.C)
			return exact && u == ^uint64(0)
		}
		switch {
		case zero && !nonzero:
			nZero++
			if len(stores) == 0 || !isMax(stores[len(stores)-1].Args[1]) {
				why = "after the options are applied a budget of zero is not replaced by the largest value"
			}
		case nonzero && !zero:
			nOther++
			for _, s := range stores {
				v := s.Args[1]
				if !(v.K == sLoad && v.A != nil && v.A.K == sFieldAddr && v.A.Str == budgetField) {
					why = "a budget other than zero is replaced by " + shortKey(v)
				}
			}
		default:
			why = "a path of newParser returns without having tested the budget for zero after the options were applied"
		}
	}
	if why == "" && (nZero == 0 || nOther == 0) {
		why = "newParser has no path for a zero budget or none for another budget"
	}
	return why
}

// loopBlocksContaining: the blocks of some natural loop of b's function that contains b (empty when b is in no loop).
func loopBlocksContaining(b *ssa.BasicBlock) map[*ssa.BasicBlock]bool {
	for _, h := range b.Parent().Blocks {
		if !h.Dominates(b) {
			continue
		}
		back := false
		for _, p := range h.Preds {
			if h.Dominates(p) {
				back = true
			}
		}
		if !back {
			continue
		}
		if lb := loopBlocks(h); lb[b] {
			return lb
		}
	}
	return nil
}
