package main

import (
	"go/types"

	"verifcheck/peg"

	"golang.org/x/tools/go/ssa"
)

// operatorValuePairingSSA: the same question as operatorValuePairing, decided on the paths of the grammar's actions
// (helpers they call interpreted in place): every *MatchExpression an action returns is looked at as the action leaves
// it — its Operator (a constant, or a label whose rule yields constants) and its Value (nil, or not) — whatever way the
// node was put together (literal, constructor helper, fields assigned afterwards). A label whose rule can only yield
// non-nil values is known to be non-nil inside the action. ok is false if some action could not be interpreted.
func (ga *GA) operatorValuePairingSSA() (map[string]valuePair, bool) {
	prog := ga.prog
	out := map[string]valuePair{}
	okAll := true
	meT := prog.grammarType("MatchOperator")
	for n, fd := range ga.onOf {
		if fd == nil || n.Kind != peg.Action {
			continue
		}
		fn := prog.Method(prog.GrammarSSA, "current", fd.Name.Name, true)
		if fn == nil {
			okAll = false
			continue
		}
		// only actions that can yield a match expression
		yields := false
		for t := range ga.types[n] {
			if t == "*MatchExpression" || t == "?" {
				yields = true
			}
		}
		if !yields {
			continue
		}
		ps := NewPathSim(prog)
		ps.maxVisits = 2
		ps.Inline = func(c *ssa.Function) bool { return prog.actionHelper(c, 0) }
		ps.Seed = func(st *pstate) {
			for _, p := range fn.Params[1:] {
				ln := ga.labelNode(n, p.Name())
				if ln == nil {
					continue
				}
				nonNil := len(ga.types[ln]) > 0
				for t := range ga.types[ln] {
					if t == "nil" || t == "?" {
						nonNil = false
					}
				}
				if nonNil {
					k := paramSym(p).Key()
					if st.neqc[k] == nil {
						st.neqc[k] = map[string]bool{}
					}
					st.neqc[k][nilSym().Key()] = true
				}
			}
		}
		for _, sm := range ps.Run(fn) {
			if sm.Ret == nil || len(sm.Results) != 2 {
				continue
			}
			v := sm.Results[0]
			if v.K == sMkIface {
				v = v.A
			}
			if v.T == nil {
				continue
			}
			pt, isPtr := v.T.Underlying().(*types.Pointer)
			if !isPtr || !namedIs(pt.Elem(), grammarPath, "MatchExpression") {
				continue
			}
			al, path, isLocal := localPath(v)
			if !isLocal {
				okAll = false
				continue
			}
			node, okLoad := loadLocal(sm.St, al, path, nil)
			if !okLoad || node == nil {
				okAll = false
				continue
			}
			op, val := getPath(node, []string{"Operator"}), getPath(node, []string{"Value"})
			// the operator(s)
			var ops []string
			switch {
			case op == nil:
			case op.K == sConst && op.C != nil && meT != nil:
				for _, c := range prog.enumConsts(meT) {
					if constKey(c) == op.Key() || (c.Val() != nil && op.C != nil && c.Val().ExactString() == op.C.ExactString()) {
						ops = append(ops, c.Name())
					}
				}
			case op.K == sTAValue && op.A.K == sParam:
				if ln := ga.labelNode(n, op.A.V.Name()); ln != nil {
					for c := range ga.consts[ln] {
						ops = append(ops, c)
					}
				}
			}
			if len(ops) == 0 {
				okAll = false
				continue
			}
			vp := valuePair{}
			switch {
			case val == nil || val.IsNil() || (val.K == sStruct && val.A == nil && len(val.F) == 0):
				vp.nilV = true
			case val.K == sFresh || val.K == sFieldAddr:
				vp.nonNil = true
			case val.K == sTAValue && val.A != nil:
				if eq, known := evalEq(sm.St, val.A, nilSym()); known && !eq {
					vp.nonNil = true
				} else if known && eq {
					vp.nilV = true
				} else {
					vp = valuePair{true, true}
				}
			default:
				vp = valuePair{true, true}
			}
			for _, o := range ops {
				cur := out[o]
				cur.nonNil = cur.nonNil || vp.nonNil
				cur.nilV = cur.nilV || vp.nilV
				out[o] = cur
			}
		}
	}
	return out, okAll
}
